#!/usr/bin/env python3
"""Scans /repo/include/tins for PDU classes and their const zero-argument getters and one-argument setters.
Emits reflect/getters.inc (X-macro rows) used by genlib/view.h. Re-run when headers change; rows for
accessors that do not exist any more make the build fail loudly (that is intended)."""
import re, os, sys, glob, json
REPO = sys.argv[1] if len(sys.argv) > 1 else "/repo"
inc = os.path.join(REPO, "include", "tins")
files = sorted(glob.glob(inc + "/*.h") + glob.glob(inc + "/dot11/*.h"))
cls_re = re.compile(r"^class\s+(?:TINS_API\s+)?(\w+)\s*(?::\s*public\s+([\w:<>]+))?\s*\{")
getter_re = re.compile(r"^ {4}(?! )(?:virtual\s+)?([\w:<>,\s\*&]+?)\s+(\w+)\(\)\s*const\s*(?:\{|;)")
setter_re = re.compile(r"^ {4}(?! )void\s+(\w+)\(([^,()]+)\)\s*;")
out = {}
for f in files:
    cur = None
    depth_public = True
    for line in open(f, errors="replace"):
        m = cls_re.match(line)
        if m:
            cur = m.group(1)
            out.setdefault(cur, {"base": m.group(2), "file": os.path.relpath(f, inc), "getters": [], "setters": []})
            depth_public = True
            continue
        if cur is None:
            continue
        if re.match(r"^(public|protected|private):", line):
            depth_public = line.startswith("public")
            continue
        if line.startswith("};"):
            cur = None
            continue
        if not depth_public:
            continue
        m = getter_re.match(line)
        if m and m.group(2) not in ("clone", "pdu_type", "endianness"):
            out[cur]["getters"].append((m.group(1).strip(), m.group(2)))
            continue
        m = setter_re.match(line)
        if m:
            out[cur]["setters"].append((m.group(1), m.group(2).strip()))
json.dump(out, sys.stdout, indent=1)
