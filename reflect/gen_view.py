#!/usr/bin/env python3
"""Generates genlib/view_gen.inc (per-class accessor tables) from the header scan of mkreflect.py plus the
hand-written annotations below (which getters are derived fields / next-protocol tags / typed option decoders,
sizes of pointer-returning getters, accessors the scan cannot see). The generated file is committed; re-run after
changing annotations:  python3 reflect/mkreflect.py /repo > /tmp/reflect.json && python3 reflect/gen_view.py /tmp/reflect.json
Kinds: F plain header field, D derived (length/checksum/padding - libtins computes it), T next-protocol tag,
O raw option/extension/tag list, X typed option decoder (redundant with O), S size query."""
import json, sys, os

scan = json.load(open(sys.argv[1]))
OUT = os.path.join(os.path.dirname(os.path.abspath(__file__)), "..", "genlib", "view_gen.inc")

def reaches_pdu(c, depth=0):
    if c == "PDU":
        return True
    b = scan.get(c, {}).get("base")
    return bool(b) and depth < 8 and reaches_pdu(b, depth + 1)
PDU_CLASSES = [c for c in scan if c != "PDU" and reaches_pdu(c)]
# concrete classes with public constructors (default, buffer)
SKIP_CLASSES = {"PDUCacher"}

DERIVED = {
    "IP": {"head_len", "tot_len", "checksum"},
    "TCP": {"checksum", "data_offset"},
    "UDP": {"length", "checksum"},
    "ICMP": {"checksum", "length"},
    "ICMPv6": {"checksum", "length"},
    "IPv6": {"payload_length"},
    "Dot3": {"length"},
    "RadioTap": {"length"},
    "EAPOL": {"length"},
    "RSNEAPOL": {"wpa_length"},
    "RC4EAPOL": set(),
    "PPPoE": {"payload_length"},
    "DNS": {"questions_count", "answers_count", "authority_count", "additional_count"},
    "IPSecAH": {"length"},
    "RTP": {"csrc_count", "padding_bit", "extension_length"},
    "PPI": {"length"},
}
TAGS = {
    "EthernetII": {"payload_type"}, "Dot1Q": {"payload_type"}, "SNAP": {"eth_type"}, "SLL": {"protocol"},
    "Loopback": {"family"}, "IP": {"protocol"}, "IPv6": {"next_header"}, "IPSecAH": {"next_header"},
    "MPLS": {"bottom_of_stack"},
}
SIZES = {"header_size", "trailer_size", "size", "advertised_size"}
OPTION_LISTS = {("TCP", "options"), ("IP", "options"), ("DHCP", "options"), ("DHCPv6", "options"), ("ICMPv6", "options"),
                ("Dot11", "options"), ("IPv6", "headers"), ("PPPoE", "tags"), ("ICMP", "extensions"), ("ICMPv6", "extensions"),
                ("RTP", "csrc_ids"), ("RTP", "extension_data"), ("ICMPv6", "multicast_address_records"), ("ICMPv6", "sources"),
                ("DNS", "queries"), ("DNS", "answers"), ("DNS", "authority"), ("DNS", "additional")}
# typed option decoders: everything in these classes that is not a header field
TYPED = {
    "TCP": {"mss", "winscale", "has_sack_permitted", "sack", "timestamp", "altchecksum"},
    "IP": {"security", "lsrr", "ssrr", "record_route", "stream_identifier"},
    "DHCP": {"type", "server_identifier", "lease_time", "renewal_time", "rebind_time", "subnet_mask", "routers", "domain_name_servers",
             "broadcast", "requested_ip", "domain_name", "hostname"},
    "DHCPv6": {"ia_na", "ia_ta", "ia_address", "option_request", "preference", "elapsed_time", "relay_message", "authentication",
               "server_unicast", "status_code", "has_rapid_commit", "user_class", "vendor_class", "vendor_info", "interface_id",
               "reconfigure_msg", "has_reconfigure_accept", "client_id", "server_id"},
    "ICMPv6": {"source_link_layer_addr", "target_link_layer_addr", "prefix_info", "redirect_header", "mtu", "shortcut_limit",
               "new_advert_interval", "new_home_agent_info", "source_addr_list", "target_addr_list", "rsa_signature", "timestamp", "nonce",
               "ip_prefix", "link_layer_addr", "naack", "map", "route_info", "recursive_dns_servers", "handover_key_request",
               "handover_key_reply", "handover_assist_info", "mobile_node_identifier", "dns_search_list"},
    "Dot11ManagementFrame": {"rsn_information", "ssid", "supported_rates", "extended_supported_rates", "qos_capability", "power_capability",
                             "supported_channels", "request_information", "fh_parameter_set", "ds_parameter_set", "cf_parameter_set",
                             "ibss_parameter_set", "ibss_dfs", "country", "fh_parameters", "fh_pattern_table", "power_constraint",
                             "channel_switch", "quiet", "tpc_report", "erp_information", "bss_load", "tim", "challenge_text", "vendor_specific"},
    "PPPoE": {"service_name", "ac_name", "host_uniq", "ac_cookie", "vendor_specific", "relay_session_id", "service_name_error",
              "ac_system_error", "generic_error"},
    "RadioTap": {"tsft", "flags", "rate", "channel_freq", "channel_type", "dbm_signal", "dbm_noise", "signal_quality", "antenna", "db_signal",
                 "xchannel", "data_retries", "rx_flags", "tx_flags", "mcs"},
}
PTR_SIZE = {("RSNEAPOL", "key_iv"): 16, ("RSNEAPOL", "nonce"): 32, ("RSNEAPOL", "rsc"): 8, ("RSNEAPOL", "id"): 8, ("RSNEAPOL", "mic"): 16,
            ("RC4EAPOL", "key_iv"): 16, ("RC4EAPOL", "key_sign"): 16, ("BootP", "sname"): 64, ("BootP", "file"): 128,
            ("Dot11BlockAck", "bitmap"): 8}
SKIP = {("PDU", "inner_pdu"), ("PDU", "parent_pdu"), ("RawPDU", "to"), ("ICMPv6", "has_target_addr"), ("ICMPv6", "has_dest_addr"),
        ("RadioTap", "options_payload"), ("RawPDU", "payload_size"), ("Dot1Q", "append_padding")}
# ICMP/ICMPv6 fields alias the same wire bits depending on the message type; all are touched, compared as plain fields
EXTRA = {  # non-const or otherwise invisible accessors: (name, kind)
    "LLC": [("group", "F"), ("dsap", "F"), ("response", "F"), ("ssap", "F"), ("type", "F"), ("send_seq_number", "F"),
            ("receive_seq_number", "F"), ("poll_final", "F"), ("supervisory_function", "F"), ("modifier_function", "F")],
    "RadioTap": [("options_payload", "O")],
    "Dot1Q": [("append_padding", "F")],
}
# concrete classes (have public ctors); others are bases only
ABSTRACT = {"EAPOL", "Dot11ManagementFrame", "Dot11ControlTA"}

def kind_of(cls, name):
    if name in SIZES:
        return "S"
    if (cls, name) in OPTION_LISTS:
        return "O"
    if name in DERIVED.get(cls, ()):
        return "D"
    if name in TAGS.get(cls, ()):
        return "T"
    if name in TYPED.get(cls, ()):
        return "X"
    return "F"

order = []  # bases first
def visit(c):
    if c in order or c not in scan:
        return
    b = scan[c]["base"]
    if b and b in scan:
        visit(b)
    order.append(c)
for c in sorted(PDU_CLASSES):
    if c not in SKIP_CLASSES:
        visit(c)
order = [c for c in order if c != "PDU"] + []
# classes the scan misses because they have no getters of their own still need an entry
for c in ["Dot11Control", "Dot11RTS", "Dot11PSPoll", "Dot11CFEnd", "Dot11EndCFAck", "Dot11Ack", "Dot11ProbeRequest"]:
    if c not in order:
        order.append(c)
BASE_FIX = {"Dot11Control": "Dot11", "Dot11RTS": "Dot11ControlTA", "Dot11PSPoll": "Dot11ControlTA", "Dot11CFEnd": "Dot11ControlTA",
            "Dot11EndCFAck": "Dot11ControlTA", "Dot11Ack": "Dot11Control", "Dot11ProbeRequest": "Dot11ManagementFrame",
            "Dot11ControlTA": "Dot11Control"}

def base_of(c):
    if c in BASE_FIX:
        return BASE_FIX[c]
    return scan.get(c, {}).get("base")

# re-sort so bases come first with the fixed bases
final = []
def visit2(c):
    if c in final:
        return
    b = base_of(c)
    if b and b != "PDU":
        visit2(b)
    final.append(c)
for c in order:
    visit2(c)

lines = ["// GENERATED by reflect/gen_view.py - do not edit by hand", ""]
rows = 0
for c in final:
    b = base_of(c)
    lines.append("static void view_%s(const Tins::%s& p, LayerView& v) {" % (c, c))
    if b and b != "PDU":
        lines.append("    view_%s(p, v);" % b)
    seen = set()
    for t, g in scan.get(c, {}).get("getters", []):
        if (c, g) in SKIP or g in seen or g in ("begin", "end", "serialize", "matches_flag"):
            continue
        seen.add(g)
        k = kind_of(c, g)
        if (c, g) in PTR_SIZE:
            lines.append("    VGP('%s', %s, %d)" % (k, g, PTR_SIZE[(c, g)]))
        else:
            lines.append("    VG('%s', %s)" % (k, g))
        rows += 1
    for g, k in EXTRA.get(c, []):
        lines.append("    VGN('%s', %s, Tins::%s)" % (k, g, c))
        rows += 1
    lines.append("    (void)p; (void)v;")
    lines.append("}")
    lines.append("")
# dispatch by exact dynamic type, most derived first
lines.append("static bool view_dispatch(const Tins::PDU& pdu, LayerView& v) {")
for c in reversed(final):
    lines.append("    if (typeid(pdu) == typeid(Tins::%s)) { v.cls = \"%s\"; view_%s(static_cast<const Tins::%s&>(pdu), v); return true; }" % (c, c, c, c))
lines.append("    return false;")
lines.append("}")
lines.append("")
lines.append("#define VERIF_VIEW_CLASSES(X) " + " ".join("X(%s)" % c for c in final))
lines.append("#define VERIF_VIEW_ROWS %d" % rows)
open(OUT, "w").write("\n".join(lines) + "\n")
print("wrote", OUT, len(final), "classes", rows, "accessor rows")

# ------------------------------------------------------------------------------------------------
# setter table: genlib/setters_gen.inc
SOUT = os.path.join(os.path.dirname(os.path.abspath(__file__)), "..", "genlib", "setters_gen.inc")
BUILTIN = ("uint8_t", "uint16_t", "uint32_t", "uint64_t", "int8_t", "bool", "small_uint", "std::", "RSNInformation", "PDU")
SKIP_SET = {("PDU", "inner_pdu"), ("DNS", "add_query"), ("DNS", "add_answer"), ("DNS", "add_authority"), ("DNS", "add_additional"),
            ("RawPDU", "payload"), ("ICMP", "set_time_exceeded"), ("ICMPExtensionsStructure", "add_extension"),
            ("RTP", "add_extension_data"), ("RTP", "add_csrc_id"), ("BootP", "vend"), ("ICMPv6", "add_option"),
            ("Dot11", "add_option"), ("TCP", "add_option"), ("IP", "add_option"), ("DHCP", "add_option"), ("DHCPv6", "add_option"),
            ("IPv6", "add_header"), ("PPPoE", "add_tag"), ("RadioTap", "add_option"), ("ICMP", "use_length_field"), ("ICMPv6", "use_length_field"),
            ("ICMPv6", "use_mldv2"), ("Dot1Q", "append_padding"), ("LLC", "group")}
SET_PTR = {("RSNEAPOL", "key_iv"): 16, ("RSNEAPOL", "nonce"): 32, ("RSNEAPOL", "rsc"): 8, ("RSNEAPOL", "id"): 8, ("RSNEAPOL", "mic"): 16,
           ("RC4EAPOL", "key_iv"): 16, ("RC4EAPOL", "key_sign"): 16, ("BootP", "sname"): 64, ("BootP", "file"): 128,
           ("Dot11BlockAck", "bitmap"): 8}
# setters whose getter has another name
GETTER_OF = {("VXLAN", "set_flags"): "get_flags", ("VXLAN", "set_vni"): "get_vni"}
EXTRA_SET = {  # invisible to the scan (tabs / inline bodies): (name, type, kind)
    "LLC": [("dsap", "uint8_t", "S"), ("ssap", "uint8_t", "S"), ("group", "bool", "S"), ("response", "bool", "S")],  # type/send_seq_number/receive_seq_number/poll_final depend on the frame format: C15 checks them in a dedicated LLC block
    "VXLAN": [("set_flags", "uint8_t", "S"), ("set_vni", "small_uint<24>", "S")],
    "RTP": [("version", "small_uint<2>", "S"), ("extension_bit", "small_uint<1>", "S"), ("marker_bit", "small_uint<1>", "S"),
            ("payload_type", "small_uint<7>", "S"), ("sequence_number", "uint16_t", "S"), ("timestamp", "uint32_t", "S"),
            ("ssrc_id", "uint32_t", "S"), ("extension_profile", "uint16_t", "S")],
}

def clean_type(t):
    t = t.strip()
    t = re.sub(r"\s*=\s*.*$", "", t)          # default argument
    m = re.match(r"^(.*?)(\w+)$", t)           # drop the parameter name
    if m and m.group(1).strip():
        t = m.group(1).strip()
    t = re.sub(r"^const\s+", "", t)
    t = t.rstrip("&").strip()
    t = t.replace("small_uint<1 >", "small_uint<1>")
    return t

import re
srows = 0
sl = ["// GENERATED by reflect/gen_view.py - do not edit by hand", ""]
per_class = {}
for c in final:
    rows = []
    seen = set()
    for name, ptype in scan.get(c, {}).get("setters", []):
        if (c, name) in SKIP_SET or name in seen:
            continue
        seen.add(name)
        t = clean_type(ptype)
        if (c, name) in SET_PTR:
            rows.append(("P", name, str(SET_PTR[(c, name)]), "S"))
            continue
        if t.endswith("*"):
            continue
        if name in TYPED.get(c, ()):
            kind = "O"
        elif name in DERIVED.get(c, ()):
            kind = "D"
        elif name in TAGS.get(c, ()):
            kind = "T"
        else:
            kind = "S"
        q = t if t.startswith(BUILTIN) else "Tins::%s::%s" % (c, t)
        if t == "byte_array":
            q = "std::vector<uint8_t>"
        if t == "RSNInformation":
            q = "Tins::RSNInformation"
        q = re.sub(r"std::vector<(\w+_type)>", r"std::vector<Tins::%s::\1>" % c, q)
        rows.append(("V", name, q, kind))
    for name, t, kind in EXTRA_SET.get(c, []):
        if name not in seen:
            rows.append(("V", name, t, kind))
    per_class[c] = rows

for c in final:
    b = base_of(c)
    rows = per_class[c]
    nb = "n_setters_%s()" % b if b and b != "PDU" else "0u"
    sl.append("static inline unsigned n_setters_%s() { return %s + %du; }" % (c, nb, len(rows)))
    sl.append("static inline bool apply_setter_%s(Tins::%s& p, unsigned k, SetterCtx& sc) {" % (c, c))
    if b and b != "PDU":
        sl.append("    if (k < n_setters_%s()) return apply_setter_%s(p, k, sc);" % (b, b))
        sl.append("    k -= n_setters_%s();" % b)
    sl.append("    switch (k) {")
    for i, (form, name, t, kind) in enumerate(rows):
        g = GETTER_OF.get((c, name), name)
        if form == "P":
            sl.append("        case %d: VSP(%s, '%s', %s, %s, %s) return true;" % (i, c, kind, name, g, t))
        else:
            sl.append("        case %d: VS(%s, '%s', %s, %s, %s) return true;" % (i, c, kind, name, g, t))
        srows += 1
    sl.append("        default: return false;")
    sl.append("    }")
    sl.append("}")
    sl.append("")
sl.append("static inline unsigned n_setters(const Tins::PDU& pdu) {")
for c in reversed(final):
    sl.append("    if (typeid(pdu) == typeid(Tins::%s)) return n_setters_%s();" % (c, c))
sl.append("    return 0;")
sl.append("}")
sl.append("static inline bool apply_setter(Tins::PDU& pdu, unsigned k, SetterCtx& sc) {")
for c in reversed(final):
    sl.append("    if (typeid(pdu) == typeid(Tins::%s)) return apply_setter_%s(static_cast<Tins::%s&>(pdu), k, sc);" % (c, c, c))
sl.append("    return false;")
sl.append("}")
sl.append("#define VERIF_SETTER_ROWS %d" % srows)
open(SOUT, "w").write("\n".join(sl) + "\n")
print("wrote", SOUT, srows, "setter rows")
