#!/usr/bin/env python3
"""Lifts the byte arrays of /repo/tests/src/**/*.cpp into libFuzzer seed files for the parse properties.
Seed format (C01/C02/C03): [entry index][placement][packet bytes]. Run once; output is committed."""
import re, os, sys, glob, hashlib
V = os.path.dirname(os.path.dirname(os.path.abspath(__file__)))
src = open(os.path.join(V, "genlib", "entries.h")).read()
classes = re.findall(r"X\((\w+)\)", src[src.index("#define VERIF_ENTRY_CLASSES"):src.index("inline const std::vector<Entry>& entries()")])
names = ["dlt:EN10MB", "dlt:IEEE802_11", "dlt:IEEE802_11_RADIO", "dlt:NULL", "dlt:LINUX_SLL", "dlt:RAW", "dlt:PPI", "dlt:PKTAP"] + classes + \
        ["EAPOL::from_bytes", "pdu_from_flag(ether)", "pdu_from_flag(ip)", "pdu_from_flag(pdutype)", "pdu_from_dlt_flag"]
idx = {n: i for i, n in enumerate(names)}
FILEMAP = {
    "arp": ["ARP"], "dhcp": ["DHCP", "BootP"], "dhcpv6": ["DHCPv6"], "dns": ["DNS"], "dot1q": ["EthernetII", "dlt:EN10MB"],
    "ethernet": ["EthernetII", "dlt:EN10MB"], "icmp": ["ICMP", "EthernetII"], "icmpv6": ["ICMPv6", "EthernetII"],
    "icmp_extension": ["EthernetII"], "ip": ["IP", "dlt:RAW", "EthernetII"], "ipv6": ["IPv6", "dlt:RAW", "EthernetII"],
    "ipsec": ["IPSecAH", "IPSecESP", "EthernetII"], "llc": ["LLC", "Dot3"], "loopback": ["Loopback", "dlt:NULL"], "mpls": ["MPLS", "EthernetII"],
    "pdu": ["EthernetII"], "ppi": ["dlt:PPI"], "pppoe": ["PPPoE", "EthernetII"], "radiotap": ["RadioTap", "dlt:IEEE802_11_RADIO"],
    "rsn_eapol": ["RSNEAPOL", "EAPOL::from_bytes"], "rc4_eapol": ["RC4EAPOL", "EAPOL::from_bytes"], "sll": ["SLL", "dlt:LINUX_SLL"],
    "snap": ["SNAP"], "stp": ["STP", "Dot3"], "tcp": ["TCP", "EthernetII"], "udp": ["UDP"], "vxlan": ["VXLAN", "EthernetII"], "rtp": ["RTP"],
    "pktap": ["dlt:PKTAP"], "dot3": ["Dot3", "dlt:EN10MB"], "wpa2_decrypt": ["RadioTap", "Dot11Data", "dlt:IEEE802_11_RADIO"],
    "wep_decrypt": ["Dot11Data", "dlt:IEEE802_11", "RadioTap"], "tcp_ip": ["EthernetII"], "ip_reassembler": ["EthernetII"],
    "matches_response": ["EthernetII"], "tcp_stream": ["EthernetII"], "offline_packet_filter": ["EthernetII"], "packet_writer": ["EthernetII"],
}
DOT11 = {"ack": "Dot11Ack", "assoc_request": "Dot11AssocRequest", "assoc_response": "Dot11AssocResponse", "authentication": "Dot11Authentication",
         "beacon": "Dot11Beacon", "block_ack_request": "Dot11BlockAckRequest", "cfend": "Dot11CFEnd", "cfendack": "Dot11EndCFAck", "data": "Dot11Data",
         "control": "Dot11Control", "deauthentication": "Dot11Deauthentication", "disassoc": "Dot11Disassoc", "dot11": "Dot11", "probe_request": "Dot11ProbeRequest",
         "probe_response": "Dot11ProbeResponse", "pspoll": "Dot11PSPoll", "reassoc_request": "Dot11ReAssocRequest", "reassoc_response": "Dot11ReAssocResponse",
         "rts": "Dot11RTS", "mgmt": "Dot11Beacon", "block_ack": "Dot11BlockAck"}
out = os.path.join(V, "corpus", "C01")
os.makedirs(out, exist_ok=True)
arr_re = re.compile(r"(?:uint8_t|unsigned char|u_char)\s+\w+(?:::\w+)?\s*\[\s*\w*\s*\]\s*=\s*\{([^}]*)\}", re.S)
n = 0
for f in sorted(glob.glob("/repo/tests/src/*.cpp") + glob.glob("/repo/tests/src/dot11/*.cpp")):
    base = os.path.basename(f).replace("_test.cpp", "")
    if "/dot11/" in f:
        ents = [DOT11.get(base, "Dot11"), "dlt:IEEE802_11"]
    else:
        ents = FILEMAP.get(base)
    if not ents:
        continue
    for m in arr_re.finditer(open(f, errors="replace").read()):
        toks = re.findall(r"0x[0-9a-fA-F]+|\b\d+\b|'(?:\\.|[^'])'", m.group(1))
        data = bytearray()
        for t in toks:
            if t.startswith("'"):
                c = t[1:-1]
                data.append(ord(c[-1]) if not c.startswith("\\") else {"n": 10, "0": 0, "t": 9, "r": 13}.get(c[1], ord(c[-1])))
            else:
                v = int(t, 0)
                if v > 255:
                    data = None
                    break
                data.append(v)
        if not data or len(data) < 4 or len(data) > 4000:
            continue
        for e in ents:
            if e not in idx:
                continue
            blob = bytes([idx[e], 0]) + bytes(data)
            open(os.path.join(out, "t-" + hashlib.sha1(blob).hexdigest()[:16]), "wb").write(blob)
            n += 1
print("wrote", n, "seeds to", out, "entries:", len(names))
