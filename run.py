#!/usr/bin/env python3
"""Driver for the libtins property checks.

  python3 run.py C16 --tier quick|thorough      run one check (exit 0 / 1 + VIOLATION line / 2 = build or harness error)
  python3 run.py --setup                        pre-build everything (MANIFEST.setup_cmd)
  python3 run.py C16 --replay FILE              decode and re-run one saved choice sequence
  python3 run.py --build-only C16               build and print the binary paths

Everything is rebuilt from /repo's current working tree; builds are cached under /verif/build keyed by
the content of /repo/src, /repo/include, the flags and the verif sources.
"""
import argparse, concurrent.futures as cf, fcntl, glob, hashlib, json, os, re, shutil, signal, subprocess, sys, time

VERIF = os.path.dirname(os.path.abspath(__file__))
REPO = os.environ.get("VERIF_REPO", "/repo")
SCRATCH = os.path.realpath(REPO) != "/repo"   # checking a scratch copy (mutant): keep its output and builds away from the real ones
OUT = os.path.join("/tmp", "verif-out-" + hashlib.sha256(os.path.realpath(REPO).encode()).hexdigest()[:10]) if SCRATCH else VERIF
BUILD = os.path.join(OUT, "build")
WORK = os.path.join(OUT, "work")
NCPU = os.cpu_count() or 8
CXX = "clang++"

GUARD = "LIBTINS_VERIF_HOOKS"
COMMON = ["-std=gnu++14", "-gline-tables-only", "-O1", "-fno-omit-frame-pointer", "-D" + GUARD,
          "-I" + os.path.join(VERIF, "gen"), "-I" + os.path.join(REPO, "include"), "-Wno-deprecated-declarations"]
CONFIGS = {
    "san": ["-fsanitize=address,undefined", "-fno-sanitize=enum", "-fno-sanitize-recover=undefined", "-fsanitize=fuzzer-no-link",
            "-D_GLIBCXX_SANITIZE_VECTOR"],
    "tsan": ["-fsanitize=thread"],
}
LINK = {
    "san": ["-fsanitize=address,undefined"],
    "san-fuzz": ["-fsanitize=fuzzer,address,undefined"],
    "tsan": ["-fsanitize=thread"],
}
LIBS = ["-lpcap", "-lcrypto", "-lpthread"]

SAN_ENV = {
    "ASAN_OPTIONS": "detect_leaks=1:allocator_may_return_null=1:detect_container_overflow=1:exitcode=77:"
                    "detect_stack_use_after_return=0:symbolize=1:abort_on_error=0:handle_abort=1",
    "UBSAN_OPTIONS": "print_stacktrace=1:exitcode=77",
    "LSAN_OPTIONS": "exitcode=77",
    "TSAN_OPTIONS": "halt_on_error=1:exitcode=77:history_size=7:second_deadlock_stack=1",
}


def log(*a):
    print(*a, file=sys.stderr, flush=True)


def sha(*parts):
    h = hashlib.sha256()
    for p in parts:
        h.update(p if isinstance(p, bytes) else str(p).encode())
        h.update(b"\0")
    return h.hexdigest()


def tree_digest(roots, exts, exclude=()):
    h = hashlib.sha256()
    for root in roots:
        files = []
        for dp, dn, fn in os.walk(root):
            dn.sort()
            for f in sorted(fn):
                if f.endswith(exts):
                    p = os.path.join(dp, f)
                    if any(p.endswith(x) for x in exclude):
                        continue
                    files.append(p)
        for p in sorted(files):
            h.update(os.path.relpath(p, root).encode())
            with open(p, "rb") as fh:
                h.update(hashlib.sha256(fh.read()).digest())
    return h.hexdigest()


class Lock:
    def __init__(self, name):
        os.makedirs(BUILD, exist_ok=True)
        self.path = os.path.join(BUILD, ".lock-" + name)

    def __enter__(self):
        self.f = open(self.path, "w")
        fcntl.flock(self.f, fcntl.LOCK_EX)
        return self

    def __exit__(self, *a):
        fcntl.flock(self.f, fcntl.LOCK_UN)
        self.f.close()


def run_cc(cmd):
    r = subprocess.run(cmd, stdout=subprocess.PIPE, stderr=subprocess.STDOUT, text=True)
    return r.returncode, r.stdout, cmd


def prune_builds(keep):
    """keep the most recently used build directories only (disk is limited); never touch one used in the last 3 hours"""
    try:
        dirs = [os.path.join(BUILD, d) for d in os.listdir(BUILD) if not d.startswith(".")]
        dirs = [d for d in dirs if os.path.isdir(d)]
        dirs.sort(key=lambda d: os.path.getmtime(d), reverse=True)
        for d in dirs[keep:]:
            if time.time() - os.path.getmtime(d) > 3 * 3600:
                shutil.rmtree(d, ignore_errors=True)
    except OSError:
        pass


def lib_key(cfg):
    return sha(cfg, " ".join(COMMON + CONFIGS[cfg]),
               tree_digest([os.path.join(REPO, "src"), os.path.join(REPO, "include")], (".cpp", ".h"),
                           exclude=("include/tins/config.h",)),
               open(os.path.join(VERIF, "gen/tins/config.h"), "rb").read())[:16]


def build_lib(cfg):
    key = lib_key(cfg)
    d = os.path.join(BUILD, "%s-%s" % (cfg, key))
    lib = os.path.join(d, "libtins.a")
    with Lock(cfg):
        if os.path.exists(lib) and os.path.exists(os.path.join(d, ".ok")):
            os.utime(d)
            return d
        t0 = time.time()
        shutil.rmtree(d, ignore_errors=True)
        os.makedirs(os.path.join(d, "obj"))
        srcs = sorted(glob.glob(os.path.join(REPO, "src", "**", "*.cpp"), recursive=True))
        jobs = []
        objs = []
        for s in srcs:
            o = os.path.join(d, "obj", os.path.relpath(s, os.path.join(REPO, "src")).replace("/", "_")[:-4] + ".o")
            objs.append(o)
            jobs.append([CXX] + COMMON + CONFIGS[cfg] + ["-w", "-c", s, "-o", o])
        with cf.ThreadPoolExecutor(NCPU) as ex:
            for rc, out, cmd in ex.map(run_cc, jobs):
                if rc != 0:
                    log("BUILD ERROR (libtins, %s):\n%s\n%s" % (cfg, " ".join(cmd), out))
                    raise SystemExit(2)
        if os.path.exists(lib):
            os.unlink(lib)
        rc, out, cmd = run_cc(["ar", "rcs", lib] + objs)
        if rc != 0:
            log("BUILD ERROR (ar):\n" + out)
            raise SystemExit(2)
        open(os.path.join(d, ".ok"), "w").write("ok")
        log("[build] libtins %s built in %.1fs -> %s" % (cfg, time.time() - t0, d))
        prune_builds(12)
        return d


def load_meta(pid):
    p = os.path.join(VERIF, "props", pid.lower() + ".json")
    with open(p) as f:
        return json.load(f)


def build_prop(pid, want_fuzz=True):
    meta = load_meta(pid)
    cfg = meta.get("config", "san")
    libdir = build_lib(cfg)
    vsrc = tree_digest([os.path.join(VERIF, "engine"), os.path.join(VERIF, "genlib"), os.path.join(VERIF, "ref")], (".h", ".cpp", ".inc"))
    psrc = os.path.join(VERIF, "props", pid.lower() + ".cpp")
    extra = b"".join(open(os.path.join(VERIF, x), "rb").read() for x in meta.get("extra_sources", []))
    key = sha(vsrc, open(psrc, "rb").read(), extra, " ".join(meta.get("cxxflags", [])), " ".join(meta.get("libs", [])))[:16]
    d = os.path.join(libdir, "props", "%s-%s" % (pid, key))
    rand = os.path.join(d, pid.lower() + "_rand")
    fuzz = os.path.join(d, pid.lower() + "_fuzz")
    with Lock("prop-" + pid):
        if os.path.exists(os.path.join(d, ".ok")):
            return {"rand": rand, "fuzz": fuzz if os.path.exists(fuzz) else None, "dir": d, "cfg": cfg}
        t0 = time.time()
        # remove stale builds of this property in this lib dir
        for old in glob.glob(os.path.join(libdir, "props", pid + "-*")):
            shutil.rmtree(old, ignore_errors=True)
        os.makedirs(d)
        flags = COMMON + CONFIGS[cfg] + ["-I" + VERIF] + meta.get("cxxflags", [])
        eng = os.path.join(VERIF, "engine", "engine.cpp")
        jobs = [[CXX] + flags + ["-c", psrc, "-o", os.path.join(d, "prop.o")],
                [CXX] + flags + ["-c", eng, "-o", os.path.join(d, "engine_rand.o")]]
        do_fuzz = cfg == "san"
        if do_fuzz:
            jobs.append([CXX] + flags + ["-DVERIF_FUZZ_DRIVER", "-c", eng, "-o", os.path.join(d, "engine_fuzz.o")])
        with cf.ThreadPoolExecutor(3) as ex:
            for rc, out, cmd in ex.map(run_cc, jobs):
                if rc != 0:
                    log("BUILD ERROR (%s):\n%s\n%s" % (pid, " ".join(cmd), out))
                    raise SystemExit(2)
                if out.strip():
                    log(out)
        libs = [os.path.join(libdir, "libtins.a")] + LIBS + meta.get("libs", [])
        links = [[CXX] + LINK[cfg] + [os.path.join(d, "prop.o"), os.path.join(d, "engine_rand.o")] + libs + ["-o", rand]]
        if do_fuzz:
            links.append([CXX] + LINK["san-fuzz"] + [os.path.join(d, "prop.o"), os.path.join(d, "engine_fuzz.o")] + libs + ["-o", fuzz])
        with cf.ThreadPoolExecutor(2) as ex:
            for rc, out, cmd in ex.map(run_cc, links):
                if rc != 0:
                    log("LINK ERROR (%s):\n%s\n%s" % (pid, " ".join(cmd), out))
                    raise SystemExit(2)
        open(os.path.join(d, ".ok"), "w").write("ok")
        log("[build] %s built in %.1fs" % (pid, time.time() - t0))
        return {"rand": rand, "fuzz": fuzz if do_fuzz else None, "dir": d, "cfg": cfg}


# ------------------------------------------------------------------------------------------------

def known_findings(pid):
    """open findings (suppress + KNOWN-FINDING line) and fixed ones (informational)"""
    p = os.path.join(VERIF, "known_findings.json")
    k = {}
    if os.path.exists(p):
        with open(p) as f:
            k = json.load(f)
    ents = [e for e in k.get("findings", []) if e.get("property") == pid]
    pend = os.path.join(VERIF, "findings", pid + ".pending.json")
    if os.path.exists(pend):
        # findings recorded while a check is being built, waiting for a fix/open decision (treated as open)
        for e in json.load(open(pend)):
            e = dict(e)
            e.setdefault("status", "open")
            e.setdefault("property", pid)
            ents.append(e)
    return [e for e in ents if e.get("status") == "open"], [e for e in ents if e.get("status") == "fixed"]


def env_for(workdir, tier, known_path):
    e = dict(os.environ)
    e.update(SAN_ENV)
    e["VERIF_WORK"] = workdir
    e["VERIF_TIER"] = tier
    e["VERIF_KNOWN"] = known_path
    sym = shutil.which("llvm-symbolizer") or shutil.which("llvm-symbolizer-14")
    if sym:
        e["ASAN_SYMBOLIZER_PATH"] = sym
        e["UBSAN_SYMBOLIZER_PATH"] = sym
    return e


SAN_KIND = re.compile(r"ERROR: (AddressSanitizer|LeakSanitizer|ThreadSanitizer|UndefinedBehaviorSanitizer): ([A-Za-z0-9_\-]+)|WARNING: ThreadSanitizer: ([a-z ]+)")
UB_LINE = re.compile(r"([^\s:]+):(\d+):(\d+): runtime error: (.*)")
FRAME = re.compile(r"#\d+ 0x[0-9a-f]+ in (.+?) (/\S+?):(\d+)")


def sanitizer_signature(pid, text):
    """stable signature of a sanitizer report: kind + first frame inside the repository"""
    # One root cause gets one name wherever it surfaces: the caching wrapper reports the wrapped class's type flag (open
    # finding C13:pducacher-masquerade), so library code that downcasts on that flag trips UBSan's vptr check on a
    # PDUCacher<X> object. UBSan names the dynamic type in the report.
    if "downcast of address" in text and re.search(r"object is of type 'Tins::PDUCacher<", text):
        return "%s:pducacher-masquerade:flag-based-downcast-of-the-wrapper" % pid
    kind = None
    m = UB_LINE.search(text)
    m2 = SAN_KIND.search(text)
    if m and (not m2 or text.index(m.group(0)) < text.index(m2.group(0))):
        msg = m.group(4)
        msg = re.sub(r"0x[0-9a-f]+", "ADDR", msg)
        msg = re.sub(r"\d+", "N", msg)
        kind = "ubsan:" + msg[:60].strip().replace(" ", "_")
    elif m2:
        kind = (m2.group(2) or m2.group(3) or "report").strip().replace(" ", "-")
        kind = {"AddressSanitizer": "asan", "LeakSanitizer": "lsan", "ThreadSanitizer": "tsan",
                "UndefinedBehaviorSanitizer": "ubsan"}.get(m2.group(1) or "ThreadSanitizer", "san") + ":" + kind
    elif "stack-overflow" in text:
        kind = "asan:stack-overflow"
    if kind is None:
        return None
    where = "?"
    for fm in FRAME.finditer(text):
        fn, path = fm.group(1), fm.group(2)
        if "/repo/" in path or path.startswith(REPO):
            fn = re.sub(r"\(.*", "", fn)
            where = fn
            break
    return "%s:%s:%s" % (pid, kind, where)


def replay_once(bins, path, workdir, tier, known_path, timeout=120):
    """returns (status, signature, message, output); status in ok|fail|known|crash|timeout"""
    try:
        r = subprocess.run([bins["rand"], "--replay", path, "--known", known_path, "--tier", tier],
                           stdout=subprocess.PIPE, stderr=subprocess.STDOUT, env=env_for(workdir, tier, known_path),
                           timeout=timeout, errors="replace")
    except subprocess.TimeoutExpired as e:
        return "timeout", None, "replay timed out", (e.stdout or b"").decode(errors="replace") if isinstance(e.stdout, bytes) else (e.stdout or "")
    out = r.stdout
    m = re.search(r"REPLAY-FAIL(-KNOWN)? sig=(\S+) msg=(.*)", out)
    if m:
        return ("known" if m.group(1) else "fail"), m.group(2), m.group(3), out
    if r.returncode == 0 and "REPLAY-OK" in out:
        return "ok", None, "", out
    sig = sanitizer_signature(bins["pid"], out)
    if "VerifStepLimit" in out:
        sig = "%s:step-budget-exceeded:hard-stop" % bins["pid"]
    if sig is None:
        sig = "%s:crash:exit%d" % (bins["pid"], r.returncode)
    msg = ""
    m = re.search(r"(ERROR: \w+Sanitizer:.*|.*runtime error:.*|WARNING: ThreadSanitizer:.*)", out)
    if m:
        msg = m.group(1)[:300]
    return "crash", sig, msg, out


def sig_known(sig, known_sigs):
    for k in known_sigs:
        if k.endswith("*"):
            if sig.startswith(k[:-1]):
                return True
        elif k == sig:
            return True
    return False


def merge_stats(files, bins):
    tot = {"evaluations": 0, "nontrivial": 0, "labels": {}, "excluded": {}, "known_hits": {}, "samples": []}
    hashfiles = []
    for f in files:
        try:
            with open(f) as fh:
                s = json.load(fh)
        except (OSError, ValueError):
            continue
        tot["evaluations"] += s.get("evaluations", 0)
        tot["nontrivial"] += s.get("nontrivial", 0)
        for k in ("labels", "excluded", "known_hits"):
            for a, b in s.get(k, {}).items():
                tot[k][a] = tot[k].get(a, 0) + b
        tot.setdefault("_sample_lists", []).append(s.get("samples", []))
        if os.path.exists(f + ".hashes"):
            hashfiles.append(f + ".hashes")
    # samples: the reservoir entries (positions 3..7 of every worker) before the workers' first three cases, round robin
    # over the workers, so that the ten that are kept are spread over the run
    for pos in (3, 4, 5, 6, 7, 0, 1, 2):
        for lst in tot.get("_sample_lists", []):
            if pos < len(lst) and len(tot["samples"]) < 12 and lst[pos] not in tot["samples"] and \
               not any(lst[pos][:60] == y[:60] for y in tot["samples"]):
                tot["samples"].append(lst[pos])
    tot.pop("_sample_lists", None)
    distinct = 0
    if hashfiles:
        r = subprocess.run([bins["rand"], "--merge-hashes"] + hashfiles, stdout=subprocess.PIPE, text=True, env=env_for(".", "quick", ""))
        try:
            distinct = int(r.stdout.strip().splitlines()[-1])
        except (ValueError, IndexError):
            distinct = 0
    tot["distinct_nontrivial"] = distinct
    return tot


class Failure:
    def __init__(self, path, sig, msg, origin):
        self.path, self.sig, self.msg, self.origin = path, sig, msg, origin


def run_worker_slot(bins, mode, w, nworkers, seed, cases, max_seconds, tier, workdir, known_path, known_sigs, maxlen):
    """runs one worker; restarts it (new epoch) after a sanitizer death on a known finding. returns list of Failure"""
    fails = []
    epoch = 0
    deadline = time.time() + max_seconds
    known_crashes = {}
    while True:
        wid = w + 1000 * epoch
        cmd = [bins["rand"], "--" + mode, "--worker", str(wid), "--workers", str(nworkers), "--work", workdir, "--tier", tier,
               "--known", known_path]
        if mode == "run":
            left = max(1, int(deadline - time.time()))
            cmd += ["--seed", str(seed), "--cases", str(cases), "--max-seconds", str(left)]
            if maxlen:
                cmd += ["--maxlen", str(maxlen)]
            cdir = os.path.join(VERIF, "corpus", bins["pid"])
            if os.path.isdir(cdir):
                cmd += ["--corpus", cdir]
        errp = os.path.join(workdir, "stderr.%d.txt" % wid)
        with open(errp, "w") as ef:
            try:
                r = subprocess.run(cmd, stdout=ef, stderr=subprocess.STDOUT, env=env_for(workdir, tier, known_path),
                                   timeout=max_seconds + 120)
                rc = r.returncode
            except subprocess.TimeoutExpired:
                rc = -999
        if rc == 0:
            break
        if rc == 3:
            fb = os.path.join(workdir, "fail.%d.bin" % wid)
            ft = os.path.join(workdir, "fail.%d.txt" % wid)
            sig, msg = "?", ""
            if os.path.exists(ft):
                lines = open(ft, errors="replace").read().split("\n")
                sig, msg = lines[0], (lines[1] if len(lines) > 1 else "")
            fails.append(Failure(fb, sig, msg, "random-driver"))
            break
        if rc == 5:
            # leak somewhere in the last window of cases: bisect with fresh processes (LeakSanitizer decides at exit)
            wp = os.path.join(workdir, "leakwindow.%d.bin" % wid)
            raw = open(wp, "rb").read() if os.path.exists(wp) else b""
            items, off = [], 0
            while off + 4 <= len(raw):
                n = int.from_bytes(raw[off:off + 4], "little")
                items.append(raw[off + 4:off + 4 + n])
                off += 4 + n

            def leaks(lo, hi):
                r = subprocess.run([bins["rand"], "--window", wp, "--lo", str(lo), "--hi", str(hi), "--known", known_path, "--tier", tier],
                                   stdout=subprocess.PIPE, stderr=subprocess.STDOUT, env=env_for(workdir, tier, known_path), errors="replace")
                return r.returncode != 0
            culprit = None
            if items and leaks(0, len(items)):
                lo, hi = 0, len(items)
                while hi - lo > 1:
                    mid = (lo + hi) // 2
                    if leaks(lo, mid):
                        hi = mid
                    elif leaks(mid, hi):
                        lo = mid
                    else:
                        break
                if hi - lo == 1:
                    culprit = lo
            if culprit is None:
                fails.append(Failure(wp, bins["pid"] + ":leak:unattributed", "LeakSanitizer reported a leak in a window of %d cases but no single case reproduces it" % len(items), "timeout"))
                break
            ip = os.path.join(workdir, "leakcase.%d.bin" % wid)
            open(ip, "wb").write(items[culprit])
            st, sig, msg, out = replay_once(bins, ip, workdir, tier, known_path)
            if st in ("crash", "fail") and sig and sig_known(sig, known_sigs) or st == "known":
                known_crashes[sig] = known_crashes.get(sig, 0) + 1
                epoch += 1
                if time.time() > deadline or epoch > 50:
                    break
                continue
            fails.append(Failure(ip, sig or (bins["pid"] + ":leak"), msg, "random-driver-leak"))
            break
        # died: sanitizer abort, signal or hang -> recover the input from the shared page
        cur = os.path.join(workdir, "current.%d" % wid)
        crash = os.path.join(workdir, "crash.%d.bin" % wid)
        data = b""
        try:
            raw = open(cur, "rb").read()
            n = int.from_bytes(raw[:4], "little")
            data = raw[4:4 + n]
        except OSError:
            pass
        open(crash, "wb").write(data)
        if rc == -999:
            fails.append(Failure(crash, bins["pid"] + ":hang", "worker exceeded its wall-clock allowance (inconclusive)", "timeout"))
            break
        st, sig, msg, out = replay_once(bins, crash, workdir, tier, known_path)
        if st == "ok":
            # not reproducible from the input alone (state leak between cases?) -> report as harness problem
            err = open(errp, errors="replace").read()
            sig2 = sanitizer_signature(bins["pid"], err) or (bins["pid"] + ":crash:exit%d" % rc)
            fails.append(Failure(crash, sig2 + ":unreproducible", err[-2000:], "random-driver-crash"))
            break
        if st in ("crash", "fail") and sig and sig_known(sig, known_sigs):
            known_crashes[sig] = known_crashes.get(sig, 0) + 1
            epoch += 1
            if mode != "run" or time.time() > deadline or epoch > 50:
                break
            continue
        if st == "known":
            known_crashes[sig] = known_crashes.get(sig, 0) + 1
            epoch += 1
            if mode != "run" or time.time() > deadline or epoch > 50:
                break
            continue
        fails.append(Failure(crash, sig or "?", msg, "random-driver-crash"))
        break
    return fails, known_crashes


def run_fuzz(bins, meta, tier, seed, workdir, known_path, seconds, nprocs, maxlen):
    corpus = os.path.join(workdir, "corpus")
    os.makedirs(corpus, exist_ok=True)
    seeds = os.path.join(VERIF, "corpus", bins["pid"])
    if os.path.isdir(seeds):
        for f in os.listdir(seeds):
            shutil.copy(os.path.join(seeds, f), os.path.join(corpus, f))
    procs = []
    env = env_for(workdir, tier, known_path)
    # Debian's libFuzzer runtime is built against libstdc++ without _GLIBCXX_SANITIZE_VECTOR; the linker may pick its
    # un-annotated std::vector<unsigned char> members, which makes ASan's container-overflow check report false
    # positives in the fuzz binary only. The random driver keeps the check.
    env["ASAN_OPTIONS"] = env["ASAN_OPTIONS"].replace("detect_container_overflow=1", "detect_container_overflow=0")
    for i in range(nprocs):
        cmd = [bins["fuzz"], "-seed=%d" % (seed * 1000 + i + 1), "-max_len=%d" % maxlen, "-timeout=60", "-rss_limit_mb=4096",
               "-max_total_time=%d" % seconds, "-artifact_prefix=%s/art.%d." % (workdir, i), "-print_final_stats=1",
               "-use_value_profile=1" if i % 2 else "-use_value_profile=0", "-len_control=50", corpus]
        d = os.path.join(VERIF, "corpus", bins["pid"] + ".dict")
        if os.path.exists(d):
            cmd.insert(1, "-dict=" + d)
        lf = open(os.path.join(workdir, "fuzzlog.%d.txt" % i), "w")
        procs.append((subprocess.Popen(cmd, stdout=lf, stderr=subprocess.STDOUT, env=env), lf))
    t_end = time.time() + seconds + 180
    for p, lf in procs:
        try:
            p.wait(timeout=max(1, t_end - time.time()))
        except subprocess.TimeoutExpired:
            p.kill()
            p.wait()
        lf.close()
    fails = []
    # oracle failures
    for fb in sorted(glob.glob(os.path.join(workdir, "fuzzfail.*.bin"))):
        ft = fb[:-4] + ".txt"
        sig, msg = "?", ""
        if os.path.exists(ft):
            lines = open(ft, errors="replace").read().split("\n")
            sig, msg = lines[0], (lines[1] if len(lines) > 1 else "")
        # shrink with the random driver
        mn = fb + ".min"
        subprocess.run([bins["rand"], "--shrink", fb, "--out", mn, "--known", known_path, "--tier", tier], stdout=subprocess.DEVNULL,
                       stderr=subprocess.DEVNULL, env=env, timeout=600)
        fails.append(Failure(mn if os.path.exists(mn) else fb, sig, msg, "libfuzzer-oracle"))
    have = len(fails) > 0
    for art in sorted(glob.glob(os.path.join(workdir, "art.*"))):
        base = os.path.basename(art)
        if ".crash-" in base or ".leak-" in base:
            if have and ".crash-" in base:
                # the trap after an oracle failure also leaves a crash artifact: skip the ones that replay as oracle failures
                pass
            fails.append(Failure(art, None, "", "libfuzzer-" + ("leak" if ".leak-" in base else "crash")))
    execs = 0
    for lf in glob.glob(os.path.join(workdir, "fuzzlog.*.txt")):
        m = re.search(r"stat::number_of_executed_units:\s*(\d+)", open(lf, errors="replace").read())
        if m:
            execs += int(m.group(1))
    ncorpus = len(os.listdir(corpus))
    return fails, {"procs": nprocs, "seconds": seconds, "executions": execs, "corpus_files": ncorpus}


def fill_env(workdir, tier, known_path, fill):
    e = env_for(workdir, tier, known_path)
    e["ASAN_OPTIONS"] = e["ASAN_OPTIONS"] + ":malloc_fill_byte=%d:max_malloc_fill_size=1048576" % fill
    e["VERIF_STACK_FILL"] = str(fill)
    return e


def read_trace(path):
    out = []
    try:
        raw = open(path, "rb").read()
    except OSError:
        return out
    off = 0
    while off + 4 <= len(raw):
        n = int.from_bytes(raw[off:off + 4], "little")
        if off + 4 + n + 8 > len(raw):
            break
        out.append((raw[off + 4:off + 4 + n], raw[off + 4 + n:off + 12 + n]))
        off += 12 + n
    return out


def replay_digest(bins, path, workdir, tier, known_path, fill):
    r = subprocess.run([bins["rand"], "--replay", path, "--known", known_path, "--tier", tier], stdout=subprocess.PIPE, stderr=subprocess.STDOUT,
                       env=fill_env(workdir, tier, known_path, fill), errors="replace", timeout=300)
    m = re.search(r"REPLAY-OK digest=([0-9a-f]+)", r.stdout)
    if m:
        return "ok:" + m.group(1), r.stdout
    m = re.search(r"REPLAY-FAIL(?:-KNOWN)? sig=(\S+)", r.stdout)
    if m:
        return "fail:" + m.group(1), r.stdout
    return "crash:%d" % r.returncode, r.stdout


def uninit_diff_confirm(bins, path, workdir, tier, known_path):
    """the result of one input must not depend on what uninitialised heap/stack memory happens to contain"""
    a1, oa = replay_digest(bins, path, workdir, tier, known_path, 0x00)
    a2, _ = replay_digest(bins, path, workdir, tier, known_path, 0x00)
    b1, ob = replay_digest(bins, path, workdir, tier, known_path, 0xff)
    b2, _ = replay_digest(bins, path, workdir, tier, known_path, 0xff)
    if a1 == a2 and b1 == b2 and a1 != b1:
        la, lb = oa.splitlines(), ob.splitlines()
        diff = ""
        for x, y in zip(la, lb):
            if x != y and not x.startswith("REPLAY"):
                diff = "fill 0x00: %s | fill 0xff: %s" % (x[:400], y[:400])
                break
        m = re.search(r"(?:accepted as|->) ([A-Za-z0-9_/<>:]+)", oa)
        return True, (m.group(1).split("/")[-1] if m else "?"), diff or ("digest %s vs %s" % (a1, b1))
    return False, None, ""


def uninit_diff_stage(bins, meta, tier, seed, workdir, known_path, cfg):
    """run the same deterministic case stream twice, with all fresh heap memory and the stack pre-filled with 0x00 resp. 0xff"""
    nworkers = int(cfg.get("workers", 4))
    cases = int(cfg.get("cases_per_worker", 5000))
    viols, compared = [], 0
    procs = []
    for fill, tag in ((0x00, "A"), (0xff, "B")):
        d = os.path.join(workdir, "uninit" + tag)
        os.makedirs(d, exist_ok=True)
        for w in range(nworkers):
            cmd = [bins["rand"], "--run", "--worker", str(w), "--workers", str(nworkers), "--work", d, "--tier", tier, "--known", known_path,
                   "--seed", str(seed + 7777), "--cases", str(cases), "--max-seconds", str(cfg.get("max_seconds", 120)),
                   "--trace", os.path.join(d, "trace.%d" % w)]
            cdir = os.path.join(VERIF, "corpus", bins["pid"])
            if os.path.isdir(cdir):
                cmd += ["--corpus", cdir]
            if cfg.get("maxlen"):
                cmd += ["--maxlen", str(cfg["maxlen"])]
            procs.append(subprocess.Popen(cmd, stdout=subprocess.DEVNULL, stderr=subprocess.DEVNULL, env=fill_env(d, tier, known_path, fill)))
    for p in procs:
        try:
            p.wait(timeout=int(cfg.get("max_seconds", 120)) + 120)
        except subprocess.TimeoutExpired:
            p.kill()
    for w in range(nworkers):
        ta = read_trace(os.path.join(workdir, "uninitA", "trace.%d" % w))
        tb = read_trace(os.path.join(workdir, "uninitB", "trace.%d" % w))
        for i in range(min(len(ta), len(tb))):
            if ta[i][0] != tb[i][0]:
                break  # the streams diverged (an earlier result difference changed the mutation pool)
            compared += 1
            if ta[i][1] != tb[i][1]:
                cand = os.path.join(workdir, "uninit-cand.%d.bin" % w)
                open(cand, "wb").write(ta[i][0])
                ok, where, detail = uninit_diff_confirm(bins, cand, workdir, tier, known_path)
                if ok:
                    viols.append((cand, "%s:result-depends-on-uninitialised-memory:%s" % (bins["pid"], where), detail))
                break
    return viols, compared


def check(pid, tier, seed):
    t0 = time.time()
    meta = load_meta(pid)
    bins = build_prop(pid)
    bins["pid"] = pid
    workdir = os.path.join(WORK, "%s-%s" % (pid, tier))
    shutil.rmtree(workdir, ignore_errors=True)
    os.makedirs(workdir)
    open_f, fixed_f = known_findings(pid)
    known_sigs = [e["signature"] for e in open_f]
    known_path = os.path.join(workdir, "known.txt")
    with open(known_path, "w") as f:
        f.write("\n".join(known_sigs) + ("\n" if known_sigs else ""))

    t = meta.get(tier, {})
    nworkers = int(os.environ.get("VERIF_WORKERS", t.get("workers", NCPU)))
    cases = int(t.get("cases_per_worker", 20000))
    max_seconds = int(os.environ.get("VERIF_BUDGET_S", t.get("max_seconds", 120 if tier == "quick" else 900)))
    maxlen = int(t.get("maxlen", 0))
    failures = []
    known_crashes = {}
    notes = []

    # ---- stage 1: regression tier (saved minimal inputs of every confirmed defect / mutant) ----------
    reg_dir = os.path.join(VERIF, "regress", pid)
    reg_files = sorted(glob.glob(os.path.join(reg_dir, "*.bin")))
    reg_results = {}
    for rf in reg_files:
        st, sig, msg, out = replay_once(bins, rf, workdir, tier, known_path)
        reg_results[os.path.relpath(rf, VERIF)] = st if st in ("ok", "known") else "%s %s" % (st, sig)
        if st in ("fail", "crash"):
            if sig_known(sig, known_sigs):
                known_crashes[sig] = known_crashes.get(sig, 0) + 1
            else:
                failures.append(Failure(rf, sig, msg, "regression"))
        elif st == "known":
            known_crashes[sig] = known_crashes.get(sig, 0) + 1
        elif st == "timeout":
            notes.append("regression input %s timed out (inconclusive)" % rf)

    stats_files = []
    budget_hit = False
    step_info = {"max_steps": 0, "max_steps_per_byte": 0}
    # ---- stage 2: exhaustive enumeration block (if the property has one) -----------------------------
    enum_cases = 0
    if meta.get("enumerate") and not failures:
        with cf.ThreadPoolExecutor(nworkers) as ex:
            futs = [ex.submit(run_worker_slot, bins, "enumerate", w, nworkers, seed, 0, max_seconds, tier, workdir, known_path, known_sigs, 0)
                    for w in range(nworkers)]
            for fu in futs:
                fl, kc = fu.result()
                failures += fl
                for k, v in kc.items():
                    known_crashes[k] = known_crashes.get(k, 0) + v
        for mf in glob.glob(os.path.join(workdir, "meta.*.json")):
            try:
                enum_cases += json.load(open(mf)).get("done", 0)
            except ValueError:
                pass
            os.rename(mf, mf + ".enum")
        for sf in glob.glob(os.path.join(workdir, "stats.*.json")):
            os.rename(sf, sf.replace("stats.", "enumstats."))
            if os.path.exists(sf + ".hashes"):
                os.rename(sf + ".hashes", sf.replace("stats.", "enumstats.") + ".hashes")

    # ---- stage 3: random driver on all cores -----------------------------------------------------
    if not failures and cases > 0:
        with cf.ThreadPoolExecutor(nworkers) as ex:
            futs = [ex.submit(run_worker_slot, bins, "run", w, nworkers, seed, cases, max_seconds, tier, workdir, known_path, known_sigs, maxlen)
                    for w in range(nworkers)]
            for fu in futs:
                fl, kc = fu.result()
                failures += fl
                for k, v in kc.items():
                    known_crashes[k] = known_crashes.get(k, 0) + v
        for mf in glob.glob(os.path.join(workdir, "meta.*.json")):
            try:
                mj = json.load(open(mf))
                if mj.get("budget_hit"):
                    budget_hit = True
                step_info["max_steps"] = max(step_info["max_steps"], mj.get("max_steps", 0))
                step_info["max_steps_per_byte"] = max(step_info["max_steps_per_byte"], mj.get("max_steps_per_byte", 0))
            except ValueError:
                pass

    # ---- stage 4: libFuzzer campaign -------------------------------------------------------------
    fuzz_info = None
    fz = t.get("fuzz_seconds", 0)
    if fz and bins.get("fuzz") and not failures:
        fl, fuzz_info = run_fuzz(bins, meta, tier, seed, workdir, known_path, int(fz), int(t.get("fuzz_procs", NCPU)),
                                 int(t.get("fuzz_maxlen", maxlen or meta.get("fuzz_maxlen", 4096))))
        failures += fl

    # ---- stage 5: uninitialised-memory differential --------------------------------------------------
    violations = []
    seen_sigs = set()
    uninit_info = None
    ud = t.get("uninit_diff")
    if ud and not failures and bins["cfg"] == "san":
        uv, compared = uninit_diff_stage(bins, meta, tier, seed, workdir, known_path, ud)
        uninit_info = {"cases_compared": compared, "fills": ["0x00", "0xff"]}
        for cand, sig, detail in uv:
            if sig_known(sig, known_sigs):
                known_crashes[sig] = known_crashes.get(sig, 0) + 1
                continue
            if sig in seen_sigs:
                continue
            seen_sigs.add(sig)
            dst = os.path.join(workdir, "violation-%d.bin" % len(violations))
            shutil.copy(cand, dst)
            violations.append({"signature": sig, "message": detail, "replay": dst, "origin": "uninit-differential"})

    # ---- confirm failures: replay three times, classify ------------------------------------------
    for n, f in enumerate(failures):
        if f.origin == "timeout":
            notes.append("inconclusive: %s" % f.msg)
            continue
        results = [replay_once(bins, f.path, workdir, tier, known_path) for _ in range(3)]
        sts = [r[0] for r in results]
        if all(s == "ok" for s in sts):
            if f.origin in ("libfuzzer-crash", "libfuzzer-leak"):
                notes.append("libFuzzer artifact %s does not reproduce (ignored)" % os.path.basename(f.path))
                continue
            if f.sig and f.sig.endswith(":unreproducible"):
                notes.append("worker died but its last input replays clean: %s" % f.sig)
                # a crash that cannot be tied to an input is still reported: it is a failure of the run
                sig = f.sig
            else:
                notes.append("failure %s did not reproduce on replay (flake guard): not reported" % f.sig)
                continue
        elif all(s in ("fail", "crash") for s in sts):
            sig = results[0][1]
            f.msg = results[0][2] or f.msg
        elif all(s == "known" for s in sts) or (results[0][1] and sig_known(results[0][1], known_sigs)):
            known_crashes[results[0][1]] = known_crashes.get(results[0][1], 0) + 1
            continue
        elif any(s == "timeout" for s in sts):
            notes.append("inconclusive: replay of %s timed out" % f.path)
            continue
        else:
            notes.append("failure %s reproduces only sometimes %s: reported" % (f.sig, sts))
            sig = f.sig or results[0][1]
        if sig and sig_known(sig, known_sigs):
            known_crashes[sig] = known_crashes.get(sig, 0) + 1
            continue
        if sig in seen_sigs:
            continue
        seen_sigs.add(sig)
        dst = os.path.join(workdir, "violation-%d.bin" % len(violations))
        shutil.copy(f.path, dst)
        violations.append({"signature": sig, "message": f.msg, "replay": dst, "origin": f.origin})

    # ---- merge statistics, write evidence ---------------------------------------------------------
    stats_files = glob.glob(os.path.join(workdir, "stats.*.json")) + glob.glob(os.path.join(workdir, "fuzzstats.*.json")) + \
        glob.glob(os.path.join(workdir, "enumstats.*.json"))
    tot = merge_stats(stats_files, bins)
    for k, v in known_crashes.items():
        tot["known_hits"][k] = tot["known_hits"].get(k, 0) + v
    wall = time.time() - t0
    weak = []
    for lab in meta.get("health_labels", []):
        if tot["evaluations"] and tot["labels"].get(lab, 0) < 0.01 * tot["evaluations"]:
            weak.append(lab)
    coverage = {
        "evaluations": tot["evaluations"],
        "distinct_nontrivial": tot["distinct_nontrivial"],
        "nontrivial_total": tot["nontrivial"],
        "rule": meta.get("rule", ""),
        "samples": tot["samples"][:10],
        "labels": tot["labels"],
        "excluded_by_construction": tot["excluded"],
        "known_finding_hits": tot["known_hits"],
        "regression_inputs": reg_results,
        "random_driver": {"workers": nworkers, "cases_per_worker": cases, "budget_hit": budget_hit,
                          "max_instrumented_comparisons_per_case": step_info["max_steps"],
                          "max_comparisons_per_input_byte": step_info["max_steps_per_byte"]},
        "generator_health": "weak: " + ", ".join(weak) if weak else "ok",
        "notes": notes,
    }
    if meta.get("enumerate"):
        coverage["exhaustive"] = True
        coverage["exhaustive_block"] = {"cases": enum_cases, "what": meta.get("enumerate_what", "")}
    if fuzz_info:
        coverage["libfuzzer"] = fuzz_info
    if uninit_info:
        coverage["uninitialised_memory_differential"] = uninit_info
    if violations:
        coverage["violations_found"] = violations
    ev = {
        "property_id": pid,
        "tier": tier,
        "seed": seed,
        "level": meta.get("level", "exploration"),
        "coverage": coverage,
        "assumptions": meta.get("assumptions", []),
        "wall_s": round(wall, 2),
        "violations": len(violations),
    }
    os.makedirs(os.path.join(OUT, "evidence"), exist_ok=True)
    evp = os.path.join(OUT, "evidence", pid + ".json")
    with open(evp + ".tmp", "w") as f:
        json.dump(ev, f, indent=1)
    os.replace(evp + ".tmp", evp)

    for e in open_f:
        hits = sum(v for k, v in tot["known_hits"].items() if sig_known(k, [e["signature"]]))
        print("KNOWN-FINDING: property=%s %s [signature %s, hit %d times in this run]" % (pid, e.get("what", ""), e["signature"], hits), flush=True)
    for n in notes:
        log("[note] " + n)
    log("[%s %s] evaluations=%d distinct_nontrivial=%d wall=%.1fs violations=%d %s" %
        (pid, tier, tot["evaluations"], tot["distinct_nontrivial"], wall, len(violations), "BUDGET-HIT" if budget_hit else ""))
    if weak:
        log("[generator-health] labels below 1%%: %s" % ", ".join(weak))
    if violations:
        for v in violations:
            log("  signature=%s\n  message=%s" % (v["signature"], v["message"]))
            print("VIOLATION property=%s replay=%s" % (pid, v["replay"]), flush=True)
        return 1
    return 0


def all_props():
    return sorted(os.path.basename(p)[:-5].upper() for p in glob.glob(os.path.join(VERIF, "props", "c*.json")))


def main():
    ap = argparse.ArgumentParser()
    ap.add_argument("pid", nargs="?")
    ap.add_argument("--tier", default=os.environ.get("VERIF_TIER", "quick"), choices=["quick", "thorough"])
    ap.add_argument("--setup", action="store_true")
    ap.add_argument("--build-only", action="store_true")
    ap.add_argument("--replay")
    ap.add_argument("--seed", type=int, default=None)
    a = ap.parse_args()
    seed = a.seed if a.seed is not None else int(os.environ.get("VERIF_SEED", "1") or "1")
    if seed == 0:
        seed = 1
    if a.setup:
        cfgs = set()
        for pid in all_props():
            cfgs.add(load_meta(pid).get("config", "san"))
        for c in sorted(cfgs):
            build_lib(c)
        with cf.ThreadPoolExecutor(max(1, NCPU // 3)) as ex:
            list(ex.map(build_prop, all_props()))
        log("[setup] done: %s" % " ".join(all_props()))
        return 0
    if not a.pid:
        ap.error("property id required")
    pid = a.pid.upper()
    if a.build_only:
        print(json.dumps(build_prop(pid)))
        return 0
    if a.replay:
        bins = build_prop(pid)
        bins["pid"] = pid
        workdir = os.path.join(WORK, "%s-replay" % pid)
        os.makedirs(workdir, exist_ok=True)
        open_f, _ = known_findings(pid)
        known_path = os.path.join(workdir, "known.txt")
        with open(known_path, "w") as f:
            f.write("\n".join(e["signature"] for e in open_f) + "\n")
        st, sig, msg, out = replay_once(bins, a.replay, workdir, a.tier, known_path, timeout=600)
        sys.stdout.write(out)
        print("replay status=%s signature=%s" % (st, sig))
        if st == "ok" and bins["cfg"] == "san" and any("uninit_diff" in load_meta(pid).get(tt, {}) for tt in ("quick", "thorough")):
            ok, where, detail = uninit_diff_confirm(bins, a.replay, workdir, a.tier, known_path)
            if ok:
                print("replay status=fail signature=%s:result-depends-on-uninitialised-memory:%s\n%s" % (pid, where, detail))
                return 1
        return 0 if st == "ok" else 1
    return check(pid, a.tier, seed)


if __name__ == "__main__":
    sys.exit(main())
