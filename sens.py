#!/usr/bin/env python3
"""Sensitivity helper: apply a diff to a scratch worktree of /repo, run a check against it, report, clean up.
   python3 sens.py C13 sensitivity/C13/foo.diff [--tier quick] [--keep]
Exit 0 if the check reported a VIOLATION (mutant caught), 1 if it stayed green (missed), 2 on error."""
import os, subprocess, sys, tempfile, shutil, time
pid, diff = sys.argv[1], os.path.abspath(sys.argv[2])
tier = "quick"
if "--tier" in sys.argv:
    tier = sys.argv[sys.argv.index("--tier") + 1]
wt = tempfile.mkdtemp(prefix="mut-%s-" % pid, dir="/tmp")
os.rmdir(wt)
try:
    subprocess.check_call(["git", "-C", "/repo", "worktree", "add", "--detach", "-q", wt, "HEAD"])
    r = subprocess.run(["git", "-C", wt, "apply", diff])
    if r.returncode != 0:
        print("SENS %s %s: diff does not apply" % (pid, os.path.basename(diff)))
        sys.exit(2)
    env = dict(os.environ, VERIF_REPO=wt)
    t0 = time.time()
    r = subprocess.run([sys.executable, os.path.join(os.path.dirname(os.path.abspath(__file__)), "run.py"), pid, "--tier", tier],
                       env=env, stdout=subprocess.PIPE, stderr=subprocess.STDOUT, text=True)
    dt = time.time() - t0
    viol = [l for l in r.stdout.splitlines() if l.startswith("VIOLATION")]
    sigs = [l.strip() for l in r.stdout.splitlines() if l.strip().startswith("signature=")]
    if r.returncode == 1 and viol:
        print("SENS %s %s: CAUGHT in %.0fs %s" % (pid, os.path.basename(diff), dt, sigs[:2]))
        sys.exit(0)
    if r.returncode == 0:
        print("SENS %s %s: MISSED (check green, %.0fs)" % (pid, os.path.basename(diff), dt))
        sys.exit(1)
    print("SENS %s %s: ERROR rc=%d\n%s" % (pid, os.path.basename(diff), r.returncode, r.stdout[-1500:]))
    sys.exit(2)
finally:
    if "--keep" not in sys.argv:
        subprocess.run(["git", "-C", "/repo", "worktree", "remove", "--force", wt], stdout=subprocess.DEVNULL, stderr=subprocess.DEVNULL)
        shutil.rmtree(wt, ignore_errors=True)
        out = "/tmp/verif-out-" + __import__("hashlib").sha256(os.path.realpath(wt).encode()).hexdigest()[:10]
        shutil.rmtree(out, ignore_errors=True)
