#!/usr/bin/env python3
"""Summarise mutation/results-*.jsonl into mutation/TRIAGE.md (the hand-written verdicts live in TRIAGE below)."""
import glob, json, os
D = os.path.dirname(os.path.abspath(__file__))
# verdicts for survivors no check caught: key = "file:line:after"
TRIAGE = {
 "src/utils/radiotap_writer.cpp:61": ("equivalent", "loop bound of find_flags_end: the parser has already validated that every chained present word is inside the buffer, so `<=` and `<` stop at the same word"),
 "src/pdu_option.cpp:254": ("BLIND SPOT, closed", "convert(..., vector<IPv6Address>) read one address past the option: no typed getter uses this conversion, only option.to<std::vector<IPv6Address>>(); C01 and C04 now call all 19 generic decoders on every option (sensitivity/C04/convert-vector-ipv6-reads-one-more.diff: caught by both)"),
 "src/pdu_option.cpp:88": ("equivalent", "template constraint (enable_if): every instantiation in libtins has two unsigned integral types"),
 "src/ip_reassembler.cpp:41": ("equivalent in the domain", "received_end_ starts true: is_complete() also needs received_size_ == total_size_, and total_size_ stays 0 until the last fragment arrives; differs only for a first fragment without payload, which is not a fragment of any datagram (C08 quantifies over partitions into non-empty fragments)"),
 "src/icmp.cpp:226": ("equivalent", "length_value is a multiple of 4, so `> 128` and `> 129` select the same values"),
 "src/ethernetII.cpp:63": ("outside every property", "extract_metadata() (static helper for PDU::metadata) is not used by parsing, serialisation, matching or reassembly"),
 "src/udp.cpp:89": ("equivalent", "file-local sum_range() in udp.cpp is dead code (UDP uses Utils::sum_range); never executed (coverage/unexecuted.txt)"),
 "src/udp.cpp:105": ("equivalent", "file-local pseudoheader_checksum() in udp.cpp is dead code; never executed"),
 "include/tins/packet.h:235": ("BLIND SPOT, closed", "Packet move assignment turned into a no-op: C12 only generated move construction; move assignment between packets (empty ones included) added (sensitivity/C12/packet-move-assign-noop.diff: caught)"),
 "src/ipv6.cpp:311": ("equivalent in the domain", "IPv6::matches_response: an extension header that ends exactly at the end of the buffer leaves no upper-layer bytes to compare; both versions then answer false for every upper layer C14 quantifies over"),
 "src/tcp_stream.cpp:148": ("equivalent in the domain", "legacy follower keeps the longer of two chunks with the same start; with equal lengths both carry the same stream bytes (C06: all segments carry bytes of one stream)"),
 "src/tcp_ip/stream_identifier.cpp:126": ("equivalent modulo the open finding C07:v4-v6-alias", "the padding octets of an IPv4 key only decide WHICH IPv6 addresses alias with it"),
 "src/tcp_ip/stream.cpp:280": ("outside every property", "stream recovery mode is not part of C06/C07"),
 "src/crypto.cpp:428": ("equivalent", "initial value of is_ccmp_ in a constructor that assigns it unconditionally a few lines later"),
 "src/crypto.cpp:274": ("equivalent", "upper_byte(join_bytes(a, b)) is a, whatever b is"),
 "src/sniffer.cpp:315": ("outside every property", "live-capture Sniffer::init (needs a network interface): only the file sniffer is within C17"),
 'src/dot11/dot11_mgmt.cpp:327': ('not compiled on this host', 'big-endian (#else) branch of hand-packed bit-field / byte-order code: not compiled on x86-64 (DESIGN section 8)'),
 'src/dot11/dot11_mgmt.cpp:328': ('not compiled on this host', 'big-endian (#else) branch of hand-packed bit-field / byte-order code: not compiled on x86-64 (DESIGN section 8)'),
 'src/dot11/dot11_mgmt.cpp:336': ('not compiled on this host', 'big-endian (#else) branch of hand-packed bit-field / byte-order code: not compiled on x86-64 (DESIGN section 8)'),
 'src/dot11/dot11_control.cpp:231': ('not compiled on this host', 'big-endian (#else) branch of hand-packed bit-field / byte-order code: not compiled on x86-64 (DESIGN section 8)'),
 'src/dns.cpp:426': ('not compiled on this host', 'big-endian (#else) branch of hand-packed bit-field / byte-order code: not compiled on x86-64 (DESIGN section 8)'),
 'src/utils/radiotap_parser.cpp:125': ('not compiled on this host', 'big-endian (#else) branch of hand-packed bit-field / byte-order code: not compiled on x86-64 (DESIGN section 8)'),
 'src/utils/radiotap_parser.cpp:109': ('not compiled on this host', 'big-endian (#else) branch of hand-packed bit-field / byte-order code: not compiled on x86-64 (DESIGN section 8)'),
 'src/utils/radiotap_parser.cpp:115': ('not compiled on this host', 'big-endian (#else) branch of hand-packed bit-field / byte-order code: not compiled on x86-64 (DESIGN section 8)'),
 'src/utils/radiotap_parser.cpp:118': ('not compiled on this host', 'big-endian (#else) branch of hand-packed bit-field / byte-order code: not compiled on x86-64 (DESIGN section 8)'),
 'src/utils/radiotap_parser.cpp:112': ('not compiled on this host', 'big-endian (#else) branch of hand-packed bit-field / byte-order code: not compiled on x86-64 (DESIGN section 8)'),
 'src/ip_address.cpp:95': ('not compiled on this host', 'Windows-only branch'),
 'src/ipv6_address.cpp:122': ('not compiled on this host', 'Windows-only branch'),
 'src/sniffer.cpp:351': ('outside every property', 'live capture / packet sending (needs a network interface)'),
 'src/sniffer.cpp:504': ('outside every property', 'live capture / packet sending (needs a network interface)'),
 'src/sniffer.cpp:330': ('outside every property', 'live capture / packet sending (needs a network interface)'),
 'src/radiotap.cpp:332': ('outside every property', 'live capture / packet sending (needs a network interface)'),
 'src/radiotap.cpp:333': ('outside every property', 'live capture / packet sending (needs a network interface)'),
 'src/radiotap.cpp:355': ('outside every property', 'live capture / packet sending (needs a network interface)'),
 'src/icmpv6.cpp:270': ('outside every property', 'use_length_field() is a configuration switch; with it off the serializer still derives the length whenever RFC 4884 requires one, and no property says what the switch must do for shorter quoted datagrams'),
 'src/crypto.cpp:474': ('equivalent', 'a scratch array one element larger'),
 'src/crypto.cpp:475': ('equivalent', 'a scratch array one element larger'),
 'src/ipv6.cpp:157': ('outside every property', 'Jumbo Payload option handling: jumbograms exceed the 65535-octet domain of C01/C03; the unmodified code reads the jumbo length from the wrong stream and rejects or mis-sizes such packets anyway (memory-safe)'),
 'src/tcp_ip/stream.cpp:348': ('outside every property', 'stream recovery mode'),
 'src/dhcpv6.cpp:201': ('outside every property', "DHCPv6::matches_response for relay message types: C14's functional clause covers TCP/UDP/ICMP/ICMPv6/DNS replies, only memory safety applies to DHCPv6"),
 'src/icmpv6.cpp:50': ('equivalent', 'initial value of a member that every constructor path overwrites or that is only read after being set'),
 'src/crypto.cpp:332': ('equivalent under the claim', 'only the to-DS=from-DS=1 WEP case picks another address, for which the documentation names no association address (C09 installs the key under every pairing there)'),
 'src/utils/radiotap_writer.cpp:77': ('equivalent', 'differs only when no present word has any field; then both pointers are the end of the present words'),
 'src/dns.cpp:687': ('equivalent', 'upper bound handed to convert_records for the authority section, one octet further: the constructor has already walked every record of every section inside the buffer, so the bound is never reached'),
 'src/ipv6.cpp:358': ('outside every property', 'next-header value written behind the last extension header when NOTHING follows (the original writes 0; C03/C05 only claim tags when a payload follows)'),
 'src/rsn_information.cpp:132': ('equivalent', 'an RSN element of exactly 8 octets is rejected either way (the constructor then fails reading the AKM count), only the libtins exception type differs'),
 'src/tcp_ip/stream_follower.cpp:62': ('equivalent', 'initial last-cleanup time 1 us instead of 0'),
 'src/dns.cpp:574': ('equivalent', 'an MX record whose rdata is just the 2-octet preference has no exchange name and is malformed either way'),
 'src/eapol.cpp:49': ('outside every property', 'extract_metadata()'),
 'src/hw_address.cpp:45': ('equivalent', 'capacity hint of a string'),
 'src/tcp_ip/data_tracker.cpp:66': ('equivalent under the claim', "process_payload() then reports 'data added' also when nothing was added: callbacks that deliver nothing are explicitly outside C06/C07's claims (the delivered bytes are unchanged)"),
 'src/packet_writer.cpp:83': ('outside every property', "snapshot length written into the capture file's global header (65536 instead of 65535): records and timestamps are unchanged"),
 'src/rtp.cpp:46': ('equivalent', 'unsigned comparison with 0'),
 'src/utils/radiotap_parser.cpp:149': ('equivalent', 'member of the empty-buffer state, never read there'),
 'src/utils/radiotap_parser.cpp:56': ('caught when re-run', "C11 `C11:layout:length` - but only after 30 minutes: a zero-sized field makes every case crawl, and the campaign's run was cut off by its time limit"),
 'src/detail/sequence_number_helpers.cpp:41': ('equivalent', 'the equal case returns earlier'),
 'src/detail/icmp_extension_helpers.cpp:65': ('equivalent', 'at exactly 128 octets both branches look for the structure at offset 128'),
 "src/dns.cpp:252": ("equivalent", "fill value of the bytes inserted for a new record: all of them are overwritten by the record that is written right after"),
}
rows = []
for f in sorted(glob.glob(os.path.join(D, "results*-*.jsonl"))):
    rows += [json.loads(l) for l in open(f) if l.strip()]
cnt = {}
for r in rows:
    cnt[r["outcome"]] = cnt.get(r["outcome"], 0) + 1
surv = [r for r in rows if r["outcome"] in ("caught", "missed")]
out = ["# Mutation campaign: results and triage (generated by mutation/summarize.py)", "",
       "%d mutants sampled (seed %s): %s." % (len(rows), rows[0]["seed"] if rows else "-", ", ".join("%d %s" % (v, k) for k, v in sorted(cnt.items()))),
       "`check-build-error` = the mutant did not compile with clang (the first batch lacked `pipefail`, so gcc's failure went unnoticed): counted as not compiling.",
       "Of the %d mutants that compile and pass the repository's 62 tests, %d were caught by a quick-tier check and %d were not; the latter are triaged below." % (len(surv), sum(r["outcome"] == "caught" for r in surv), sum(r["outcome"] == "missed" for r in surv)), "",
       "## Caught", "", "| file:line | mutation | caught by | signature |", "|---|---|---|---|"]
for r in surv:
    if r["outcome"] == "caught":
        sig = next((t["signatures"][0] for t in r["tried"] if t["violation"] and t["signatures"]), "")
        out.append("| %s:%d | `%s` -> `%s` | %s | `%s` |" % (r["file"], r["line"], r["before"][:70].replace("|", "\\|"), r["after"][:70].replace("|", "\\|"), r["caught_by"], sig[:90]))
out += ["", "## Not caught", "", "| file:line | mutation | tried | verdict |", "|---|---|---|---|"]
untri = 0
for r in surv:
    if r["outcome"] == "missed":
        k = "%s:%d" % (r["file"], r["line"])
        v = TRIAGE.get(k)
        if not v:
            untri += 1
        out.append("| %s | `%s` -> `%s` | %s | %s |" % (k, r["before"][:70].replace("|", "\\|"), r["after"][:70].replace("|", "\\|"), " ".join(t["property"] for t in r["tried"]),
                                                       ("**%s**: %s" % v) if v else "NOT YET TRIAGED"))
open(os.path.join(D, "TRIAGE.md"), "w").write("\n".join(out) + "\n")
print(cnt, "untriaged:", untri)
