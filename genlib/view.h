// view(p): canonical rendering of a packet = per layer: class name + every getter value (kinded) .
// The accessor tables are generated from the libtins headers (reflect/gen_view.py) so every public const
// getter of every PDU class is called (C01) and rendered (C03/C04/C12/C15).
#ifndef VERIF_GENLIB_VIEW_H
#define VERIF_GENLIB_VIEW_H

#include "render.h"
#include "../engine/src.h"
#include <typeinfo>
#include <cxxabi.h>

namespace verif {

struct FieldView {
    char kind;  // F field, D derived, T next-protocol tag, O raw option list, X typed option decoder, S size query
    std::string name;
    std::string value;
};
struct LayerView {
    std::string cls;
    std::vector<FieldView> fields;
    const FieldView* find(const std::string& n) const {
        for (const FieldView& f : fields) if (f.name == n) return &f;
        return nullptr;
    }
};
typedef std::vector<LayerView> PacketView;

inline std::string demangled(const std::type_info& ti) {
    int st = 0;
    char* d = abi::__cxa_demangle(ti.name(), nullptr, nullptr, &st);
    std::string s = (st == 0 && d) ? d : ti.name();
    free(d);
    return s;
}

// A getter may throw libtins exceptions only (option_not_found, field_not_present, malformed_option...).
template <class F>
inline void view_add(LayerView& v, char kind, const char* name, F f) {
    FieldView fv;
    fv.kind = kind;
    fv.name = name;
    try {
        fv.value = f();
    } catch (const Tins::exception_base& e) {
        fv.value = std::string("<") + demangled(typeid(e)) + ">";
    } catch (const PropFail&) {
        throw;
    } catch (const std::exception& e) {
        throw PropFail{std::string("accessor-foreign-exception:") + v.cls + "." + name + ":" + demangled(typeid(e)),
                       std::string("getter ") + v.cls + "::" + name + "() threw a non-libtins exception: " + e.what()};
    }
    v.fields.push_back(fv);
}

#define VG(kind, name) view_add(v, kind, #name, [&]() -> std::string { return rstr(p.name()); });
#define VGP(kind, name, n) view_add(v, kind, #name, [&]() -> std::string { std::ostringstream os; rhex(os, (const uint8_t*)p.name(), n); return os.str(); });
#define VGN(kind, name, T) view_add(v, kind, #name, [&]() -> std::string { return rstr(const_cast<T&>(p).name()); });

#include "view_gen.inc"

#undef VG
#undef VGP
#undef VGN

inline LayerView view_layer(const Tins::PDU& pdu) {
    LayerView v;
    if (typeid(pdu) == typeid(Tins::RawPDU)) {
        v.cls = "RawPDU";
        const Tins::RawPDU& rp = static_cast<const Tins::RawPDU&>(pdu);
        view_add(v, 'F', "payload", [&]() { return rstr(rp.payload()); });
        view_add(v, 'S', "header_size", [&]() { return rstr(rp.header_size()); });
        return v;
    }
    if (!view_dispatch(pdu, v)) {
        v.cls = "?" + demangled(typeid(pdu));
        view_add(v, 'S', "header_size", [&]() { return rstr(pdu.header_size()); });
    }
    view_add(v, 'S', "trailer_size", [&]() { return rstr(pdu.trailer_size()); });
    view_add(v, 'S', "size", [&]() { return rstr(pdu.size()); });
    return v;
}

inline PacketView view_packet(const Tins::PDU& top) {
    PacketView pv;
    for (const Tins::PDU* p = &top; p; p = p->inner_pdu()) pv.push_back(view_layer(*p));
    return pv;
}

inline std::string to_text(const PacketView& pv, const char* kinds = "FDTOXS") {
    std::ostringstream os;
    for (const LayerView& l : pv) {
        os << l.cls << "{";
        for (const FieldView& f : l.fields)
            if (strchr(kinds, f.kind)) os << f.name << "=" << f.value << ";";
        os << "} ";
    }
    return os.str();
}

inline std::string layer_chain(const Tins::PDU& top) {
    std::string s;
    for (const Tins::PDU* p = &top; p; p = p->inner_pdu()) {
        if (!s.empty()) s += "/";
        std::string n = demangled(typeid(*p));
        if (n.compare(0, 6, "Tins::") == 0) n = n.substr(6);
        s += n;
    }
    return s;
}

} // namespace verif
#endif
