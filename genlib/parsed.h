// Shared decoding of the "parsed packet" domain: [entry][placement][bytes] -> accepted packet (or none).
#ifndef VERIF_GENLIB_PARSED_H
#define VERIF_GENLIB_PARSED_H

#include "view.h"
#include "entries.h"
#include <cstdlib>
#include <memory>

namespace verif {

// exact-size heap copy of the input so that a 1-byte over/under-read hits an ASan redzone
struct Block {
    uint8_t* base = nullptr;
    uint8_t* ptr = nullptr;
    size_t size = 0;
    Block(const std::vector<uint8_t>& data, unsigned placement) { init(data.data(), data.size(), placement); }
    Block(const uint8_t* d, size_t n, unsigned placement) { init(d, n, placement); }
    void init(const uint8_t* d, size_t n, unsigned placement) {
        size_t lead = placement & 7;  // odd alignments; the buffer end is the block end in all cases
        base = (uint8_t*)malloc(n + lead ? n + lead : 1);
        ptr = base + lead;
        size = n;
        if (n) memcpy(ptr, d, n);
        if (lead) memset(base, 0xAA, lead);
    }
    ~Block() { free(base); }
    Block(const Block&) = delete;
    Block& operator=(const Block&) = delete;
};

// number of leading bytes of the input that select a flag for the flag-driven factories (not part of the packet)
inline size_t entry_prefix_len(const Entry& e) {
    std::string n = e.name;
    if (n == "pdu_from_flag(ether)") return 2;
    if (n == "pdu_from_flag(ip)" || n == "pdu_from_flag(pdutype)" || n == "pdu_from_dlt_flag") return 1;
    return 0;
}

// parse through an entry point; returns null when rejected (malformed_packet) or when the entry yields no packet.
// Any other exception propagates (C01 owns that contract).
inline std::unique_ptr<Tins::PDU> parse_entry(const Entry& e, const uint8_t* b, size_t n, unsigned placement, bool* rejected = nullptr) {
    Block blk(b, n, placement);
    if (rejected) *rejected = false;
    try {
        return std::unique_ptr<Tins::PDU>(e.parse(blk.ptr, (uint32_t)n));
    } catch (const Tins::malformed_packet&) {
        if (rejected) *rejected = true;
        return nullptr;
    }
}

// the serialize monitor hook of /repo (LIBTINS_VERIF_HOOKS): first report wins
struct Monitor : Tins::Verif::SerializeMonitor {
    bool fired = false;
    std::string what, layer;
    void short_buffer(const Tins::PDU& l, uint32_t total_sz, uint32_t needed) override {
        if (fired) return;
        fired = true;
        layer = demangled(typeid(l));
        what = "short-buffer";
        detail = "layer " + layer + " got " + std::to_string(total_sz) + " bytes, needs header+trailer " + std::to_string(needed);
    }
    void inner_modified(const Tins::PDU& l, uint32_t off, uint8_t before, uint8_t after) override {
        if (fired) return;
        fired = true;
        layer = demangled(typeid(l));
        what = "inner-bytes-modified";
        detail = "layer " + layer + " changed byte " + std::to_string(off) + " of its inner region from " + std::to_string(before) + " to " + std::to_string(after);
    }
    std::string detail;
    Monitor() { Tins::Verif::serialize_monitor() = this; }
    ~Monitor() { Tins::Verif::serialize_monitor() = nullptr; }
};

inline std::string short_cls(std::string n) {
    if (n.compare(0, 6, "Tins::") == 0) n = n.substr(6);
    return n;
}

}  // namespace verif
#endif
