// Generic option decoders: PDUOption<X, P>::to<T>() for every T libtins offers a conversion for.
// touch  : call them all on an option (memory safety / exception contract - C01)
// check  : additionally compare each result with a conversion written from the documented meaning (C04):
//          integral = exactly sizeof(T) octets in the PDU's byte order; vectors = size a multiple of the element;
//          pairs = first then second; addresses = wire order (IPv4 reversed for little-endian PDUs, as to<IPv4Address> documents);
//          vector<float> = (octet & 0x7f) / 2 (802.11 rates); string / vector<uint8_t> = the octets.
#pragma once
#include "../engine/src.h"
#include <tins/pdu_option.h>
#include <tins/hw_address.h>
#include <tins/ip_address.h>
#include <tins/ipv6_address.h>
#include <tins/exceptions.h>
#include <string>
#include <vector>
#include <utility>

namespace verif {
namespace optconv {

inline uint64_t ref_int(const uint8_t* p, size_t n, bool be) {
    uint64_t v = 0;
    for (size_t i = 0; i < n; ++i) v = be ? (v << 8) | p[i] : v | ((uint64_t)p[i] << (8 * i));
    return v;
}

struct Outcome { unsigned accepted = 0, rejected = 0; };

// one conversion: `get` calls to<T>(), `want_ok` says whether the size is acceptable, `same` compares the value
template <class Get, class Same>
inline void one(Ctx* ctx, const char* tname, const std::string& where, bool want_ok, Get get, Same same, Outcome& oc) {
    bool threw = false;
    try {
        auto v = get();
        ++oc.accepted;
        if (ctx) {
            VCHECK(*ctx, want_ok, std::string("C04:to<") + tname + ">:accepts-wrong-size", where << ": to<" << tname << ">() accepted an option whose size does not fit the type");
            if (want_ok) VCHECK(*ctx, same(v), std::string("C04:to<") + tname + ">:value", where << ": to<" << tname << ">() differs from the reference conversion");
        }
    } catch (const Tins::malformed_option&) {
        threw = true;
        ++oc.rejected;
    } catch (const Tins::exception_base& e) {  // another libtins exception: allowed by C01's contract, not what to<T>() documents
        ++oc.rejected;
        if (ctx) VCHECK(*ctx, false, std::string("C04:to<") + tname + ">:throws-other-exception", where << ": to<" << tname << ">() threw " << e.what());
        return;
    }
    if (ctx && threw) VCHECK(*ctx, !want_ok, std::string("C04:to<") + tname + ">:rejects-valid-size", where << ": to<" << tname << ">() threw malformed_option although the size fits");
}

template <class X, class P>
inline Outcome run(Ctx* ctx, const Tins::PDUOption<X, P>& o, const std::string& where) {
    using namespace Tins;
    Outcome oc;
    const uint8_t* d = o.data_ptr();
    const size_t n = o.data_size();
    const bool be = P::endianness == PDU::BE;
    std::vector<uint8_t> bytes(d, d + n);   // reference copy (taken before any conversion runs)
    const uint8_t* b = bytes.data();
    one(ctx, "uint8_t", where, n == 1, [&] { return o.template to<uint8_t>(); }, [&](uint8_t v) { return v == b[0]; }, oc);
    one(ctx, "int8_t", where, n == 1, [&] { return o.template to<int8_t>(); }, [&](int8_t v) { return (uint8_t)v == b[0]; }, oc);
    one(ctx, "uint16_t", where, n == 2, [&] { return o.template to<uint16_t>(); }, [&](uint16_t v) { return v == ref_int(b, 2, be); }, oc);
    one(ctx, "uint32_t", where, n == 4, [&] { return o.template to<uint32_t>(); }, [&](uint32_t v) { return v == ref_int(b, 4, be); }, oc);
    one(ctx, "uint64_t", where, n == 8, [&] { return o.template to<uint64_t>(); }, [&](uint64_t v) { return v == ref_int(b, 8, be); }, oc);
    one(ctx, "HWAddress<6>", where, n == 6, [&] { return o.template to<HWAddress<6> >(); }, [&](const HWAddress<6>& v) { return std::equal(v.begin(), v.end(), b); }, oc);
    one(ctx, "IPv4Address", where, n == 4, [&] { return o.template to<IPv4Address>(); },
        [&](const IPv4Address& v) { uint32_t raw = (uint32_t)v; const uint8_t* r = (const uint8_t*)&raw; return be ? std::equal(r, r + 4, b) : (r[0] == b[3] && r[1] == b[2] && r[2] == b[1] && r[3] == b[0]); }, oc);
    one(ctx, "IPv6Address", where, n == 16, [&] { return o.template to<IPv6Address>(); }, [&](const IPv6Address& v) { return std::equal(v.begin(), v.end(), b); }, oc);
    one(ctx, "string", where, true, [&] { return o.template to<std::string>(); }, [&](const std::string& v) { return v.size() == n && std::equal(v.begin(), v.end(), (const char*)b); }, oc);
    one(ctx, "vector<float>", where, true, [&] { return o.template to<std::vector<float> >(); },
        [&](const std::vector<float>& v) { if (v.size() != n) return false; for (size_t i = 0; i < n; ++i) if (v[i] != float(b[i] & 0x7f) / 2) return false; return true; }, oc);
    one(ctx, "vector<uint8_t>", where, true, [&] { return o.template to<std::vector<uint8_t> >(); }, [&](const std::vector<uint8_t>& v) { return v == bytes; }, oc);
    one(ctx, "vector<uint16_t>", where, n % 2 == 0, [&] { return o.template to<std::vector<uint16_t> >(); },
        [&](const std::vector<uint16_t>& v) { if (v.size() != n / 2) return false; for (size_t i = 0; i < v.size(); ++i) if (v[i] != ref_int(b + 2 * i, 2, be)) return false; return true; }, oc);
    one(ctx, "vector<uint32_t>", where, n % 4 == 0, [&] { return o.template to<std::vector<uint32_t> >(); },
        [&](const std::vector<uint32_t>& v) { if (v.size() != n / 4) return false; for (size_t i = 0; i < v.size(); ++i) if (v[i] != ref_int(b + 4 * i, 4, be)) return false; return true; }, oc);
    one(ctx, "vector<IPv4Address>", where, n % 4 == 0, [&] { return o.template to<std::vector<IPv4Address> >(); },
        [&](const std::vector<IPv4Address>& v) {
            if (v.size() != n / 4) return false;
            for (size_t i = 0; i < v.size(); ++i) {
                uint32_t raw = (uint32_t)v[i]; const uint8_t* r = (const uint8_t*)&raw; const uint8_t* w = b + 4 * i;
                if (!(be ? std::equal(r, r + 4, w) : (r[0] == w[3] && r[1] == w[2] && r[2] == w[1] && r[3] == w[0]))) return false;
            }
            return true; }, oc);
    one(ctx, "vector<IPv6Address>", where, n % 16 == 0, [&] { return o.template to<std::vector<IPv6Address> >(); },
        [&](const std::vector<IPv6Address>& v) { if (v.size() != n / 16) return false; for (size_t i = 0; i < v.size(); ++i) if (!std::equal(v[i].begin(), v[i].end(), b + 16 * i)) return false; return true; }, oc);
    one(ctx, "vector<pair<uint8_t,uint8_t>>", where, n % 2 == 0, [&] { return o.template to<std::vector<std::pair<uint8_t, uint8_t> > >(); },
        [&](const std::vector<std::pair<uint8_t, uint8_t> >& v) { if (v.size() != n / 2) return false; for (size_t i = 0; i < v.size(); ++i) if (v[i].first != b[2 * i] || v[i].second != b[2 * i + 1]) return false; return true; }, oc);
    one(ctx, "pair<uint8_t,uint8_t>", where, n == 2, [&] { return o.template to<std::pair<uint8_t, uint8_t> >(); },
        [&](const std::pair<uint8_t, uint8_t>& v) { return v.first == b[0] && v.second == b[1]; }, oc);
    one(ctx, "pair<uint16_t,uint32_t>", where, n == 6, [&] { return o.template to<std::pair<uint16_t, uint32_t> >(); },
        [&](const std::pair<uint16_t, uint32_t>& v) { return v.first == ref_int(b, 2, be) && v.second == ref_int(b + 2, 4, be); }, oc);
    one(ctx, "pair<uint32_t,uint32_t>", where, n == 8, [&] { return o.template to<std::pair<uint32_t, uint32_t> >(); },
        [&](const std::pair<uint32_t, uint32_t>& v) { return v.first == ref_int(b, 4, be) && v.second == ref_int(b + 4, 4, be); }, oc);
    return oc;
}

template <class X, class P> inline Outcome touch(const Tins::PDUOption<X, P>& o) { return run<X, P>(nullptr, o, std::string()); }
template <class X, class P> inline Outcome check(Ctx& ctx, const Tins::PDUOption<X, P>& o, const std::string& where) { return run<X, P>(&ctx, o, where); }

}  // namespace optconv
}  // namespace verif
