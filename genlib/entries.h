// Every from-buffer entry point of libtins as a table: index -> (name, parse function, serialisable?).
// Shared by C01 (parse safety), C02 (serialise), C03 (round trip), C17 (capture loop reference).
#ifndef VERIF_GENLIB_ENTRIES_H
#define VERIF_GENLIB_ENTRIES_H

#include "render.h"
#include <tins/detail/pdu_helpers.h>
#include <pcap.h>
#include <memory>

namespace verif {

struct Entry {
    const char* name;
    Tins::PDU* (*parse)(const uint8_t*, uint32_t);  // may return null (no packet) or throw
    bool serializable;                               // false: PPI / PKTAP roots (documented as not serialisable)
    bool link;                                       // a capture link type exactly as BaseSniffer dispatches it
};

template <class T> inline Tins::PDU* parse_class(const uint8_t* b, uint32_t n) { return new T(b, n); }

inline Tins::PDU* parse_dlt_en10mb(const uint8_t* b, uint32_t n) {
    if (Tins::Internals::is_dot3(b, n)) return new Tins::Dot3(b, n);
    return new Tins::EthernetII(b, n);
}
inline Tins::PDU* parse_dlt_raw(const uint8_t* b, uint32_t n) {
    // the sniffer looks at the version nibble of the first byte (a zero-length frame must not be read)
    if (n == 0) return nullptr;
    switch (b[0] >> 4) {
        case 4: return new Tins::IP(b, n);
        case 6: return new Tins::IPv6(b, n);
        default: return nullptr;
    }
}
inline Tins::PDU* parse_dot11_from_bytes(const uint8_t* b, uint32_t n) { return Tins::Dot11::from_bytes(b, n); }
inline Tins::PDU* parse_eapol_from_bytes(const uint8_t* b, uint32_t n) { return Tins::EAPOL::from_bytes(b, n); }
// flag-driven factories: the first bytes of the input select the flag, the rest is the buffer
inline Tins::PDU* parse_from_ether_flag(const uint8_t* b, uint32_t n) {
    if (n < 2) return nullptr;
    return Tins::Internals::pdu_from_flag((Tins::Constants::Ethernet::e)((b[0] << 8) | b[1]), b + 2, n - 2, true);
}
inline Tins::PDU* parse_from_ip_flag(const uint8_t* b, uint32_t n) {
    if (n < 1) return nullptr;
    return Tins::Internals::pdu_from_flag((Tins::Constants::IP::e)b[0], b + 1, n - 1, true);
}
inline Tins::PDU* parse_from_pdu_flag(const uint8_t* b, uint32_t n) {
    if (n < 1) return nullptr;
    return Tins::Internals::pdu_from_flag((Tins::PDU::PDUType)b[0], b + 1, n - 1);
}
inline Tins::PDU* parse_from_dlt_flag(const uint8_t* b, uint32_t n) {
    if (n < 1) return nullptr;
    return Tins::Internals::pdu_from_dlt_flag(b[0], b + 1, n - 1, true);
}

#define VERIF_ENTRY_CLASSES(X) \
    X(EthernetII) X(Dot3) X(RadioTap) X(SLL) X(Loopback) X(LLC) X(SNAP) X(Dot1Q) X(MPLS) X(PPPoE) X(IP) X(IPv6) X(IPSecAH) X(IPSecESP) \
    X(ARP) X(TCP) X(UDP) X(ICMP) X(ICMPv6) X(BootP) X(DHCP) X(DHCPv6) X(DNS) X(RC4EAPOL) X(RSNEAPOL) X(STP) X(VXLAN) X(RTP) X(RawPDU) \
    X(Dot11) X(Dot11Data) X(Dot11QoSData) X(Dot11Beacon) X(Dot11ProbeRequest) X(Dot11ProbeResponse) X(Dot11AssocRequest) \
    X(Dot11AssocResponse) X(Dot11ReAssocRequest) X(Dot11ReAssocResponse) X(Dot11Disassoc) X(Dot11Authentication) \
    X(Dot11Deauthentication) X(Dot11Control) X(Dot11RTS) X(Dot11PSPoll) X(Dot11CFEnd) X(Dot11EndCFAck) X(Dot11Ack) \
    X(Dot11BlockAckRequest) X(Dot11BlockAck)

inline const std::vector<Entry>& entries() {
    static const std::vector<Entry> E = [] {
        std::vector<Entry> e;
        // capture link types, dispatched exactly like BaseSniffer::next_packet
        e.push_back({"dlt:EN10MB", parse_dlt_en10mb, true, true});
        e.push_back({"dlt:IEEE802_11", parse_dot11_from_bytes, true, true});
        e.push_back({"dlt:IEEE802_11_RADIO", parse_class<Tins::RadioTap>, true, true});
        e.push_back({"dlt:NULL", parse_class<Tins::Loopback>, true, true});
        e.push_back({"dlt:LINUX_SLL", parse_class<Tins::SLL>, true, true});
        e.push_back({"dlt:RAW", parse_dlt_raw, true, true});
        e.push_back({"dlt:PPI", parse_class<Tins::PPI>, false, true});
        e.push_back({"dlt:PKTAP", parse_class<Tins::PKTAP>, false, true});
#define X(C) e.push_back({#C, parse_class<Tins::C>, true, false});
        VERIF_ENTRY_CLASSES(X)
#undef X
        e.push_back({"EAPOL::from_bytes", parse_eapol_from_bytes, true, false});
        e.push_back({"pdu_from_flag(ether)", parse_from_ether_flag, true, false});
        e.push_back({"pdu_from_flag(ip)", parse_from_ip_flag, true, false});
        e.push_back({"pdu_from_flag(pdutype)", parse_from_pdu_flag, true, false});
        e.push_back({"pdu_from_dlt_flag", parse_from_dlt_flag, true, false});
        return e;
    }();
    return E;
}

// true if some layer of the chain is one of the two non-serialisable capture pseudo-headers
inline bool has_unserializable_layer(const Tins::PDU& top) {
    for (const Tins::PDU* p = &top; p; p = p->inner_pdu())
        if (p->pdu_type() == Tins::PDU::PPI || p->pdu_type() == Tins::PDU::PKTAP) return true;
    return false;
}

} // namespace verif
#endif
