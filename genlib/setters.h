// Generated setter table (reflect/gen_view.py) + value generators for every setter parameter type.
// apply_setter(pdu, k, sc) calls the k-th public one-argument setter of pdu's dynamic class with a value decoded
// from the choice sequence. Used by the packet builder (C02/C04/C05/C12/C14) and by C15.
#ifndef VERIF_GENLIB_SETTERS_H
#define VERIF_GENLIB_SETTERS_H

#include "view.h"

namespace verif {
using Tins::small_uint;

template <class T> struct Tag {};

struct SetterCtx {
    Src& s;
    const char* kinds;        // setter kinds that may be applied: S scalar field, D derived field, T protocol tag, O typed option
    explicit SetterCtx(Src& src, const char* k = "SDTO") : s(src), kinds(k) {}
    // result of the last apply_setter
    char kind = 0;
    bool applied = false;     // false: kind not allowed, nothing was called
    std::string cls, name, getter, value, threw;
    bool allows(char k) const { return strchr(kinds, k) != nullptr; }
    std::string describe() const { return cls + "::" + name + "(" + value + ")" + (threw.empty() ? "" : " threw " + threw); }
};

// ---- value generators -----------------------------------------------------------------------------
template <class T>
inline typename std::enable_if<std::is_integral<T>::value && !std::is_same<T, bool>::value, T>::type genv(Src& s, Tag<T>) {
    return (T)s.edgy(sizeof(T) * 8);
}
inline bool genv(Src& s, Tag<bool>) { return s.boolean(); }
template <class T>
inline typename std::enable_if<std::is_enum<T>::value, T>::type genv(Src& s, Tag<T>) {
    return (T)(s.edgy(8));
}
template <size_t n> inline Tins::small_uint<n> genv(Src& s, Tag<Tins::small_uint<n> >) {
    return Tins::small_uint<n>((typename Tins::small_uint<n>::repr_type)s.edgy(n));
}
template <size_t n> inline Tins::HWAddress<n> genv(Src& s, Tag<Tins::HWAddress<n> >) {
    std::vector<uint8_t> b(n, 0);
    switch (s.weighted({4, 1, 1})) {
        case 0: b = s.bytes(n); break;
        case 1: break;
        default: std::fill(b.begin(), b.end(), 0xff); break;
    }
    return Tins::HWAddress<n>(b.data());
}
inline Tins::IPv4Address genv(Src& s, Tag<Tins::IPv4Address>) {
    uint32_t v = (uint32_t)s.edgy(32);
    if (v == 0) v = 0x0100007f;  // keep 0.0.0.0 out: an outermost IP with source 0.0.0.0 consults the routing table on serialize
    return Tins::IPv4Address(v);
}
inline Tins::IPv6Address genv(Src& s, Tag<Tins::IPv6Address>) {
    std::vector<uint8_t> b(16, 0);
    switch (s.weighted({4, 1, 1})) {
        case 0: b = s.bytes(16); break;
        case 1: b[15] = 1; break;
        default: std::fill(b.begin(), b.end(), 0xff); break;
    }
    return Tins::IPv6Address(b.data());
}
// lengths biased to the interesting ones (PDUOption keeps <= 8 bytes inline)
inline size_t gen_len(Src& s, size_t maxlen) {
    static const size_t L[] = {0, 1, 2, 6, 7, 8, 9, 15, 16, 17, 31, 32, 33, 63, 64, 127, 128, 253, 254, 255, 256};
    size_t n;
    if (s.chance(60)) n = s.range(0, 12);
    else n = L[s.pick(sizeof L / sizeof *L)];
    return n > maxlen ? maxlen : n;
}
inline std::vector<uint8_t> genv(Src& s, Tag<std::vector<uint8_t> >) { return s.bytes(gen_len(s, 300)); }
inline std::string genv(Src& s, Tag<std::string>) {
    size_t n = gen_len(s, 300);
    std::string out;
    bool printable = s.chance(70);
    for (size_t i = 0; i < n; ++i) {
        uint8_t c = s.u8();
        out += printable ? (char)('a' + c % 26) : (char)(c ? c : 1);  // no embedded NUL: the API takes C-style names in places
    }
    return out;
}
inline float genv(Src& s, Tag<float>) { return (float)(s.range(0, 255)) * 0.5f; }

// structs: declared first (the container templates below must see them)
#define VSTRUCT_BEGIN(T) T genv(Src& s, Tag<T>);
#define VF(f)
#define VFA(f)
#define VSTRUCT_END
#include "structs.inc"
#undef VSTRUCT_BEGIN
#undef VF
#undef VFA
#undef VSTRUCT_END
Tins::RSNInformation genv(Src& s, Tag<Tins::RSNInformation>);

template <class A, class B> inline std::pair<A, B> genv(Src& s, Tag<std::pair<A, B> >);
template <class T> inline std::vector<T> genv(Src& s, Tag<std::vector<T> >);
template <class OT, class P> inline Tins::PDUOption<OT, P> genv(Src& s, Tag<Tins::PDUOption<OT, P> >);

template <class A, class B> inline std::pair<A, B> genv(Src& s, Tag<std::pair<A, B> >) {
    A a = genv(s, Tag<A>());
    B b = genv(s, Tag<B>());
    return std::pair<A, B>(a, b);
}
template <class T> inline std::vector<T> genv(Src& s, Tag<std::vector<T> >) {
    size_t n = s.weighted({3, 4, 2, 1, 1});
    if (n == 4) n = 4 + s.range(0, 12);
    std::vector<T> v;
    for (size_t i = 0; i < n; ++i) v.push_back(genv(s, Tag<T>()));
    return v;
}
template <class OT, class P> inline Tins::PDUOption<OT, P> genv(Src& s, Tag<Tins::PDUOption<OT, P> >) {
    OT code = (OT)s.edgy(8);
    std::vector<uint8_t> d = s.bytes(gen_len(s, 255));
    return Tins::PDUOption<OT, P>(code, d.begin(), d.end());
}

#define VSTRUCT_BEGIN(T) inline T genv(Src& s, Tag<T>) { T v = T();
#define VF(f) v.f = genv(s, Tag<typename std::decay<decltype(v.f)>::type>());
#define VFA(f) { std::vector<uint8_t> _b = s.bytes(sizeof v.f); memcpy(v.f, _b.data(), sizeof v.f); }
#define VSTRUCT_END return v; }
#include "structs.inc"
#undef VSTRUCT_BEGIN
#undef VF
#undef VFA
#undef VSTRUCT_END

inline Tins::RSNInformation genv(Src& s, Tag<Tins::RSNInformation>) {
    static const Tins::RSNInformation::CypherSuites CS[] = {Tins::RSNInformation::WEP_40, Tins::RSNInformation::TKIP, Tins::RSNInformation::CCMP,
                                                            Tins::RSNInformation::WEP_104};
    static const Tins::RSNInformation::AKMSuites AK[] = {Tins::RSNInformation::EAP, Tins::RSNInformation::PSK};
    Tins::RSNInformation r;
    r.group_suite(CS[s.pick(4)]);
    r.version((uint16_t)s.edgy(16));
    r.capabilities((uint16_t)s.edgy(16));
    size_t np = s.range(0, 4), na = s.range(0, 3);
    for (size_t i = 0; i < np; ++i) r.add_pairwise_cypher(CS[s.pick(4)]);
    for (size_t i = 0; i < na; ++i) r.add_akm_cypher(AK[s.pick(2)]);
    return r;
}
// ---- the generated table ------------------------------------------------------------------------------
#define VS(C, K, NAME, GETTER, T) { sc.kind = K; sc.cls = #C; sc.name = #NAME; sc.getter = #GETTER; sc.threw.clear(); sc.value.clear(); \
        sc.applied = sc.allows(K); if (sc.applied) { typedef std::decay<T>::type VT; VT v = genv(sc.s, Tag<VT>()); sc.value = rstr(v); \
        try { p.NAME(v); } catch (const Tins::exception_base& e) { sc.threw = demangled(typeid(e)); } \
        catch (const Tins::value_too_large&) { sc.threw = "Tins::value_too_large"; } } }
#define VSP(C, K, NAME, GETTER, N) { sc.kind = K; sc.cls = #C; sc.name = #NAME; sc.getter = #GETTER; sc.threw.clear(); sc.value.clear(); \
        sc.applied = sc.allows(K); if (sc.applied) { std::vector<uint8_t> v = sc.s.bytes(N); sc.value = rstr(v); p.NAME(v.data()); } }

#include "setters_gen.inc"

#undef VS
#undef VSP

}  // namespace verif
#endif
