// Canonical text rendering of every value type a libtins getter can return.
// Used by view.h (C01 touches every accessor; C03/C04/C12/C15 compare rendered values).
#ifndef VERIF_GENLIB_RENDER_H
#define VERIF_GENLIB_RENDER_H

#include <tins/tins.h>
#include <tins/loopback.h>
#include <tins/pktap.h>
#include <tins/ppi.h>
#include <tins/ipsec.h>
#include <tins/mpls.h>
#include <tins/vxlan.h>
#include <tins/rtp.h>
#include <tins/stp.h>
#include <tins/pppoe.h>
#include <tins/dhcpv6.h>
#include <tins/icmpv6.h>
#include <tins/icmp_extension.h>
#include <tins/rsn_information.h>
#include <tins/pdu_cacher.h>
#include <ostream>
#include <sstream>
#include <string>
#include <vector>
#include <utility>
#include <type_traits>

namespace verif {

typedef std::ostream OS;

inline void rhex(OS& os, const uint8_t* p, size_t n) {
    static const char* H = "0123456789abcdef";
    for (size_t i = 0; i < n; ++i) os << H[p[i] >> 4] << H[p[i] & 15];
}

// ---- scalars
template <class T>
inline typename std::enable_if<std::is_integral<T>::value || std::is_enum<T>::value>::type r(OS& os, const T& v) {
    os << (long long)v;
}
inline void r(OS& os, const uint64_t& v) { os << (unsigned long long)v; }
inline void r(OS& os, const bool& v) { os << (v ? 1 : 0); }
inline void r(OS& os, const float& v) { os << v; }
template <size_t n> inline void r(OS& os, const Tins::small_uint<n>& v) { os << (unsigned long long)(typename Tins::small_uint<n>::repr_type)v; }
template <size_t n> inline void r(OS& os, const Tins::HWAddress<n>& v) { rhex(os, v.begin(), n); }
inline void r(OS& os, const Tins::IPv4Address& v) { os << v.to_string(); }
inline void r(OS& os, const Tins::IPv6Address& v) { rhex(os, v.begin(), 16); }
inline void r(OS& os, const std::string& v) { os << '"'; rhex(os, (const uint8_t*)v.data(), v.size()); os << '"'; }
inline void r(OS& os, const std::vector<uint8_t>& v) { os << "x'"; rhex(os, v.data(), v.size()); os << "'"; }

// ---- structs (declared before the generic containers so that they are found from the templates)
void r(OS& os, const Tins::IP::option_identifier& v);
void r(OS& os, const Tins::IP::security_type& v);
void r(OS& os, const Tins::IP::generic_route_option_type& v);
void r(OS& os, const Tins::TCP::AltChecksums& v);
void r(OS& os, const Tins::ICMPExtension& v);
void r(OS& os, const Tins::ICMPExtensionsStructure& v);
void r(OS& os, const Tins::RSNInformation& v);
void r(OS& os, const Tins::DNS::query& v);
void r(OS& os, const Tins::DNS::resource& v);
void r(OS& os, const Tins::DHCPv6::ia_na_type& v);
void r(OS& os, const Tins::DHCPv6::ia_ta_type& v);
void r(OS& os, const Tins::DHCPv6::ia_address_type& v);
void r(OS& os, const Tins::DHCPv6::authentication_type& v);
void r(OS& os, const Tins::DHCPv6::status_code_type& v);
void r(OS& os, const Tins::DHCPv6::vendor_info_type& v);
void r(OS& os, const Tins::DHCPv6::user_class_type& v);
void r(OS& os, const Tins::DHCPv6::vendor_class_type& v);
void r(OS& os, const Tins::DHCPv6::duid_type& v);
void r(OS& os, const Tins::Dot11ManagementFrame::capability_information& v);
void r(OS& os, const Tins::Dot11ManagementFrame::fh_params_set& v);
void r(OS& os, const Tins::Dot11ManagementFrame::cf_params_set& v);
void r(OS& os, const Tins::Dot11ManagementFrame::ibss_dfs_params& v);
void r(OS& os, const Tins::Dot11ManagementFrame::country_params& v);
void r(OS& os, const Tins::Dot11ManagementFrame::fh_pattern_type& v);
void r(OS& os, const Tins::Dot11ManagementFrame::channel_switch_type& v);
void r(OS& os, const Tins::Dot11ManagementFrame::quiet_type& v);
void r(OS& os, const Tins::Dot11ManagementFrame::bss_load_type& v);
void r(OS& os, const Tins::Dot11ManagementFrame::tim_type& v);
void r(OS& os, const Tins::Dot11ManagementFrame::vendor_specific_type& v);
void r(OS& os, const Tins::ICMPv6::addr_list_type& v);
void r(OS& os, const Tins::ICMPv6::naack_type& v);
void r(OS& os, const Tins::ICMPv6::lladdr_type& v);
void r(OS& os, const Tins::ICMPv6::prefix_info_type& v);
void r(OS& os, const Tins::ICMPv6::rsa_sign_type& v);
void r(OS& os, const Tins::ICMPv6::ip_prefix_type& v);
void r(OS& os, const Tins::ICMPv6::map_type& v);
void r(OS& os, const Tins::ICMPv6::route_info_type& v);
void r(OS& os, const Tins::ICMPv6::recursive_dns_type& v);
void r(OS& os, const Tins::ICMPv6::handover_key_req_type& v);
void r(OS& os, const Tins::ICMPv6::handover_key_reply_type& v);
void r(OS& os, const Tins::ICMPv6::handover_assist_info_type& v);
void r(OS& os, const Tins::ICMPv6::mobile_node_id_type& v);
void r(OS& os, const Tins::ICMPv6::dns_search_list_type& v);
void r(OS& os, const Tins::ICMPv6::timestamp_type& v);
void r(OS& os, const Tins::ICMPv6::shortcut_limit_type& v);
void r(OS& os, const Tins::ICMPv6::new_advert_interval_type& v);
void r(OS& os, const Tins::ICMPv6::multicast_address_record& v);
void r(OS& os, const Tins::PPPoE::vendor_spec_type& v);
void r(OS& os, const Tins::RadioTap::mcs_type& v);
void r(OS& os, const Tins::RadioTap::xchannel_type& v);
void r(OS& os, const Tins::STP::bpdu_id_type& v);

// ---- containers
template <class A, class B> inline void r(OS& os, const std::pair<A, B>& v);
template <class T> inline void r(OS& os, const std::vector<T>& v);
template <class OT, class P> inline void r(OS& os, const Tins::PDUOption<OT, P>& o);

template <class A, class B> inline void r(OS& os, const std::pair<A, B>& v) { os << "("; r(os, v.first); os << ","; r(os, v.second); os << ")"; }
template <class T> inline void r(OS& os, const std::vector<T>& v) {
    os << "[";
    for (size_t i = 0; i < v.size(); ++i) { if (i) os << ","; r(os, v[i]); }
    os << "]";
}
// raw option: (code, advertised length field, data bytes)
template <class OT, class P> inline void r(OS& os, const Tins::PDUOption<OT, P>& o) {
    os << "opt(";
    r(os, o.option());
    os << "," << o.length_field() << ",";
    rhex(os, o.data_ptr(), o.data_size());
    os << ")";
}

#define VSTRUCT_BEGIN(T) inline void r(OS& os, const T& v) { os << "{";
#define VF(f) os << #f "="; r(os, v.f); os << ";";
#define VFA(f) os << #f "="; rhex(os, (const uint8_t*)v.f, sizeof v.f); os << ";";
#define VSTRUCT_END os << "}"; }
#include "structs.inc"
#undef VSTRUCT_BEGIN
#undef VF
#undef VFA
#undef VSTRUCT_END

inline void r(OS& os, const Tins::IP::option_identifier& v) { os << (int)v.copied << ":" << (int)v.op_class << ":" << (int)v.number; }
inline void r(OS& os, const Tins::TCP::AltChecksums& v) { os << (int)v; }
inline void r(OS& os, const Tins::ICMPExtension& v) {
    os << "ext(" << (int)v.extension_class() << "," << (int)v.extension_type() << ",";
    r(os, v.payload());
    os << ")";
}
inline void r(OS& os, const Tins::ICMPExtensionsStructure& v) {
    os << "exts{v=" << (int)v.version() << ";res=" << (int)v.reserved() << ";";
    r(os, v.extensions());
    os << "}";
}
inline void r(OS& os, const Tins::RSNInformation& v) {
    os << "rsn{group=" << (long long)v.group_suite() << ";version=" << v.version() << ";cap=" << v.capabilities() << ";pairwise=";
    r(os, v.pairwise_cyphers());
    os << ";akm=";
    r(os, v.akm_cyphers());
    os << "}";
}
inline void r(OS& os, const Tins::DNS::query& v) {
    os << "q{"; r(os, v.dname()); os << "," << (int)v.query_type() << "," << (int)v.query_class() << "}";
}
inline void r(OS& os, const Tins::DNS::resource& v) {
    os << "rr{"; r(os, v.dname()); os << ","; r(os, v.data());
    os << "," << v.query_type() << "," << v.query_class() << "," << v.ttl() << "," << v.preference() << "}";
}
inline void r(OS& os, const Tins::Dot11ManagementFrame::capability_information& v) {
    os << "cap{" << v.ess() << v.ibss() << v.cf_poll() << v.cf_poll_req() << v.privacy() << v.short_preamble() << v.pbcc() << v.channel_agility()
       << v.spectrum_mgmt() << v.qos() << v.sst() << v.apsd() << v.radio_measurement() << v.dsss_ofdm() << v.delayed_block_ack() << v.immediate_block_ack() << "}";
}

template <class T>
inline std::string rstr(const T& v) {
    std::ostringstream os;
    r(os, v);
    return os.str();
}

} // namespace verif
#endif
