// Packet builder: grammar-based generator of API programs (layer stack, setters, option programs).
// Shared by C02 (serialisation), C04 (shadow model is separate), C05, C12, C14, C17.
#ifndef VERIF_GENLIB_BUILDER_H
#define VERIF_GENLIB_BUILDER_H

#include "setters.h"
#include "entries.h"
#include <memory>

namespace verif {

struct BuildOpts {
    bool allow_wrong_stackings = true;   // stacks the API permits but no protocol defines
    bool allow_option_programs = true;
    const char* setter_kinds = "SDTO";   // which setter kinds may be applied (S scalar, D derived, T tag, O typed option)
    unsigned max_setters_per_layer = 4;
    size_t max_payload = 256;
    bool spoofed_option_lengths = false; // raw options whose advertised length field differs from the data size (documented PDUOption ctor)
    bool radiotap_setters = true;        // (was off until finding #26 - RadioTapWriter::update_paddings - was repaired)
};

struct Built {
    std::unique_ptr<Tins::PDU> pdu;
    std::vector<std::string> program;   // human readable API program
    std::string text() const {
        std::string t;
        for (const std::string& p : program) { if (!t.empty()) t += "; "; t += p; }
        return t;
    }
};

// default-constructed instance of the idx-th concrete class
struct LayerMaker {
    template <class T> static Tins::PDU* mk(Src&, size_t, T*) { return new T(); }
    static Tins::PDU* mk(Src& s, size_t mp, Tins::RawPDU*) {
        std::vector<uint8_t> b = s.bytes(gen_len(s, mp));
        return new Tins::RawPDU(b.begin(), b.end());
    }
};
inline Tins::PDU* make_layer(unsigned idx, Src& s, size_t max_payload, std::string* name) {
    unsigned i = 0;
#define X(C) if (i++ == idx) { if (name) *name = #C; return LayerMaker::mk(s, max_payload, (Tins::C*)nullptr); }
    VERIF_ENTRY_CLASSES(X)
#undef X
    if (name) *name = "RawPDU";
    return LayerMaker::mk(s, max_payload, (Tins::RawPDU*)nullptr);
}
inline unsigned n_layer_classes() {
    unsigned n = 0;
#define X(C) ++n;
    VERIF_ENTRY_CLASSES(X)
#undef X
    return n;
}

// ICMP / ICMPv6 layers with a meaningful message type (uniform type bytes almost never select the type-specific bodies)
inline Tins::ICMPv6* gen_icmpv6(Src& s) {
    using namespace Tins;
    static const uint8_t T[] = {1, 2, 3, 4, 128, 129, 130, 131, 132, 133, 134, 135, 136, 137, 143, 143, 130, 1, 3, 3};
    ICMPv6* p = new ICMPv6((ICMPv6::Types)T[s.pick(sizeof T)]);
    try {
        if (p->type() == ICMPv6::MLD2_REPORT && s.chance(70)) p->multicast_address_records(genv(s, Tag<ICMPv6::multicast_address_records_list>()));
        if (p->type() == ICMPv6::MGM_QUERY && s.chance(50)) { p->use_mldv2(true); p->sources(genv(s, Tag<ICMPv6::sources_list>())); }
    } catch (const exception_base&) {}
    return p;
}
inline Tins::ICMP* gen_icmp(Src& s) {
    using namespace Tins;
    static const uint8_t T[] = {0, 3, 4, 5, 8, 11, 12, 13, 14, 15, 16, 17, 18, 3, 11, 11, 12};
    return new ICMP((ICMP::Flags)T[s.pick(sizeof T)]);
}

// PDUCacher<X> around a copy of the packet (X = the root's class); null for a class outside the table
inline Tins::PDU* make_cacher_of(const Tins::PDU& pdu) {
#define X(C) if (typeid(pdu) == typeid(Tins::C)) return new Tins::PDUCacher<Tins::C>(static_cast<const Tins::C&>(pdu));
    VERIF_ENTRY_CLASSES(X)
#undef X
    return nullptr;
}

inline Tins::RawPDU* gen_raw(Src& s, size_t max_payload, bool nonempty = false) {
    size_t n = gen_len(s, max_payload);
    if (nonempty && n == 0) n = 1;
    std::vector<uint8_t> b = s.bytes(n);
    return new Tins::RawPDU(b.begin(), b.end());
}

// raw option programs on option-bearing layers: add raw / remove / re-add
// advertised length for a raw option: normally the data size; with `spoof` sometimes a different value
inline uint16_t adv_len(Src& s, size_t data_size, bool spoof, unsigned maxv) {
    if (!spoof || !s.chance(20)) return (uint16_t)data_size;
    uint64_t v = s.chance(50) ? data_size + 1 + s.range(0, 3) : (data_size ? data_size - 1 - s.range(0, data_size - 1 > 3 ? 3 : data_size - 1) : 1);
    return (uint16_t)(v > maxv ? maxv : v);
}

// RFC 4884 extension structure whose Internet checksum computes to 0x0000: the last two octets of the last object's payload are
// chosen so that the one's-complement sum of the structure is 0xffff (the corner where "no checksum" conventions bite)
inline void icmp_ext_checksum_zero(Tins::ICMPExtensionsStructure& st) {
    using namespace Tins;
    ICMPExtensionsStructure::extensions_type objs = st.extensions();
    if (objs.empty()) return;
    ICMPExtension::payload_type pl = objs.back().payload();
    if (pl.size() < 2 || (pl.size() & 1)) return;
    uint32_t sum = ((uint32_t)st.version() << 12) | st.reserved();
    for (size_t i = 0; i < objs.size(); ++i) {
        const ICMPExtension::payload_type& p = objs[i].payload();
        sum += (uint32_t)(p.size() + 4);
        sum += ((uint32_t)objs[i].extension_class() << 8) | objs[i].extension_type();
        for (size_t k = 0; k < p.size(); k += 2) sum += ((uint32_t)p[k] << 8) | (k + 1 < p.size() ? p[k + 1] : 0);
    }
    uint32_t w = ((uint32_t)pl[pl.size() - 2] << 8) | pl[pl.size() - 1];
    uint32_t rest = (sum - w) % 65535;              // everything but the word we are free to choose
    uint32_t nw = (65535 - rest) % 65535;           // rest + nw = 0 (mod 65535)
    if (nw == 0) nw = 65535;
    pl[pl.size() - 2] = (uint8_t)(nw >> 8);
    pl[pl.size() - 1] = (uint8_t)nw;
    // rebuild the list with the adjusted last object
    ICMPExtensionsStructure fresh;
    fresh.version(st.version());
    fresh.reserved(st.reserved());
    for (size_t i = 0; i + 1 < objs.size(); ++i) fresh.add_extension(objs[i]);
    ICMPExtension last(objs.back().extension_class(), objs.back().extension_type());
    last.payload(pl);
    fresh.add_extension(last);
    st = fresh;
}

inline void option_program(Tins::PDU& layer, Src& s, std::vector<std::string>& prog, bool spoof = false) {
    using namespace Tins;
    unsigned steps = (unsigned)s.weighted({4, 3, 2, 1, 1});
    for (unsigned i = 0; i < steps; ++i) {
        std::ostringstream d;
        bool remove = s.chance(25);
        try {
            if (TCP* t = dynamic_cast<TCP*>(&layer)) {
                uint8_t code = (uint8_t)s.edgy(8);
                if (remove) { bool r = t->remove_option((TCP::OptionTypes)code); d << "TCP::remove_option(" << (int)code << ")=" << r; }
                else { std::vector<uint8_t> b = s.bytes(gen_len(s, 38)); { TCP::option o_((TCP::OptionTypes)code, adv_len(s, b.size(), spoof, 255), b.begin(), b.end()); if (b.size() & 1) t->add_option(o_); else t->add_option(std::move(o_)); } d << "TCP::add_option(" << (int)code << "," << hex(b) << ")"; }
            } else if (IP* ip = dynamic_cast<IP*>(&layer)) {
                uint8_t raw = (uint8_t)s.edgy(8);
                IP::option_identifier id((IP::OptionNumber)(raw & 0x1f), (IP::OptionClass)((raw >> 5) & 3), (small_uint<1>)(raw >> 7));
                if (remove) { bool r = ip->remove_option(id); d << "IP::remove_option(" << (int)raw << ")=" << r; }
                else { std::vector<uint8_t> b = s.bytes(gen_len(s, 38)); { IP::option o_(id, adv_len(s, b.size(), spoof, 255), b.begin(), b.end()); if (b.size() & 1) ip->add_option(o_); else ip->add_option(std::move(o_)); } d << "IP::add_option(" << (int)raw << "," << hex(b) << ")"; }
            } else if (IPv6* v6 = dynamic_cast<IPv6*>(&layer)) {
                static const uint8_t EH[] = {0, 43, 44, 60, 51, 50, 135, 59, 6, 17};
                uint8_t code = s.chance(80) ? EH[s.pick(sizeof EH)] : (uint8_t)s.edgy(8);
                std::vector<uint8_t> b = s.bytes(gen_len(s, 255));
                if (spoof && !b.empty() && b[0] >= 0xf0) {
                    // (size-accounting checks only) a body the one-octet Hdr Ext Len cannot express: 2046 octets is the most the
                    // wire format carries; the API accepts more and size() / serialize() must still agree with each other
                    static const uint16_t BIG[8] = {2038, 2046, 2047, 2048, 2054, 2055, 3000, 4094};
                    size_t want = BIG[b[0] & 7];
                    size_t had = b.size();
                    b.resize(want);
                    for (size_t k = had; k < want; ++k) b[k] = (uint8_t)(k * 3 + had);
                }
                { IPv6::ext_header o_(code, b.begin(), b.end()); if (b.size() & 1) v6->add_header(o_); else v6->add_header(std::move(o_)); }
                d << "IPv6::add_header(" << (int)code << "," << (b.size() > 300 ? std::to_string(b.size()) + " octets" : hex(b)) << ")";
            } else if (DHCP* dh = dynamic_cast<DHCP*>(&layer)) {
                uint8_t code = (uint8_t)s.edgy(8);
                if (remove) { bool r = dh->remove_option((DHCP::OptionTypes)code); d << "DHCP::remove_option(" << (int)code << ")=" << r; }
                else { std::vector<uint8_t> b = s.bytes(gen_len(s, 255)); { DHCP::option o_(code, adv_len(s, b.size(), spoof, 255), b.begin(), b.end()); if (b.size() & 1) dh->add_option(o_); else dh->add_option(std::move(o_)); } d << "DHCP::add_option(" << (int)code << "," << hex(b) << ")"; }
            } else if (DHCPv6* d6 = dynamic_cast<DHCPv6*>(&layer)) {
                uint16_t code = (uint16_t)s.edgy(16);
                if (remove) { bool r = d6->remove_option((DHCPv6::OptionTypes)code); d << "DHCPv6::remove_option(" << code << ")=" << r; }
                else { std::vector<uint8_t> b = s.bytes(gen_len(s, 300)); { DHCPv6::option o_(code, adv_len(s, b.size(), spoof, 65535), b.begin(), b.end()); if (b.size() & 1) d6->add_option(o_); else d6->add_option(std::move(o_)); } d << "DHCPv6::add_option(" << code << "," << hex(b) << ")"; }
            } else if (dynamic_cast<ICMPv6*>(&layer) && (static_cast<ICMPv6&>(layer).type() == ICMPv6::DEST_UNREACHABLE || static_cast<ICMPv6&>(layer).type() == ICMPv6::TIME_EXCEEDED) && !remove) {
                // the two ICMPv6 errors that carry RFC 4884 extension objects instead of neighbour-discovery options
                ICMPv6* e6 = static_cast<ICMPv6*>(&layer);
                std::vector<uint8_t> b = s.bytes(gen_len(s, 64));
                ICMPExtension ext((uint8_t)s.edgy(8), (uint8_t)s.edgy(8));
                if (!b.empty()) ext.payload(b);
                e6->extensions().add_extension(ext);
                d << "ICMPv6::extensions().add_extension(" << (int)ext.extension_class() << "," << (int)ext.extension_type() << "," << hex(b) << ")";
                if ((b.size() & 3) == 2) { icmp_ext_checksum_zero(e6->extensions()); d << " [structure checksum forced to 0]"; }
            } else if (ICMPv6* i6 = dynamic_cast<ICMPv6*>(&layer)) {
                uint8_t code = (uint8_t)s.edgy(8);
                if (remove) { bool r = i6->remove_option((ICMPv6::OptionTypes)code); d << "ICMPv6::remove_option(" << (int)code << ")=" << r; }
                else { std::vector<uint8_t> b = s.bytes(gen_len(s, 255)); { ICMPv6::option o_(code, adv_len(s, b.size(), spoof, 255), b.begin(), b.end()); if (b.size() & 1) i6->add_option(o_); else i6->add_option(std::move(o_)); } d << "ICMPv6::add_option(" << (int)code << "," << hex(b) << ")"; }
            } else if (Dot11* d11 = dynamic_cast<Dot11*>(&layer)) {
                uint8_t code = (uint8_t)s.edgy(8);
                if (remove) { bool r = d11->remove_option((Dot11::OptionTypes)code); d << "Dot11::remove_option(" << (int)code << ")=" << r; }
                else { std::vector<uint8_t> b = s.bytes(gen_len(s, 255)); { Dot11::option o_(code, adv_len(s, b.size(), spoof, 255), b.begin(), b.end()); if (b.size() & 1) d11->add_option(o_); else d11->add_option(std::move(o_)); } d << "Dot11::add_option(" << (int)code << "," << hex(b) << ")"; }
            } else if (PPPoE* pe = dynamic_cast<PPPoE*>(&layer)) {
                uint16_t code = (uint16_t)s.edgy(16);
                std::vector<uint8_t> b = s.bytes(gen_len(s, 300));
                { PPPoE::tag o_((PPPoE::TagTypes)code, adv_len(s, b.size(), spoof, 65535), b.begin(), b.end()); if (b.size() & 1) pe->add_tag(o_); else pe->add_tag(std::move(o_)); }
                d << "PPPoE::add_tag(" << code << "," << hex(b) << ")";
            } else if (RTP* rtp = dynamic_cast<RTP*>(&layer)) {
                uint32_t v = (uint32_t)s.edgy(32);
                switch (s.range(0, 3)) {
                    case 0:
                        try { rtp->add_csrc_id(v); d << "RTP::add_csrc_id(" << v << ")"; }
                        catch (const std::logic_error&) { d << "RTP::add_csrc_id(" << v << ") refused at capacity"; }
                        break;
                    case 1:
                        if (spoof && (v & 0xff) == 0xfe) {
                            // fill a list up to (and one past) what its count field can say: the add that does not fit must be
                            // refused with the documented logic_error and leave the object as it was
                            const bool ext = (v & 0x100) != 0;
                            const size_t cap = ext ? 65535 : 15, have = ext ? rtp->extension_length() : (size_t)rtp->csrc_count();
                            const size_t target = cap - 1 + ((v >> 9) & 3);          // cap-1, cap, cap+1, cap+2 elements wanted
                            size_t added = 0, refused = 0;
                            for (size_t k = have; k < target; ++k) {
                                try { if (ext) rtp->add_extension_data((uint32_t)k); else rtp->add_csrc_id((uint32_t)k); ++added; }
                                catch (const std::logic_error&) { ++refused; }
                            }
                            d << "RTP::" << (ext ? "add_extension_data" : "add_csrc_id") << " x" << added << " (" << refused << " refused at capacity)";
                            break;
                        }
                        try { rtp->add_extension_data(v); d << "RTP::add_extension_data(" << v << ")"; }
                        catch (const std::logic_error&) { d << "RTP::add_extension_data(" << v << ") refused at capacity"; }
                        break;
                    case 2: d << "RTP::remove_csrc_id(" << v << ")=" << rtp->remove_csrc_id(v); break;
                    default: d << "RTP::remove_extension_data(" << v << ")=" << rtp->remove_extension_data(v); break;
                }
            } else if (ICMP* ic = dynamic_cast<ICMP*>(&layer)) {
                std::vector<uint8_t> b = s.bytes(gen_len(s, 64));
                ICMPExtension ext((uint8_t)s.edgy(8), (uint8_t)s.edgy(8));
                if (!b.empty()) ext.payload(b);   // (an object without payload is what this branch used to add: kept for b.empty())
                ic->extensions().add_extension(ext);
                d << "ICMP::extensions().add_extension(" << (int)ext.extension_class() << "," << (int)ext.extension_type() << "," << hex(b) << ")";
                if ((b.size() & 3) == 2) { icmp_ext_checksum_zero(ic->extensions()); d << " [structure checksum forced to 0]"; }
            } else {
                return;
            }
        } catch (const exception_base& e) {
            d << " threw " << demangled(typeid(e));
        }
        prog.push_back(d.str());
    }
}

// IPv4 and TCP headers carry at most 40 bytes of options (4-bit header length): a limit of the wire format.
// The API accepts more; such packets are not representable, so the builder removes options until the header fits.
inline void enforce_capacity(Tins::PDU& layer, Ctx& ctx, std::vector<std::string>& prog) {
    using namespace Tins;
    if (TCP* t = dynamic_cast<TCP*>(&layer)) {
        bool hit = false;
        while (t->header_size() > 60 && !t->options().empty()) {
            uint8_t code = t->options().back().option();
            if (!t->remove_option((TCP::OptionTypes)code)) break;
            prog.push_back("TCP::remove_option(" + std::to_string(code) + ") [40-byte option capacity]");
            hit = true;
        }
        if (hit) ctx.excluded("tcp-options-over-40-bytes");
    } else if (IP* ip = dynamic_cast<IP*>(&layer)) {
        bool hit = false;
        while (ip->header_size() > 60 && !ip->options().empty()) {
            IP::option_identifier id = ip->options().back().option();
            if (!ip->remove_option(id)) break;
            prog.push_back("IP::remove_option(last) [40-byte option capacity]");
            hit = true;
        }
        if (hit) ctx.excluded("ip-options-over-40-bytes");
    }
}

inline void apply_setters(Tins::PDU& layer, Src& s, const BuildOpts& o, std::vector<std::string>& prog) {
    unsigned n = n_setters(layer);
    if (!n) return;
    if (!o.radiotap_setters && dynamic_cast<Tins::RadioTap*>(&layer)) return;
    unsigned k = (unsigned)s.range(0, o.max_setters_per_layer);
    for (unsigned i = 0; i < k; ++i) {
        SetterCtx sc(s, o.setter_kinds);
        if (apply_setter(layer, (unsigned)s.pick(n), sc) && sc.applied) prog.push_back(sc.describe());
    }
}

// append `inner` at the bottom of `top`
inline void push_inner(std::unique_ptr<Tins::PDU>& top, Tins::PDU* inner) {
    if (!top) { top.reset(inner); return; }
    Tins::PDU* last = top.get();
    while (last->inner_pdu()) last = last->inner_pdu();
    last->inner_pdu(inner);
}

inline Built build_packet(Src& s, Ctx& ctx, const BuildOpts& o = BuildOpts()) {
    using namespace Tins;
    Built b;
    std::vector<std::string> names;
    auto add = [&](PDU* p, const char* n) { push_inner(b.pdu, p); names.push_back(n); };
    bool wrong = o.allow_wrong_stackings && s.chance(15);
    if (wrong) {
        unsigned n = 1 + (unsigned)s.range(0, 4);
        for (unsigned i = 0; i < n; ++i) {
            std::string nm;
            PDU* p = make_layer((unsigned)s.pick(n_layer_classes()), s, o.max_payload, &nm);
            push_inner(b.pdu, p);
            names.push_back(nm);
        }
        ctx.label("wrong-stacking");
    } else {
        // link
        bool dot11 = false, closed = false;
        switch (s.weighted({5, 2, 1, 1, 2, 1, 2})) {
            case 0: add(new EthernetII(), "EthernetII"); break;
            case 1: add(new Dot3(), "Dot3"); add(new LLC(), "LLC"); if (s.boolean()) add(new SNAP(), "SNAP"); else if (s.boolean()) { add(new STP(), "STP"); closed = true; } break;
            case 2: add(new SLL(), "SLL"); break;
            case 3: add(new Loopback(), "Loopback"); break;
            case 4: {
                if (s.chance(60)) add(new RadioTap(), "RadioTap");
                if (s.boolean()) add(new Dot11Data(), "Dot11Data"); else add(new Dot11QoSData(), "Dot11QoSData");
                add(new SNAP(), "SNAP");
                dot11 = true;
                break;
            }
            case 5: {
                if (s.chance(60)) add(new RadioTap(), "RadioTap");
                std::string nm;
                // management / control frames: indices of the Dot11 block in VERIF_ENTRY_CLASSES
                unsigned base = 0, cnt = 0, i = 0;
#define X(C) { if (std::string(#C) == "Dot11") base = i; if (std::string(#C).compare(0, 5, "Dot11") == 0) ++cnt; ++i; }
                VERIF_ENTRY_CLASSES(X)
#undef X
                PDU* p = make_layer(base + (unsigned)s.pick(cnt), s, o.max_payload, &nm);
                push_inner(b.pdu, p);
                names.push_back(nm);
                closed = !s.chance(20);
                break;
            }
            default: break;  // no link layer
        }
        (void)dot11;
        if (!closed) {
            // vlan / mpls / pppoe
            unsigned nv = (unsigned)s.weighted({6, 2, 1});
            for (unsigned i = 0; i < nv; ++i) add(new Dot1Q(), "Dot1Q");
            if (s.chance(10)) { unsigned nm = 1 + (unsigned)s.range(0, 2); for (unsigned i = 0; i < nm; ++i) add(new MPLS(), "MPLS"); }
            else if (s.chance(8)) add(new PPPoE(), "PPPoE");
            // network
            unsigned net = (unsigned)s.weighted({8, 5, 1, 1, 1, 1, 1, 1, 1, 1});
            bool v6 = false, has_net = true;
            switch (net) {
                case 0: add(new IP("10.1.2.3", "10.3.2.1"), "IP"); break;
                case 1: add(new IPv6("fe80::1", "fe80::2"), "IPv6"); v6 = true; break;
                case 2: add(new ARP(), "ARP"); has_net = false; closed = true; break;
                case 3: add(new IP("10.1.2.3", "10.3.2.1"), "IP"); add(new IP("192.168.0.1", "192.168.0.2"), "IP"); break;
                case 4: add(new IP("10.1.2.3", "10.3.2.1"), "IP"); add(new IPv6("fe80::1", "fe80::2"), "IPv6"); v6 = true; break;
                case 5: add(new IPv6("fe80::1", "fe80::2"), "IPv6"); add(new IP("10.1.2.3", "10.3.2.1"), "IP"); break;
                case 6: add(new IP("10.1.2.3", "10.3.2.1"), "IP"); add(new IPSecAH(), "IPSecAH"); break;
                case 7: add(new IP("10.1.2.3", "10.3.2.1"), "IP"); add(new IPSecESP(), "IPSecESP"); add(gen_raw(s, o.max_payload), "RawPDU"); closed = true; break;
                case 8: if (s.boolean()) add(new RSNEAPOL(), "RSNEAPOL"); else add(new RC4EAPOL(), "RC4EAPOL"); has_net = false; closed = true; break;
                default: has_net = false; break;
            }
            if (!closed) {
                unsigned tr = (unsigned)s.weighted({6, 6, 3, 3, 2});
                bool udp = false;
                switch (tr) {
                    case 0: add(new TCP((uint16_t)s.edgy(16), (uint16_t)s.edgy(16)), "TCP"); break;
                    case 1: add(new UDP((uint16_t)s.edgy(16), (uint16_t)s.edgy(16)), "UDP"); udp = true; break;
                    case 2: if (v6) add(gen_icmpv6(s), "ICMPv6"); else add(gen_icmp(s), "ICMP"); break;
                    case 3: if (v6 || !has_net) add(gen_icmpv6(s), "ICMPv6"); else add(gen_icmp(s), "ICMP"); break;
                    default: break;
                }
                unsigned app = (unsigned)s.weighted({8, 2, 2, 2, 1, 1, 1, 3});
                switch (app) {
                    case 0: add(gen_raw(s, o.max_payload), "RawPDU"); break;
                    case 1: if (udp) { add(new DNS(), "DNS"); break; }  // fallthrough to raw otherwise
                            add(gen_raw(s, o.max_payload), "RawPDU"); break;
                    case 2: add(new DHCP(), "DHCP"); break;
                    case 3: add(new DHCPv6(), "DHCPv6"); break;
                    case 4: add(new RTP(), "RTP"); add(gen_raw(s, o.max_payload), "RawPDU"); break;
                    case 5: {
                        // the tunnelled frame is a frame like any other: it may carry VLAN tags of its own (0, 1 or 2)
                        add(new VXLAN(), "VXLAN"); add(new EthernetII(), "EthernetII");
                        unsigned tags = (unsigned)s.weighted({5, 2, 2});
                        for (unsigned t = 0; t < tags; ++t) add(new Dot1Q(), "Dot1Q");
                        add(new IP("1.1.1.1", "2.2.2.2"), "IP"); add(new UDP(1, 2), "UDP"); add(gen_raw(s, o.max_payload), "RawPDU");
                        break;
                    }
                    case 6: add(new BootP(), "BootP"); break;
                    default: break;
                }
            }
        }
    }
    if (!b.pdu) add(gen_raw(s, o.max_payload), "RawPDU");
    {
        std::string st;
        for (const std::string& n : names) { if (!st.empty()) st += " / "; st += n; }
        b.program.push_back("stack " + st);
    }
    // setters and option programs on every layer
    for (PDU* p = b.pdu.get(); p; p = p->inner_pdu()) {
        if (s.chance(70)) apply_setters(*p, s, o, b.program);
        if (o.allow_option_programs && s.chance(50)) option_program(*p, s, b.program, o.spoofed_option_lengths);
        else if (o.allow_option_programs) {
            // the message types that carry RFC 4884 extension objects get their object program in any case
            const ICMP* ic = dynamic_cast<const ICMP*>(p);
            const ICMPv6* i6 = dynamic_cast<const ICMPv6*>(p);
            if ((ic && (ic->type() == ICMP::DEST_UNREACHABLE || ic->type() == ICMP::TIME_EXCEEDED || ic->type() == ICMP::PARAM_PROBLEM)) ||
                (i6 && (i6->type() == ICMPv6::DEST_UNREACHABLE || i6->type() == ICMPv6::TIME_EXCEEDED)))
                option_program(*p, s, b.program, o.spoofed_option_lengths);
        }
        enforce_capacity(*p, ctx, b.program);
    }
    // quoted datagram behind an RFC 4884 extension structure: sizes around the minimum (128) and around what the one-octet
    // length attribute can express (255 words of 4 / 8 octets); decided by the payload's own first octet (no further choice)
    for (PDU* p = b.pdu.get(); p; p = p->inner_pdu()) {
        ICMP* ic = dynamic_cast<ICMP*>(p);
        ICMPv6* i6 = dynamic_cast<ICMPv6*>(p);
        bool ext = ic ? ic->has_extensions() : (i6 ? i6->has_extensions() : false);
        RawPDU* raw = ext ? dynamic_cast<RawPDU*>(p->inner_pdu()) : nullptr;
        if (!raw || raw->payload().empty()) continue;
        unsigned sel = raw->payload()[0];
        if (sel >= 96) continue;
        static const uint16_t V4[6] = {128, 132, 1016, 1020, 1024, 127}, V6[6] = {128, 136, 2032, 2040, 2048, 127};
        size_t want = (ic ? V4 : V6)[sel % 6];
        RawPDU::payload_type pl = raw->payload();
        size_t had = pl.size();
        pl.resize(want);
        for (size_t i = had; i < want; ++i) pl[i] = (uint8_t)(i * 13 + sel);
        raw->payload(pl);
        b.program.push_back("quoted datagram resized to " + std::to_string(want) + " octets");
        ctx.label("rfc4884-boundary-size");
    }
    // an outermost IP with source 0.0.0.0 makes serialize() consult the host routing table (documented): excluded by construction
    if (IP* root = dynamic_cast<IP*>(b.pdu.get())) {
        if (root->src_addr() == IPv4Address((uint32_t)0)) {
            ctx.excluded("outermost-ip-src-0.0.0.0");
            root->src_addr(IPv4Address("10.9.8.7"));
            b.program.push_back("IP::src_addr(10.9.8.7) [routing-table exclusion]");
        }
    }
    return b;
}

}  // namespace verif
#endif
