// The "untrusted bytes" input domain shared by C01/C03: either raw [entry][placement][bytes], or STRUCTURE-AWARE:
// a packet made by the packet builder (any layer stack, typed options with arbitrary arguments) is serialised and
// then mutated at byte granularity with length-field-friendly edits (+-1..3, 0, 0xff, truncation, insertion).
#ifndef VERIF_GENLIB_PARSE_INPUT_H
#define VERIF_GENLIB_PARSE_INPUT_H

#include "parsed.h"
#include "builder.h"

namespace verif {

// returns the index into entries(); for raw mode an index >= entries().size() selects an auxiliary decoder (C01 only)
inline size_t gen_parse_input(Src& s, Ctx& ctx, size_t n_aux, unsigned& placement, std::vector<uint8_t>& data) {
    const std::vector<Entry>& E = entries();
    unsigned b0 = s.u8();
    if (b0 < 200) {
        size_t total = E.size() + n_aux;
        placement = s.u8() & 7;
        data = s.rest();
        if (data.size() > 65535) data.resize(65535);
        return b0 % total;
    }
    if (b0 >= 232) {
        // TYPED-DECODER mode: a layer of an option-bearing class carrying 1..3 raw options whose codes are drawn from
        // the small code range the typed getters decode and whose bodies are arbitrary bytes; serialised and parsed
        // back, so that every typed option decoder sees hostile option bodies inside an otherwise well-formed packet
        using namespace Tins;
        ctx.label("typed-decoder-input");
        placement = s.u8() & 7;
        std::unique_ptr<PDU> p;
        std::vector<std::string> scratch_prog;
        const char* cls = "RawPDU";
        unsigned nopt = 1 + (unsigned)s.range(0, 2);
        auto body = [&](size_t align8) -> std::vector<uint8_t> {
            size_t n = s.range(0, 40);
            if (align8) n = ((n + 2 + 7) / 8) * 8 - 2;  // ICMPv6 options are a multiple of 8 bytes including type+length
            std::vector<uint8_t> b = s.bytes(n);
            // the first octets of an option body are usually lengths / pad counts / flags: bias them to values around the body size
            for (size_t k = 0; k < 2 && k < b.size(); ++k) {
                if (!s.chance(45)) continue;
                unsigned c = (unsigned)s.range(0, 11);
                b[k] = c < 8 ? (uint8_t)c : (c == 11 ? 0xff : (uint8_t)(n >= 11 - c + 1 ? n - (11 - c) - 1 : 0));
            }
            return b;
        };
        try {
            bool raw_ready = false;
            switch (s.range(0, 7)) {
                case 0: { ICMPv6* q = new ICMPv6((ICMPv6::Types)(s.boolean() ? 134 : 135)); p.reset(q); cls = "ICMPv6";
                          for (unsigned i = 0; i < nopt; ++i) { std::vector<uint8_t> b = body(1); q->add_option(ICMPv6::option((uint8_t)s.range(0, 40), b.begin(), b.end())); } break; }
                case 1: { DHCPv6* q = new DHCPv6(); p.reset(q); cls = "DHCPv6";
                          for (unsigned i = 0; i < nopt; ++i) { std::vector<uint8_t> b = body(0); q->add_option(DHCPv6::option((uint16_t)s.range(0, 45), b.begin(), b.end())); } break; }
                case 2: { Dot11Beacon* q = new Dot11Beacon(); p.reset(q); cls = "Dot11Beacon";
                          for (unsigned i = 0; i < nopt; ++i) { std::vector<uint8_t> b = body(0); uint8_t c = s.chance(15) ? 221 : (uint8_t)s.range(0, 60); q->add_option(Dot11::option(c, b.begin(), b.end())); } break; }
                case 3: { TCP* q = new TCP(); p.reset(q); cls = "TCP";
                          for (unsigned i = 0; i < nopt; ++i) { std::vector<uint8_t> b = s.bytes(s.range(0, 12)); q->add_option(TCP::option((TCP::OptionTypes)s.range(0, 16), b.begin(), b.end())); } break; }
                case 4: { IP* q = new IP("1.2.3.4", "4.3.2.1"); p.reset(q); cls = "IP";
                          for (unsigned i = 0; i < nopt; ++i) { std::vector<uint8_t> b = s.bytes(s.range(0, 12)); q->add_option(IP::option(IP::option_identifier((uint8_t)s.u8()), b.begin(), b.end())); } break; }
                case 5: { DHCP* q = new DHCP(); p.reset(q); cls = "DHCP";
                          for (unsigned i = 0; i < nopt; ++i) { std::vector<uint8_t> b = body(0); q->add_option(DHCP::option((uint8_t)s.range(1, 82), b.begin(), b.end())); } break; }
                case 7: {
                    // IPv6 + hop-by-hop options header written by hand: TLV walks (Pad1, PadN, Jumbo Payload, Router Alert, unknown
                    // types, lengths that overrun the header), a payload length field of 0 (jumbogram rule) / exact / off by one,
                    // an option that ends exactly where the header ends, and a buffer that stops a few octets early
                    cls = "IPv6";
                    std::vector<uint8_t> h(40, 0);
                    h[0] = 0x60; h[6] = 0; h[7] = 64; h[8] = 0xfe; h[9] = 0x80; h[23] = 1; h[24] = 0xfe; h[25] = 0x80; h[39] = 2;
                    unsigned L = (unsigned)s.range(0, 2);
                    size_t extsz = (L + 1) * 8;
                    std::vector<uint8_t> ext(extsz, 0);
                    static const uint8_t NH[6] = {59, 17, 6, 58, 0, 43};
                    ext[0] = NH[s.pick(6)];
                    ext[1] = (uint8_t)(s.chance(12) ? L + 1 : L);
                    size_t pos = 2;
                    bool jumbo = false;
                    while (pos < extsz) {
                        size_t room = extsz - pos;
                        unsigned kind = (unsigned)s.range(0, 6);
                        if (kind == 5 && room >= 6 && !jumbo) { while (extsz - pos > 6) ext[pos++] = 0; kind = 2; room = 6; }  // jumbo option flush with the end
                        if (kind == 0 || room < 2) { ext[pos++] = 0; continue; }
                        if (kind == 1) { size_t n = std::min<size_t>(room - 2, (size_t)s.range(0, 5)); ext[pos] = 1; ext[pos + 1] = (uint8_t)n; pos += 2 + n; continue; }
                        if (kind == 2 && room >= 6) {
                            ext[pos] = 0xc2; ext[pos + 1] = (uint8_t)(s.chance(15) ? s.range(0, 8) : 4);
                            std::vector<uint8_t> v = s.bytes(4);
                            if (s.chance(50)) { v[0] = 0; v[1] = 0; v[2] = 0; v[3] = (uint8_t)s.range(0, 80); }
                            std::copy(v.begin(), v.end(), ext.begin() + pos + 2);
                            pos += 6; jumbo = true; continue;
                        }
                        if (kind == 2 && room < 6) {   // a Jumbo Payload option whose value does not fit into what is left of the header
                            ext[pos] = 0xc2; ext[pos + 1] = 4;
                            for (size_t k = pos + 2; k < extsz; ++k) ext[k] = (uint8_t)s.u8();
                            pos = extsz; jumbo = true; continue;
                        }
                        if (kind == 3 && room >= 4) { ext[pos] = 5; ext[pos + 1] = 2; ext[pos + 2] = 0; ext[pos + 3] = (uint8_t)s.range(0, 3); pos += 4; continue; }
                        ext[pos] = (uint8_t)s.u8(); ext[pos + 1] = (uint8_t)(s.chance(70) ? std::min<size_t>(room - 2, (size_t)s.range(0, 6)) : s.u8());   // unknown option, possibly overrunning
                        pos += 2 + std::min<size_t>(room - 2, ext[pos + 1]);
                    }
                    std::vector<uint8_t> pay = s.bytes(s.chance(35) ? 0 : s.range(0, 12));
                    size_t exact = ext.size() + pay.size();
                    static const int D[6] = {0, 0, 1, -1, 8, -8};
                    unsigned pl = (unsigned)s.range(0, 7);
                    size_t plen = pl < 3 ? 0 : (pl == 7 ? 0xffff : (size_t)std::max<long>(0, (long)exact + D[pl - 1]));
                    h[4] = (uint8_t)(plen >> 8); h[5] = (uint8_t)plen;
                    data = h;
                    data.insert(data.end(), ext.begin(), ext.end());
                    data.insert(data.end(), pay.begin(), pay.end());
                    if (s.boolean()) { size_t cut = std::min<size_t>(data.size() - 40, (size_t)s.range(0, 9)); data.resize(data.size() - cut); }
                    raw_ready = true;
                    ctx.label("ipv6-hop-by-hop-tlv-input");
                    break;
                }
                default: { PPPoE* q = new PPPoE(); q->code(s.boolean() ? 9 : 7); p.reset(q); cls = "PPPoE";
                          static const uint16_t TG[] = {0x0101, 0x0102, 0x0103, 0x0104, 0x0105, 0x0110, 0x0201, 0x0202, 0x0203, 0};
                          for (unsigned i = 0; i < nopt; ++i) { std::vector<uint8_t> b = body(0); q->add_tag(PPPoE::tag((PPPoE::TagTypes)Endian::host_to_be(TG[s.pick(10)]), b.begin(), b.end())); } break; }
            }
            if (!raw_ready) {
                enforce_capacity(*p, ctx, scratch_prog);
                data = p->serialize();
            }
        } catch (const std::exception&) {
            data.clear();
        }
        for (size_t i = 0; i < E.size(); ++i) if (std::string(E[i].name) == cls) return i;
        return 0;
    }
    ctx.label("structured-input");
    placement = s.u8() & 7;
    BuildOpts o;
    o.max_payload = 48;
    Src prog = s.sub();
    Built b = build_packet(prog, ctx, o);
    std::vector<uint8_t> bytes;
    if (!has_unserializable_layer(*b.pdu)) {
        try { bytes = b.pdu->serialize(); } catch (const std::exception&) {}
    }
    // entry point: the root's own class constructor, or the capture link type that dispatches to it
    std::string root = short_cls(demangled(typeid(*b.pdu)));
    size_t idx = 0;
    bool found = false;
    for (size_t i = 0; i < E.size(); ++i) if (root == E[i].name) { idx = i; found = true; }
    if (!found) for (size_t i = 0; i < E.size(); ++i) if (std::string(E[i].name) == "RawPDU") idx = i;
    if (s.chance(30)) {
        const char* link = nullptr;
        if (root == "EthernetII" || root == "Dot3") link = "dlt:EN10MB";
        else if (root == "RadioTap") link = "dlt:IEEE802_11_RADIO";
        else if (root == "SLL") link = "dlt:LINUX_SLL";
        else if (root == "Loopback") link = "dlt:NULL";
        else if (root == "IP" || root == "IPv6") link = "dlt:RAW";
        else if (root.compare(0, 5, "Dot11") == 0) link = "dlt:IEEE802_11";
        if (link) for (size_t i = 0; i < E.size(); ++i) if (std::string(E[i].name) == link) idx = i;
    }
    // byte-level mutations
    unsigned m = (unsigned)s.weighted({3, 4, 3, 2, 1});
    for (unsigned k = 0; k < m && !bytes.empty(); ++k) {
        size_t p = s.u16() % bytes.size();
        switch (s.range(0, 8)) {
            case 0: bytes[p] = (uint8_t)(bytes[p] + 1); break;
            case 1: bytes[p] = (uint8_t)(bytes[p] - 1); break;
            case 2: bytes[p] = (uint8_t)(bytes[p] + (int)s.range(0, 6) - 3); break;
            case 3: { static const uint8_t V[] = {0, 1, 0x7f, 0x80, 0xff, 0xfe, 2, 4, 8}; bytes[p] = V[s.pick(sizeof V)]; break; }
            case 4: bytes[p] = s.u8(); break;
            case 5: bytes.resize(p); break;
            case 6: bytes.insert(bytes.begin() + p, s.u8()); break;
            case 7: bytes[p] ^= (uint8_t)(1u << s.pick(8)); break;
            default: if (p + 1 < bytes.size()) bytes.erase(bytes.begin() + p); break;
        }
    }
    if (m) ctx.label("structured-mutated");
    data = bytes;
    if (data.size() > 65535) data.resize(65535);
    return idx;
}

}  // namespace verif
#endif
