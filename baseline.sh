#!/bin/sh
# repository's own test suite with the verification guard OFF (plain cmake build, no -DLIBTINS_VERIF_HOOKS)
set -e
cmake --build /repo/_build >/dev/null
cmake --build /repo/_build --target tests >/dev/null
exec ctest --test-dir /repo/_build -j8 --timeout 900 "$@"
