#!/usr/bin/env python3
"""Which parts of libtins do the checks never execute?

   python3 coverage.py [--cases 4000] [--props C01,C02,...] [--out coverage/]

Builds libtins and every property's random driver with clang source-based coverage (no sanitizers), runs each driver's
enumerated block (if any), its regress inputs and a short seeded random run, merges the profiles and writes
   coverage/functions.txt   every function of /repo/src and /repo/include/tins with its execution count (0 = never run)
   coverage/unexecuted.txt  the never-executed ones, grouped by file
   coverage/summary.json    line/function totals per file
This is a measurement of what the generators reach, not a check: it never fails. Scratch output lives in /tmp/verif-cov
and is removed at the end.
"""
import concurrent.futures as cf, glob, json, os, re, shutil, subprocess, sys, time
V = os.path.dirname(os.path.abspath(__file__))
sys.path.insert(0, V)
import run as R

def arg(n, d=None):
    return sys.argv[sys.argv.index(n) + 1] if n in sys.argv else d

CASES = int(arg("--cases", "4000"))
PROPS = (arg("--props") or ",".join(open(os.path.join(V, "registered.txt")).read().split())).split(",")
OUTD = arg("--out", os.path.join(V, "coverage"))
T = "/tmp/verif-cov"
COV = ["-fprofile-instr-generate", "-fcoverage-mapping"]
FLAGS = ["-std=gnu++14", "-g0", "-O0", "-DLIBTINS_VERIF_HOOKS", "-I" + os.path.join(V, "gen"), "-I/repo/include", "-I" + V, "-Wno-deprecated-declarations", "-w"] + COV

def cc(cmd):
    r = subprocess.run(cmd, stdout=subprocess.PIPE, stderr=subprocess.STDOUT, text=True)
    return r.returncode, r.stdout, cmd

def main():
    shutil.rmtree(T, ignore_errors=True)
    os.makedirs(T + "/obj")
    os.makedirs(T + "/prof")
    os.makedirs(OUTD, exist_ok=True)
    srcs = sorted(glob.glob("/repo/src/**/*.cpp", recursive=True))
    jobs, objs = [], []
    for s in srcs:
        o = T + "/obj/" + os.path.relpath(s, "/repo/src").replace("/", "_")[:-4] + ".o"
        objs.append(o)
        jobs.append(["clang++"] + FLAGS + ["-c", s, "-o", o])
    pobjs = {}
    for p in PROPS:
        meta = R.load_meta(p)
        if meta.get("config", "san") == "tsan":
            continue   # C18 re-runs the other properties' workloads
        pobjs[p] = T + "/obj/prop_%s.o" % p
        jobs.append(["clang++"] + FLAGS + meta.get("cxxflags", []) + ["-c", os.path.join(V, "props", p.lower() + ".cpp"), "-o", pobjs[p]])
    jobs.append(["clang++"] + FLAGS + ["-c", os.path.join(V, "engine", "engine.cpp"), "-o", T + "/obj/engine.o"])
    t0 = time.time()
    with cf.ThreadPoolExecutor(os.cpu_count() or 8) as ex:
        for rc, out, cmd in ex.map(cc, jobs):
            if rc != 0:
                print("BUILD ERROR\n", " ".join(cmd), "\n", out[-3000:])
                return 0
    subprocess.check_call(["ar", "rcs", T + "/libtins.a"] + objs)
    bins = {}
    links = []
    for p in pobjs:
        meta = R.load_meta(p)
        bins[p] = T + "/%s_rand" % p.lower()
        links.append(["clang++"] + COV + [pobjs[p], T + "/obj/engine.o", T + "/libtins.a"] + R.LIBS + meta.get("libs", []) + ["-o", bins[p]])
    with cf.ThreadPoolExecutor(8) as ex:
        for rc, out, cmd in ex.map(cc, links):
            if rc != 0:
                print("LINK ERROR\n", " ".join(cmd), "\n", out[-3000:])
                return 0
    print("built in %.0fs" % (time.time() - t0), flush=True)
    # run
    def run_prop(p):
        meta = R.load_meta(p)
        w = T + "/work-" + p
        os.makedirs(w, exist_ok=True)
        known = os.path.join(w, "known.txt")
        open_k, _ = R.known_findings(p)
        open(known, "w").write("".join(e["signature"] + "\n" for e in open_k))
        env = dict(os.environ, VERIF_WORK=w, VERIF_TIER="quick", VERIF_KNOWN=known, LLVM_PROFILE_FILE=T + "/prof/%s-%%p.profraw" % p)
        base = [bins[p], "--worker", "0", "--workers", "1", "--work", w, "--tier", "quick", "--known", known]
        for f in sorted(glob.glob(os.path.join(V, "regress", p, "*.bin"))):
            subprocess.run(base + ["--replay", f], env=env, stdout=subprocess.DEVNULL, stderr=subprocess.DEVNULL, timeout=600)
        if meta.get("enumerate"):
            try:
                subprocess.run(base + ["--enumerate", "--max-seconds", "120"], env=env, stdout=subprocess.DEVNULL, stderr=subprocess.DEVNULL, timeout=900)
            except subprocess.TimeoutExpired:
                pass
        cmd = base + ["--run", "--seed", "1", "--cases", str(CASES), "--max-seconds", "600"]
        cdir = os.path.join(V, "corpus", p)
        if os.path.isdir(cdir):
            cmd += ["--corpus", cdir]
        q = meta.get("quick", {})
        if q.get("maxlen"):
            cmd += ["--maxlen", str(q["maxlen"])]
        try:
            r = subprocess.run(cmd, env=env, stdout=subprocess.PIPE, stderr=subprocess.STDOUT, text=True, timeout=1200)
            return p, r.returncode, r.stdout[-300:]
        except subprocess.TimeoutExpired:
            return p, 124, "timeout"
    with cf.ThreadPoolExecutor(8) as ex:
        for p, rc, tail in ex.map(run_prop, list(bins)):
            print("ran", p, "rc", rc, flush=True)
    raws = glob.glob(T + "/prof/*.profraw")
    subprocess.check_call(["llvm-profdata", "merge", "-sparse", "-o", T + "/all.profdata"] + raws)
    objargs = []
    for i, b in enumerate(bins.values()):
        objargs += ([b] if i == 0 else ["-object", b])
    rep = subprocess.run(["llvm-cov", "export", "-format=text", "-summary-only=false", "-skip-expansions", "-instr-profile", T + "/all.profdata"] + objargs +
                         ["-ignore-filename-regex", "^(?!/repo/).*"], stdout=subprocess.PIPE, stderr=subprocess.PIPE, text=True)
    data = json.loads(rep.stdout)
    fn = {}
    for f in data["data"][0]["functions"]:
        files = [x for x in f["filenames"] if x.startswith("/repo/src") or x.startswith("/repo/include/tins")]
        if not files:
            continue
        name = f["name"]
        key = (files[0], name)
        fn[key] = max(fn.get(key, 0), f["count"])
    dem = subprocess.run(["c++filt"], input="\n".join(k[1].split(":")[-1] if k[1].startswith("/") or ".cpp:" in k[1] else k[1] for k in fn), stdout=subprocess.PIPE, text=True).stdout.split("\n")
    rows = sorted(((k[0], dem[i] if i < len(dem) else k[1], c) for i, (k, c) in enumerate(fn.items())))
    # templates / inline functions are instantiated once per TU: a function counts as executed if any instantiation ran
    agg = {}
    for f, n, c in rows:
        agg[(f, n)] = max(agg.get((f, n), 0), c)
    with open(os.path.join(OUTD, "functions.txt"), "w") as o:
        for (f, n), c in sorted(agg.items()):
            o.write("%10d  %s  %s\n" % (c, os.path.relpath(f, "/repo"), n))
    byfile = {}
    for (f, n), c in agg.items():
        if c == 0:
            byfile.setdefault(os.path.relpath(f, "/repo"), []).append(n)
    with open(os.path.join(OUTD, "unexecuted.txt"), "w") as o:
        o.write("# functions of libtins that no check executed (quick-sized run, %d cases per property); generated by coverage.py\n" % CASES)
        for f in sorted(byfile):
            o.write("\n%s\n" % f)
            for n in sorted(set(byfile[f])):
                o.write("    %s\n" % n)
    summ = {}
    for f in data["data"][0]["files"]:
        if f["filename"].startswith("/repo/src") or f["filename"].startswith("/repo/include/tins"):
            s = f["summary"]
            summ[os.path.relpath(f["filename"], "/repo")] = {"lines": s["lines"]["count"], "lines_covered": s["lines"]["covered"], "functions": s["functions"]["count"], "functions_covered": s["functions"]["covered"]}
    tot = {k: sum(v[k] for v in summ.values()) for k in ("lines", "lines_covered", "functions", "functions_covered")}
    json.dump({"cases_per_property": CASES, "properties": list(bins), "total": tot, "files": summ}, open(os.path.join(OUTD, "summary.json"), "w"), indent=1)
    # never-executed lines of the source files (send / interface / routing code is listed too: it is simply outside every property)
    show = subprocess.run(["llvm-cov", "show", "-instr-profile", T + "/all.profdata"] + objargs + ["-ignore-filename-regex", "^(?!/repo/src/).*"],
                          stdout=subprocess.PIPE, stderr=subprocess.DEVNULL, text=True).stdout
    cur, unc = None, {}
    for line in show.split("\n"):
        if line.startswith("/repo/src/") and line.rstrip().endswith(":"):
            cur = os.path.relpath(line.rstrip()[:-1], "/repo")
            continue
        m = re.match(r"^\s*(\d+)\|\s*0\|(.*)$", line)
        if m and cur:
            unc.setdefault(cur, []).append((int(m.group(1)), m.group(2).rstrip()))
    with open(os.path.join(OUTD, "unexecuted_lines.txt"), "w") as o:
        o.write("# source lines of /repo/src with execution count 0 under the generators (quick-sized run); generated by coverage.py\n")
        for f in sorted(unc):
            o.write("\n%s\n" % f)
            for n, t in unc[f]:
                o.write("%6d| %s\n" % (n, t[:160]))
    print("total", tot, "unexecuted functions:", sum(len(set(v)) for v in byfile.values()))
    shutil.rmtree(T, ignore_errors=True)
    return 0

if __name__ == "__main__":
    sys.exit(main())
