// Minimal classic pcap file writer/reader written from the file format description (no libpcap code involved):
// global header = magic a1b2c3d4 (host endian), version 2.4, thiszone 0, sigfigs 0, snaplen, linktype;
// record = ts_sec, ts_usec, caplen, len (u32 each), then caplen bytes.
#ifndef VERIF_REF_PCAPFILE_H
#define VERIF_REF_PCAPFILE_H
#include <cstdint>
#include <cstring>
#include <vector>

namespace verif {

struct PcapRecord {
    uint32_t sec = 0, usec = 0, caplen = 0, len = 0;
    std::vector<uint8_t> bytes;
};
struct PcapFile {
    uint32_t linktype = 0, snaplen = 65535;
    std::vector<PcapRecord> records;
};

inline void put32(std::vector<uint8_t>& o, uint32_t v) { uint8_t b[4]; memcpy(b, &v, 4); o.insert(o.end(), b, b + 4); }
inline void put16(std::vector<uint8_t>& o, uint16_t v) { uint8_t b[2]; memcpy(b, &v, 2); o.insert(o.end(), b, b + 2); }

inline std::vector<uint8_t> pcap_encode(const PcapFile& f) {
    std::vector<uint8_t> o;
    put32(o, 0xa1b2c3d4u); put16(o, 2); put16(o, 4); put32(o, 0); put32(o, 0); put32(o, f.snaplen); put32(o, f.linktype);
    for (const PcapRecord& r : f.records) {
        put32(o, r.sec); put32(o, r.usec); put32(o, (uint32_t)r.bytes.size()); put32(o, r.len ? r.len : (uint32_t)r.bytes.size());
        o.insert(o.end(), r.bytes.begin(), r.bytes.end());
    }
    return o;
}

// returns false if the file is not a well-formed host-endian microsecond pcap file
inline bool pcap_decode(const std::vector<uint8_t>& d, PcapFile& f) {
    auto g32 = [&](size_t off) { uint32_t v; memcpy(&v, d.data() + off, 4); return v; };
    auto g16 = [&](size_t off) { uint16_t v; memcpy(&v, d.data() + off, 2); return v; };
    if (d.size() < 24 || g32(0) != 0xa1b2c3d4u || g16(4) != 2 || g16(6) != 4) return false;
    f.snaplen = g32(16);
    f.linktype = g32(20);
    f.records.clear();
    size_t off = 24;
    while (off < d.size()) {
        if (off + 16 > d.size()) return false;
        PcapRecord r;
        r.sec = g32(off); r.usec = g32(off + 4); r.caplen = g32(off + 8); r.len = g32(off + 12);
        off += 16;
        if (off + r.caplen > d.size()) return false;
        r.bytes.assign(d.begin() + off, d.begin() + off + r.caplen);
        off += r.caplen;
        f.records.push_back(r);
    }
    return true;
}

}  // namespace verif
#endif
