// Independent wire-position table for C15: where the protocol specifications put each header field.
// Written from the RFCs / IEEE layouts (source cited per block), NOT from libtins' header structs.
// Reusable by any check that needs "which bits of the serialised header are field f".
//
// Conventions
//   BE  (network order, the RFC diagrams): the field occupies `width` consecutive bits starting at bit `first_bit`
//       (MSB-0 numbering: bit 0 is the most significant bit of byte `byte_off`); the most significant value bit
//       comes first.  wire MSB-0 bit index of value bit i (i = 0 is the LSB) = byte_off*8 + first_bit + (width-1-i).
//   LE  (IEEE 802.11, DLT_NULL on a little-endian host): the field is part of a little-endian integer that starts
//       at byte `byte_off`; `first_bit` is the LSB-0 index, inside that integer, of the field's least significant
//       bit.  Value bit i lives in byte byte_off + (first_bit+i)/8, LSB-0 bit (first_bit+i)%8.
//   `scale_shift`: the API value is the wire integer divided by 2^scale_shift (802.1D timers are transmitted in
//       units of 1/256 s and libtins' API documents seconds): the field still owns all `width` wire bits, the
//       value occupies the upper width-scale_shift bits and the low scale_shift bits are written as zero.
//   `cond`: the message variants that carry the field (decided from the serialised bytes by cond_holds()).
//   `dyn`: fields behind a variable-length part; dyn_shift() gives the extra byte offset from the serialised bytes.
//   `getter_only` rows have no one-argument setter; they are listed because they share wire bits with settable
//       fields (alias derivation).
#ifndef VERIF_REF_WIRE_POSITIONS_H
#define VERIF_REF_WIRE_POSITIONS_H

#include <cstdint>
#include <cstddef>
#include <cstring>
#include <vector>
#include <string>

namespace wirepos {

enum Order : uint8_t { BE = 0, LE = 1 };

enum Cond : uint8_t {
    ALWAYS = 0,
    ICMP_TIMESTAMP,      // RFC 792: type 13 / 14
    ICMP_ADDRMASK,       // RFC 950: type 17 / 18
    ICMP6_RA,            // RFC 4861 4.2: type 134
    ICMP6_TARGET,        // RFC 4861 4.3-4.5: types 135, 136, 137 carry a target address
    ICMP6_REDIRECT,      // RFC 4861 4.5: type 137
    ICMP6_MLD_QUERY,     // RFC 2710 / 3810: type 130
    ICMP6_MLD2_QUERY,    // RFC 3810 5.1: type 130 and at least 28 bytes
    DOT11_ADDR4,         // IEEE 802.11 9.3.2.1: address 4 is present iff ToDS = FromDS = 1
    RTP_EXT,             // RFC 3550 5.3.1: X bit set
    DHCP6_RELAY,         // RFC 8415 9: msg-type 12 / 13
    DHCP6_CLIENT_SERVER  // RFC 8415 8: every other msg-type
};

enum Dyn : uint8_t {
    FIXED = 0,
    DOT11_AFTER_ADDR4,   // + 6 bytes when ToDS = FromDS = 1
    RTP_AFTER_CSRC       // + 4 * CC bytes
};

struct Pos {
    const char* cls;       // libtins class that declares the accessor (applies to its subclasses too)
    const char* field;     // setter name in libtins (getter name for getter_only rows)
    uint16_t byte_off;
    uint8_t first_bit;
    uint16_t width;        // wire bits owned by the field
    Order order;
    uint8_t scale_shift;
    Cond cond;
    Dyn dyn;
    bool getter_only;
};

#define WP(cls, f, off, bit, w, ord) {cls, f, off, bit, w, ord, 0, ALWAYS, FIXED, false}
#define WPC(cls, f, off, bit, w, ord, cond) {cls, f, off, bit, w, ord, 0, cond, FIXED, false}
#define WPD(cls, f, off, bit, w, ord, cond, dyn) {cls, f, off, bit, w, ord, 0, cond, dyn, false}
#define WPS(cls, f, off, bit, w, ord, sh) {cls, f, off, bit, w, ord, sh, ALWAYS, FIXED, false}
#define WPG(cls, f, off, bit, w, ord) {cls, f, off, bit, w, ord, 0, ALWAYS, FIXED, true}

inline const std::vector<Pos>& table() {
    static const std::vector<Pos> T = {
        // ---- Ethernet II (DIX v2 / IEEE 802.3 clause 3.1.1): DA(6) SA(6) EtherType(2)
        WP("EthernetII", "dst_addr", 0, 0, 48, BE),
        WP("EthernetII", "src_addr", 6, 0, 48, BE),
        WP("EthernetII", "payload_type", 12, 0, 16, BE),
        // ---- IEEE 802.3 MAC frame with length field
        WP("Dot3", "dst_addr", 0, 0, 48, BE),
        WP("Dot3", "src_addr", 6, 0, 48, BE),
        WP("Dot3", "length", 12, 0, 16, BE),
        // ---- IEEE 802.1Q 9.6 tag control information: PCP(3) DEI/CFI(1) VID(12), then the encapsulated EtherType
        WP("Dot1Q", "priority", 0, 0, 3, BE),
        WP("Dot1Q", "cfi", 0, 3, 1, BE),
        WP("Dot1Q", "id", 0, 4, 12, BE),
        WP("Dot1Q", "payload_type", 2, 0, 16, BE),
        // ---- IEEE 802.2 LLC: DSAP (I/G bit = least significant bit), SSAP (C/R bit = least significant bit)
        WP("LLC", "dsap", 0, 0, 8, BE),
        WP("LLC", "ssap", 1, 0, 8, BE),
        WP("LLC", "group", 0, 7, 1, BE),
        WP("LLC", "response", 1, 7, 1, BE),
        // ---- SNAP (IEEE 802-2001 10.3 / RFC 1042): LLC AA AA 03, then OUI(3) and protocol id(2)
        WP("SNAP", "control", 2, 0, 8, BE),
        WP("SNAP", "org_code", 3, 0, 24, BE),
        WP("SNAP", "eth_type", 6, 0, 16, BE),
        // ---- ARP, RFC 826 (Ethernet/IPv4 sizes)
        WP("ARP", "hw_addr_format", 0, 0, 16, BE),
        WP("ARP", "prot_addr_format", 2, 0, 16, BE),
        WP("ARP", "hw_addr_length", 4, 0, 8, BE),
        WP("ARP", "prot_addr_length", 5, 0, 8, BE),
        WP("ARP", "opcode", 6, 0, 16, BE),
        WP("ARP", "sender_hw_addr", 8, 0, 48, BE),
        WP("ARP", "sender_ip_addr", 14, 0, 32, BE),
        WP("ARP", "target_hw_addr", 18, 0, 48, BE),
        WP("ARP", "target_ip_addr", 24, 0, 32, BE),
        // ---- IPv4, RFC 791 3.1
        WP("IP", "version", 0, 0, 4, BE),
        WP("IP", "tos", 1, 0, 8, BE),
        WP("IP", "id", 4, 0, 16, BE),
        WP("IP", "flags", 6, 0, 3, BE),
        WP("IP", "fragment_offset", 6, 3, 13, BE),
        WP("IP", "ttl", 8, 0, 8, BE),
        WP("IP", "protocol", 9, 0, 8, BE),
        WP("IP", "src_addr", 12, 0, 32, BE),
        WP("IP", "dst_addr", 16, 0, 32, BE),
        // ---- IPv6, RFC 8200 3
        WP("IPv6", "version", 0, 0, 4, BE),
        WP("IPv6", "traffic_class", 0, 4, 8, BE),
        WP("IPv6", "flow_label", 1, 4, 20, BE),
        WP("IPv6", "payload_length", 4, 0, 16, BE),
        WP("IPv6", "next_header", 6, 0, 8, BE),
        WP("IPv6", "hop_limit", 7, 0, 8, BE),
        WP("IPv6", "src_addr", 8, 0, 128, BE),
        WP("IPv6", "dst_addr", 24, 0, 128, BE),
        // ---- TCP, RFC 9293 3.1 (libtins' 12-bit `flags` = the 12 bits that follow the data offset)
        WP("TCP", "sport", 0, 0, 16, BE),
        WP("TCP", "dport", 2, 0, 16, BE),
        WP("TCP", "seq", 4, 0, 32, BE),
        WP("TCP", "ack_seq", 8, 0, 32, BE),
        WP("TCP", "data_offset", 12, 0, 4, BE),
        WP("TCP", "flags", 12, 4, 12, BE),
        WP("TCP", "window", 14, 0, 16, BE),
        WP("TCP", "urg_ptr", 18, 0, 16, BE),
        // ---- UDP, RFC 768
        WP("UDP", "sport", 0, 0, 16, BE),
        WP("UDP", "dport", 2, 0, 16, BE),
        WP("UDP", "length", 4, 0, 16, BE),
        // ---- ICMP, RFC 792 (+ RFC 1191 next-hop MTU, RFC 950 address mask, RFC 4884 length)
        WP("ICMP", "type", 0, 0, 8, BE),
        WP("ICMP", "code", 1, 0, 8, BE),
        WP("ICMP", "id", 4, 0, 16, BE),
        WP("ICMP", "sequence", 6, 0, 16, BE),
        WP("ICMP", "gateway", 4, 0, 32, BE),
        WP("ICMP", "mtu", 6, 0, 16, BE),
        WP("ICMP", "pointer", 4, 0, 8, BE),
        WPG("ICMP", "length", 5, 0, 8, BE),
        WPC("ICMP", "original_timestamp", 8, 0, 32, BE, ICMP_TIMESTAMP),
        WPC("ICMP", "receive_timestamp", 12, 0, 32, BE, ICMP_TIMESTAMP),
        WPC("ICMP", "transmit_timestamp", 16, 0, 32, BE, ICMP_TIMESTAMP),
        WPC("ICMP", "address_mask", 8, 0, 32, BE, ICMP_ADDRMASK),
        // ---- ICMPv6, RFC 4443 (echo), RFC 4861 (ND; RFC 4191 Prf, RFC 6275 H), RFC 2710/3810 (MLD), RFC 4884
        WP("ICMPv6", "type", 0, 0, 8, BE),
        WP("ICMPv6", "code", 1, 0, 8, BE),
        WP("ICMPv6", "checksum", 2, 0, 16, BE),
        WP("ICMPv6", "identifier", 4, 0, 16, BE),
        WP("ICMPv6", "sequence", 6, 0, 16, BE),
        WP("ICMPv6", "maximum_response_code", 4, 0, 16, BE),
        WP("ICMPv6", "hop_limit", 4, 0, 8, BE),
        WP("ICMPv6", "managed", 5, 0, 1, BE),
        WP("ICMPv6", "other", 5, 1, 1, BE),
        WP("ICMPv6", "home_agent", 5, 2, 1, BE),
        WP("ICMPv6", "router_pref", 5, 3, 2, BE),
        WP("ICMPv6", "router_lifetime", 6, 0, 16, BE),
        WP("ICMPv6", "router", 4, 0, 1, BE),
        WP("ICMPv6", "solicited", 4, 1, 1, BE),
        WP("ICMPv6", "override", 4, 2, 1, BE),
        WPG("ICMPv6", "length", 4, 0, 8, BE),
        WPC("ICMPv6", "reachable_time", 8, 0, 32, BE, ICMP6_RA),
        WPC("ICMPv6", "retransmit_timer", 12, 0, 32, BE, ICMP6_RA),
        WPC("ICMPv6", "target_addr", 8, 0, 128, BE, ICMP6_TARGET),
        WPC("ICMPv6", "dest_addr", 24, 0, 128, BE, ICMP6_REDIRECT),
        WPC("ICMPv6", "multicast_addr", 8, 0, 128, BE, ICMP6_MLD_QUERY),
        WPC("ICMPv6", "supress", 24, 4, 1, BE, ICMP6_MLD2_QUERY),   // RFC 3810 5.1: Resv(4) S(1) QRV(3)
        WPC("ICMPv6", "qrv", 24, 5, 3, BE, ICMP6_MLD2_QUERY),
        WPC("ICMPv6", "qqic", 25, 0, 8, BE, ICMP6_MLD2_QUERY),
        // ---- MPLS label stack entry, RFC 3032 2.1: Label(20) TC/Exp(3) S(1) TTL(8)
        WP("MPLS", "label", 0, 0, 20, BE),
        WP("MPLS", "experimental", 2, 4, 3, BE),
        WP("MPLS", "bottom_of_stack", 2, 7, 1, BE),
        WP("MPLS", "ttl", 3, 0, 8, BE),
        // ---- Linux cooked capture v1 (tcpdump.org LINKTYPE_LINUX_SLL)
        WP("SLL", "packet_type", 0, 0, 16, BE),
        WP("SLL", "lladdr_type", 2, 0, 16, BE),
        WP("SLL", "lladdr_len", 4, 0, 16, BE),
        WP("SLL", "address", 6, 0, 64, BE),
        WP("SLL", "protocol", 14, 0, 16, BE),
        // ---- VXLAN, RFC 7348 5: flags(8) reserved(24) VNI(24) reserved(8)
        WP("VXLAN", "set_flags", 0, 0, 8, BE),
        WP("VXLAN", "set_vni", 4, 0, 24, BE),
        // ---- RTP, RFC 3550 5.1 / 5.3.1
        WP("RTP", "version", 0, 0, 2, BE),
        WP("RTP", "extension_bit", 0, 3, 1, BE),
        WP("RTP", "marker_bit", 1, 0, 1, BE),
        WP("RTP", "payload_type", 1, 1, 7, BE),
        WP("RTP", "sequence_number", 2, 0, 16, BE),
        WP("RTP", "timestamp", 4, 0, 32, BE),
        WP("RTP", "ssrc_id", 8, 0, 32, BE),
        WPD("RTP", "extension_profile", 12, 0, 16, BE, RTP_EXT, RTP_AFTER_CSRC),
        // ---- Spanning tree configuration BPDU, IEEE 802.1D-2004 9.3.1 (timers in units of 1/256 s, 9.2.8)
        WP("STP", "proto_id", 0, 0, 16, BE),
        WP("STP", "proto_version", 2, 0, 8, BE),
        WP("STP", "bpdu_type", 3, 0, 8, BE),
        WP("STP", "bpdu_flags", 4, 0, 8, BE),
        WP("STP", "root_id", 5, 0, 64, BE),          // priority(4) system id extension(12) MAC(48)
        WP("STP", "root_path_cost", 13, 0, 32, BE),
        WP("STP", "bridge_id", 17, 0, 64, BE),
        WP("STP", "port_id", 25, 0, 16, BE),
        WPS("STP", "msg_age", 27, 0, 16, BE, 8),
        WPS("STP", "max_age", 29, 0, 16, BE, 8),
        WPS("STP", "hello_time", 31, 0, 16, BE, 8),
        WPS("STP", "fwd_delay", 33, 0, 16, BE, 8),
        // ---- PPPoE, RFC 2516 4: VER(4) TYPE(4) CODE(8) SESSION_ID(16) LENGTH(16)
        WP("PPPoE", "version", 0, 0, 4, BE),
        WP("PPPoE", "type", 0, 4, 4, BE),
        WP("PPPoE", "code", 1, 0, 8, BE),
        WP("PPPoE", "session_id", 2, 0, 16, BE),
        WP("PPPoE", "payload_length", 4, 0, 16, BE),
        // ---- IEEE 802.11-2016 9.2.4.1 frame control (16 bits, transmitted LSB first), 9.2.4.2 duration, address 1
        WP("Dot11", "protocol", 0, 0, 2, LE),
        WP("Dot11", "type", 0, 2, 2, LE),
        WP("Dot11", "subtype", 0, 4, 4, LE),
        WP("Dot11", "to_ds", 0, 8, 1, LE),
        WP("Dot11", "from_ds", 0, 9, 1, LE),
        WP("Dot11", "more_frag", 0, 10, 1, LE),
        WP("Dot11", "retry", 0, 11, 1, LE),
        WP("Dot11", "power_mgmt", 0, 12, 1, LE),
        WP("Dot11", "more_data", 0, 13, 1, LE),
        WP("Dot11", "wep", 0, 14, 1, LE),
        WP("Dot11", "order", 0, 15, 1, LE),
        WP("Dot11", "duration_id", 2, 0, 16, LE),
        WP("Dot11", "addr1", 4, 0, 48, BE),
        // ---- 802.11 management / data MAC header: A2 A3 sequence control (fragment(4) sequence(12)) [A4]
        WP("Dot11ManagementFrame", "addr2", 10, 0, 48, BE),
        WP("Dot11ManagementFrame", "addr3", 16, 0, 48, BE),
        WP("Dot11ManagementFrame", "frag_num", 22, 0, 4, LE),
        WP("Dot11ManagementFrame", "seq_num", 22, 4, 12, LE),
        WPC("Dot11ManagementFrame", "addr4", 24, 0, 48, BE, DOT11_ADDR4),
        WP("Dot11Data", "addr2", 10, 0, 48, BE),
        WP("Dot11Data", "addr3", 16, 0, 48, BE),
        WP("Dot11Data", "frag_num", 22, 0, 4, LE),
        WP("Dot11Data", "seq_num", 22, 4, 12, LE),
        WPC("Dot11Data", "addr4", 24, 0, 48, BE, DOT11_ADDR4),
        WPD("Dot11QoSData", "qos_control", 24, 0, 16, LE, ALWAYS, DOT11_AFTER_ADDR4),
        // ---- 802.11 control frames with a transmitter address; block ack (request): BA(R) control(2) starting
        //      sequence control (fragment(4) sequence(12)), 9.3.1.8 / 9.3.1.9
        WP("Dot11ControlTA", "target_addr", 10, 0, 48, BE),
        WP("Dot11BlockAckRequest", "bar_control", 16, 0, 4, LE),     // B0 BAR ack policy, B1 multi-TID, B2 compressed bitmap, B3
        WP("Dot11BlockAck", "bar_control", 16, 0, 4, LE),
        WP("Dot11BlockAckRequest", "fragment_number", 18, 0, 4, LE),
        WP("Dot11BlockAckRequest", "start_sequence", 18, 4, 12, LE),
        WP("Dot11BlockAck", "fragment_number", 18, 0, 4, LE),
        WP("Dot11BlockAck", "start_sequence", 18, 4, 12, LE),
        WP("Dot11BlockAck", "bitmap", 20, 0, 64, BE),
        // ---- 802.11 management frame bodies (9.3.3): fixed fields, all little endian
        WPD("Dot11Beacon", "timestamp", 24, 0, 64, LE, ALWAYS, DOT11_AFTER_ADDR4),
        WPD("Dot11Beacon", "interval", 32, 0, 16, LE, ALWAYS, DOT11_AFTER_ADDR4),
        WPD("Dot11ProbeResponse", "timestamp", 24, 0, 64, LE, ALWAYS, DOT11_AFTER_ADDR4),
        WPD("Dot11ProbeResponse", "interval", 32, 0, 16, LE, ALWAYS, DOT11_AFTER_ADDR4),
        WPD("Dot11AssocRequest", "listen_interval", 26, 0, 16, LE, ALWAYS, DOT11_AFTER_ADDR4),
        WPD("Dot11AssocResponse", "status_code", 26, 0, 16, LE, ALWAYS, DOT11_AFTER_ADDR4),
        WPD("Dot11AssocResponse", "aid", 28, 0, 16, LE, ALWAYS, DOT11_AFTER_ADDR4),
        WPD("Dot11ReAssocRequest", "listen_interval", 26, 0, 16, LE, ALWAYS, DOT11_AFTER_ADDR4),
        WPD("Dot11ReAssocRequest", "current_ap", 28, 0, 48, BE, ALWAYS, DOT11_AFTER_ADDR4),
        WPD("Dot11ReAssocResponse", "status_code", 26, 0, 16, LE, ALWAYS, DOT11_AFTER_ADDR4),
        WPD("Dot11ReAssocResponse", "aid", 28, 0, 16, LE, ALWAYS, DOT11_AFTER_ADDR4),
        WPD("Dot11Authentication", "auth_algorithm", 24, 0, 16, LE, ALWAYS, DOT11_AFTER_ADDR4),
        WPD("Dot11Authentication", "auth_seq_number", 26, 0, 16, LE, ALWAYS, DOT11_AFTER_ADDR4),
        WPD("Dot11Authentication", "status_code", 28, 0, 16, LE, ALWAYS, DOT11_AFTER_ADDR4),
        WPD("Dot11Deauthentication", "reason_code", 24, 0, 16, LE, ALWAYS, DOT11_AFTER_ADDR4),
        WPD("Dot11Disassoc", "reason_code", 24, 0, 16, LE, ALWAYS, DOT11_AFTER_ADDR4),
        // ---- DLT_NULL / BSD loopback (tcpdump.org LINKTYPE_NULL): 4-byte protocol family in HOST byte order;
        //      this table assumes a little-endian host (checked by a static_assert in the user)
        WP("Loopback", "family", 0, 0, 32, LE),
        // ---- IPsec AH (RFC 4302 2) and ESP (RFC 4303 2)
        WP("IPSecAH", "next_header", 0, 0, 8, BE),
        WP("IPSecAH", "length", 1, 0, 8, BE),
        WP("IPSecAH", "spi", 4, 0, 32, BE),
        WP("IPSecAH", "seq_number", 8, 0, 32, BE),
        WP("IPSecESP", "spi", 0, 0, 32, BE),
        WP("IPSecESP", "seq_number", 4, 0, 32, BE),
        // ---- DNS header, RFC 1035 4.1.1 (AD/CD: RFC 4035 3.1.6 / 3.2.2)
        WP("DNS", "id", 0, 0, 16, BE),
        WP("DNS", "type", 2, 0, 1, BE),
        WP("DNS", "opcode", 2, 1, 4, BE),
        WP("DNS", "authoritative_answer", 2, 5, 1, BE),
        WP("DNS", "truncated", 2, 6, 1, BE),
        WP("DNS", "recursion_desired", 2, 7, 1, BE),
        WP("DNS", "recursion_available", 3, 0, 1, BE),
        WP("DNS", "z", 3, 1, 1, BE),
        WP("DNS", "authenticated_data", 3, 2, 1, BE),
        WP("DNS", "checking_disabled", 3, 3, 1, BE),
        WP("DNS", "rcode", 3, 4, 4, BE),
        // ---- BOOTP, RFC 951 3 (flags: RFC 1542 2.2; libtins calls that word `padding`)
        WP("BootP", "opcode", 0, 0, 8, BE),
        WP("BootP", "htype", 1, 0, 8, BE),
        WP("BootP", "hlen", 2, 0, 8, BE),
        WP("BootP", "hops", 3, 0, 8, BE),
        WP("BootP", "xid", 4, 0, 32, BE),
        WP("BootP", "secs", 8, 0, 16, BE),
        WP("BootP", "padding", 10, 0, 16, BE),
        WP("BootP", "ciaddr", 12, 0, 32, BE),
        WP("BootP", "yiaddr", 16, 0, 32, BE),
        WP("BootP", "siaddr", 20, 0, 32, BE),
        WP("BootP", "giaddr", 24, 0, 32, BE),
        WP("BootP", "sname", 44, 0, 512, BE),
        WP("BootP", "file", 108, 0, 1024, BE),
        // ---- DHCPv6, RFC 8415 8 (client/server) and 9 (relay agent/server)
        WP("DHCPv6", "msg_type", 0, 0, 8, BE),
        WPC("DHCPv6", "transaction_id", 1, 0, 24, BE, DHCP6_CLIENT_SERVER),
        WPC("DHCPv6", "hop_count", 1, 0, 8, BE, DHCP6_RELAY),
        WPC("DHCPv6", "link_address", 2, 0, 128, BE, DHCP6_RELAY),
        WPC("DHCPv6", "peer_address", 18, 0, 128, BE, DHCP6_RELAY),
        // ---- EAPOL, IEEE 802.1X-2010 11.3: version(1) type(1) body length(2); EAPOL-Key: descriptor type(1)
        WP("EAPOL", "version", 0, 0, 8, BE),
        WP("EAPOL", "packet_type", 1, 0, 8, BE),
        WP("EAPOL", "length", 2, 0, 16, BE),
        WP("EAPOL", "type", 4, 0, 8, BE),
        // ---- RC4 EAPOL-Key descriptor, IEEE 802.1X-2004 7.6: key length(2) replay counter(8) key IV(16)
        //      key index(1: flag bit F = most significant bit, index = low 7 bits) key signature(16) key
        WP("RC4EAPOL", "key_length", 5, 0, 16, BE),
        WP("RC4EAPOL", "replay_counter", 7, 0, 64, BE),
        WP("RC4EAPOL", "key_iv", 15, 0, 128, BE),
        WP("RC4EAPOL", "key_flag", 31, 0, 1, BE),
        WP("RC4EAPOL", "key_index", 31, 1, 7, BE),
        WP("RC4EAPOL", "key_sign", 32, 0, 128, BE),
        // ---- RSN EAPOL-Key frame, IEEE 802.11-2016 12.7.2 (figure 12-32/12-33). Key information is a 16-bit
        //      big-endian word; B0-2 descriptor version, B3 key type, B4-5 key index, B6 install, B7 key ack,
        //      B8 key MIC, B9 secure, B10 error, B11 request, B12 encrypted key data (B0 = least significant)
        WP("RSNEAPOL", "encrypted", 5, 3, 1, BE),
        WP("RSNEAPOL", "request", 5, 4, 1, BE),
        WP("RSNEAPOL", "error", 5, 5, 1, BE),
        WP("RSNEAPOL", "secure", 5, 6, 1, BE),
        WP("RSNEAPOL", "key_mic", 5, 7, 1, BE),
        WP("RSNEAPOL", "key_ack", 6, 0, 1, BE),
        WP("RSNEAPOL", "install", 6, 1, 1, BE),
        WP("RSNEAPOL", "key_index", 6, 2, 2, BE),
        WP("RSNEAPOL", "key_t", 6, 4, 1, BE),
        WP("RSNEAPOL", "key_descriptor", 6, 5, 3, BE),
        WP("RSNEAPOL", "key_length", 7, 0, 16, BE),
        WP("RSNEAPOL", "replay_counter", 9, 0, 64, BE),
        WP("RSNEAPOL", "nonce", 17, 0, 256, BE),
        WP("RSNEAPOL", "key_iv", 49, 0, 128, BE),
        WP("RSNEAPOL", "rsc", 65, 0, 64, BE),
        WP("RSNEAPOL", "id", 73, 0, 64, BE),
        WP("RSNEAPOL", "mic", 81, 0, 128, BE),
        WP("RSNEAPOL", "wpa_length", 97, 0, 16, BE),
    };
    return T;
}

#undef WP
#undef WPC
#undef WPD
#undef WPS
#undef WPG

// does the serialised message carry the (conditional) field?  Decided from the wire bytes only.
inline bool cond_holds(Cond c, const uint8_t* w, size_t n) {
    switch (c) {
        case ALWAYS: return true;
        case ICMP_TIMESTAMP: return n >= 20 && (w[0] == 13 || w[0] == 14);
        case ICMP_ADDRMASK: return n >= 12 && (w[0] == 17 || w[0] == 18);
        case ICMP6_RA: return n >= 16 && w[0] == 134;
        case ICMP6_TARGET: return n >= 24 && (w[0] == 135 || w[0] == 136 || w[0] == 137);
        case ICMP6_REDIRECT: return n >= 40 && w[0] == 137;
        case ICMP6_MLD_QUERY: return n >= 24 && w[0] == 130;
        case ICMP6_MLD2_QUERY: return n >= 28 && w[0] == 130;
        case DOT11_ADDR4: return n >= 30 && (w[1] & 0x03) == 0x03;
        case RTP_EXT: return n >= 12 && (w[0] & 0x10) != 0 && n >= 12u + 4u * (w[0] & 0x0f) + 4u;
        case DHCP6_RELAY: return n >= 34 && (w[0] == 12 || w[0] == 13);
        case DHCP6_CLIENT_SERVER: return n >= 4 && !(w[0] == 12 || w[0] == 13);
    }
    return false;
}

inline size_t dyn_shift(Dyn d, const uint8_t* w, size_t n) {
    switch (d) {
        case FIXED: return 0;
        case DOT11_AFTER_ADDR4: return (n >= 2 && (w[1] & 0x03) == 0x03) ? 6 : 0;
        case RTP_AFTER_CSRC: return n >= 1 ? 4u * (w[0] & 0x0f) : 0;
    }
    return 0;
}

// wire bit index (MSB-0 over the whole serialisation, without the dynamic shift) of wire-integer bit j
// (j = 0 is the least significant of the field's `width` wire bits)
inline size_t wire_bit(const Pos& p, unsigned j) {
    if (p.order == BE) return (size_t)p.byte_off * 8 + p.first_bit + (p.width - 1 - j);
    unsigned b = p.first_bit + j;
    return ((size_t)p.byte_off + b / 8) * 8 + (7 - b % 8);
}

inline const Pos* find(const std::string& cls, const std::string& field, bool getter_only = false) {
    for (const Pos& p : table())
        if (p.getter_only == getter_only && cls == p.cls && field == p.field) return &p;
    return nullptr;
}

// ---- IEEE 802.11-2012 8.4.1.4 Capability Information field: one 16-bit little-endian integer, bit Bn = LSB-0 bit n
//      (figure 8-38: B0 ESS, B1 IBSS, B2 CF Pollable, B3 CF-Poll Request, B4 Privacy, B5 Short Preamble, B6 PBCC,
//      B7 Channel Agility, B8 Spectrum Management, B9 QoS, B10 Short Slot Time, B11 APSD, B12 Radio Measurement,
//      B13 DSSS-OFDM, B14 Delayed Block Ack, B15 Immediate Block Ack).  `name` is libtins' accessor of
//      Dot11ManagementFrame::capability_information.
struct CapBit { const char* name; uint8_t bit; };
inline const std::vector<CapBit>& dot11_capability_bits() {
    static const std::vector<CapBit> T = {
        {"ess", 0}, {"ibss", 1}, {"cf_poll", 2}, {"cf_poll_req", 3}, {"privacy", 4}, {"short_preamble", 5}, {"pbcc", 6},
        {"channel_agility", 7}, {"spectrum_mgmt", 8}, {"qos", 9}, {"sst", 10}, {"apsd", 11}, {"radio_measurement", 12},
        {"dsss_ofdm", 13}, {"delayed_block_ack", 14}, {"immediate_block_ack", 15},
    };
    return T;
}
inline int dot11_capability_bit(const std::string& name) {
    for (const CapBit& c : dot11_capability_bits()) if (name == c.name) return c.bit;
    return -1;
}
// Byte offset of the Capability Information field in the frame (24-byte MAC header without address 4; add
// dyn_shift(DOT11_AFTER_ADDR4) when ToDS = FromDS = 1).  IEEE 802.11-2012 8.3.3: Beacon (8.3.3.2) and Probe Response
// (8.3.3.10): Timestamp(8) Beacon interval(2) Capability(2); Association Request (8.3.3.5): Capability(2) Listen
// interval(2); Association / Reassociation Response (8.3.3.6 / 8.3.3.8): Capability(2) Status code(2) AID(2);
// Reassociation Request (8.3.3.7): Capability(2) Listen interval(2) Current AP address(6).
struct CapField { const char* cls; uint16_t byte_off; };
inline const std::vector<CapField>& dot11_capability_fields() {
    static const std::vector<CapField> T = {
        {"Dot11Beacon", 34}, {"Dot11ProbeResponse", 34}, {"Dot11AssocRequest", 24}, {"Dot11AssocResponse", 24},
        {"Dot11ReAssocRequest", 24}, {"Dot11ReAssocResponse", 24},
    };
    return T;
}
inline int dot11_capability_offset(const std::string& cls) {
    for (const CapField& c : dot11_capability_fields()) if (cls == c.cls) return c.byte_off;
    return -1;
}

}  // namespace wirepos
#endif
