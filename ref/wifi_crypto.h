// Independent reference implementations of the IEEE 802.11 link-layer ciphers and the WPA2-PSK key hierarchy.
// Written from IEEE Std 802.11-2012 clause 11 (WEP 11.2.2, TKIP 11.4.2, CCMP 11.4.3, key hierarchy 11.6.1,
// EAPOL-Key frames 11.6.2) and RFC 3610 (CCM). Shares no code and no tables with libtins.
// Trusted base: OpenSSL's AES block encryption, HMAC-SHA1 / HMAC-MD5 and PBKDF2. Everything else (RC4, CRC-32,
// AES S-box derivation for the TKIP S-box, Michael, TKIP key mixing, CCM, AAD / nonce construction, PRF, frame
// layouts) is implemented here. Header-only; used by props/c09.cpp.
#ifndef VERIF_REF_WIFI_CRYPTO_H
#define VERIF_REF_WIFI_CRYPTO_H

#include <cstdint>
#include <cstddef>
#include <cstring>
#include <string>
#include <vector>
#include <algorithm>
#include <openssl/evp.h>
#include <openssl/hmac.h>

namespace wref {

typedef std::vector<uint8_t> Bytes;

// ------------------------------------------------------------------ CRC-32 (IEEE 802.3, reflected, bitwise)
inline uint32_t crc32(const uint8_t* p, size_t n) {
    uint32_t c = 0xffffffffu;
    for (size_t i = 0; i < n; ++i) {
        c ^= p[i];
        for (int k = 0; k < 8; ++k) c = (c >> 1) ^ (0xEDB88320u & (0u - (c & 1u)));
    }
    return ~c;
}

// ------------------------------------------------------------------ RC4
class RC4 {
public:
    RC4(const uint8_t* key, size_t klen) : i_(0), j_(0) {
        for (unsigned k = 0; k < 256; ++k) S_[k] = (uint8_t)k;
        unsigned j = 0;
        for (unsigned k = 0; k < 256; ++k) {
            j = (j + S_[k] + key[k % klen]) & 0xff;
            std::swap(S_[k], S_[j]);
        }
    }
    void crypt(const uint8_t* in, uint8_t* out, size_t n) {
        for (size_t k = 0; k < n; ++k) {
            i_ = (i_ + 1) & 0xff;
            j_ = (j_ + S_[i_]) & 0xff;
            std::swap(S_[i_], S_[j_]);
            out[k] = in[k] ^ S_[(S_[i_] + S_[j_]) & 0xff];
        }
    }
private:
    uint8_t S_[256];
    unsigned i_, j_;
};

// ------------------------------------------------------------------ AES-128 block encryption (OpenSSL primitive)
class Aes128 {
public:
    explicit Aes128(const uint8_t key[16]) : ctx_(EVP_CIPHER_CTX_new()) {
        EVP_EncryptInit_ex(ctx_, EVP_aes_128_ecb(), NULL, key, NULL);
        EVP_CIPHER_CTX_set_padding(ctx_, 0);
    }
    ~Aes128() { EVP_CIPHER_CTX_free(ctx_); }
    void enc(const uint8_t in[16], uint8_t out[16]) {
        uint8_t tmp[32];
        int len = 0;
        EVP_EncryptUpdate(ctx_, tmp, &len, in, 16);
        memcpy(out, tmp, 16);
    }
private:
    Aes128(const Aes128&);
    Aes128& operator=(const Aes128&);
    EVP_CIPHER_CTX* ctx_;
};

// ------------------------------------------------------------------ 802.11 data-frame MAC header (wire view)
struct MacHdr {
    uint8_t fc0, fc1;        // frame control, first and second octet on the wire
    uint8_t dur[2];
    uint8_t a1[6], a2[6], a3[6];
    uint8_t sc[2];           // sequence control, little endian: fragment number = sc[0] & 0x0f
    uint8_t a4[6];           // present iff ToDS and FromDS
    uint8_t qc[2];           // QoS control, present iff subtype bit 3 (fc0 & 0x80)
    MacHdr() { memset(this, 0, sizeof(*this)); fc0 = 0x08; }
    bool to_ds() const { return (fc1 & 0x01) != 0; }
    bool from_ds() const { return (fc1 & 0x02) != 0; }
    bool has_a4() const { return to_ds() && from_ds(); }
    bool has_qos() const { return (fc0 & 0x80) != 0; }
    bool is_protected() const { return (fc1 & 0x40) != 0; }
    size_t size() const { return 24 + (has_a4() ? 6 : 0) + (has_qos() ? 2 : 0); }
    uint8_t priority() const { return has_qos() ? (uint8_t)(qc[0] & 0x0f) : 0; }
    // MSDU destination / source (Table 8-19)
    const uint8_t* da() const { return to_ds() ? a3 : a1; }
    const uint8_t* sa() const { return from_ds() ? (to_ds() ? a4 : a3) : a2; }
    Bytes bytes() const {
        Bytes b;
        b.push_back(fc0); b.push_back(fc1); b.push_back(dur[0]); b.push_back(dur[1]);
        b.insert(b.end(), a1, a1 + 6); b.insert(b.end(), a2, a2 + 6); b.insert(b.end(), a3, a3 + 6);
        b.push_back(sc[0]); b.push_back(sc[1]);
        if (has_a4()) b.insert(b.end(), a4, a4 + 6);
        if (has_qos()) { b.push_back(qc[0]); b.push_back(qc[1]); }
        return b;
    }
    // parse a data-frame header; returns header length or 0 if the buffer is too short / not a data frame
    static size_t parse(const uint8_t* p, size_t n, MacHdr& h) {
        if (n < 24) return 0;
        if (((p[0] >> 2) & 3) != 2) return 0;
        h = MacHdr();
        h.fc0 = p[0]; h.fc1 = p[1]; h.dur[0] = p[2]; h.dur[1] = p[3];
        memcpy(h.a1, p + 4, 6); memcpy(h.a2, p + 10, 6); memcpy(h.a3, p + 16, 6);
        h.sc[0] = p[22]; h.sc[1] = p[23];
        size_t off = 24;
        if (h.has_a4()) { if (n < off + 6) return 0; memcpy(h.a4, p + off, 6); off += 6; }
        if (h.has_qos()) { if (n < off + 2) return 0; h.qc[0] = p[off]; h.qc[1] = p[off + 1]; off += 2; }
        return off;
    }
};

// ------------------------------------------------------------------ WEP (11.2.2)
// body = IV(3) | KeyID<<6 | RC4(IV||key)( plaintext || ICV ), ICV = CRC-32(plaintext) little endian
inline Bytes wep_encap(const Bytes& key, const uint8_t iv[3], unsigned keyid, const Bytes& plain) {
    Bytes seed(iv, iv + 3);
    seed.insert(seed.end(), key.begin(), key.end());
    Bytes data(plain);
    uint32_t icv = crc32(plain.data(), plain.size());
    for (int i = 0; i < 4; ++i) data.push_back((uint8_t)(icv >> (8 * i)));
    Bytes body(iv, iv + 3);
    body.push_back((uint8_t)((keyid & 3) << 6));
    body.resize(4 + data.size());
    RC4 rc4(seed.data(), seed.size());
    rc4.crypt(data.data(), body.data() + 4, data.size());
    return body;
}
// returns true iff the ICV verifies; plain = decrypted data without the ICV
inline bool wep_decap(const Bytes& key, const Bytes& body, Bytes& plain) {
    plain.clear();
    if (body.size() < 8) return false;
    Bytes seed(body.begin(), body.begin() + 3);
    seed.insert(seed.end(), key.begin(), key.end());
    Bytes data(body.size() - 4);
    RC4 rc4(seed.data(), seed.size());
    rc4.crypt(body.data() + 4, data.data(), data.size());
    size_t n = data.size() - 4;
    uint32_t icv = crc32(data.data(), n);
    for (int i = 0; i < 4; ++i) if (data[n + i] != (uint8_t)(icv >> (8 * i))) return false;
    plain.assign(data.begin(), data.begin() + n);
    return true;
}

// ------------------------------------------------------------------ AES S-box from GF(2^8) arithmetic -> TKIP S-box
inline uint8_t gf_mul(uint8_t a, uint8_t b) {
    uint8_t r = 0;
    while (b) {
        if (b & 1) r ^= a;
        a = (uint8_t)((a << 1) ^ ((a & 0x80) ? 0x1b : 0));
        b >>= 1;
    }
    return r;
}
inline uint8_t aes_sbox(uint8_t x) {
    uint8_t inv = 0;
    if (x) {
        // x^254 = x^-1 in GF(2^8)
        uint8_t r = 1, base = x;
        unsigned e = 254;
        while (e) { if (e & 1) r = gf_mul(r, base); base = gf_mul(base, base); e >>= 1; }
        inv = r;
    }
    uint8_t s = inv;
    for (int k = 1; k <= 4; ++k) s ^= (uint8_t)((inv << k) | (inv >> (8 - k)));
    return s ^ 0x63;
}
struct TkipSbox {
    uint16_t t[256];
    TkipSbox() {
        for (unsigned i = 0; i < 256; ++i) {
            uint8_t s = aes_sbox((uint8_t)i);
            uint8_t s2 = gf_mul(s, 2), s3 = (uint8_t)(s2 ^ s);
            t[i] = (uint16_t)((s2 << 8) | s3);
        }
    }
    uint16_t S(uint16_t v) const {
        uint16_t hi = t[v >> 8];
        return (uint16_t)(t[v & 0xff] ^ (uint16_t)((hi << 8) | (hi >> 8)));
    }
};
inline const TkipSbox& tkip_sbox() { static const TkipSbox sb; return sb; }

inline uint16_t mk16(uint8_t hi, uint8_t lo) { return (uint16_t)((hi << 8) | lo); }
inline uint16_t rotr1(uint16_t v) { return (uint16_t)((v >> 1) | (v << 15)); }

// 11.4.2.5.2 Phase 1: TTAK = Phase1(TK, TA, TSC2..TSC5)
inline void tkip_phase1(const uint8_t tk[16], const uint8_t ta[6], uint32_t iv32, uint16_t ttak[5]) {
    const TkipSbox& sb = tkip_sbox();
    ttak[0] = (uint16_t)(iv32 & 0xffff);         // Mk16(TSC3, TSC2)
    ttak[1] = (uint16_t)(iv32 >> 16);            // Mk16(TSC5, TSC4)
    ttak[2] = mk16(ta[1], ta[0]);
    ttak[3] = mk16(ta[3], ta[2]);
    ttak[4] = mk16(ta[5], ta[4]);
    for (unsigned i = 0; i < 8; ++i) {
        unsigned j = 2 * (i & 1);
        ttak[0] = (uint16_t)(ttak[0] + sb.S(ttak[4] ^ mk16(tk[1 + j], tk[0 + j])));
        ttak[1] = (uint16_t)(ttak[1] + sb.S(ttak[0] ^ mk16(tk[5 + j], tk[4 + j])));
        ttak[2] = (uint16_t)(ttak[2] + sb.S(ttak[1] ^ mk16(tk[9 + j], tk[8 + j])));
        ttak[3] = (uint16_t)(ttak[3] + sb.S(ttak[2] ^ mk16(tk[13 + j], tk[12 + j])));
        ttak[4] = (uint16_t)(ttak[4] + sb.S(ttak[3] ^ mk16(tk[1 + j], tk[0 + j])) + i);
    }
}
// 11.4.2.5.3 Phase 2: WEPSeed = Phase2(TTAK, TK, TSC0..TSC1)
inline void tkip_phase2(const uint8_t tk[16], const uint16_t ttak[5], uint16_t iv16, uint8_t seed[16]) {
    const TkipSbox& sb = tkip_sbox();
    uint16_t ppk[6];
    for (int i = 0; i < 5; ++i) ppk[i] = ttak[i];
    ppk[5] = (uint16_t)(ttak[4] + iv16);
    ppk[0] = (uint16_t)(ppk[0] + sb.S(ppk[5] ^ mk16(tk[1], tk[0])));
    ppk[1] = (uint16_t)(ppk[1] + sb.S(ppk[0] ^ mk16(tk[3], tk[2])));
    ppk[2] = (uint16_t)(ppk[2] + sb.S(ppk[1] ^ mk16(tk[5], tk[4])));
    ppk[3] = (uint16_t)(ppk[3] + sb.S(ppk[2] ^ mk16(tk[7], tk[6])));
    ppk[4] = (uint16_t)(ppk[4] + sb.S(ppk[3] ^ mk16(tk[9], tk[8])));
    ppk[5] = (uint16_t)(ppk[5] + sb.S(ppk[4] ^ mk16(tk[11], tk[10])));
    ppk[0] = (uint16_t)(ppk[0] + rotr1(ppk[5] ^ mk16(tk[13], tk[12])));
    ppk[1] = (uint16_t)(ppk[1] + rotr1(ppk[0] ^ mk16(tk[15], tk[14])));
    ppk[2] = (uint16_t)(ppk[2] + rotr1(ppk[1]));
    ppk[3] = (uint16_t)(ppk[3] + rotr1(ppk[2]));
    ppk[4] = (uint16_t)(ppk[4] + rotr1(ppk[3]));
    ppk[5] = (uint16_t)(ppk[5] + rotr1(ppk[4]));
    seed[0] = (uint8_t)(iv16 >> 8);
    seed[1] = (uint8_t)(((iv16 >> 8) | 0x20) & 0x7f);
    seed[2] = (uint8_t)(iv16 & 0xff);
    seed[3] = (uint8_t)((ppk[5] ^ mk16(tk[1], tk[0])) >> 1);
    for (int i = 0; i < 6; ++i) {
        seed[4 + 2 * i] = (uint8_t)(ppk[i] & 0xff);
        seed[5 + 2 * i] = (uint8_t)(ppk[i] >> 8);
    }
}

// ------------------------------------------------------------------ Michael (11.4.2.3)
inline uint32_t rol32(uint32_t v, unsigned n) { return (v << n) | (v >> (32 - n)); }
inline uint32_t ror32(uint32_t v, unsigned n) { return (v >> n) | (v << (32 - n)); }
inline uint32_t xswap(uint32_t v) { return ((v & 0xff00ff00u) >> 8) | ((v & 0x00ff00ffu) << 8); }
// raw Michael over an arbitrary message
inline void michael_raw(const uint8_t key[8], const uint8_t* msg, size_t n, uint8_t mic[8]) {
    uint32_t l = (uint32_t)key[0] | ((uint32_t)key[1] << 8) | ((uint32_t)key[2] << 16) | ((uint32_t)key[3] << 24);
    uint32_t r = (uint32_t)key[4] | ((uint32_t)key[5] << 8) | ((uint32_t)key[6] << 16) | ((uint32_t)key[7] << 24);
    Bytes m(msg, msg + n);
    m.push_back(0x5a);
    for (int i = 0; i < 4; ++i) m.push_back(0);
    while (m.size() % 4) m.push_back(0);
    for (size_t i = 0; i < m.size(); i += 4) {
        uint32_t w = (uint32_t)m[i] | ((uint32_t)m[i + 1] << 8) | ((uint32_t)m[i + 2] << 16) | ((uint32_t)m[i + 3] << 24);
        l ^= w;
        r ^= rol32(l, 17); l += r;
        r ^= xswap(l);     l += r;
        r ^= rol32(l, 3);  l += r;
        r ^= ror32(l, 2);  l += r;
    }
    for (int i = 0; i < 4; ++i) { mic[i] = (uint8_t)(l >> (8 * i)); mic[4 + i] = (uint8_t)(r >> (8 * i)); }
}
// Michael over DA | SA | priority | 0 0 0 | MSDU data
inline void michael(const uint8_t key[8], const uint8_t da[6], const uint8_t sa[6], uint8_t priority,
                    const uint8_t* data, size_t n, uint8_t mic[8]) {
    Bytes m(da, da + 6);
    m.insert(m.end(), sa, sa + 6);
    m.push_back(priority); m.push_back(0); m.push_back(0); m.push_back(0);
    m.insert(m.end(), data, data + n);
    michael_raw(key, m.data(), m.size(), mic);
}

// ------------------------------------------------------------------ TKIP encapsulation (11.4.2.1)
// body = TSC1 | WEPSeed[1] | TSC0 | ExtIV(0x20)|KeyID<<6 | TSC2..TSC5 | RC4(WEPSeed)( data || MIC(8) || ICV(4) )
inline Bytes tkip_encap(const uint8_t tk[16], const uint8_t mic_key[8], const MacHdr& h, uint64_t tsc,
                        unsigned keyid, const Bytes& plain) {
    uint8_t mic[8];
    michael(mic_key, h.da(), h.sa(), h.priority(), plain.data(), plain.size(), mic);
    Bytes data(plain);
    data.insert(data.end(), mic, mic + 8);
    uint32_t icv = crc32(data.data(), data.size());
    for (int i = 0; i < 4; ++i) data.push_back((uint8_t)(icv >> (8 * i)));
    uint16_t ttak[5];
    uint8_t seed[16];
    uint16_t iv16 = (uint16_t)(tsc & 0xffff);
    uint32_t iv32 = (uint32_t)((tsc >> 16) & 0xffffffffu);
    tkip_phase1(tk, h.a2, iv32, ttak);
    tkip_phase2(tk, ttak, iv16, seed);
    Bytes body(8 + data.size());
    body[0] = seed[0]; body[1] = seed[1]; body[2] = seed[2];
    body[3] = (uint8_t)(0x20 | ((keyid & 3) << 6));
    body[4] = (uint8_t)(iv32 & 0xff); body[5] = (uint8_t)(iv32 >> 8); body[6] = (uint8_t)(iv32 >> 16); body[7] = (uint8_t)(iv32 >> 24);
    RC4 rc4(seed, 16);
    rc4.crypt(data.data(), body.data() + 8, data.size());
    return body;
}
struct TkipResult {
    bool icv_ok;       // CRC-32 over data||MIC verifies
    bool mic_ok;       // Michael verifies (only meaningful if icv_ok)
    bool canonical;    // ExtIV set and WEPSeed[1] octet as specified
    Bytes plain;       // data without MIC and ICV (valid if icv_ok)
    TkipResult() : icv_ok(false), mic_ok(false), canonical(false) {}
};
inline TkipResult tkip_decap(const uint8_t tk[16], const uint8_t mic_key[8], const MacHdr& h, const Bytes& body) {
    TkipResult r;
    if (body.size() < 8 + 8 + 4) return r;
    uint16_t iv16 = mk16(body[0], body[2]);
    uint32_t iv32 = (uint32_t)body[4] | ((uint32_t)body[5] << 8) | ((uint32_t)body[6] << 16) | ((uint32_t)body[7] << 24);
    r.canonical = (body[3] & 0x20) && body[1] == (uint8_t)((body[0] | 0x20) & 0x7f) && (body[3] & 0x1f) == 0;
    uint16_t ttak[5];
    uint8_t seed[16];
    tkip_phase1(tk, h.a2, iv32, ttak);
    tkip_phase2(tk, ttak, iv16, seed);
    Bytes data(body.size() - 8);
    RC4 rc4(seed, 16);
    rc4.crypt(body.data() + 8, data.data(), data.size());
    size_t n = data.size() - 4;
    uint32_t icv = crc32(data.data(), n);
    r.icv_ok = true;
    for (int i = 0; i < 4; ++i) if (data[n + i] != (uint8_t)(icv >> (8 * i))) r.icv_ok = false;
    if (!r.icv_ok) return r;
    size_t pn = n - 8;
    uint8_t mic[8];
    michael(mic_key, h.da(), h.sa(), h.priority(), data.data(), pn, mic);
    r.mic_ok = memcmp(mic, data.data() + pn, 8) == 0;
    r.plain.assign(data.begin(), data.begin() + pn);
    return r;
}

// ------------------------------------------------------------------ CCMP (11.4.3), CCM with M = 8, L = 2 (RFC 3610)
// AAD (11.4.3.3.3): FC with subtype bits 4-6, Retry, PwrMgt, MoreData masked to 0, Protected forced to 1, Order
// masked in frames carrying a QoS Control field; A1 A2 A3; SC with the sequence number masked to 0; A4 if present;
// QC (if present) with everything but the TID masked to 0.
inline Bytes ccmp_aad(const MacHdr& h) {
    Bytes aad;
    aad.push_back((uint8_t)(h.fc0 & 0x8f));
    uint8_t f1 = (uint8_t)((h.fc1 & 0xc7) | 0x40);
    if (h.has_qos()) f1 &= 0x7f;
    aad.push_back(f1);
    aad.insert(aad.end(), h.a1, h.a1 + 6);
    aad.insert(aad.end(), h.a2, h.a2 + 6);
    aad.insert(aad.end(), h.a3, h.a3 + 6);
    aad.push_back((uint8_t)(h.sc[0] & 0x0f));
    aad.push_back(0);
    if (h.has_a4()) aad.insert(aad.end(), h.a4, h.a4 + 6);
    if (h.has_qos()) { aad.push_back((uint8_t)(h.qc[0] & 0x0f)); aad.push_back(0); }
    return aad;
}
// Nonce (11.4.3.3.4): flags (priority in bits 0-3) | A2 | PN5..PN0
inline void ccmp_nonce(const MacHdr& h, uint64_t pn, uint8_t nonce[13]) {
    nonce[0] = h.priority();
    memcpy(nonce + 1, h.a2, 6);
    for (int i = 0; i < 6; ++i) nonce[7 + i] = (uint8_t)(pn >> (8 * (5 - i)));
}
// CCM: computes the 8-byte tag over (aad, plaintext) and en/decrypts. For decryption `in` is the ciphertext and the
// returned tag is the tag of the recovered plaintext, already encrypted with S_0 (i.e. comparable with the wire MIC).
inline void ccm_m8_l2(Aes128& aes, const uint8_t nonce[13], const Bytes& aad, const uint8_t* in, size_t n,
                      bool decrypt, uint8_t* out, uint8_t tag[8]) {
    uint8_t a[16], s[16];
    // CTR first, so the CBC-MAC can run over the plaintext in both directions
    a[0] = 0x01; memcpy(a + 1, nonce, 13);
    Bytes plain(n);
    for (size_t off = 0, ctr = 1; off < n; off += 16, ++ctr) {
        a[14] = (uint8_t)(ctr >> 8); a[15] = (uint8_t)ctr;
        aes.enc(a, s);
        size_t k = std::min<size_t>(16, n - off);
        for (size_t i = 0; i < k; ++i) {
            out[off + i] = (uint8_t)(in[off + i] ^ s[i]);
            plain[off + i] = decrypt ? out[off + i] : in[off + i];
        }
    }
    // CBC-MAC
    uint8_t x[16], b[16];
    b[0] = (uint8_t)((aad.empty() ? 0 : 0x40) | (((8 - 2) / 2) << 3) | (2 - 1));
    memcpy(b + 1, nonce, 13);
    b[14] = (uint8_t)(n >> 8); b[15] = (uint8_t)n;
    aes.enc(b, x);
    if (!aad.empty()) {
        Bytes enc;
        enc.push_back((uint8_t)(aad.size() >> 8)); enc.push_back((uint8_t)aad.size());
        enc.insert(enc.end(), aad.begin(), aad.end());
        while (enc.size() % 16) enc.push_back(0);
        for (size_t off = 0; off < enc.size(); off += 16) {
            for (int i = 0; i < 16; ++i) x[i] ^= enc[off + i];
            aes.enc(x, x);
        }
    }
    for (size_t off = 0; off < n; off += 16) {
        size_t k = std::min<size_t>(16, n - off);
        for (size_t i = 0; i < k; ++i) x[i] ^= plain[off + i];
        aes.enc(x, x);
    }
    a[14] = a[15] = 0;
    aes.enc(a, s);
    for (int i = 0; i < 8; ++i) tag[i] = (uint8_t)(x[i] ^ s[i]);
}
// body = PN0 PN1 0 ExtIV(0x20)|KeyID<<6 PN2 PN3 PN4 PN5 | ciphertext | MIC(8)
inline Bytes ccmp_encap(const uint8_t tk[16], const MacHdr& h, uint64_t pn, unsigned keyid, const Bytes& plain) {
    Aes128 aes(tk);
    uint8_t nonce[13], tag[8];
    ccmp_nonce(h, pn, nonce);
    Bytes body(8 + plain.size() + 8);
    body[0] = (uint8_t)pn; body[1] = (uint8_t)(pn >> 8); body[2] = 0;
    body[3] = (uint8_t)(0x20 | ((keyid & 3) << 6));
    body[4] = (uint8_t)(pn >> 16); body[5] = (uint8_t)(pn >> 24); body[6] = (uint8_t)(pn >> 32); body[7] = (uint8_t)(pn >> 40);
    ccm_m8_l2(aes, nonce, ccmp_aad(h), plain.data(), plain.size(), false, body.data() + 8, tag);
    memcpy(body.data() + 8 + plain.size(), tag, 8);
    return body;
}
struct CcmpResult {
    bool mic_ok;
    bool canonical;   // ExtIV set, reserved octet / bits zero
    Bytes plain;
    CcmpResult() : mic_ok(false), canonical(false) {}
};
inline CcmpResult ccmp_decap(const uint8_t tk[16], const MacHdr& h, const Bytes& body) {
    CcmpResult r;
    if (body.size() < 16) return r;
    r.canonical = body[2] == 0 && (body[3] & 0x20) && (body[3] & 0x1f) == 0;
    uint64_t pn = (uint64_t)body[0] | ((uint64_t)body[1] << 8) | ((uint64_t)body[4] << 16) | ((uint64_t)body[5] << 24) |
                  ((uint64_t)body[6] << 32) | ((uint64_t)body[7] << 40);
    Aes128 aes(tk);
    uint8_t nonce[13], tag[8];
    ccmp_nonce(h, pn, nonce);
    size_t n = body.size() - 16;
    Bytes plain(n);
    ccm_m8_l2(aes, nonce, ccmp_aad(h), body.data() + 8, n, true, plain.data(), tag);
    r.mic_ok = memcmp(tag, body.data() + 8 + n, 8) == 0;
    if (r.mic_ok) r.plain.swap(plain);
    return r;
}

// ------------------------------------------------------------------ WPA2-PSK key hierarchy (11.6.1)
inline Bytes pmk_from_passphrase(const std::string& passphrase, const std::string& ssid) {
    Bytes pmk(32);
    PKCS5_PBKDF2_HMAC_SHA1(passphrase.data(), (int)passphrase.size(), (const unsigned char*)ssid.data(), (int)ssid.size(),
                           4096, 32, pmk.data());
    return pmk;
}
// PRF-n (11.6.1.2): HMAC-SHA1(K, A || 0x00 || B || i), i = 0, 1, ...
inline Bytes prf(const Bytes& key, const std::string& label, const Bytes& data, size_t nbytes) {
    Bytes out;
    for (uint8_t i = 0; out.size() < nbytes; ++i) {
        Bytes m(label.begin(), label.end());
        m.push_back(0);
        m.insert(m.end(), data.begin(), data.end());
        m.push_back(i);
        uint8_t md[EVP_MAX_MD_SIZE];
        unsigned len = 0;
        HMAC(EVP_sha1(), key.data(), (int)key.size(), m.data(), m.size(), md, &len);
        out.insert(out.end(), md, md + len);
    }
    out.resize(nbytes);
    return out;
}
// PTK = PRF-X(PMK, "Pairwise key expansion", Min(AA,SPA) || Max(AA,SPA) || Min(ANonce,SNonce) || Max(ANonce,SNonce))
inline Bytes ptk_derive(const Bytes& pmk, const uint8_t aa[6], const uint8_t spa[6], const uint8_t anonce[32],
                        const uint8_t snonce[32], size_t nbytes = 64) {
    Bytes d;
    if (memcmp(aa, spa, 6) < 0) { d.insert(d.end(), aa, aa + 6); d.insert(d.end(), spa, spa + 6); }
    else { d.insert(d.end(), spa, spa + 6); d.insert(d.end(), aa, aa + 6); }
    if (memcmp(anonce, snonce, 32) < 0) { d.insert(d.end(), anonce, anonce + 32); d.insert(d.end(), snonce, snonce + 32); }
    else { d.insert(d.end(), snonce, snonce + 32); d.insert(d.end(), anonce, anonce + 32); }
    return prf(pmk, "Pairwise key expansion", d, nbytes);
}

// ------------------------------------------------------------------ EAPOL-Key frame (11.6.2)
struct EapolKey {
    uint8_t proto_version;   // 802.1X protocol version (1 or 2)
    uint8_t desc_type;       // 2 = RSN, 254 = WPA
    uint16_t key_info;
    uint16_t key_length;
    uint64_t replay;
    uint8_t nonce[32], iv[16], rsc[8], id[8], mic[16];
    Bytes key_data;
    enum { KI_PAIRWISE = 0x0008, KI_INSTALL = 0x0040, KI_ACK = 0x0080, KI_MIC = 0x0100, KI_SECURE = 0x0200,
           KI_ERROR = 0x0400, KI_REQUEST = 0x0800, KI_ENCRYPTED = 0x1000 };
    EapolKey() : proto_version(1), desc_type(2), key_info(0), key_length(0), replay(0) {
        memset(nonce, 0, 32); memset(iv, 0, 16); memset(rsc, 0, 8); memset(id, 0, 8); memset(mic, 0, 16);
    }
    static const size_t MIC_OFFSET = 81;
    Bytes bytes() const {
        Bytes b;
        size_t body = 95 + key_data.size();
        b.push_back(proto_version); b.push_back(3);
        b.push_back((uint8_t)(body >> 8)); b.push_back((uint8_t)body);
        b.push_back(desc_type);
        b.push_back((uint8_t)(key_info >> 8)); b.push_back((uint8_t)key_info);
        b.push_back((uint8_t)(key_length >> 8)); b.push_back((uint8_t)key_length);
        for (int i = 7; i >= 0; --i) b.push_back((uint8_t)(replay >> (8 * i)));
        b.insert(b.end(), nonce, nonce + 32);
        b.insert(b.end(), iv, iv + 16);
        b.insert(b.end(), rsc, rsc + 8);
        b.insert(b.end(), id, id + 8);
        b.insert(b.end(), mic, mic + 16);
        b.push_back((uint8_t)(key_data.size() >> 8)); b.push_back((uint8_t)key_data.size());
        b.insert(b.end(), key_data.begin(), key_data.end());
        return b;
    }
};
// EAPOL-Key MIC over the whole EAPOL frame with the MIC field zeroed: descriptor version 1 = HMAC-MD5,
// version 2 = HMAC-SHA1-128; key = KCK = PTK[0..15]
inline void eapol_mic(unsigned version, const uint8_t kck[16], const Bytes& frame_with_zero_mic, uint8_t mic[16]) {
    uint8_t md[EVP_MAX_MD_SIZE];
    unsigned len = 0;
    HMAC(version == 1 ? EVP_md5() : EVP_sha1(), kck, 16, frame_with_zero_mic.data(), frame_with_zero_mic.size(), md, &len);
    memcpy(mic, md, 16);
}
// computes and stores the MIC of `k` (key descriptor version taken from key_info bits 0-2)
inline void eapol_sign(EapolKey& k, const uint8_t kck[16]) {
    memset(k.mic, 0, 16);
    Bytes f = k.bytes();
    eapol_mic(k.key_info & 7, kck, f, k.mic);
}
// verifies the MIC of a serialized EAPOL-Key frame (starting at the 802.1X header)
inline bool eapol_verify(const Bytes& frame, const uint8_t kck[16]) {
    if (frame.size() < 99) return false;
    Bytes f(frame);
    unsigned version = f[6] & 7;
    uint8_t got[16], want[16];
    memcpy(got, f.data() + EapolKey::MIC_OFFSET, 16);
    memset(f.data() + EapolKey::MIC_OFFSET, 0, 16);
    eapol_mic(version, kck, f, want);
    return memcmp(got, want, 16) == 0;
}

// ------------------------------------------------------------------ self-test with published vectors
inline bool hex_eq(const uint8_t* p, size_t n, const char* hex) {
    if (strlen(hex) != 2 * n) return false;
    for (size_t i = 0; i < n; ++i) {
        unsigned v = 0;
        for (int k = 0; k < 2; ++k) {
            char c = hex[2 * i + k];
            v = v * 16 + (unsigned)(c <= '9' ? c - '0' : (c | 0x20) - 'a' + 10);
        }
        if (p[i] != v) return false;
    }
    return true;
}
inline Bytes from_hex(const char* hex) {
    Bytes b;
    for (size_t i = 0; hex[i] && hex[i + 1]; i += 2) {
        unsigned v = 0;
        for (int k = 0; k < 2; ++k) {
            char c = hex[i + k];
            v = v * 16 + (unsigned)(c <= '9' ? c - '0' : (c | 0x20) - 'a' + 10);
        }
        b.push_back((uint8_t)v);
    }
    return b;
}
// returns an empty string on success, otherwise the name of the failing vector
inline std::string self_test() {
    // CRC-32 check value
    if (crc32((const uint8_t*)"123456789", 9) != 0xCBF43926u) return "crc32";
    // RC4: key "Key", plaintext "Plaintext"
    {
        RC4 r((const uint8_t*)"Key", 3);
        uint8_t out[9];
        r.crypt((const uint8_t*)"Plaintext", out, 9);
        if (!hex_eq(out, 9, "bbf316e8d940af0ad3")) return "rc4";
    }
    // AES S-box (FIPS 197 figure 7) and the first TKIP S-box entries (Annex of 802.11: 0xC6A5, 0xF884, 0xEE99)
    if (aes_sbox(0x00) != 0x63 || aes_sbox(0x01) != 0x7c || aes_sbox(0x53) != 0xed || aes_sbox(0xff) != 0x16) return "aes-sbox";
    if (tkip_sbox().t[0] != 0xC6A5 || tkip_sbox().t[1] != 0xF884 || tkip_sbox().t[2] != 0xEE99 || tkip_sbox().t[255] != 0x2C3A) return "tkip-sbox";
    // Michael test vectors (802.11-2012 M.6.1: each output is the key of the next line)
    {
        static const char* const msgs[] = {"", "M", "Mi", "Mic", "Mich", "Michael"};
        static const char* const outs[] = {"82925c1ca1d130b8", "434721ca40639b3f", "e8f9becae97e5d29", "90038fc6cf13c1db",
                                           "d55e100510128986", "0a942b124ecaa546"};
        uint8_t key[8] = {0}, mic[8];
        for (int i = 0; i < 6; ++i) {
            michael_raw(key, (const uint8_t*)msgs[i], strlen(msgs[i]), mic);
            if (!hex_eq(mic, 8, outs[i])) return "michael";
            memcpy(key, mic, 8);
        }
    }
    // TKIP key mixing test vectors (802.11-2012 M.6.2: vectors 1, 2, 3 and 4; 3 and 4 have IV32 != 0)
    {
        struct V { const char* tk; const char* ta; uint32_t iv32; uint16_t iv16; uint16_t p1k[5]; const char* seed; };
        static const V vs[] = {
            {"000102030405060708090a0b0c0d0e0f", "102233445566", 0x00000000u, 0x0000,
             {0x3DD2, 0x016E, 0x76F4, 0x8697, 0xB2E8}, "00200033ea8d2f60ca6d1374234a660b"},
            {"000102030405060708090a0b0c0d0e0f", "102233445566", 0x00000000u, 0x0001,
             {0x3DD2, 0x016E, 0x76F4, 0x8697, 0xB2E8}, "00200190ffdc314389a9d9d074fd20aa"},
            {"63893b250840b8ae0bd0fa7e61d2783e", "64f2eaeddc25", 0x20DCFD43u, 0xFFFF,
             {0x7C67, 0x49D7, 0x9724, 0xB5E9, 0xB4F1}, "ff7fff93810fc6e58f5dd326251544ce"},
            {"63893b250840b8ae0bd0fa7e61d2783e", "64f2eaeddc25", 0x20DCFD44u, 0x0000,
             {0x5A5D, 0x73A8, 0xA859, 0x2EC1, 0xDC8B}, "002000498ca471fcfbfaa16e3610f005"},
        };
        for (size_t i = 0; i < sizeof(vs) / sizeof(vs[0]); ++i) {
            Bytes tk = from_hex(vs[i].tk), ta = from_hex(vs[i].ta);
            uint16_t p1k[5];
            uint8_t seed[16];
            tkip_phase1(tk.data(), ta.data(), vs[i].iv32, p1k);
            tkip_phase2(tk.data(), p1k, vs[i].iv16, seed);
            for (int k = 0; k < 5; ++k) if (p1k[k] != vs[i].p1k[k]) return "tkip-phase1";
            if (!hex_eq(seed, 16, vs[i].seed)) return "tkip-phase2";
        }
    }
    // PBKDF2 (802.11-2012 M.4.3 test vector 1)
    {
        Bytes pmk = pmk_from_passphrase("password", "IEEE");
        if (!hex_eq(pmk.data(), 32, "f42c6fc52df0ebef9ebb4b90b38a5f902e83fe1b135a70e23aed762e9710a12e")) return "pbkdf2";
    }
    // AES-128 (FIPS 197 C.1)
    {
        Bytes k = from_hex("000102030405060708090a0b0c0d0e0f"), p = from_hex("00112233445566778899aabbccddeeff");
        Aes128 aes(k.data());
        uint8_t c[16];
        aes.enc(p.data(), c);
        if (!hex_eq(c, 16, "69c4e0d86a7b0430d8cdb78070b4c55a")) return "aes128";
    }
    // CCMP test vector (802.11-2012 M.6.4)
    {
        Bytes tk = from_hex("c97c1f67ce371185514a8a19f2bdd52f");
        Bytes hdr = from_hex("0848c32c0fd2e128a57c5030f1844408abaea5b8fcba8033");
        Bytes plain = from_hex("f8ba1a55d02f85ae967bb62fb6cda8eb7e78a050");
        MacHdr h;
        if (MacHdr::parse(hdr.data(), hdr.size(), h) != 24) return "ccmp-hdr";
        Bytes body = ccmp_encap(tk.data(), h, 0xB5039776E70CULL, 0, plain);
        if (!hex_eq(body.data(), body.size(), "0ce70020769703b5f3d0a2fe9a3dbf2342a643e43246e80c3c04d0197845ce0b16f97623")) return "ccmp-vector";
        CcmpResult r = ccmp_decap(tk.data(), h, body);
        if (!r.mic_ok || r.plain != plain) return "ccmp-roundtrip";
    }
    return "";
}

} // namespace wref
#endif
