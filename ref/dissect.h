// Independent wire dissector (header-only). Written from the RFCs / IEEE texts, shares no code with libtins:
//   Ethernet II / IEEE 802.3 + 802.2 LLC + SNAP, 802.1Q / 802.1ad tags, MPLS (RFC 3032), PPPoE (RFC 2516) + PPP protocol id,
//   Linux cooked capture (SLL), DLT_NULL loopback (host-endian family), IPv4 + options (RFC 791), IPv6 + extension chain
//   (RFC 8200), AH (RFC 4302), ESP (opaque), TCP (RFC 9293), UDP (RFC 768), ICMP (RFC 792) + RFC 4884 extension structure,
//   ICMPv6 (RFC 4443) + NDP options (RFC 4861) + RFC 4884, ARP, EAPOL (802.1X length), RadioTap header + trailing FCS
//   (IEEE CRC-32, bitwise, reflected polynomial 0xEDB88320), RFC 1071 one's-complement checksum with IPv4/IPv6 pseudo-headers.
// Used by C05 (derived fields on the wire); reusable by anything that needs an independent reading of serialised bytes.
#ifndef VERIF_REF_DISSECT_H
#define VERIF_REF_DISSECT_H

#include <cstdint>
#include <cstddef>
#include <cstring>
#include <string>
#include <vector>
#include <utility>

namespace verif {
namespace dis {

inline uint16_t be16(const uint8_t* p) { return (uint16_t)((p[0] << 8) | p[1]); }
inline uint32_t be32(const uint8_t* p) { return ((uint32_t)p[0] << 24) | ((uint32_t)p[1] << 16) | ((uint32_t)p[2] << 8) | p[3]; }
inline uint16_t le16(const uint8_t* p) { return (uint16_t)((p[1] << 8) | p[0]); }
inline uint32_t le32(const uint8_t* p) { return ((uint32_t)p[3] << 24) | ((uint32_t)p[2] << 16) | ((uint32_t)p[1] << 8) | p[0]; }

// ---- RFC 1071 Internet checksum: big-endian 16-bit words, wide accumulator, end-around carry ------------------
struct Sum {
    uint64_t acc = 0;
    // an odd-length chunk is padded on the right with a zero octet: only the LAST chunk may be odd
    void add(const uint8_t* p, size_t n) {
        size_t i = 0;
        for (; i + 1 < n; i += 2) acc += (uint32_t)((p[i] << 8) | p[i + 1]);
        if (i < n) acc += (uint32_t)p[i] << 8;
    }
    void add16(uint16_t v) { acc += v; }
    void add32(uint32_t v) { acc += (v >> 16); acc += (v & 0xffff); }
    // one's-complement sum folded to 16 bits; *nfolds = how many end-around-carry rounds were needed
    uint16_t folded(unsigned* nfolds = nullptr) const {
        uint64_t a = acc;
        unsigned k = 0;
        while (a >> 16) { a = (a & 0xffff) + (a >> 16); ++k; }
        if (nfolds) *nfolds = k;
        return (uint16_t)a;
    }
};
inline uint16_t ones_add(uint16_t a, uint16_t b) { uint32_t s = (uint32_t)a + b; return (uint16_t)((s & 0xffff) + (s >> 16)); }

// ---- IEEE 802.3 CRC-32, bit by bit (reflected, polynomial 0xEDB88320, init and final xor all-ones) --------------
inline uint32_t crc32_ieee(const uint8_t* p, size_t n) {
    uint32_t c = 0xffffffffu;
    for (size_t i = 0; i < n; ++i) {
        c ^= p[i];
        for (int k = 0; k < 8; ++k) c = (c >> 1) ^ (0xEDB88320u & (0u - (c & 1u)));
    }
    return ~c;
}

enum Proto {
    P_NONE = 0,   // the layer has no next-protocol tag / nothing follows
    P_UNKNOWN,    // a tag is present but names nothing this dissector knows
    P_ETH2, P_DOT3, P_LLC, P_SNAP, P_DOT1Q, P_MPLS, P_PPPOE, P_PPP, P_SLL, P_NULL,
    P_IP4, P_IP6, P_AH, P_ESP, P_TCP, P_UDP, P_ICMP, P_ICMP6, P_ARP, P_EAPOL, P_RADIOTAP, P_DOT11, P_STP,
    P_PAYLOAD     // opaque bytes
};
inline const char* proto_name(Proto p) {
    static const char* const N[] = {"none", "unknown", "EthernetII", "802.3", "LLC", "SNAP", "802.1Q", "MPLS", "PPPoE", "PPP", "SLL", "Loopback",
                                    "IPv4", "IPv6", "AH", "ESP", "TCP", "UDP", "ICMP", "ICMPv6", "ARP", "EAPOL", "RadioTap", "802.11", "STP", "payload"};
    return N[(int)p];
}

enum Csum { CS_NONE = 0 /* layer has no checksum */, CS_OK, CS_BAD, CS_ZERO /* field is 0 = "not computed" (UDP) */, CS_NA /* needs a pseudo-header that is not directly available */ };

struct Item {          // an option / extension header / tag / object inside a layer
    uint32_t type;
    size_t off, len;   // whole item on the wire
    size_t data_off, data_len;
};

struct Layer {
    Proto proto = P_NONE;
    size_t off = 0, hlen = 0;       // header
    size_t pay_off = 0, pay_end = 0; // bytes this layer's own length fields give to the next layer
    size_t end = 0;                  // end of the region this layer was given
    Proto next = P_NONE;
    bool has_tag = false;
    uint32_t tag = 0;
    std::string err;                 // non-empty: the layer is structurally inconsistent (short tag of the problem)
    std::string err_detail;
    std::vector<std::pair<const char*, uint64_t> > f;  // named numeric fields
    std::vector<uint8_t> src, dst;   // network addresses (pseudo-header)
    std::vector<Item> items;         // IPv4/TCP options, IPv6 extension headers, PPPoE tags, NDP options
    size_t opt_end = 0;              // IPv4/TCP: first byte after the last option (padding starts here)
    // checksum of the layer
    Csum csum = CS_NONE;
    uint16_t csum_field = 0, csum_calc = 0;   // as transmitted / as computed with the field zeroed
    unsigned csum_folds = 0;                  // end-around-carry rounds of the verification sum
    size_t csum_len = 0;                      // bytes covered (without pseudo-header)
    // RFC 4884 (ICMP / ICMPv6)
    bool rfc4884_type = false;       // the type carries the length attribute
    unsigned rfc4884_len = 0;        // length attribute in bytes (0: not used)
    bool ext_present = false;
    size_t ext_off = 0;
    unsigned ext_version = 0;
    Csum ext_csum = CS_NONE;
    unsigned ext_folds = 0;
    std::vector<Item> ext_items;
    // RadioTap
    bool fcs_present = false;
    uint32_t fcs_field = 0, fcs_calc = 0;
    // IPv6 / IPv4 fragmentation
    bool fragment = false, later_fragment = false;

    void set(const char* n, uint64_t v) { f.push_back(std::make_pair(n, v)); }
    uint64_t get(const char* n, uint64_t dflt = ~0ull) const {
        for (size_t i = 0; i < f.size(); ++i) if (strcmp(f[i].first, n) == 0) return f[i].second;
        return dflt;
    }
    bool ok() const { return err.empty(); }
    void fail(const char* tag_, const std::string& detail) { if (err.empty()) { err = tag_; err_detail = detail; } }
};

inline std::string num(uint64_t v) { return std::to_string(v); }

inline Proto from_ethertype(uint32_t t) {
    switch (t) {
        case 0x0800: return P_IP4;
        case 0x86dd: return P_IP6;
        case 0x0806: return P_ARP;
        case 0x8100: case 0x88a8: case 0x9100: return P_DOT1Q;
        case 0x8847: case 0x8848: return P_MPLS;
        case 0x8863: case 0x8864: return P_PPPOE;
        case 0x888e: return P_EAPOL;
        default: return t <= 1500 ? P_LLC : P_UNKNOWN;
    }
}
inline Proto from_ipproto(uint32_t p) {
    switch (p) {
        case 1: return P_ICMP;
        case 4: return P_IP4;
        case 6: return P_TCP;
        case 17: return P_UDP;
        case 41: return P_IP6;
        case 50: return P_ESP;
        case 51: return P_AH;
        case 58: return P_ICMP6;
        case 59: return P_NONE;
        default: return P_UNKNOWN;
    }
}

// pseudo-header sum for an upper-layer protocol directly inside `ip` (RFC 768/9293 for IPv4, RFC 8200 section 8.1)
inline bool pseudo_header(const Layer* ip, unsigned proto, size_t upper_len, Sum& s) {
    if (!ip) return false;
    if (ip->proto == P_IP4 && ip->src.size() == 4) {
        s.add(ip->src.data(), 4);
        s.add(ip->dst.data(), 4);
        s.add16((uint16_t)proto);
        s.add16((uint16_t)upper_len);
        return true;
    }
    if (ip->proto == P_IP6 && ip->src.size() == 16) {
        s.add(ip->src.data(), 16);
        s.add(ip->dst.data(), 16);
        s.add32((uint32_t)upper_len);
        s.add32((uint32_t)proto);
        return true;
    }
    return false;
}

// verify a checksum stored big-endian at b[field_off..+2) covering b[from, to) (+ optional pseudo-header already in `s`)
inline void verify_sum(Layer& L, Sum s, const uint8_t* b, size_t from, size_t to, size_t field_off, Csum& out, unsigned& folds,
                       uint16_t* field = nullptr, uint16_t* calc = nullptr) {
    Sum with = s;
    with.add(b + from, to - from);
    uint16_t total = with.folded();
    out = total == 0xffff ? CS_OK : CS_BAD;
    uint16_t fld = be16(b + field_off);
    // value a sender computes with the field zeroed
    Sum wo = s;
    wo.add(b + from, field_off - from);
    wo.add(b + field_off + 2, to - field_off - 2);
    // (field_off is even relative to `from` in every protocol handled here, so splitting keeps the word alignment)
    uint16_t c = (uint16_t)~wo.folded(&folds);   // folds: end-around-carry rounds the sender's computation needs
    if (field) *field = fld;
    if (calc) *calc = c;
    (void)L;
}

// walk "kind [len data]" options (IPv4: RFC 791 3.1, TCP: RFC 9293 3.1): kind 0 ends the list, kind 1 is one octet
inline void walk_options(Layer& L, const uint8_t* b, size_t from, size_t to, const char* what) {
    size_t p = from;
    L.opt_end = from;
    while (p < to) {
        uint8_t k = b[p];
        if (k == 0) { Item it = {k, p, 1, p + 1, 0}; L.items.push_back(it); L.opt_end = p + 1; return; }  // End of option list
        if (k == 1) { Item it = {k, p, 1, p + 1, 0}; L.items.push_back(it); ++p; L.opt_end = p; continue; }
        if (p + 2 > to) { L.fail("option-truncated", std::string(what) + " option " + num(k) + " at " + num(p - L.off) + " has no length octet inside the header"); return; }
        unsigned len = b[p + 1];
        if (len < 2 || p + len > to) {
            L.fail("option-length", std::string(what) + " option " + num(k) + " at header offset " + num(p - L.off) + " has length " + num(len) + ", header ends at " + num(to - L.off));
            return;
        }
        Item it = {k, p, len, p + 2, len - 2};
        L.items.push_back(it);
        p += len;
        L.opt_end = p;
    }
}

inline void dissect_rfc4884(Layer& L, const uint8_t* b, size_t body_off, size_t end, unsigned unit, unsigned len_attr_units);
inline void dissect_icmp_ext(Layer& L, const uint8_t* b, size_t ext, size_t end);

// ------------------------------------------------------------------------------------------------------------------
// one layer. [off, end) is the region the enclosing layer gives to this one. `parent` = the directly enclosing layer.
inline Layer dissect_one(Proto proto, const uint8_t* b, size_t off, size_t end, const Layer* parent) {
    Layer L;
    L.proto = proto;
    L.off = off;
    L.end = end;
    L.pay_off = L.pay_end = end;
    size_t avail = end - off;
#define NEED(n, what) do { if (avail < (size_t)(n)) { L.fail("truncated", std::string(what) + " needs " + num(n) + " bytes, " + num(avail) + " available"); return L; } } while (0)
    switch (proto) {
        case P_ETH2: {
            NEED(14, "Ethernet II header");
            L.hlen = 14;
            L.has_tag = true;
            L.tag = be16(b + off + 12);
            L.set("ethertype", L.tag);
            L.next = from_ethertype(L.tag);
            if (L.tag <= 1500) L.next = P_UNKNOWN;  // that would be an 802.3 length, not an EtherType
            L.pay_off = off + 14;
            L.pay_end = end;
            break;
        }
        case P_DOT3: {
            NEED(14, "802.3 header");
            L.hlen = 14;
            unsigned len = be16(b + off + 12);
            L.set("length", len);
            L.pay_off = off + 14;
            if (len > 1500) { L.fail("length-is-ethertype", "802.3 length field " + num(len) + " > 1500"); return L; }
            if (off + 14 + len > end) { L.fail("length-beyond-frame", "802.3 length " + num(len) + " but only " + num(avail - 14) + " bytes follow the header"); return L; }
            L.pay_end = off + 14 + len;
            L.next = P_LLC;
            break;
        }
        case P_LLC: {
            NEED(3, "LLC header");
            unsigned dsap = b[off], ssap = b[off + 1], ctl = b[off + 2];
            if (dsap == 0xaa && ssap == 0xaa && ctl == 0x03 && avail >= 8) return dissect_one(P_SNAP, b, off, end, parent);
            L.set("dsap", dsap); L.set("ssap", ssap); L.set("control", ctl);
            L.hlen = (ctl & 3) == 3 ? 3 : 4;   // U format: 1 control octet; I and S formats: 2
            NEED(L.hlen, "LLC header");
            L.has_tag = true;
            L.tag = (dsap << 8) | ssap;
            L.next = (dsap == 0x42 && ssap == 0x42) ? P_STP : P_UNKNOWN;
            L.pay_off = off + L.hlen;
            L.pay_end = end;
            break;
        }
        case P_SNAP: {  // 802.2 LLC (3) + SNAP (5)
            NEED(8, "LLC/SNAP header");
            L.hlen = 8;
            L.set("dsap", b[off]); L.set("ssap", b[off + 1]); L.set("control", b[off + 2]);
            uint32_t oui = ((uint32_t)b[off + 3] << 16) | (b[off + 4] << 8) | b[off + 5];
            L.set("oui", oui);
            L.has_tag = true;
            L.tag = be16(b + off + 6);
            L.set("ethertype", L.tag);
            L.next = (oui == 0 && L.tag > 1500) ? from_ethertype(L.tag) : P_UNKNOWN;
            L.pay_off = off + 8;
            L.pay_end = end;
            break;
        }
        case P_DOT1Q: {
            NEED(4, "802.1Q tag");
            L.hlen = 4;
            unsigned tci = be16(b + off);
            L.set("pcp", tci >> 13); L.set("dei", (tci >> 12) & 1); L.set("vid", tci & 0xfff);
            L.has_tag = true;
            L.tag = be16(b + off + 2);
            L.set("ethertype", L.tag);
            L.next = from_ethertype(L.tag);
            L.pay_off = off + 4;
            L.pay_end = end;
            break;
        }
        case P_MPLS: {
            NEED(4, "MPLS label stack entry");
            L.hlen = 4;
            uint32_t w = be32(b + off);
            L.set("label", w >> 12); L.set("tc", (w >> 9) & 7); L.set("bos", (w >> 8) & 1); L.set("ttl", w & 0xff);
            L.pay_off = off + 4;
            L.pay_end = end;
            if (((w >> 8) & 1) == 0) L.next = P_MPLS;
            else if (avail > 4) {
                unsigned v = b[off + 4] >> 4;
                L.next = v == 4 ? P_IP4 : v == 6 ? P_IP6 : P_UNKNOWN;
            } else L.next = P_NONE;
            break;
        }
        case P_PPPOE: {
            NEED(6, "PPPoE header");
            L.hlen = 6;
            L.set("version", b[off] >> 4); L.set("type", b[off] & 0xf); L.set("code", b[off + 1]); L.set("session", be16(b + off + 2));
            unsigned len = be16(b + off + 4);
            L.set("length", len);
            L.pay_off = off + 6;
            if (off + 6 + len > end) { L.fail("length-beyond-frame", "PPPoE payload length " + num(len) + " but only " + num(avail - 6) + " bytes follow the header"); return L; }
            L.pay_end = off + 6 + len;
            if (b[off + 1] == 0) { L.next = len ? P_PPP : P_NONE; break; }
            // discovery: the payload is a list of TLV tags (RFC 2516 section 5)
            size_t p = L.pay_off;
            while (p < L.pay_end) {
                if (p + 4 > L.pay_end) { L.fail("tag-truncated", "PPPoE tag header at payload offset " + num(p - L.pay_off) + " crosses the payload length " + num(len)); return L; }
                unsigned tl = be16(b + p + 2);
                if (p + 4 + tl > L.pay_end) { L.fail("tag-length", "PPPoE tag at payload offset " + num(p - L.pay_off) + " has length " + num(tl) + ", payload length " + num(len)); return L; }
                Item it = {be16(b + p), p, 4 + tl, p + 4, tl};
                L.items.push_back(it);
                p += 4 + tl;
            }
            L.hlen = 6 + len;  // the tags belong to the PPPoE header
            L.pay_off = L.pay_end;
            L.next = P_NONE;
            break;
        }
        case P_PPP: {
            NEED(2, "PPP protocol field");
            L.hlen = 2;
            L.has_tag = true;
            L.tag = be16(b + off);
            L.next = L.tag == 0x0021 ? P_IP4 : L.tag == 0x0057 ? P_IP6 : P_UNKNOWN;
            L.pay_off = off + 2;
            L.pay_end = end;
            break;
        }
        case P_SLL: {
            NEED(16, "SLL header");
            L.hlen = 16;
            L.set("pkttype", be16(b + off)); L.set("hatype", be16(b + off + 2)); L.set("halen", be16(b + off + 4));
            L.has_tag = true;
            L.tag = be16(b + off + 14);
            L.set("protocol", L.tag);
            L.next = L.tag > 1500 ? from_ethertype(L.tag) : P_UNKNOWN;
            L.pay_off = off + 16;
            L.pay_end = end;
            break;
        }
        case P_NULL: {
            NEED(4, "loopback header");
            L.hlen = 4;
            uint32_t fam;
            memcpy(&fam, b + off, 4);  // host byte order (DLT_NULL)
            L.has_tag = true;
            L.tag = fam;
            L.set("family", fam);
            // AF_INET is 2 everywhere; AF_INET6 is 10 (Linux), 24 (NetBSD/OpenBSD), 28 (FreeBSD), 30 (Darwin); 26 is Linux PF_LLC
            L.next = fam == 2 ? P_IP4 : (fam == 10 || fam == 24 || fam == 28 || fam == 30) ? P_IP6 : fam == 26 ? P_LLC : P_UNKNOWN;
            L.pay_off = off + 4;
            L.pay_end = end;
            break;
        }
        case P_IP4: {
            NEED(20, "IPv4 header");
            unsigned ver = b[off] >> 4, ihl = b[off] & 0xf;
            L.set("version", ver); L.set("ihl", ihl);
            L.hlen = ihl * 4;
            unsigned tot = be16(b + off + 2);
            L.set("tot_len", tot); L.set("tos", b[off + 1]); L.set("id", be16(b + off + 4));
            unsigned fo = be16(b + off + 6);
            L.set("flags", fo >> 13); L.set("frag_off", fo & 0x1fff);
            L.set("ttl", b[off + 8]); L.set("protocol", b[off + 9]);
            L.src.assign(b + off + 12, b + off + 16);
            L.dst.assign(b + off + 16, b + off + 20);
            if (ihl < 5) { L.fail("ihl-below-5", "IHL " + num(ihl)); return L; }
            if (L.hlen > avail) { L.fail("ihl-beyond-packet", "IHL " + num(ihl) + " = " + num(L.hlen) + " bytes, " + num(avail) + " available"); return L; }
            if (tot < L.hlen) { L.fail("total-length-below-header", "total length " + num(tot) + " < header length " + num(L.hlen)); return L; }
            if (tot > avail) { L.fail("total-length-beyond-packet", "total length " + num(tot) + " but " + num(avail) + " bytes available"); return L; }
            L.pay_off = off + L.hlen;
            L.pay_end = off + tot;
            walk_options(L, b, off + 20, off + L.hlen, "IPv4");
            if (!L.ok()) return L;
            verify_sum(L, Sum(), b, off, off + L.hlen, off + 10, L.csum, L.csum_folds, &L.csum_field, &L.csum_calc);
            L.csum_len = L.hlen;
            L.has_tag = true;
            L.tag = b[off + 9];
            L.fragment = (fo & 0x2000) || (fo & 0x1fff);
            L.later_fragment = (fo & 0x1fff) != 0;
            L.next = from_ipproto(L.tag);
            break;
        }
        case P_IP6: {
            NEED(40, "IPv6 header");
            L.set("version", b[off] >> 4);
            unsigned plen = be16(b + off + 4);
            L.set("payload_length", plen); L.set("next_header", b[off + 6]); L.set("hop_limit", b[off + 7]);
            L.src.assign(b + off + 8, b + off + 24);
            L.dst.assign(b + off + 24, b + off + 40);
            if (off + 40 + plen > end) { L.fail("payload-length-beyond-packet", "payload length " + num(plen) + " but " + num(avail - 40) + " bytes follow the fixed header"); return L; }
            L.pay_end = off + 40 + plen;
            // extension header chain (RFC 8200 section 4): generic "next header, hdr ext len in 8-octet units not counting the first 8"
            size_t p = off + 40;
            unsigned nh = b[off + 6];
            for (;;) {
                bool generic = nh == 0 || nh == 43 || nh == 60 || nh == 135 || nh == 139 || nh == 140;
                if (!generic && nh != 44) break;
                if (p + 8 > L.pay_end) { L.fail("ext-header-truncated", "extension header " + num(nh) + " at offset " + num(p - off) + " does not fit the payload length " + num(plen)); return L; }
                size_t len = nh == 44 ? 8 : ((size_t)b[p + 1] + 1) * 8;  // fragment header: fixed 8 octets, second octet reserved
                if (p + len > L.pay_end) { L.fail("ext-header-length", "extension header " + num(nh) + " at offset " + num(p - off) + " claims " + num(len) + " bytes, payload ends at " + num(L.pay_end - off)); return L; }
                Item it = {nh, p, len, p + 2, len - 2};
                L.items.push_back(it);
                if (nh == 44) {
                    unsigned fo = be16(b + p + 2);
                    L.fragment = true;
                    if (fo >> 3) L.later_fragment = true;
                }
                nh = b[p];
                p += len;
            }
            L.hlen = p - off;
            L.pay_off = p;
            L.has_tag = true;
            L.tag = nh;  // the protocol the chain finally names
            L.set("final_next_header", nh);
            L.next = from_ipproto(nh);
            break;
        }
        case P_AH: {
            NEED(12, "AH header");
            unsigned len = ((unsigned)b[off + 1] + 2) * 4;  // RFC 4302: payload len = length in 32-bit words minus 2
            L.set("length", b[off + 1]); L.set("spi", be32(b + off + 4)); L.set("seq", be32(b + off + 8));
            L.hlen = len;
            if (len < 12) { L.fail("length-below-fixed-part", "AH length " + num(len)); return L; }
            if (len > avail) { L.fail("length-beyond-packet", "AH header length " + num(len) + " bytes, " + num(avail) + " available"); return L; }
            L.has_tag = true;
            L.tag = b[off];
            L.next = from_ipproto(L.tag);
            L.pay_off = off + len;
            L.pay_end = end;
            break;
        }
        case P_ESP: {
            NEED(8, "ESP header");
            L.hlen = 8;
            L.set("spi", be32(b + off)); L.set("seq", be32(b + off + 4));
            L.pay_off = off + 8;
            L.pay_end = end;
            L.next = P_NONE;
            break;
        }
        case P_TCP: {
            NEED(20, "TCP header");
            unsigned doff = b[off + 12] >> 4;
            L.set("sport", be16(b + off)); L.set("dport", be16(b + off + 2)); L.set("seq", be32(b + off + 4)); L.set("ack", be32(b + off + 8));
            L.set("doff", doff); L.set("flags", b[off + 13]); L.set("flags12", ((b[off + 12] & 0xf) << 8) | b[off + 13]); L.set("window", be16(b + off + 14));
            L.hlen = doff * 4;
            if (doff < 5) { L.fail("data-offset-below-5", "data offset " + num(doff)); return L; }
            if (L.hlen > avail) { L.fail("data-offset-beyond-segment", "data offset " + num(doff) + " = " + num(L.hlen) + " bytes, segment has " + num(avail)); return L; }
            L.pay_off = off + L.hlen;
            L.pay_end = end;
            walk_options(L, b, off + 20, off + L.hlen, "TCP");
            if (!L.ok()) return L;
            Sum s;
            L.csum_len = avail;
            if (pseudo_header(parent, 6, avail, s)) verify_sum(L, s, b, off, end, off + 16, L.csum, L.csum_folds, &L.csum_field, &L.csum_calc);
            else { L.csum = CS_NA; L.csum_field = be16(b + off + 16); }
            L.next = P_NONE;
            break;
        }
        case P_UDP: {
            NEED(8, "UDP header");
            L.hlen = 8;
            unsigned len = be16(b + off + 4);
            L.set("sport", be16(b + off)); L.set("dport", be16(b + off + 2)); L.set("length", len);
            L.pay_off = off + 8;
            if (len < 8) { L.fail("length-below-header", "UDP length " + num(len)); return L; }
            if (len > avail) { L.fail("length-beyond-datagram", "UDP length " + num(len) + " but the enclosing layer gives " + num(avail) + " bytes"); return L; }
            L.pay_end = off + len;
            L.csum_field = be16(b + off + 6);
            L.csum_len = len;
            Sum s;
            if (L.csum_field == 0) L.csum = CS_ZERO;  // RFC 768: all zero = the transmitter generated no checksum
            else if (pseudo_header(parent, 17, len, s)) verify_sum(L, s, b, off, off + len, off + 6, L.csum, L.csum_folds, &L.csum_field, &L.csum_calc);
            else L.csum = CS_NA;
            if (L.csum == CS_ZERO && pseudo_header(parent, 17, len, s)) {
                Sum wo = s;
                wo.add(b + off, len);
                L.csum_calc = (uint16_t)~wo.folded(&L.csum_folds);
            }
            L.next = P_NONE;
            break;
        }
        case P_ICMP: {
            NEED(8, "ICMP header");
            unsigned type = b[off];
            L.set("type", type); L.set("code", b[off + 1]);
            L.hlen = (type == 13 || type == 14) ? 20 : (type == 17 || type == 18) ? 12 : 8;
            NEED(L.hlen, "ICMP header of this type");
            L.pay_off = off + L.hlen;
            L.pay_end = end;
            verify_sum(L, Sum(), b, off, end, off + 2, L.csum, L.csum_folds, &L.csum_field, &L.csum_calc);
            L.csum_len = avail;
            L.rfc4884_type = type == 3 || type == 11 || type == 12;
            if (L.rfc4884_type) dissect_rfc4884(L, b, off + 8, end, 4, b[off + 5]);
            L.next = P_NONE;
            break;
        }
        case P_ICMP6: {
            NEED(4, "ICMPv6 header");
            unsigned type = b[off];
            L.set("type", type); L.set("code", b[off + 1]);
            L.hlen = avail < 8 ? 4 : 8;
            L.pay_off = off + L.hlen;
            L.pay_end = end;
            Sum s;
            L.csum_len = avail;
            if (pseudo_header(parent, 58, avail, s) && parent->proto == P_IP6) verify_sum(L, s, b, off, end, off + 2, L.csum, L.csum_folds, &L.csum_field, &L.csum_calc);
            else { L.csum = CS_NA; L.csum_field = be16(b + off + 2); }
            L.rfc4884_type = (type == 1 || type == 3) && avail >= 8;
            if (L.rfc4884_type) dissect_rfc4884(L, b, off + 8, end, 8, b[off + 4]);
            // neighbour discovery options (RFC 4861 4.6): type, length in units of 8 octets, never 0
            size_t opt = 0;
            switch (type) { case 133: opt = 8; break; case 134: opt = 16; break; case 135: case 136: opt = 24; break; case 137: opt = 40; break; default: break; }
            if (opt && avail >= opt) {
                L.hlen = opt;
                size_t p = off + opt;
                while (p < end) {
                    if (p + 2 > end) { L.fail("nd-option-truncated", "ND option header at offset " + num(p - off) + " crosses the end of the message"); break; }
                    size_t ol = (size_t)b[p + 1] * 8;
                    if (ol == 0 || p + ol > end) { L.fail("nd-option-length", "ND option " + num(b[p]) + " at offset " + num(p - off) + " has length " + num(ol) + ", message ends at " + num(end - off)); break; }
                    Item it = {b[p], p, ol, p + 2, ol - 2};
                    L.items.push_back(it);
                    p += ol;
                }
                L.opt_end = p;
            }
            L.next = P_NONE;
            break;
        }
        case P_ARP: {
            NEED(8, "ARP header");
            unsigned hl = b[off + 4], pl = b[off + 5];
            L.hlen = 8 + 2 * (hl + pl);
            L.set("htype", be16(b + off)); L.set("ptype", be16(b + off + 2)); L.set("oper", be16(b + off + 6));
            NEED(L.hlen, "ARP body");
            L.pay_off = L.pay_end = off + L.hlen;
            L.next = P_NONE;
            break;
        }
        case P_EAPOL: {
            NEED(4, "EAPOL header");
            unsigned len = be16(b + off + 2);
            L.set("version", b[off]); L.set("type", b[off + 1]); L.set("length", len);
            L.hlen = 4;
            L.pay_off = off + 4;
            if (off + 4 + len > end) { L.fail("length-beyond-frame", "EAPOL body length " + num(len) + " but " + num(avail - 4) + " bytes follow the header"); return L; }
            L.pay_end = off + 4 + len;
            L.next = P_NONE;
            break;
        }
        case P_RADIOTAP: {
            NEED(8, "RadioTap header");
            unsigned len = le16(b + off + 2);
            L.set("version", b[off]); L.set("length", len);
            L.hlen = len;
            if (len < 8) { L.fail("length-below-fixed-part", "it_len " + num(len)); return L; }
            if (len > avail) { L.fail("length-beyond-frame", "it_len " + num(len) + " but the frame has " + num(avail) + " bytes"); return L; }
            // present words: bit 31 = another word follows
            size_t p = off + 4;
            uint32_t first = le32(b + p);
            uint32_t w = first;
            p += 4;
            while (w & 0x80000000u) {
                if (p + 4 > off + len) { first &= ~2u; break; }  // malformed field list: an acceptance question, not a derived field
                w = le32(b + p);
                p += 4;
            }
            L.set("present", first);
            L.pay_off = off + len;
            L.pay_end = end;
            if (first & 2) {  // FLAGS (bit 1) comes after the optional 8-byte TSFT (bit 0, aligned to 8 from the start of the header)
                size_t q = p;
                if (first & 1) { q = off + (((q - off) + 7) & ~(size_t)7); q += 8; }
                if (q < off + len) {
                    unsigned flags = b[q];
                    L.set("flags", flags);
                    if (flags & 0x10) {  // frame includes FCS
                        if (end - (off + len) >= 4) {
                            L.fcs_present = true;
                            L.pay_end = end - 4;
                            L.fcs_field = le32(b + end - 4);  // transmitted least significant octet first
                            L.fcs_calc = crc32_ieee(b + off + len, end - 4 - (off + len));
                        }
                    }
                }
            }
            L.next = P_DOT11;
            break;
        }
        default: {
            L.proto = P_PAYLOAD;
            L.hlen = 0;
            L.pay_off = off;
            L.pay_end = end;
            L.next = P_NONE;
            break;
        }
    }
#undef NEED
    return L;
}

// the RFC 4884 extension structure occupying [ext, end): 4-byte header (version, reserved, checksum) + objects
inline void dissect_icmp_ext(Layer& L, const uint8_t* b, size_t ext, size_t end) {
    if (end < ext || end - ext < 4) { L.fail("rfc4884-extension-truncated", num(end - ext) + " bytes after the original datagram: too short for an extension header"); return; }
    L.ext_present = true;
    L.ext_off = ext;
    L.ext_version = b[ext] >> 4;
    Sum s;
    s.add(b + ext, end - ext);
    L.ext_csum = s.folded(&L.ext_folds) == 0xffff ? CS_OK : (be16(b + ext + 2) == 0 ? CS_ZERO : CS_BAD);
    size_t p = ext + 4;
    while (p < end) {
        if (p + 4 > end) { L.fail("rfc4884-object-truncated", "extension object header at " + num(p - ext) + " crosses the end of the message"); return; }
        unsigned ol = be16(b + p);
        if (ol < 4 || p + ol > end) { L.fail("rfc4884-object-length", "extension object at " + num(p - ext) + " has length " + num(ol) + ", structure ends at " + num(end - ext)); return; }
        Item it = {(uint32_t)((b[p + 2] << 8) | b[p + 3]), p, ol, p + 4, ol - 4u};
        L.ext_items.push_back(it);
        p += ol;
    }
}

// RFC 4884: length attribute (in `unit`-octet words) = size of the zero-padded "original datagram" field that starts at
// body_off; what follows it is the extension structure (version 2, checksum, objects with 16-bit lengths).
// Length attribute 0 = legacy message: an extension structure, if any, starts exactly 128 octets into the body (section 5.5).
inline void dissect_rfc4884(Layer& L, const uint8_t* b, size_t body_off, size_t end, unsigned unit, unsigned len_attr_units) {
    L.rfc4884_len = len_attr_units * unit;
    size_t ext = 0;
    if (L.rfc4884_len) {
        if (body_off + L.rfc4884_len > end) {
            L.fail("rfc4884-length-beyond-message", "length attribute " + num(len_attr_units) + " = " + num(L.rfc4884_len) + " bytes of original datagram, but only " + num(end - body_off) + " bytes follow the header");
            return;
        }
        L.pay_end = body_off + L.rfc4884_len;
        if (L.pay_end == end) return;
        ext = L.pay_end;
    } else {
        if (end - body_off < 128 + 4) return;
        ext = body_off + 128;
        // legacy heuristic: only believe in a structure whose version is 2 and whose checksum verifies
        if ((b[ext] >> 4) != 2) return;
        Sum s;
        s.add(b + ext, end - ext);
        if (s.folded() != 0xffff) return;
        L.pay_end = ext;
    }
    dissect_icmp_ext(L, b, ext, end);
}

// follow the tags from `start` as far as this dissector can
inline std::vector<Layer> dissect(Proto start, const uint8_t* b, size_t n, size_t off = 0) {
    std::vector<Layer> out;
    Proto p = start;
    size_t end = n;
    Layer prev;
    bool have_prev = false;
    for (int depth = 0; depth < 64; ++depth) {
        if (p == P_DOT11 || p == P_STP || p == P_UNKNOWN || p == P_PAYLOAD) {
            Layer L = dissect_one(P_PAYLOAD, b, off, end, nullptr);
            out.push_back(L);
            break;
        }
        Layer L = dissect_one(p, b, off, end, have_prev ? &prev : nullptr);
        out.push_back(L);
        if (!L.ok()) break;
        prev = L;
        have_prev = true;
        if ((L.proto == P_IP4 || L.proto == P_IP6) && L.later_fragment) p = P_PAYLOAD; else p = L.next;
        off = L.pay_off;
        end = L.pay_end;
        if (off >= end || p == P_NONE) {
            if (off < end) out.push_back(dissect_one(P_PAYLOAD, b, off, end, nullptr));
            break;
        }
    }
    return out;
}

// DLT_EN10MB: Ethernet II vs 802.3 by the type/length field
inline Proto en10mb_proto(const uint8_t* b, size_t n) { return (n >= 14 && be16(b + 12) <= 1500) ? P_DOT3 : P_ETH2; }

inline std::string stack_text(const std::vector<Layer>& v) {
    std::string s;
    for (size_t i = 0; i < v.size(); ++i) {
        if (i) s += "/";
        s += proto_name(v[i].proto);
        if (!v[i].ok()) s += "!" + v[i].err;
    }
    return s;
}

}  // namespace dis
}  // namespace verif
#endif
