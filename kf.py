#!/usr/bin/env python3
"""maintain known_findings.json:  kf.py fixed C07 <commit> "<what>" [signature] | kf.py open C07 "<signature>" "<what>" [witness] | kf.py fold C07 (pending -> open)"""
import json, sys, os
P = os.path.join(os.path.dirname(os.path.abspath(__file__)), "known_findings.json")
k = json.load(open(P))
cmd = sys.argv[1]
if cmd == "fixed":
    e = {"status": "fixed", "property": sys.argv[2], "commit": sys.argv[3], "what": sys.argv[4]}
    if len(sys.argv) > 5: e["signature"] = sys.argv[5]
    k["findings"].append(e)
elif cmd == "open":
    e = {"status": "open", "property": sys.argv[2], "signature": sys.argv[3], "what": sys.argv[4]}
    if len(sys.argv) > 5: e["witness"] = sys.argv[5]
    k["findings"].append(e)
elif cmd == "fold":
    pp = os.path.join(os.path.dirname(P), "findings", sys.argv[2] + ".pending.json")
    for e in json.load(open(pp)):
        e = dict(e); e["status"] = "open"; e["property"] = sys.argv[2]
        k["findings"].append(e)
    os.unlink(pp)
json.dump(k, open(P, "w"), indent=1)
print(len(k["findings"]), "entries")
