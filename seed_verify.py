#!/usr/bin/env python3
"""Verify a seeded breakage produced by an independent sub-agent and run our check against it.
   python3 seed_verify.py C10 1 [--tier quick] [--props C10,C01]
Uses the agent's scratch worktree /tmp/seed-<ID> (with its _build). Writes /verif/seeded/<ID>-<n>/{patch.diff,demo.cpp,README.md,meta.json}."""
import json, os, shutil, subprocess, sys, time
pid, n = sys.argv[1], sys.argv[2]
tier = sys.argv[sys.argv.index("--tier") + 1] if "--tier" in sys.argv else "quick"
props = sys.argv[sys.argv.index("--props") + 1].split(",") if "--props" in sys.argv else [pid]
rnd = sys.argv[sys.argv.index("--round") + 1] if "--round" in sys.argv else "1"
wt = ("/tmp/seed-" if rnd == "1" else "/tmp/seed%s-" % rnd) + pid
src = os.path.join(wt, "OUT", n)
dst = "/verif/seeded/%s-%s" % (pid, n) if rnd == "1" else "/verif/seeded/%s-r%s-%s" % (pid, rnd, n)
if "--wt" in sys.argv:      # round 3: area worktrees; the property is named by the change's README
    wt = sys.argv[sys.argv.index("--wt") + 1]
    src = os.path.join(wt, "OUT", n)
    dst = "/verif/seeded/%s-r%s-%s%s" % (pid, rnd, os.path.basename(wt).split("-")[-1], n)
os.makedirs(dst, exist_ok=True)
for f in os.listdir(src):
    if os.path.isfile(os.path.join(src, f)) and os.path.getsize(os.path.join(src, f)) < 400000:
        shutil.copy(os.path.join(src, f), dst)
def sh(cmd, **kw):
    return subprocess.run(cmd, shell=True, cwd=wt, stdout=subprocess.PIPE, stderr=subprocess.STDOUT, text=True, **kw)
meta = {"property": pid, "seed": n, "ran": []}
def build_lib():
    r = sh("cmake --build _build >/dev/null 2>&1 && cmake --build _build --target tests > /dev/null 2>&1; echo rc=$?")
    return "rc=0" in r.stdout
def demo():
    r = sh("g++ -std=c++14 -I include -I _build/include OUT/%s/demo.cpp -L _build/lib -ltins -lpcap -lcrypto -lpthread -o /tmp/seed-demo-%s && LD_LIBRARY_PATH=_build/lib timeout 180 /tmp/seed-demo-%s; echo demo_rc=$?" % (n, pid + rnd, pid + rnd))
    return r.stdout.strip().splitlines()[-1]
sh("git checkout -q -- . ")
assert build_lib(), "baseline build failed"
base_demo = demo()
meta["demo_without_change"] = base_demo
r = sh("git apply OUT/%s/patch.diff; echo rc=$?" % n)
assert "rc=0" in r.stdout, "patch does not apply: " + r.stdout
ok = build_lib()
meta["compiles_with_change"] = ok
r = sh("ctest --test-dir _build -j8 2>&1 | tail -3")
meta["test_suite_with_change"] = " ".join(r.stdout.split())
meta["demo_with_change"] = demo() if ok else "n/a"
meta["confirmed"] = ok and "100% tests passed" in r.stdout and base_demo == "demo_rc=0" and meta["demo_with_change"] != "demo_rc=0"
sh("git checkout -q -- .")
# our checks against the change applied to /repo's CURRENT head (the sub-agent's base may predate later fix: commits)
meta["checks"] = {}
for p in props:
    t0 = time.time()
    rr = subprocess.run([sys.executable, "/verif/sens.py", p, os.path.join(dst, "patch.diff"), "--tier", tier], stdout=subprocess.PIPE, stderr=subprocess.STDOUT, text=True)
    line = rr.stdout.strip().splitlines()[-1] if rr.stdout.strip() else ""
    meta["checks"][p] = {"tier": tier, "caught": rr.returncode == 0 and "CAUGHT" in line, "result": line[:400], "seconds": round(time.time() - t0)}
    meta["ran"].append("python3 sens.py %s %s --tier %s" % (p, os.path.relpath(os.path.join(dst, "patch.diff"), "/verif"), tier))
sh("git checkout -q -- .")
try:
    readme = open(os.path.join(dst, "README.md")).read()
    meta["what_it_needs"] = readme[:1500]
except OSError:
    pass
json.dump(meta, open(os.path.join(dst, "meta.json"), "w"), indent=1)
print(os.path.basename(dst), "confirmed=%s" % meta["confirmed"], meta["demo_without_change"], meta["demo_with_change"], {k: v["result"][:160] for k, v in meta["checks"].items()})
