#!/usr/bin/env python3
"""Regenerates MANIFEST.json from props/*.json (one check per built property) and validates it."""
import glob, json, os, subprocess, sys
V = os.path.dirname(os.path.abspath(__file__))
ALL = [json.loads(l)["id"] for l in open(os.path.join(V, "properties.jsonl"))]
REGISTERED = set(open(os.path.join(V, "registered.txt")).read().split())   # checks verified green on the unchanged tree
checks, claimed = [], set()
for p in sorted(glob.glob(os.path.join(V, "props", "c*.json"))):
    m = json.load(open(p))
    pid = os.path.basename(p)[:-5].upper()
    if pid not in REGISTERED:
        continue
    claimed.add(pid)
    checks.append({
        "property_id": pid,
        "quick_cmd": "python3 run.py %s --tier quick" % pid,
        "thorough_cmd": "python3 run.py %s --tier thorough" % pid,
        "evidence_file": "/verif/evidence/%s.json" % pid,
        "replay_cmd_template": "python3 run.py %s --replay {path}" % pid,
        "engine": "choice-sequence-pbt",
        "level_claimed": {"category": m.get("level", "exploration"), "text": m["level_text"], "design_ref": "DESIGN.md section 6, " + pid},
        "level_note": m["level_note"],
        "technique": m["technique"],
    })
pending = json.load(open(os.path.join(V, "not_applicable.json"))) if os.path.exists(os.path.join(V, "not_applicable.json")) else {}
na = []
for pid in ALL:
    if pid not in claimed:
        na.append({"property_id": pid, "reason": pending.get(pid, "check not built yet in this session (planned in DESIGN.md section 6); not claimed until its check exists and is green on the unchanged tree")})
hooks_commits = subprocess.run(["git", "-C", "/repo", "log", "--format=%H", "--grep=^verif hook"], stdout=subprocess.PIPE, text=True).stdout.split()
man = {
    "version": 1,
    "setup_cmd": "python3 run.py --setup",
    "hooks": {
        "guard": "LIBTINS_VERIF_HOOKS",
        "enable": "run.py compiles /repo/src/**/*.cpp itself with clang++ -DLIBTINS_VERIF_HOOKS -fsanitize=address,undefined,fuzzer-no-link (tsan config for C18); include path /verif/gen (pinned tins/config.h) before /repo/include",
        "baseline_off_cmd": "/verif/baseline.sh",
        "source_commits": hooks_commits,
        "add_only": True,
    },
    "engines": [{
        "name": "choice-sequence-pbt",
        "path": "/verif/engine",
        "serves_properties": sorted(claimed),
        "kind_free_text": "property-based testing over choice sequences: every property is prop(Src&,Ctx&) decoding a structured case (values, operation sequences, schedules) from a byte string; driven by a seeded random driver with in-process mutation pool and generic byte-level shrinking, by libFuzzer (coverage-guided) over the same function, and by exhaustive enumerators for finite sub-domains; ASan+UBSan+LSan builds of /repo's working tree; replay file = raw choice bytes",
    }],
    "checks": checks,
    "not_applicable": na,
    "notes": "All checks: python3 run.py <ID> --tier quick|thorough. Known findings: /verif/known_findings.json. Seeded breakages: /verif/seeded/. See DESIGN.md.",
}
json.dump(man, open(os.path.join(V, "MANIFEST.json"), "w"), indent=1)
try:
    import jsonschema
    jsonschema.validate(man, json.load(open("/root/.vp/MANIFEST.schema.json")))
    print("MANIFEST.json valid;", len(checks), "checks,", len(na), "not_applicable")
except ImportError:
    print("jsonschema not available; wrote MANIFEST.json unvalidated")
