#!/usr/bin/env python3
"""Mutation campaign: how many small source mutations that the repository's own tests do NOT notice do the checks notice?

   python3 mutate.py --worker K --workers N --count M [--seed S] [--files a.cpp,b.cpp] [--out mutation/results-K.jsonl]

For every sampled mutant (one token-level edit in one line of /repo/src or a header with inline code):
  1. apply it in this worker's scratch worktree of /repo's HEAD (/tmp/mutw<K>, with its own cmake build),
  2. rebuild libtins and the repository's tests, run ctest: a mutant that does not compile or that the tests kill is
     dropped (outcome 'killed-by-tests' / 'does-not-compile');
  3. a survivor is run against the quick tier of the properties mapped to its file, cheapest/most relevant first,
     stopping at the first VIOLATION (outcome 'caught', with property and signature) or after all of them ('missed').
Results are appended as JSON lines; nothing is written to /repo. Survivors that no check catches are triaged by hand
(equivalent mutant / outside every property / blind spot) in mutation/TRIAGE.md.
"""
import hashlib, json, os, random, re, shutil, subprocess, sys, time

VERIF = os.path.dirname(os.path.abspath(__file__))

def arg(name, default=None):
    return sys.argv[sys.argv.index(name) + 1] if name in sys.argv else default

K = int(arg("--worker", "0"))
N = int(arg("--workers", "1"))
COUNT = int(arg("--count", "10"))
SEED = int(arg("--seed", "1"))
OUT = arg("--out", os.path.join(VERIF, "mutation", "results-%d.jsonl" % K))
WT = "/tmp/mutw%d" % K
ONLY = arg("--files")

# file -> properties to try, in order
LAYER = ["C15", "C04", "C05", "C03", "C02", "C14", "C01"]
MAP = [
    (r"src/dns\.cpp", ["C10", "C01"]),
    (r"src/radiotap\.cpp|src/utils/radiotap_", ["C11", "C01"]),
    (r"src/tcp_ip/data_tracker\.cpp|src/tcp_ip/flow\.cpp", ["C06", "C07", "C19"]),
    (r"src/tcp_ip/ack_tracker\.cpp", ["C19", "C06"]),
    (r"src/tcp_ip/stream", ["C07", "C06"]),
    (r"src/tcp_stream", ["C06"]),
    (r"src/ip_reassembler\.cpp", ["C08"]),
    (r"src/crypto\.cpp|src/handshake_capturer\.cpp", ["C09"]),
    (r"src/eapol\.cpp|src/rsn_information\.cpp", ["C04", "C15", "C09", "C03", "C01"]),
    (r"src/(ip_address|ipv6_address|hw_address|address_range)|include/tins/(hw_address|address_range|ip_address|ipv6_address)\.h|src/detail/address_helpers", ["C16"]),
    (r"src/(sniffer|packet_writer|offline_packet_filter)\.cpp", ["C17"]),
    (r"src/pdu\.cpp|include/tins/(pdu|packet|pdu_cacher)\.h", ["C12", "C13", "C02", "C03"]),
    (r"include/tins/pdu_option\.h|src/pdu_option\.cpp", ["C04", "C12", "C03", "C01"]),
    (r"src/memory_helpers\.cpp|include/tins/memory_helpers\.h", ["C04", "C03", "C02", "C01"]),
    (r"src/utils/checksum_utils\.cpp", ["C05"]),
    (r"src/detail/pdu_helpers\.cpp", ["C05", "C03", "C13", "C04"]),
    (r"src/detail/icmp_extension_helpers\.cpp|src/icmp_extension\.cpp", ["C04", "C05", "C03", "C02", "C01"]),
    (r"src/dot11/", ["C04", "C15", "C03", "C02", "C09", "C01"]),
]
SKIP_FILES = re.compile(r"packet_sender|network_interface|utils/routing_utils|utils/resolve_utils|utils/frequency_utils|utils/pdu_utils|timestamp|exceptions")

def props_for(path):
    for rx, ps in MAP:
        if re.search(rx, path):
            return ps
    return LAYER

OPS = [
    (re.compile(r"(?<= )<=(?= )"), "<"), (re.compile(r"(?<= )>=(?= )"), ">"),
    (re.compile(r"(?<= )<(?= )"), "<="), (re.compile(r"(?<= )>(?= )"), ">="),
    (re.compile(r"=="), "!="), (re.compile(r"!="), "=="),
    (re.compile(r"&&"), "||"), (re.compile(r"\|\|"), "&&"),
    (re.compile(r"\+ 1\b"), "+ 2"), (re.compile(r"- 1\b"), "- 2"), (re.compile(r"\+ 1\b"), ""), (re.compile(r"- 1\b"), ""),
    (re.compile(r"\+="), "-="), (re.compile(r"-="), "+="),
    (re.compile(r"(?<![\w.])(\d+)(?![\w.])"), "INC"),
    (re.compile(r"\bhost_to_be\b"), "host_to_le"), (re.compile(r"\bbe_to_host\b"), "le_to_host"),
    (re.compile(r"\bsizeof\(uint16_t\)"), "sizeof(uint32_t)"), (re.compile(r"\bsizeof\(uint32_t\)"), "sizeof(uint16_t)"),
    (re.compile(r"(?<![&|])&(?![&=])\s*0x([0-9a-fA-F]+)"), "MASK"),
    (re.compile(r"<<"), ">>"), (re.compile(r">>"), "<<"),
    (re.compile(r"\btrue\b"), "false"), (re.compile(r"\bfalse\b"), "true"),
    (re.compile(r"\bif \("), "if (!("),
]

def candidate_lines(text):
    out = []
    in_block = False
    for i, l in enumerate(text.split("\n")):
        st = l.strip()
        if in_block:
            if "*/" in st: in_block = False
            continue
        if st.startswith("/*"):
            if "*/" not in st: in_block = True
            continue
        if not st or st.startswith("//") or st.startswith("#") or st.startswith("*") or st.startswith("using ") or st.startswith("namespace"):
            continue
        if "template" in st or "operator" in st or "TINS_" in st and "(" not in st:
            continue
        if st.startswith("throw ") or st.startswith("typedef") or "static_assert" in st:
            continue
        code = l.split("//")[0]
        if '"' in code:
            continue
        out.append((i, code))
    return out

def mutate_line(code, rng):
    sites = []
    for rx, rep in OPS:
        for m in rx.finditer(code):
            sites.append((m, rep))
    if not sites:
        return None
    m, rep = rng.choice(sites)
    if rep == "INC":
        v = int(m.group(1))
        new = str(v + 1) if v != 1 or rng.random() < 0.5 else "0"
        return code[:m.start(1)] + new + code[m.end(1):], "%d->%s" % (v, new)
    if rep == "MASK":
        v = int(m.group(1), 16)
        nv = v >> 1 if v > 1 else 3
        return code[:m.start(1)] + ("%x" % nv) + code[m.end(1):], "mask 0x%x->0x%x" % (v, nv)
    if rep == "if (!(":
        # negate a one-line condition: need the matching ") {" at the end of the line
        mm = re.search(r"\)\s*\{\s*$", code)
        if not mm:
            return None
        return code[:m.start()] + "if (!(" + code[m.end():mm.start()] + "))" + code[mm.start() + 1:], "negated condition"
    return code[:m.start()] + rep + code[m.end():], "%s -> %s" % (m.group(0), rep or "(removed)")

def sh(cmd, cwd=None, env=None, timeout=None):
    try:
        r = subprocess.run(cmd, shell=True, executable="/bin/bash", cwd=cwd, env=env, stdout=subprocess.PIPE, stderr=subprocess.STDOUT, text=True, timeout=timeout)
        return r.returncode, r.stdout
    except subprocess.TimeoutExpired as e:
        return 124, (e.stdout or "") if isinstance(e.stdout, str) else ""

def out_dir_for(wt):
    return "/tmp/verif-out-" + hashlib.sha256(os.path.realpath(wt).encode()).hexdigest()[:10]

def setup():
    head = subprocess.check_output(["git", "-C", "/repo", "rev-parse", "HEAD"], text=True).strip()
    if os.path.isdir(WT):
        cur = subprocess.run(["git", "-C", WT, "rev-parse", "HEAD"], stdout=subprocess.PIPE, text=True).stdout.strip()
        if cur == head and os.path.exists(os.path.join(WT, "_build", "build.ninja")):
            sh("git checkout -q -- .", cwd=WT)
            return head
        subprocess.run(["git", "-C", "/repo", "worktree", "remove", "--force", WT])
        shutil.rmtree(WT, ignore_errors=True)
    subprocess.check_call(["git", "-C", "/repo", "worktree", "add", "--detach", "-q", WT, "HEAD"])
    rc, out = sh("cmake -S . -B _build -G Ninja -DCMAKE_BUILD_TYPE=RelWithDebInfo -DLIBTINS_BUILD_TESTS=ON -DLIBTINS_BUILD_EXAMPLES=OFF >/dev/null && "
                 "nice cmake --build _build -j 8 >/dev/null && nice cmake --build _build -j 8 --target tests >/dev/null && ctest --test-dir _build -j8 2>&1 | tail -3", cwd=WT)
    if "100% tests passed" not in out:
        print("baseline build/test failed in", WT, out[-2000:])
        sys.exit(2)
    return head

def main():
    os.makedirs(os.path.dirname(OUT), exist_ok=True)
    head = setup()
    files = sorted(subprocess.check_output("git -C /repo ls-files 'src/*.cpp' 'src/**/*.cpp' include/tins/pdu_option.h include/tins/hw_address.h include/tins/address_range.h "
                                           "include/tins/pdu.h include/tins/packet.h include/tins/memory_helpers.h include/tins/small_uint.h include/tins/endianness.h "
                                           "include/tins/pdu_cacher.h include/tins/tcp_ip/data_tracker.h", shell=True, text=True).split())
    files = [f for f in dict.fromkeys(files) if not SKIP_FILES.search(f)]
    if ONLY:
        want = ONLY.split(",")
        files = [f for f in files if any(w in f for w in want)]
    # all candidate sites, then a seeded sample; worker K takes every N-th
    sites = []
    for f in files:
        text = open(os.path.join("/repo", f)).read()
        for i, code in candidate_lines(text):
            sites.append((f, i))
    rng = random.Random(SEED)
    rng.shuffle(sites)
    mine = sites[K::N]
    done = 0
    idx = 0
    while done < COUNT and idx < len(mine):
        f, i = mine[idx]
        idx += 1
        path = os.path.join(WT, f)
        lines = open(os.path.join("/repo", f)).read().split("\n")
        code = lines[i].split("//")[0]
        mrng = random.Random(int(hashlib.sha256(("%d:%s:%d" % (SEED, f, i)).encode()).hexdigest()[:8], 16))
        mu = mutate_line(code, mrng)
        if not mu or mu[0] == code:
            continue
        new, what = mu
        rec = {"file": f, "line": i + 1, "before": lines[i].strip(), "after": new.strip(), "op": what, "head": head[:10], "seed": SEED}
        lines[i] = new
        sh("git checkout -q -- .", cwd=WT)
        open(path, "w").write("\n".join(lines))
        t0 = time.time()
        rc, out = sh("set -o pipefail; nice cmake --build _build -j 6 2>&1 | tail -5 && nice cmake --build _build -j 6 --target tests 2>&1 | tail -5", cwd=WT, timeout=1800)
        if "error" in out or "FAILED" in out or rc != 0:
            rec["outcome"] = "does-not-compile"
        else:
            rc, out = sh("ctest --test-dir _build -j6 --timeout 120 2>&1 | tail -4", cwd=WT, timeout=1800)
            if "100% tests passed" not in out:
                rec["outcome"] = "killed-by-tests"
            else:
                rec["outcome"] = "missed"
                rec["tried"] = []
                diff = subprocess.check_output(["git", "-C", WT, "diff"], text=True)
                rec["diff"] = diff
                for p in props_for(f):
                    t1 = time.time()
                    env = dict(os.environ, VERIF_REPO=WT)
                    rc2, o2 = sh("nice python3 %s/run.py %s --tier quick 2>&1 | grep -v KNOWN-FINDING | tail -40" % (VERIF, p), env=env, timeout=3600)
                    viol = [l for l in o2.splitlines() if l.startswith("VIOLATION")]
                    sigs = [l.strip()[10:] for l in o2.splitlines() if l.strip().startswith("signature=")]
                    rec["tried"].append({"property": p, "seconds": round(time.time() - t1), "violation": bool(viol), "signatures": sigs[:3]})
                    if viol:
                        rec["outcome"] = "caught"
                        rec["caught_by"] = p
                        break
                    if "BUILD ERROR" in o2:
                        rec["outcome"] = "check-build-error"
                        rec["log"] = o2[-800:]
                        break
                shutil.rmtree(out_dir_for(WT), ignore_errors=True)
        rec["seconds"] = round(time.time() - t0)
        with open(OUT, "a") as fo:
            fo.write(json.dumps(rec) + "\n")
        print(K, rec["outcome"], f, i + 1, what, rec.get("caught_by", ""), flush=True)
        done += 1
    sh("git checkout -q -- .", cwd=WT)
    if "--keep" not in sys.argv:
        subprocess.run(["git", "-C", "/repo", "worktree", "remove", "--force", WT])
        shutil.rmtree(WT, ignore_errors=True)
        shutil.rmtree(out_dir_for(WT), ignore_errors=True)

if __name__ == "__main__":
    main()
