#!/usr/bin/env python3
"""Refresh the 'Rule:' and 'Assumptions:' lines of DESIGN.md section 13 from props/*.json (the header line of each entry is kept)."""
import json, re, os
V = os.path.dirname(os.path.abspath(__file__))
s = open(os.path.join(V, "DESIGN.md")).read()
i = s.index("## 13. Per-property summary")
head, sec = s[:i], s[i:]
out = []
cur = None
for line in sec.split("\n"):
    m = re.match(r"\*\*(C\d\d)\*\* - ", line)
    if m:
        cur = json.load(open(os.path.join(V, "props", m.group(1).lower() + ".json")))
    if cur is not None and line.startswith("Rule: "):
        line = "Rule: " + cur["rule"]
    if cur is not None and line.startswith("Assumptions: "):
        line = "Assumptions: " + "; ".join(cur.get("assumptions", []))
    out.append(line)
open(os.path.join(V, "DESIGN.md"), "w").write(head + "\n".join(out))
