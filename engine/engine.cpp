// Engine: statistics, shrinker, random driver, libFuzzer driver (select with -DVERIF_FUZZ_DRIVER).
#include "src.h"
#include <cstdio>
#include <cstdlib>
#include <cinttypes>
#include <string>
#include <vector>
#include <algorithm>
#include <exception>
#include <typeinfo>
#include <fstream>
#include <chrono>
#include <cxxabi.h>
#include <fcntl.h>
#include <unistd.h>
#include <signal.h>
#include <sys/mman.h>
#include <sys/stat.h>
#include <dirent.h>
#if defined(__has_feature)
#if __has_feature(address_sanitizer)
#define VERIF_HAVE_LSAN 1
#include <sanitizer/lsan_interface.h>
#endif
#endif

using namespace verif;

// weak defaults so that a property TU only defines what it needs
__attribute__((weak)) bool prop_enum(uint64_t, std::vector<uint8_t>&) { return false; }
__attribute__((weak)) void prop_setup(verif::Ctx&) {}
bool prop_enum(uint64_t idx, std::vector<uint8_t>& out);
void prop_setup(verif::Ctx& ctx);

namespace verif {

std::string hex(const uint8_t* d, size_t n, size_t max) {
    static const char* H = "0123456789abcdef";
    std::string s;
    size_t m = n < max ? n : max;
    s.reserve(m * 2 + 8);
    for (size_t i = 0; i < m; ++i) { s += H[d[i] >> 4]; s += H[d[i] & 15]; }
    if (m < n) s += "...(" + std::to_string(n) + " bytes)";
    return s;
}

void Ctx::log(const std::string& s) {
    if (verbose) { fputs(s.c_str(), stdout); fputc('\n', stdout); }
}

bool Ctx::is_known(const std::string& sig) const {
    for (const std::string& k : known_) {
        if (!k.empty() && k.back() == '*') {
            if (sig.compare(0, k.size() - 1, k, 0, k.size() - 1) == 0) return true;
        } else if (k == sig) return true;
    }
    return false;
}

void Ctx::report(const std::string& sig, const std::string& msg) {
    if (is_known(sig)) { known_hit(sig); label("known-finding-hit"); return; }
    throw PropFail{sig, msg};
}

void Ctx::load_known(const char* path) {
    std::ifstream f(path);
    std::string line;
    while (std::getline(f, line)) {
        while (!line.empty() && (line.back() == '\n' || line.back() == '\r' || line.back() == ' ')) line.pop_back();
        if (!line.empty()) known_.push_back(line);
    }
}

void Ctx::begin_case() {
    case_labels_.clear();
    case_nontrivial_ = false;
    case_hash_ = 0;
    case_result_ = 0;
    case_sample_.clear();
}

void Ctx::end_case() {
    if (in_shrink) return;
    evaluations_++;
    for (const std::string& l : case_labels_) labels_[l]++;
    if (case_nontrivial_) {
        nontrivial_++;
        if (hashes_.size() < (1u << 20)) hashes_.insert(case_hash_);
        if (!case_sample_.empty()) {
            // keep the first 3 and a reservoir of 5 more
            sample_seen_++;
            if (samples_.size() < 8) samples_.push_back(case_sample_);
            else {
                uint64_t r = hash_mix(sample_seen_, case_hash_) % sample_seen_;
                if (r < 5) samples_[3 + r] = case_sample_;
            }
        }
    }
}

void Ctx::abandon_case() {
    if (in_shrink) return;
    evaluations_++;
}

static std::string jstr(const std::string& s) {
    std::string o = "\"";
    for (unsigned char c : s) {
        if (c == '"' || c == '\\') { o += '\\'; o += (char)c; }
        else if (c == '\n') o += "\\n";
        else if (c < 0x20 || c >= 0x7f) { char b[8]; snprintf(b, sizeof b, "\\u%04x", c); o += b; }
        else o += (char)c;
    }
    return o + "\"";
}

static void jmap(FILE* f, const char* name, const std::map<std::string, uint64_t>& m) {
    fprintf(f, " %s: {", jstr(name).c_str());
    bool first = true;
    for (auto& kv : m) {
        fprintf(f, "%s%s: %" PRIu64, first ? "" : ", ", jstr(kv.first).c_str(), kv.second);
        first = false;
    }
    fprintf(f, "}");
}

void Ctx::dump(const char* path) const {
    std::string tmp = std::string(path) + ".tmp";
    FILE* f = fopen(tmp.c_str(), "w");
    if (!f) return;
    fprintf(f, "{\n \"evaluations\": %" PRIu64 ",\n \"nontrivial\": %" PRIu64 ",\n \"distinct_local\": %zu,\n",
            evaluations_, nontrivial_, hashes_.size());
    jmap(f, "labels", labels_); fprintf(f, ",\n");
    jmap(f, "excluded", excluded_); fprintf(f, ",\n");
    jmap(f, "known_hits", known_hits_); fprintf(f, ",\n");
    fprintf(f, " \"samples\": [");
    for (size_t i = 0; i < samples_.size(); ++i) fprintf(f, "%s%s", i ? ", " : "", jstr(samples_[i]).c_str());
    fprintf(f, "]\n}\n");
    fclose(f);
    rename(tmp.c_str(), path);
    std::string hp = std::string(path) + ".hashes";
    std::string hpt = hp + ".tmp";
    FILE* h = fopen(hpt.c_str(), "wb");
    if (h) {
        std::vector<uint64_t> v(hashes_.begin(), hashes_.end());
        if (!v.empty()) fwrite(v.data(), 8, v.size(), h);
        fclose(h);
        rename(hpt.c_str(), hp.c_str());
    }
}

} // namespace verif

// ------------------------------------------------------------------------------------------------
// running one case

struct Outcome {
    bool failed = false;
    bool known = false;
    std::string sig, msg;
    uint64_t digest = 0;  // fingerprint of what the case computed (used by the uninitialised-memory differential)
};

// Deterministic step counter (random driver only): the san build instruments every comparison
// (-fsanitize=fuzzer-no-link => trace-cmp); counting those callbacks gives a schedule-independent measure of work.
static uint64_t g_steps = 0, g_max_steps = 0, g_max_steps_per_byte = 0, g_step_limit = ~0ULL;
// a case that never returns (or blows far past its budget) is stopped from inside the counter
static inline void step() {
    if (++g_steps > g_step_limit) {
        static const char m[] = "\nERROR: VerifStepLimit: step-budget-exceeded (the case ran past its work bound)\n";
        ssize_t w = write(2, m, sizeof m - 1); (void)w;
        _exit(78);
    }
}
#ifndef VERIF_FUZZ_DRIVER
extern "C" {
void __sanitizer_cov_trace_cmp1(uint8_t, uint8_t) { step(); }
void __sanitizer_cov_trace_cmp2(uint16_t, uint16_t) { step(); }
void __sanitizer_cov_trace_cmp4(uint32_t, uint32_t) { step(); }
void __sanitizer_cov_trace_cmp8(uint64_t, uint64_t) { step(); }
void __sanitizer_cov_trace_const_cmp1(uint8_t, uint8_t) { step(); }
void __sanitizer_cov_trace_const_cmp2(uint16_t, uint16_t) { step(); }
void __sanitizer_cov_trace_const_cmp4(uint32_t, uint32_t) { step(); }
void __sanitizer_cov_trace_const_cmp8(uint64_t, uint64_t) { step(); }
void __sanitizer_cov_trace_switch(uint64_t, uint64_t*) { step(); }
}
#endif
// optional per-property work bound: steps allowed for an input of n bytes (0 = no bound claimed)
__attribute__((weak)) uint64_t prop_step_budget(size_t) { return 0; }
uint64_t prop_step_budget(size_t n);

static int g_stack_fill = -1;  // VERIF_STACK_FILL: overwrite the stack area below the property with this byte before each case
__attribute__((noinline)) static void stack_fill(int byte) {
    volatile uint8_t area[96 * 1024];
    for (size_t i = 0; i < sizeof area; i += 1) area[i] = (uint8_t)byte;
    asm volatile("" ::: "memory");
}

static std::string demangle(const char* n) {
    int st = 0;
    char* d = abi::__cxa_demangle(n, nullptr, nullptr, &st);
    std::string r = (st == 0 && d) ? d : n;
    free(d);
    return r;
}

static Outcome run_case(Ctx& ctx, const uint8_t* d, size_t n) {
    Outcome o;
    Src s(d, n);
    if (g_stack_fill >= 0) stack_fill(g_stack_fill);
    ctx.begin_case();
    const uint64_t steps0 = g_steps, budget = prop_step_budget(n);
    g_step_limit = budget ? steps0 + budget * 4 : ~0ULL;   // hard stop well past the budget (covers non-termination)
    try {
        prop(s, ctx);
        g_step_limit = ~0ULL;
        const uint64_t used = g_steps - steps0;
        if (budget && used > budget)
            throw PropFail{std::string(PROP_ID) + ":step-budget-exceeded", "the case executed " + std::to_string(used) + " instrumented comparisons, budget for " +
                                                                                   std::to_string(n) + " input bytes is " + std::to_string(budget)};
        if (used > g_max_steps) g_max_steps = used;
        if (n && used / (n + 64) > g_max_steps_per_byte) g_max_steps_per_byte = used / (n + 64);
        o.digest = ctx.case_digest();
        ctx.end_case();
        return o;
    } catch (const PropFail& f) {
        o.failed = true; o.sig = f.sig; o.msg = f.msg;
    } catch (const std::exception& e) {
        o.failed = true;
        o.sig = std::string(PROP_ID) + ":escaped-exception:" + demangle(typeid(e).name());
        o.msg = e.what();
    } catch (...) {
        o.failed = true;
        o.sig = std::string(PROP_ID) + ":escaped-exception:unknown";
    }
    g_step_limit = ~0ULL;
    o.digest = hash_mix(hash_str(o.sig), 0xfa11);
    if (ctx.is_known(o.sig)) {
        o.known = true;
        ctx.known_hit(o.sig);
    }
    ctx.abandon_case();
    return o;
}

// ------------------------------------------------------------------------------------------------
// generic shrinker over the choice sequence (same signature must keep failing)

static bool still_fails(Ctx& ctx, const std::vector<uint8_t>& v, const std::string& sig, uint64_t& budget) {
    if (budget == 0) return false;
    --budget;
    Outcome o = run_case(ctx, v.data(), v.size());
    return o.failed && o.sig == sig;
}

static std::vector<uint8_t> shrink(Ctx& ctx, std::vector<uint8_t> cur, const std::string& sig, uint64_t budget = 40000) {
    ctx.in_shrink = true;
    bool progress = true;
    while (progress && budget) {
        progress = false;
        // 1. drop the tail (binary search on length)
        {
            size_t lo = 0, hi = cur.size();
            while (lo < hi && budget) {
                size_t mid = (lo + hi) / 2;
                std::vector<uint8_t> t(cur.begin(), cur.begin() + mid);
                if (still_fails(ctx, t, sig, budget)) hi = mid; else lo = mid + 1;
            }
            if (hi < cur.size()) {
                std::vector<uint8_t> t(cur.begin(), cur.begin() + hi);
                if (still_fails(ctx, t, sig, budget)) { cur = t; progress = true; }
            }
        }
        // 2. delete chunks
        for (size_t chunk = cur.size() / 2; chunk >= 1 && budget; chunk /= 2) {
            for (size_t i = 0; i + chunk <= cur.size() && budget;) {
                std::vector<uint8_t> t(cur.begin(), cur.begin() + i);
                t.insert(t.end(), cur.begin() + i + chunk, cur.end());
                if (still_fails(ctx, t, sig, budget)) { cur = t; progress = true; }
                else i += chunk;
            }
            if (chunk == 1) break;
        }
        // 3. zero chunks
        for (size_t chunk = cur.size() / 2; chunk >= 1 && budget; chunk /= 2) {
            for (size_t i = 0; i + chunk <= cur.size() && budget; i += chunk) {
                bool allz = true;
                for (size_t k = 0; k < chunk; ++k) if (cur[i + k]) { allz = false; break; }
                if (allz) continue;
                std::vector<uint8_t> t = cur;
                std::fill(t.begin() + i, t.begin() + i + chunk, 0);
                if (still_fails(ctx, t, sig, budget)) { cur = t; progress = true; }
            }
            if (chunk == 1) break;
        }
        // 4. lower single bytes: halve, decrement
        for (size_t i = 0; i < cur.size() && budget; ++i) {
            while (cur[i] && budget) {
                std::vector<uint8_t> t = cur;
                t[i] = cur[i] / 2;
                if (still_fails(ctx, t, sig, budget)) { cur = t; progress = true; continue; }
                t[i] = cur[i] - 1;
                if (still_fails(ctx, t, sig, budget)) { cur = t; progress = true; continue; }
                break;
            }
        }
    }
    ctx.in_shrink = false;
    return cur;
}

static bool write_file(const std::string& path, const std::vector<uint8_t>& v) {
    FILE* f = fopen(path.c_str(), "wb");
    if (!f) return false;
    if (!v.empty()) fwrite(v.data(), 1, v.size(), f);
    fclose(f);
    return true;
}

static bool read_file(const std::string& path, std::vector<uint8_t>& v) {
    FILE* f = fopen(path.c_str(), "rb");
    if (!f) return false;
    v.clear();
    uint8_t buf[65536];
    size_t n;
    while ((n = fread(buf, 1, sizeof buf, f)) > 0) v.insert(v.end(), buf, buf + n);
    fclose(f);
    return true;
}

static std::string one_line(std::string s) {
    for (char& c : s) if (c == '\n' || c == '\r') c = ' ';
    if (s.size() > 600) s = s.substr(0, 600) + "...";
    return s;
}

static Ctx g_ctx;
static std::vector<std::vector<uint8_t>> g_window;  // inputs since the last clean leak check
static std::string g_stats_path;

#ifndef VERIF_FUZZ_DRIVER
// ------------------------------------------------------------------------------------------------
// random driver

struct Rng {
    uint64_t s[4];
    static uint64_t splitmix(uint64_t& x) {
        uint64_t z = (x += 0x9e3779b97f4a7c15ULL);
        z = (z ^ (z >> 30)) * 0xbf58476d1ce4e5b9ULL;
        z = (z ^ (z >> 27)) * 0x94d049bb133111ebULL;
        return z ^ (z >> 31);
    }
    explicit Rng(uint64_t seed) { for (auto& v : s) v = splitmix(seed); }
    static uint64_t rotl(uint64_t x, int k) { return (x << k) | (x >> (64 - k)); }
    uint64_t next() {
        uint64_t r = rotl(s[1] * 5, 7) * 9, t = s[1] << 17;
        s[2] ^= s[0]; s[3] ^= s[1]; s[1] ^= s[2]; s[0] ^= s[3]; s[2] ^= t; s[3] = rotl(s[3], 45);
        return r;
    }
    uint64_t below(uint64_t n) { return n ? next() % n : 0; }
};

static void gen_bytes(Rng& r, std::vector<uint8_t>& out, size_t maxlen, const std::vector<std::vector<uint8_t>>& pool) {
    // mutate a remembered interesting case
    if (!pool.empty() && r.below(100) < 35) {
        out = pool[r.below(pool.size())];
        unsigned nm = 1 + (unsigned)r.below(4);
        for (unsigned m = 0; m < nm; ++m) {
            switch (r.below(6)) {
                case 0: if (!out.empty()) out[r.below(out.size())] = (uint8_t)r.next(); break;
                case 1: if (!out.empty()) out[r.below(out.size())] ^= (uint8_t)(1u << r.below(8)); break;
                case 2: if (!out.empty()) { size_t i = r.below(out.size()); out.erase(out.begin() + i, out.begin() + i + std::min<size_t>(out.size() - i, 1 + r.below(8))); } break;
                case 3: { size_t i = r.below(out.size() + 1); size_t k = 1 + r.below(8); std::vector<uint8_t> ins(k); for (auto& b : ins) b = (uint8_t)r.next(); out.insert(out.begin() + i, ins.begin(), ins.end()); } break;
                case 4: if (!out.empty()) { size_t i = r.below(out.size()); static const uint8_t E[] = {0, 1, 0x7f, 0x80, 0xff, 0xfe}; out[i] = E[r.below(6)]; } break;
                case 5: { const std::vector<uint8_t>& o = pool[r.below(pool.size())]; if (!o.empty()) { size_t i = r.below(o.size()); size_t k = std::min<size_t>(o.size() - i, 1 + r.below(32)); size_t j = r.below(out.size() + 1); out.insert(out.begin() + j, o.begin() + i, o.begin() + i + k); } } break;
            }
        }
        if (out.size() > maxlen) out.resize(maxlen);
        return;
    }
    size_t cap;
    uint64_t c = r.below(100);
    if (c < 55) cap = std::min<size_t>(maxlen, 96);
    else if (c < 90) cap = std::min<size_t>(maxlen, 768);
    else cap = maxlen;
    size_t len = (size_t)r.below(cap + 1);
    out.resize(len);
    unsigned style = (unsigned)r.below(3);
    for (size_t i = 0; i < len; ++i) {
        uint64_t x = r.next();
        if (style == 0) out[i] = (uint8_t)x;
        else if (style == 1) {
            unsigned k = (x >> 8) % 10;
            out[i] = k < 4 ? (uint8_t)(x % 5) : (k == 4 ? 0xff : (uint8_t)x);
        } else {
            unsigned k = (x >> 8) % 10;
            out[i] = k < 2 ? 0 : (k < 3 ? (uint8_t)(0xf8 + x % 8) : (uint8_t)x);
        }
    }
}

static uint8_t* g_cur = nullptr;   // shared mapping: [u32 len][bytes]
static size_t g_cur_cap = 0;

static void publish_current(const uint8_t* d, size_t n) {
    if (!g_cur) return;
    if (n > g_cur_cap) n = g_cur_cap;
    uint32_t len = (uint32_t)n;
    if (n) memcpy(g_cur + 4, d, n);
    memcpy(g_cur, &len, 4);
}

static int usage() {
    fprintf(stderr, "usage: <prop>_rand --run --seed N --worker I --workers W --cases M [--max-seconds S] [--maxlen L] "
                    "[--tier quick|thorough] [--known file] [--work dir]\n"
                    "       <prop>_rand --replay file [--known file]\n"
                    "       <prop>_rand --shrink file --out file\n"
                    "       <prop>_rand --enumerate --worker I --workers W [--work dir]\n"
                    "       <prop>_rand --merge-hashes f1 f2 ...\n");
    return 2;
}

int main(int argc, char** argv) {
    std::string mode, file, out, known, corpus, trace, work = ".";
    uint64_t seed = 1, cases = 1000, worker = 0, workers = 1, max_seconds = 0, wlo = 0, whi = ~0ULL;
    size_t maxlen = 0;
    int tier = 0;
    std::vector<std::string> files;
    for (int i = 1; i < argc; ++i) {
        std::string a = argv[i];
        auto next = [&]() -> std::string { return i + 1 < argc ? argv[++i] : ""; };
        if (a == "--run") mode = "run";
        else if (a == "--replay") { mode = "replay"; file = next(); }
        else if (a == "--shrink") { mode = "shrink"; file = next(); }
        else if (a == "--enumerate") mode = "enumerate";
        else if (a == "--merge-hashes") { mode = "merge"; while (i + 1 < argc) files.push_back(argv[++i]); }
        else if (a == "--window") { mode = "window"; file = next(); }
        else if (a == "--lo") wlo = strtoull(next().c_str(), nullptr, 10);
        else if (a == "--hi") whi = strtoull(next().c_str(), nullptr, 10);
        else if (a == "--out") out = next();
        else if (a == "--seed") seed = strtoull(next().c_str(), nullptr, 10);
        else if (a == "--cases") cases = strtoull(next().c_str(), nullptr, 10);
        else if (a == "--worker") worker = strtoull(next().c_str(), nullptr, 10);
        else if (a == "--workers") workers = strtoull(next().c_str(), nullptr, 10);
        else if (a == "--max-seconds") max_seconds = strtoull(next().c_str(), nullptr, 10);
        else if (a == "--maxlen") maxlen = strtoull(next().c_str(), nullptr, 10);
        else if (a == "--tier") tier = next() == "thorough" ? 1 : 0;
        else if (a == "--known") known = next();
        else if (a == "--corpus") corpus = next();
        else if (a == "--trace") trace = next();
        else if (a == "--work") work = next();
        else return usage();
    }
    if (mode.empty()) return usage();
    Ctx& ctx = g_ctx;
    ctx.tier = tier;
    if (const char* sf = getenv("VERIF_STACK_FILL")) g_stack_fill = atoi(sf) & 0xff;
    FILE* trace_f = trace.empty() ? nullptr : fopen(trace.c_str(), "wb");
    if (!known.empty()) ctx.load_known(known.c_str());

    if (mode == "merge") {
        std::vector<uint64_t> all;
        for (auto& f : files) {
            std::vector<uint8_t> v;
            if (read_file(f, v)) {
                size_t n = v.size() / 8, o = all.size();
                all.resize(o + n);
                if (n) memcpy(all.data() + o, v.data(), n * 8);
            }
        }
        std::sort(all.begin(), all.end());
        all.erase(std::unique(all.begin(), all.end()), all.end());
        printf("%zu\n", all.size());
        return 0;
    }

    prop_setup(ctx);

    if (mode == "replay") {
        std::vector<uint8_t> v;
        if (!read_file(file, v)) { fprintf(stderr, "cannot read %s\n", file.c_str()); return 2; }
        ctx.verbose = true;
        printf("REPLAY property=%s file=%s len=%zu choice=%s\n", PROP_ID, file.c_str(), v.size(), hex(v, 512).c_str());
        fflush(stdout);
        Outcome o = run_case(ctx, v.data(), v.size());
        if (o.failed) {
            printf("REPLAY-FAIL%s sig=%s msg=%s\n", o.known ? "-KNOWN" : "", o.sig.c_str(), one_line(o.msg).c_str());
            return o.known ? 4 : 1;
        }
        printf("REPLAY-OK digest=%016llx\n", (unsigned long long)o.digest);
        return 0;
    }

    if (mode == "window") {
        // run cases [lo,hi) of a leak window file; LeakSanitizer decides at exit
        std::vector<uint8_t> raw;
        if (!read_file(file, raw)) return 2;
        size_t off = 0, idx = 0;
        while (off + 4 <= raw.size()) {
            uint32_t n; memcpy(&n, raw.data() + off, 4);
            if (off + 4 + n > raw.size()) break;
            if (idx >= wlo && idx < whi) run_case(ctx, raw.data() + off + 4, n);
            off += 4 + n; ++idx;
        }
        printf("WINDOW-DONE %zu\n", idx);
        return 0;
    }

    if (mode == "shrink") {
        std::vector<uint8_t> v;
        if (!read_file(file, v)) return 2;
        Outcome o = run_case(ctx, v.data(), v.size());
        if (!o.failed) { printf("SHRINK: input does not fail\n"); return 0; }
        std::vector<uint8_t> s = shrink(ctx, v, o.sig);
        write_file(out.empty() ? file + ".min" : out, s);
        printf("SHRINK sig=%s from=%zu to=%zu\n", o.sig.c_str(), v.size(), s.size());
        return 1;
    }

    g_stats_path = work + "/stats." + std::to_string(worker) + ".json";
    if (maxlen == 0) maxlen = tier ? PROP_MAXLEN_THOROUGH : PROP_MAXLEN_QUICK;

    // shared "current case" page so that the parent has the input if a sanitizer kills us
    {
        std::string cp = work + "/current." + std::to_string(worker);
        g_cur_cap = std::max<size_t>(maxlen, 1 << 16);
        int fd = open(cp.c_str(), O_RDWR | O_CREAT | O_TRUNC, 0644);
        if (fd >= 0 && ftruncate(fd, (off_t)(g_cur_cap + 4)) == 0) {
            void* m = mmap(nullptr, g_cur_cap + 4, PROT_READ | PROT_WRITE, MAP_SHARED, fd, 0);
            if (m != MAP_FAILED) g_cur = (uint8_t*)m;
        }
        if (fd >= 0) close(fd);
    }

    auto t0 = std::chrono::steady_clock::now();
    auto elapsed = [&]() { return std::chrono::duration<double>(std::chrono::steady_clock::now() - t0).count(); };
    int rc = 0;
    bool budget_hit = false;
    uint64_t done = 0;

    auto handle_failure = [&](const std::vector<uint8_t>& v, const Outcome& o) {
        std::vector<uint8_t> s = shrink(ctx, v, o.sig);
        std::string rp = work + "/fail." + std::to_string(worker) + ".bin";
        write_file(rp, s);
        write_file(rp + ".orig", v);
        // re-run the shrunk case for its message
        ctx.in_shrink = true;
        Outcome o2 = run_case(ctx, s.data(), s.size());
        ctx.in_shrink = false;
        std::string fp = work + "/fail." + std::to_string(worker) + ".txt";
        FILE* f = fopen(fp.c_str(), "w");
        if (f) {
            fprintf(f, "%s\n%s\n", o.sig.c_str(), one_line(o2.failed ? o2.msg : o.msg).c_str());
            fclose(f);
        }
        fprintf(stderr, "[%s w%" PRIu64 "] FAIL sig=%s len=%zu->%zu msg=%s\n", PROP_ID, worker, o.sig.c_str(), v.size(), s.size(),
                one_line(o2.failed ? o2.msg : o.msg).c_str());
    };

    if (mode == "enumerate") {
        std::vector<uint8_t> v;
        for (uint64_t idx = 0;; ++idx) {
            if (!prop_enum(idx, v)) break;
            if (idx % workers != worker) continue;
            publish_current(v.data(), v.size());
            Outcome o = run_case(ctx, v.data(), v.size());
            ++done;
            if (o.failed && !o.known) { handle_failure(v, o); rc = 3; break; }
        }
    } else {
        Rng rng(seed * 0x100000001b3ULL + worker * 0x9e3779b97f4a7c15ULL + 12345);
        std::vector<std::vector<uint8_t>> pool;
        if (!corpus.empty()) {
            // committed seed inputs start the mutation pool (sorted by name: deterministic)
            std::vector<std::string> names;
            if (DIR* d = opendir(corpus.c_str())) {
                while (dirent* de = readdir(d)) if (de->d_name[0] != '.') names.push_back(de->d_name);
                closedir(d);
            }
            std::sort(names.begin(), names.end());
            for (auto& nm : names) {
                std::vector<uint8_t> b;
                if (read_file(corpus + "/" + nm, b) && b.size() <= maxlen) pool.push_back(b);
            }
        }
        std::vector<uint8_t> v;
        double last_leak_check = 0;
        size_t distinct_before = 0;
        uint64_t steps_sum = 0;
        for (; done < cases; ++done) {
            if (max_seconds && (done & 63) == 0 && elapsed() > (double)max_seconds) { budget_hit = true; break; }
            gen_bytes(rng, v, maxlen, pool);
            publish_current(v.data(), v.size());
            const uint64_t steps_before = g_steps;
            Outcome o = run_case(ctx, v.data(), v.size());
            const uint64_t case_steps = g_steps - steps_before;
            steps_sum += case_steps;
            if (trace_f) { uint32_t n = (uint32_t)v.size(); fwrite(&n, 4, 1, trace_f); if (n) fwrite(v.data(), 1, n, trace_f); fwrite(&o.digest, 8, 1, trace_f); }
            if (o.failed && !o.known) { handle_failure(v, o); rc = 3; break; }
            // remember cases that produced a new non-trivial hash (cheap evolutionary search)
            if (!o.failed && !v.empty()) {
                size_t dc = ctx.distinct();
                if (dc != distinct_before) {
                    distinct_before = dc;
                    // cost-aware: a case that needed far more work than the average so far is explored (it just ran) but not
                    // bred from, otherwise a rare expensive shape multiplies until the workers spend their whole budget on it
                    const uint64_t mean = steps_sum / (done + 1);
                    if (case_steps <= 30 * mean + 100000) {
                        if (pool.size() < 1024) pool.push_back(v);
                        else pool[rng.below(pool.size())] = v;
                    }
                }
            }
            if ((done & 0x3fff) == 0x3fff) ctx.dump(g_stats_path.c_str());
#ifdef VERIF_HAVE_LSAN
            // leak oracle: a leaked block stays leaked, so the window of candidate inputs is handed to the
            // parent, which replays each one in a fresh process (LeakSanitizer runs at exit there)
            g_window.push_back(v);
            if (g_window.size() >= 256 && (done & 63) == 0 && elapsed() - last_leak_check > 1.5) {
                last_leak_check = elapsed();
                if (__lsan_do_recoverable_leak_check()) {
                    std::string wp = work + "/leakwindow." + std::to_string(worker) + ".bin";
                    FILE* f = fopen(wp.c_str(), "wb");
                    if (f) {
                        for (auto& x : g_window) { uint32_t n = (uint32_t)x.size(); fwrite(&n, 4, 1, f); if (n) fwrite(x.data(), 1, n, f); }
                        fclose(f);
                    }
                    rc = 5;
                    ++done;
                    break;
                }
                g_window.clear();
            }
#endif
        }
    }
#ifdef VERIF_HAVE_LSAN
    // final leak check so that a leak after the last periodic check is attributed to an input as well
    if (rc == 0 && mode == "run" && !g_window.empty() && __lsan_do_recoverable_leak_check()) {
        std::string wp = work + "/leakwindow." + std::to_string(worker) + ".bin";
        FILE* f = fopen(wp.c_str(), "wb");
        if (f) {
            for (auto& x : g_window) { uint32_t n = (uint32_t)x.size(); fwrite(&n, 4, 1, f); if (n) fwrite(x.data(), 1, n, f); }
            fclose(f);
        }
        rc = 5;
    }
#endif
    if (trace_f) fclose(trace_f);
    ctx.dump(g_stats_path.c_str());
    {
        std::string mp = work + "/meta." + std::to_string(worker) + ".json";
        FILE* f = fopen(mp.c_str(), "w");
        if (f) {
            fprintf(f, "{\"done\": %" PRIu64 ", \"budget_hit\": %s, \"elapsed\": %.3f, \"rc\": %d, \"max_steps\": %" PRIu64 ", \"max_steps_per_byte\": %" PRIu64 "}\n",
                    done, budget_hit ? "true" : "false", elapsed(), rc, g_max_steps, g_max_steps_per_byte);
            fclose(f);
        }
    }
    if (rc == 5) {
        // skip LeakSanitizer's at-exit check (it would replace the exit status): the parent bisects the window
        fflush(nullptr);
        _exit(5);
    }
    return rc;
}

#else
// ------------------------------------------------------------------------------------------------
// libFuzzer driver: same property, coverage-guided choice sequences

static std::string g_work = ".";

static void fuzz_atexit() {
    if (!g_stats_path.empty()) g_ctx.dump(g_stats_path.c_str());
}

extern "C" int LLVMFuzzerInitialize(int* argc, char*** argv) {
    const char* w = getenv("VERIF_WORK");
    if (w) g_work = w;
    const char* k = getenv("VERIF_KNOWN");
    if (k && *k) g_ctx.load_known(k);
    const char* t = getenv("VERIF_TIER");
    g_ctx.tier = (t && std::string(t) == "thorough") ? 1 : 0;
    g_stats_path = g_work + "/fuzzstats." + std::to_string((long)getpid()) + ".json";
    prop_setup(g_ctx);
    atexit(fuzz_atexit);
    (void)argc; (void)argv;
    return 0;
}

extern "C" int LLVMFuzzerTestOneInput(const uint8_t* data, size_t size) {
    Outcome o = run_case(g_ctx, data, size);
    if (o.failed && !o.known) {
        std::string base = g_work + "/fuzzfail." + std::to_string((long)getpid());
        std::vector<uint8_t> v(data, data + size);
        write_file(base + ".bin", v);
        FILE* f = fopen((base + ".txt").c_str(), "w");
        if (f) { fprintf(f, "%s\n%s\n", o.sig.c_str(), one_line(o.msg).c_str()); fclose(f); }
        fprintf(stderr, "[%s fuzz] FAIL sig=%s msg=%s\n", PROP_ID, o.sig.c_str(), one_line(o.msg).c_str());
        g_ctx.dump(g_stats_path.c_str());
        __builtin_trap();
    }
    if ((g_ctx.evaluations() & 0xffff) == 0) g_ctx.dump(g_stats_path.c_str());
    return 0;
}
#endif
