// Choice-sequence property engine: the byte string IS the test case.
// Every property is `void prop(Src&, Ctx&)`; all randomness comes from Src.
#ifndef VERIF_ENGINE_SRC_H
#define VERIF_ENGINE_SRC_H

#include <cstdint>
#include <cstddef>
#include <cstring>
#include <string>
#include <vector>
#include <map>
#include <set>
#include <unordered_set>
#include <initializer_list>
#include <sstream>

namespace verif {

struct PropFail {
    std::string sig;  // stable signature: what failed (class, field, shape) – keys known_findings
    std::string msg;  // human readable detail
};

// Bounded byte cursor. Reads past the end yield zeros ("all zeros = smallest legal case").
class Src {
public:
    Src(const uint8_t* d, size_t n) : p_(d), n_(n), pos_(0), exhausted_(false) {}

    bool exhausted() const { return exhausted_; }
    size_t remaining() const { return n_ - pos_; }
    size_t consumed() const { return pos_; }

    uint8_t u8() {
        if (pos_ >= n_) { exhausted_ = true; return 0; }
        return p_[pos_++];
    }
    uint16_t u16() { uint16_t a = u8(); return (uint16_t)((a << 8) | u8()); }
    uint32_t u32() { uint32_t a = u16(); return (a << 16) | u16(); }
    uint64_t u64() { uint64_t a = u32(); return (a << 32) | u32(); }

    // inclusive range, uses the minimal number of bytes for the span
    uint64_t range(uint64_t lo, uint64_t hi) {
        if (hi <= lo) return lo;
        uint64_t span = hi - lo;  // number of values - 1
        uint64_t v;
        if (span < 0x100) v = u8();
        else if (span < 0x10000) v = u16();
        else if (span < 0x100000000ULL) v = u32();
        else v = u64();
        if (span == UINT64_MAX) return lo + v;
        return lo + (v % (span + 1));
    }
    size_t pick(size_t n) { return n <= 1 ? 0 : (size_t)range(0, n - 1); }
    bool boolean() { return (u8() & 1) != 0; }
    // true with probability ~pct/100; a zero byte is always false
    bool chance(unsigned pct) {
        unsigned b = u8();
        return b >= 256u - (pct * 256u) / 100u;
    }
    // index chosen by weights; zero byte -> first entry with non-zero weight
    size_t weighted(std::initializer_list<unsigned> w) {
        unsigned total = 0;
        for (unsigned x : w) total += x;
        if (total == 0) return 0;
        unsigned v = (unsigned)range(0, total - 1);
        size_t i = 0;
        for (unsigned x : w) {
            if (v < x) return i;
            v -= x; ++i;
        }
        return w.size() - 1;
    }
    std::vector<uint8_t> bytes(size_t n) {
        std::vector<uint8_t> out(n);
        size_t avail = n_ - pos_;
        size_t take = n < avail ? n : avail;
        if (take) memcpy(out.data(), p_ + pos_, take);
        pos_ += take;
        if (take < n) exhausted_ = true;
        return out;
    }
    // everything that is left
    std::vector<uint8_t> rest() { return bytes(n_ - pos_); }
    // length-prefixed sub stream: deleting it does not re-interpret what follows
    Src sub() {
        size_t len = u8();
        if (len == 255) len = 255 + u16();
        size_t avail = n_ - pos_;
        if (len > avail) len = avail;
        Src s(p_ + pos_, len);
        pos_ += len;
        return s;
    }
    // boundary-heavy integer of a given bit width (1..64)
    uint64_t edgy(unsigned bits) {
        uint64_t maxv = bits >= 64 ? UINT64_MAX : ((1ULL << bits) - 1);
        switch (weighted({4, 1, 1, 1, 1, 2, 2})) {
            default:
            case 0: return range(0, maxv);
            case 1: return 0;
            case 2: return maxv;
            case 3: return maxv ? 1 : 0;
            case 4: return maxv ? maxv - 1 : 0;
            case 5: {  // power of two +-1
                unsigned k = (unsigned)range(0, bits - 1);
                uint64_t b = 1ULL << k;
                unsigned m = (unsigned)range(0, 2);
                uint64_t v = m == 0 ? b : (m == 1 ? b - 1 : b + 1);
                return v & maxv;
            }
            case 6: return range(0, maxv < 16 ? maxv : 16);
        }
    }
private:
    const uint8_t* p_;
    size_t n_, pos_;
    bool exhausted_;
};

inline uint64_t hash_mix(uint64_t h, uint64_t v) {
    h ^= v + 0x9e3779b97f4a7c15ULL + (h << 6) + (h >> 2);
    h *= 0xff51afd7ed558ccdULL;
    h ^= h >> 33;
    return h;
}
inline uint64_t hash_bytes(const void* d, size_t n, uint64_t h = 0xcbf29ce484222325ULL) {
    const uint8_t* p = (const uint8_t*)d;
    for (size_t i = 0; i < n; ++i) { h ^= p[i]; h *= 0x100000001b3ULL; }
    return h;
}
inline uint64_t hash_str(const std::string& s, uint64_t h = 0xcbf29ce484222325ULL) {
    return hash_bytes(s.data(), s.size(), h);
}

std::string hex(const uint8_t* d, size_t n, size_t max = 256);
inline std::string hex(const std::vector<uint8_t>& v, size_t max = 256) {
    return hex(v.data(), v.size(), max);
}

// Per-process statistics and per-case bookkeeping.
class Ctx {
public:
    bool verbose = false;   // replay mode: log() prints
    int tier = 0;           // 0 quick, 1 thorough
    bool in_shrink = false; // statistics are frozen while shrinking

    // ---- called by properties -------------------------------------------------
    void label(const std::string& l) { case_labels_.insert(l); }
    void nontrivial(bool b = true) { if (b) case_nontrivial_ = true; }
    void hash(uint64_t v) { case_hash_ = hash_mix(case_hash_, v); }
    void hash(const std::string& s) { case_hash_ = hash_mix(case_hash_, hash_str(s)); }
    void sample(const std::string& s) { case_sample_ = s; }
    // feed a computed RESULT (rendered getter values, serialised bytes...) into the case's result fingerprint only
    // (not into the distinct-case hash): used by the uninitialised-memory and concurrency differentials
    void result(uint64_t v) { case_result_ = hash_mix(case_result_, v); }
    void result(const std::string& s) { case_result_ = hash_mix(case_result_, hash_str(s)); }
    void excluded(const char* what) { if (!in_shrink) excluded_[what]++; }
    void log(const std::string& s);
    bool logging() const { return verbose; }
    // always a failure of the case
    [[noreturn]] void fail(const std::string& sig, const std::string& msg) { throw PropFail{sig, msg}; }
    // failure unless `sig` is an open known finding; then it is counted and the property may go on
    void report(const std::string& sig, const std::string& msg);
    bool is_known(const std::string& sig) const;

    // ---- called by drivers ------------------------------------------------------
    void load_known(const char* path);   // one signature (or prefix ending in '*') per line
    void begin_case();
    void end_case();          // commit counters of a finished case
    void abandon_case();      // case ended in a failure: counted as evaluation only
    void known_hit(const std::string& sig) { if (!in_shrink) known_hits_[sig]++; }
    void dump(const char* path) const;   // JSON + binary hash file path+".hashes"
    uint64_t evaluations() const { return evaluations_; }
    // fingerprint of what the current case computed (decoded-case hash, labels, non-trivial flag, sample text)
    uint64_t case_digest() const {
        uint64_t h = hash_mix(hash_mix(case_hash_, case_result_), case_nontrivial_ ? 1 : 0);
        for (const std::string& l : case_labels_) h = hash_mix(h, hash_str(l));
        return hash_mix(h, hash_str(case_sample_));
    }
    size_t distinct() const { return hashes_.size(); }

private:
    std::set<std::string> case_labels_;
    bool case_nontrivial_ = false;
    uint64_t case_hash_ = 0, case_result_ = 0;
    std::string case_sample_;

    uint64_t evaluations_ = 0, nontrivial_ = 0;
    std::unordered_set<uint64_t> hashes_;
    std::map<std::string, uint64_t> labels_, excluded_, known_hits_;
    std::vector<std::string> samples_;
    std::vector<std::string> known_;
    uint64_t sample_seen_ = 0;
};

#define VCHECK(ctx, cond, sig, msgexpr) do { if (!(cond)) { std::ostringstream _os; _os << msgexpr; (ctx).report((sig), _os.str()); } } while (0)
#define VFAIL(ctx, sig, msgexpr) do { std::ostringstream _os; _os << msgexpr; (ctx).fail((sig), _os.str()); } while (0)

} // namespace verif

// Every property TU defines these:
extern const char* const PROP_ID;             // "C16"
extern const size_t PROP_MAXLEN_QUICK;        // typical max choice-sequence length
extern const size_t PROP_MAXLEN_THOROUGH;
void prop(verif::Src& s, verif::Ctx& ctx);
// optional exhaustive enumerator (weak default does nothing); returns number of cases
uint64_t prop_exhaustive(verif::Ctx& ctx);

#endif
