// C07 — TCPIP::StreamFollower tracks connections, directions and lifetimes correctly.
//
// Structure: a choice sequence is decoded into (configuration, 1..6 connections with confusable 4-tuples, a list of
// events).  Every event makes one connection emit one packet (or a burst) at a generated, monotone timestamp.  Each
// packet is first given to a REFERENCE CONNECTION TABLE (class Model, written from the property statement and the
// documentation in stream_follower.h / stream.h / flow.h; it shares no code with libtins), which predicts the callbacks
// the packet must cause; then the real packet object is handed to StreamFollower::process_packet(Packet&) and the
// callbacks actually observed are compared with the prediction.  Idle timeouts are checked with a validity predicate
// (not with the implementation's sweep schedule).
#include "../engine/src.h"
#include <tins/tcp_ip/stream_follower.h>
#include <tins/tcp_ip/stream.h>
#include <tins/ip.h>
#include <tins/ipv6.h>
#include <tins/tcp.h>
#include <tins/udp.h>
#include <tins/icmp.h>
#include <tins/arp.h>
#include <tins/rawpdu.h>
#include <tins/ethernetII.h>
#include <tins/packet.h>
#include <tins/exceptions.h>
#include <algorithm>
#include <chrono>
#include <memory>

using namespace verif;
using namespace Tins;
using Tins::TCPIP::StreamFollower;
using Tins::TCPIP::Stream;

const char* const PROP_ID = "C07";
const size_t PROP_MAXLEN_QUICK = 400;
const size_t PROP_MAXLEN_THOROUGH = 1200;

// The v4/v6 alias class (DESIGN.md finding #19) is generated when this is true; every failure that involves a member of
// an alias pair is reported under the signature prefix "C07:v4-v6-alias:" so that it can be a pending finding.
static const bool ENABLE_ALIAS_CLASS = true;

// Limits stated by the property ("the configured limits"): private constants of StreamFollower, not configurable.
static const size_t LIMIT_CHUNKS = 512;
static const uint64_t LIMIT_BYTES = 3u * 1024u * 1024u;
static const uint32_t MAX_SEG = 65495;  // largest TCP payload in an IPv4 datagram

enum : uint8_t { F_FIN = 1, F_SYN = 2, F_RST = 4, F_PSH = 8, F_ACK = 16 };

struct StopCase {};  // a (known) failure was reported: the model may have diverged, abandon the case

// ------------------------------------------------------------------------------------------------ endpoints / keys
struct Ep {
    uint8_t a[16];
    uint16_t port;
    bool operator==(const Ep& o) const { return port == o.port && memcmp(a, o.a, 16) == 0; }
    bool operator!=(const Ep& o) const { return !(*this == o); }
    bool operator<(const Ep& o) const {
        int c = memcmp(a, o.a, 16);
        return c ? c < 0 : port < o.port;
    }
};
// identity of a connection: the address family and the UNORDERED pair of endpoints
struct Key {
    bool v6;
    Ep lo, hi;
    bool operator<(const Key& o) const {
        if (v6 != o.v6) return v6 < o.v6;
        if (lo != o.lo) return lo < o.lo;
        return hi < o.hi;
    }
    bool operator==(const Key& o) const { return v6 == o.v6 && lo == o.lo && hi == o.hi; }
};
static Key make_key(bool v6, const Ep& x, const Ep& y) {
    Key k;
    k.v6 = v6;
    if (y < x) { k.lo = y; k.hi = x; } else { k.lo = x; k.hi = y; }
    return k;
}
static std::string ep_str(bool v6, const Ep& e) {
    std::ostringstream o;
    if (v6) o << "[" << IPv6Address(e.a).to_string() << "]";
    else o << (int)e.a[0] << "." << (int)e.a[1] << "." << (int)e.a[2] << "." << (int)e.a[3];
    o << ":" << e.port;
    return o.str();
}
static IPv4Address v4addr(const Ep& e) { uint32_t be; memcpy(&be, e.a, 4); return IPv4Address(be); }
static IPv6Address v6addr(const Ep& e) { return IPv6Address(e.a); }

// ------------------------------------------------------------------------------------------------ stream contents
// byte number `off` (counted from the ISN) of direction gdir of generated connection gi
static const uint32_t TABN = 65521;
static uint8_t TAB[TABN];
static bool tab_ready = false;
static void tab_init() {
    if (tab_ready) return;
    uint32_t x = 0x2545F491u;
    for (uint32_t i = 0; i < TABN; ++i) { x ^= x << 13; x ^= x >> 17; x ^= x << 5; TAB[i] = (uint8_t)(x >> 11); }
    tab_ready = true;
}
static void content(std::vector<uint8_t>& out, int gi, int gdir, uint32_t off, uint32_t len) {
    size_t base = out.size();
    out.resize(base + len);
    uint32_t idx = (uint32_t)(((uint64_t)off + (uint64_t)(gi * 2 + gdir + 1) * 7919u) % TABN);
    uint32_t done = 0;
    while (done < len) {
        uint32_t k = std::min(len - done, TABN - idx);
        memcpy(out.data() + base + done, TAB + idx, k);
        done += k;
        idx = 0;
    }
}

// ------------------------------------------------------------------------------------------------ generated connections
struct Seg { uint32_t seq, len, ack; uint8_t flags; };
struct GConn {
    bool v6 = false;
    Ep ep[2];            // 0 = the side that sends the SYN in the script ("client"), 1 = the other side
    uint32_t isn[2] = {0, 0}, cur[2] = {0, 0};
    std::vector<Seg> segs[2];
    bool hs = true;      // script starts with a three-way handshake
    int stage = 0;
    bool eth = false;
    bool acoff[2] = {false, false};  // by STREAM role (0 = stream's client): auto cleanup switched off
    bool ign[2] = {false, false};    // by stream role: ignore_{client,server}_data()
    int alias = -1;      // index of a connection of the other family whose zero-padded key collides (finding #19)
    Key key;
    std::string relation;
};

struct APkt {
    int kind = 0;        // 0 TCP over IP/IPv6; 1 UDP; 2 ICMP (v4) / UDP (v6); 3 no IP layer at all (ARP)
    bool v6 = false, eth = false;
    Ep src, dst;
    uint8_t flags = 0;
    uint32_t seq = 0, ack = 0, len = 0;
    int gi = 0, gdir = 0;
    int64_t t = 0;
};
static std::string flags_str(uint8_t f) {
    std::string s;
    if (f & F_SYN) s += "S";
    if (f & F_FIN) s += "F";
    if (f & F_RST) s += "R";
    if (f & F_PSH) s += "P";
    if (f & F_ACK) s += ".";
    return s.empty() ? "-" : s;
}

// ------------------------------------------------------------------------------------------------ reference connection table
enum { UNANCH = 0, ANCH = 1, FUZZY = 2 };
struct MDir {
    int st = UNANCH;     // UNANCH: first sequence number not known yet; ANCH: next expected byte known; FUZZY: no claim
    uint32_t next = 0;
    bool fin = false;
    std::map<uint32_t, uint32_t> buf;  // out-of-order segments: start -> length
    uint64_t bufbytes = 0;
};
struct MConn {
    Key key;
    Ep cli, srv;
    bool v6 = false, partial = false, rst = false;
    MDir d[2];           // 0 = client -> server bytes, 1 = server -> client bytes
    int64_t last_seen = 0;
    int gi = -1, serial = 0, sid = -1;
    size_t chunks() const { return d[0].buf.size() + d[1].buf.size(); }
    uint64_t bytes() const { return d[0].bufbytes + d[1].bufbytes; }
    bool fuzzy() const { return d[0].st == FUZZY || d[1].st == FUZZY; }
};
enum { EV_NEW = 0, EV_DATA = 1, EV_CLOSED = 2, EV_TERM = 3 };
static const char* ev_name(int t) {
    static const char* N[] = {"new-stream", "data", "closed", "termination"};
    return N[t & 3];
}
struct XEv {
    int type = 0, serial = 0, dir = 0;
    uint32_t from = 0, len = 0;   // EV_DATA: absolute sequence range delivered
    bool optional = false;        // the statement makes no claim whether it happens
    bool anydata = false;         // EV_DATA on a FUZZY direction: content not predicted
};

struct Model {
    const std::vector<GConn>* g = nullptr;
    bool partial_on = false;
    std::map<Key, MConn> live;
    int next_serial = 0;
    // statistics for labels / non-triviality
    unsigned created = 0, closed_fin = 0, closed_rst = 0, term_buf = 0, timeouts = 0, ignored_unknown = 0, attached = 0;
    unsigned max_live = 0, switches = 0, reincarnations = 0, stale_dups = 0, buffered_segments = 0, at_chunk_limit = 0,
             at_byte_limit = 0, over_chunks = 0, over_bytes = 0, finish_and_exceed = 0, fuzzy_conns = 0;
    int last_serial = -1;
    std::set<Key> ever;
    std::string harness_error;

    MConn* find_live(const Key& k) {
        auto it = live.find(k);
        return it == live.end() ? nullptr : &it->second;
    }

    // what must happen when this packet is processed (the statement, clause by clause)
    std::vector<XEv> step(const APkt& p) {
        std::vector<XEv> out;
        if (p.kind != 0) return out;  // not TCP: belongs to no connection
        Key k = make_key(p.v6, p.src, p.dst);
        MConn* c = find_live(k);
        const bool syn = (p.flags & F_SYN) != 0, ackf = (p.flags & F_ACK) != 0, finf = (p.flags & F_FIN) != 0,
                   rstf = (p.flags & F_RST) != 0;
        if (!c) {
            // "announces each connection exactly once (on its initial SYN, or on first data when attaching ... is enabled)"
            const bool initial_syn = syn && !ackf;
            if (!initial_syn && !(partial_on && p.len > 0)) { ++ignored_unknown; return out; }
            MConn n;
            n.key = k; n.v6 = p.v6; n.cli = p.src; n.srv = p.dst; n.gi = p.gi; n.serial = next_serial++;
            n.partial = !syn;  // stream.h: "partial stream that we attached to after it had actually started"
            if (!initial_syn) {
                // attached mid-stream: the first packet defines where the sender's bytes start; its acknowledgement number
                // is the next byte expected from the peer (tests/ AttachToStreams_PacketsInBothDirections documents this)
                n.d[0].st = ANCH; n.d[0].next = p.seq;
                if (ackf) { n.d[1].st = ANCH; n.d[1].next = p.ack; } else n.d[1].st = FUZZY;
                ++attached;
            }
            if (!ever.insert(k).second) ++reincarnations;
            c = &live.insert(std::make_pair(k, n)).first->second;
            ++created;
            if (live.size() > max_live) max_live = (unsigned)live.size();
            XEv e; e.type = EV_NEW; e.serial = c->serial;
            out.push_back(e);
        }
        if (live.size() >= 2 && last_serial != c->serial) ++switches;
        last_serial = c->serial;
        c->last_seen = p.t;
        // "routes every segment to the connection and direction identified by its address/port 4-tuple"
        const int dir = (p.src == c->cli) ? 0 : 1;
        MDir& d = c->d[dir];
        const bool ignoring = (*g)[c->gi].ign[dir];
        if (rstf) c->rst = true;
        if (finf) d.fin = true;
        if (d.st == UNANCH) {
            if (syn && !finf && !rstf) {
                d.st = ANCH; d.next = p.seq + 1;       // SYN consumes one sequence number
                if (p.len > 0) d.st = FUZZY;           // data on a SYN: no claim
            } else if (finf || p.len > 0) {
                d.st = FUZZY;                          // bytes of a direction whose start was never seen: no claim
            }
        } else if (d.st == ANCH && p.len > 0 && !ignoring) {
            const int64_t rel = (int32_t)(p.seq - d.next);
            const int64_t endrel = rel + (int64_t)p.len;
            if (endrel <= 0) {
                ++stale_dups;                          // nothing new
            } else if (rel <= 0) {
                if (rel < 0) harness_error = "segment straddles the delivery point (generator must keep boundaries fixed)";
                uint32_t from = d.next, len = (uint32_t)endrel;
                d.next = from + len;
                for (;;) {  // drain what has become contiguous
                    auto it = d.buf.find(d.next);
                    if (it == d.buf.end()) break;
                    len += it->second;
                    d.next += it->second;
                    d.bufbytes -= it->second;
                    d.buf.erase(it);
                }
                for (auto& kv : d.buf)
                    if ((int32_t)(kv.first - d.next) < 0) harness_error = "buffered segment overlaps delivered data";
                XEv e; e.type = EV_DATA; e.serial = c->serial; e.dir = dir; e.from = from; e.len = len;
                out.push_back(e);
            } else {
                auto it = d.buf.find(p.seq);
                if (it == d.buf.end()) { d.buf[p.seq] = p.len; d.bufbytes += p.len; ++buffered_segments; }
                else if (it->second < p.len) { d.bufbytes += p.len - it->second; it->second = p.len; }
            }
        }
        if (d.st == FUZZY && p.len > 0 && !ignoring) {
            XEv e; e.type = EV_DATA; e.serial = c->serial; e.dir = dir; e.optional = true; e.anydata = true;
            out.push_back(e);
        }
        // "forgets the connection exactly when both sides have sent FIN or either has sent RST"
        const bool finished = c->rst || (c->d[0].fin && c->d[1].fin);
        // "A connection that buffers more out-of-order chunks or bytes than the configured limits ... is terminated"
        const bool over_c = c->chunks() > LIMIT_CHUNKS, over_b = c->bytes() > LIMIT_BYTES;
        const bool fz = c->fuzzy();
        if (!fz && !finished) {
            if (c->chunks() == LIMIT_CHUNKS) ++at_chunk_limit;
            if (c->bytes() == LIMIT_BYTES) ++at_byte_limit;
        }
        if (finished) {
            XEv e; e.type = EV_CLOSED; e.serial = c->serial;
            out.push_back(e);
            if (c->rst) ++closed_rst; else ++closed_fin;
            if (over_c || over_b || fz) {  // finished and over the limit with the same packet: either report is fine
                XEv t; t.type = EV_TERM; t.serial = c->serial; t.optional = true;
                out.push_back(t);
                if (over_c || over_b) ++finish_and_exceed;
            }
        } else if (fz) {
            XEv t; t.type = EV_TERM; t.serial = c->serial; t.optional = true;  // accounting of a FUZZY direction: no claim
            out.push_back(t);
        } else if (over_c || over_b) {
            XEv t; t.type = EV_TERM; t.serial = c->serial;
            out.push_back(t);
            ++term_buf;
            if (over_c) ++over_chunks;
            if (over_b) ++over_bytes;
        }
        if (finished || (!fz && (over_c || over_b))) {
            if (fz) ++fuzzy_conns;
            live.erase(k);
        }
        return out;
    }
    void kill(const Key& k) { live.erase(k); }
};

// ------------------------------------------------------------------------------------------------ the case
struct AEv {
    int type = 0, sid = -1, dir = 0, reason = 0;
    std::vector<uint8_t> bytes, full;
    bool acoff = false;
};
struct SRec {
    Key key;
    Ep cli, srv;
    bool v6 = false, partial = false;
    int gi = -1;
    size_t acc_len[2] = {0, 0};
    std::vector<uint8_t> acc[2];   // reference: everything delivered so far (used when auto cleanup is off)
    std::string trace;
};

struct Case {
    Ctx& ctx;
    std::vector<GConn> g;
    std::map<Key, int> gidx;
    Model m;
    std::unique_ptr<StreamFollower> f;
    std::vector<SRec> recs;
    std::map<Key, int> live_sid;
    std::vector<AEv> evs;
    std::set<std::string> labels;
    bool partial_on = false;
    int64_t K = 1000000, now = 0;
    bool wall = false;   // packets go through process_packet(PDU&), which stamps them with the current time
    const APkt* cur = nullptr;   // the packet being processed (for the callbacks)
    unsigned packets = 0, max_packets = 0, big_bulks = 0;
    uint64_t h = 0;
    std::string desc;

    explicit Case(Ctx& c) : ctx(c) {}

    [[noreturn]] void fail(int gi, const std::string& sig, const std::string& msg) {
        std::string s = sig;
        if (gi >= 0 && gi < (int)g.size() && g[gi].alias >= 0) s = "C07:v4-v6-alias:" + sig.substr(4);
        ctx.report(s, msg + " | " + desc);
        throw StopCase();
    }

    static void read_tuple(const Stream& st, SRec& r) {
        r.v6 = st.is_v6();
        memset(r.cli.a, 0, 16);
        memset(r.srv.a, 0, 16);
        if (r.v6) {
            IPv6Address c = st.client_addr_v6(), s = st.server_addr_v6();
            std::copy(c.begin(), c.end(), r.cli.a);
            std::copy(s.begin(), s.end(), r.srv.a);
        } else {
            uint32_t c = st.client_addr_v4(), s = st.server_addr_v4();
            memcpy(r.cli.a, &c, 4);
            memcpy(r.srv.a, &s, 4);
        }
        r.cli.port = st.client_port();
        r.srv.port = st.server_port();
        r.key = make_key(r.v6, r.cli, r.srv);
        r.partial = st.is_partial_stream();
    }

    void on_new(Stream& st) {
        SRec r;
        read_tuple(st, r);
        auto gi = gidx.find(r.key);
        r.gi = gi == gidx.end() ? -1 : gi->second;
        int sid = (int)recs.size();
        recs.push_back(r);
        AEv e; e.type = EV_NEW; e.sid = sid;
        evs.push_back(e);
        if (cur) {
            // identity of the new connection as seen through the read-only accessors: created at the announcing packet's
            // time, link-layer addresses of that packet (source = client side) or none without an Ethernet header
            const Stream& cs = st;
            if (!wall) VCHECK(ctx, cs.create_time() == Stream::timestamp_type(cur->t), "C07:new-stream:create-time",
                              "create_time() = " << cs.create_time().count() << "us, the announcing packet was stamped " << cur->t << "us | " << desc);
            Stream::hwaddress_type want_c, want_s;
            if (cur->eth) { want_c = Stream::hwaddress_type("00:0a:0b:0c:0d:0e"); want_s = Stream::hwaddress_type("00:01:02:03:04:05"); }
            VCHECK(ctx, cs.client_hw_addr() == want_c && cs.server_hw_addr() == want_s, "C07:new-stream:hw-addresses",
                   "client_hw_addr() = " << cs.client_hw_addr() << " server_hw_addr() = " << cs.server_hw_addr() << " expected " << want_c << " / " << want_s << " | " << desc);
            VCHECK(ctx, cs.client_payload().empty() && cs.server_payload().empty(), "C07:new-stream:payload-not-empty", "a stream is announced before any of its data is delivered | " << desc);
        }
        st.client_data_callback([this, sid](Stream& s) {
            AEv d; d.type = EV_DATA; d.sid = sid; d.dir = 0; d.bytes = s.client_payload();
            evs.push_back(std::move(d));
        });
        st.server_data_callback([this, sid](Stream& s) {
            AEv d; d.type = EV_DATA; d.sid = sid; d.dir = 1; d.bytes = s.server_payload();
            evs.push_back(std::move(d));
        });
        st.stream_closed_callback([this, sid](Stream&) {
            AEv d; d.type = EV_CLOSED; d.sid = sid;
            evs.push_back(d);
        });
        if (r.gi >= 0) {
            const GConn& gc = g[r.gi];
            if (gc.acoff[0]) st.auto_cleanup_client_data(false);
            if (gc.acoff[1]) st.auto_cleanup_server_data(false);
            if (gc.ign[0]) st.ignore_client_data();
            if (gc.ign[1]) st.ignore_server_data();
        }
    }
    void on_term(Stream& st, StreamFollower::TerminationReason why) {
        SRec r;
        read_tuple(st, r);
        auto it = live_sid.find(r.key);
        AEv e; e.type = EV_TERM; e.reason = (int)why;
        e.sid = it == live_sid.end() ? -1 : it->second;
        if (e.sid < 0) {  // could be the stream announced by this very packet
            for (size_t i = evs.size(); i-- > 0;)
                if (evs[i].type == EV_NEW && recs[evs[i].sid].key == r.key) { e.sid = evs[i].sid; break; }
        }
        evs.push_back(e);
    }

    // ---- packet construction ---------------------------------------------------------------------
    PDU* build(const APkt& p) {
        PDU* inner = nullptr;
        std::vector<uint8_t> pl;
        if (p.len) content(pl, p.gi, p.gdir, p.seq - g[p.gi].isn[p.gdir], p.len);
        if (p.kind == 0) {
            TCP* tcp = new TCP(p.dst.port, p.src.port);
            unsigned fl = 0;
            if (p.flags & F_FIN) fl |= TCP::FIN;
            if (p.flags & F_SYN) fl |= TCP::SYN;
            if (p.flags & F_RST) fl |= TCP::RST;
            if (p.flags & F_PSH) fl |= TCP::PSH;
            if (p.flags & F_ACK) fl |= TCP::ACK;
            tcp->flags(fl);
            tcp->seq(p.seq);
            tcp->ack_seq(p.ack);
            if (p.len) tcp->inner_pdu(new RawPDU(std::move(pl)));
            inner = tcp;
        } else if (p.kind == 1 || (p.kind == 2 && p.v6)) {
            UDP* udp = new UDP(p.dst.port, p.src.port);
            if (p.len) udp->inner_pdu(new RawPDU(std::move(pl)));
            inner = udp;
        } else if (p.kind == 2) {
            inner = new ICMP(ICMP::ECHO_REQUEST);
        } else {
            ARP* arp = new ARP(v4addr(p.dst), v4addr(p.src));
            EthernetII* e = new EthernetII();
            e->inner_pdu(arp);
            return e;
        }
        PDU* top;
        if (p.v6) { IPv6* ip = new IPv6(v6addr(p.dst), v6addr(p.src)); ip->inner_pdu(inner); top = ip; }
        else { IP* ip = new IP(v4addr(p.dst), v4addr(p.src)); ip->inner_pdu(inner); top = ip; }
        if (p.eth) {
            EthernetII* e = new EthernetII(EthernetII::address_type("00:01:02:03:04:05"), EthernetII::address_type("00:0a:0b:0c:0d:0e"));
            e->inner_pdu(top);
            top = e;
        }
        return top;
    }

    // expected bytes of a delivered range
    void expect_bytes(std::vector<uint8_t>& out, int gi, int gdir, uint32_t from, uint32_t len) {
        content(out, gi, gdir, from - g[gi].isn[gdir], len);
    }

    // ---- one packet: predict, run, compare -------------------------------------------------------
    void send(APkt p) {
        if (packets >= max_packets) return;
        ++packets;
        p.t = now;
        h = hash_mix(h, ((uint64_t)p.kind << 56) ^ ((uint64_t)p.gi << 48) ^ ((uint64_t)p.gdir << 40) ^ ((uint64_t)p.flags << 32) ^ p.seq);
        h = hash_mix(h, ((uint64_t)p.len << 32) ^ p.ack);
        h = hash_mix(h, (uint64_t)p.t);
        const Key pk = make_key(p.v6, p.src, p.dst);
        MConn* before = p.kind == 0 ? m.find_live(pk) : nullptr;
        const bool was_live = before != nullptr;
        // model conn data needed after the step (the step may erase the connection)
        std::vector<XEv> exp = m.step(p);
        if (!m.harness_error.empty()) { VFAIL(ctx, "C07:harness:model-precondition", m.harness_error << " | " << desc); }
        evs.clear();
        {
            cur = &p;
            if (wall) {
                std::unique_ptr<PDU> pdu(build(p));
                f->process_packet(*pdu);
            } else {
                Packet pkt(build(p), Timestamp(std::chrono::microseconds(p.t)), Packet::own_pdu());
                f->process_packet(pkt);
            }
            cur = nullptr;
        }
        if (ctx.logging()) {
            std::ostringstream o;
            o << "  t=" << p.t << " c" << p.gi << (p.gdir ? " <- " : " -> ")
              << (p.kind == 0 ? "TCP " : (p.kind == 1 ? "UDP " : (p.kind == 2 ? "ICMP/UDP " : "ARP ")))
              << ep_str(p.v6, p.src) << " > " << ep_str(p.v6, p.dst) << " [" << flags_str(p.flags) << "] seq=" << p.seq
              << " ack=" << p.ack << " len=" << p.len << (was_live ? " (live)" : " (not live)") << "   expect:";
            for (auto& e : exp) o << " " << ev_name(e.type) << (e.optional ? "?" : "") << (e.type == EV_DATA ? (e.dir ? "(srv," : "(cli,") + std::to_string(e.len) + ")" : "");
            o << "   got:";
            for (auto& e : evs) {
                o << " " << ev_name(e.type);
                if (e.type == EV_DATA) o << (e.dir ? "(srv," : "(cli,") << e.bytes.size() << ")";
                if (e.type == EV_TERM) o << "(" << (e.reason == StreamFollower::TIMEOUT ? "TIMEOUT" : (e.reason == StreamFollower::BUFFERED_DATA ? "BUFFERED_DATA" : "SACKED_SEGMENTS")) << ")";
                if (e.sid >= 0) o << "#" << e.sid;
            }
            ctx.log(o.str());
        }
        compare(p, pk, exp);
        check_find(p.gi);
    }

    std::string pkt_str(const APkt& p) {
        std::ostringstream o;
        o << "packet #" << packets << " t=" << p.t << " " << ep_str(p.v6, p.src) << ">" << ep_str(p.v6, p.dst) << " ["
          << flags_str(p.flags) << "] seq=" << p.seq << " len=" << p.len;
        return o.str();
    }

    void compare(const APkt& p, const Key& pk, const std::vector<XEv>& exp) {
        // 1. separate idle terminations (validity predicate) from the events caused by the packet itself
        std::vector<AEv> act, timeouts;
        for (auto& e : evs) {
            if (e.type == EV_TERM && e.reason == StreamFollower::TIMEOUT) timeouts.push_back(e);
            else act.push_back(std::move(e));
        }
        // 2. coalesce data callbacks per (stream, direction): the statement speaks about delivered bytes, not about the
        //    number of callbacks; a callback that delivers nothing new is dropped
        std::vector<AEv> a2;
        for (auto& e : act) {
            if (e.type != EV_DATA) { a2.push_back(std::move(e)); continue; }
            SRec& r = recs[e.sid];
            const bool acoff = r.gi >= 0 && g[r.gi].acoff[e.dir];
            std::vector<uint8_t> fresh, full;
            if (acoff) {
                // auto cleanup off: the stream keeps everything, the callback sees the whole accumulated payload
                if (e.bytes.size() < r.acc_len[e.dir])
                    fail(r.gi, "C07:data:accumulated-payload-shrunk", pkt_str(p) + ": payload kept by the stream (auto cleanup off) shrank from " + std::to_string(r.acc_len[e.dir]) + " to " + std::to_string(e.bytes.size()));
                fresh.assign(e.bytes.begin() + r.acc_len[e.dir], e.bytes.end());
                r.acc_len[e.dir] = e.bytes.size();
                full = std::move(e.bytes);
            } else {
                fresh = std::move(e.bytes);
            }
            if (fresh.empty()) continue;
            if (!a2.empty() && a2.back().type == EV_DATA && a2.back().sid == e.sid && a2.back().dir == e.dir) {
                a2.back().bytes.insert(a2.back().bytes.end(), fresh.begin(), fresh.end());
                a2.back().full = std::move(full);
            } else {
                AEv n; n.type = EV_DATA; n.sid = e.sid; n.dir = e.dir; n.bytes = std::move(fresh); n.full = std::move(full); n.acoff = acoff;
                a2.push_back(std::move(n));
            }
        }
        // 3. walk expected against actual.  Everything except a new-stream event concerns the stream that is live for
        //    this packet's 4-tuple (cur_sid: the one live before the packet, or the one announced by it).
        size_t i = 0;
        int cur_sid = -1;
        {
            auto ls = live_sid.find(pk);
            if (ls != live_sid.end()) cur_sid = ls->second;
        }
        for (const XEv& x : exp) {
            const bool have = i < a2.size() && a2[i].type == x.type;
            if (!have) {
                if (x.optional) continue;
                bool later = false;
                for (size_t j = i; j < a2.size(); ++j) later |= a2[j].type == x.type;
                if (later) fail(p.gi, "C07:event-order", pkt_str(p) + ": " + ev_name(x.type) + " callback out of order (" + ev_name(a2[i].type) + " came first)");
                std::string why;
                if (x.type == EV_NEW) why = "no new-stream callback for a connection that must be announced";
                else if (x.type == EV_DATA) why = "no data callback although " + std::to_string(x.len) + " contiguous byte(s) became available for the " + (x.dir ? "server" : "client") + " direction";
                else if (x.type == EV_CLOSED) why = "stream-closed callback missing although both FINs or a RST have been seen";
                else why = "termination callback (BUFFERED_DATA) missing although the connection buffers more than the limit";
                std::string sig = std::string("C07:") + ev_name(x.type) + ":missing";
                if (x.type == EV_CLOSED && (p.flags & F_FIN) && (p.flags & F_RST)) sig += ":fin+rst-segment";
                fail(p.gi, sig, pkt_str(p) + ": " + why);
            }
            AEv& a = a2[i++];
            if (x.type == EV_NEW) {
                SRec& r = recs[a.sid];
                if (!(r.key == pk))
                    fail(p.gi, "C07:new-stream:wrong-connection", pkt_str(p) + ": new stream announced as " + ep_str(r.v6, r.cli) + ">" + ep_str(r.v6, r.srv));
                if (!(r.cli == p.src))
                    fail(p.gi, "C07:new-stream:client-server-swapped", pkt_str(p) + ": client reported as " + ep_str(r.v6, r.cli));
                const bool partial = !(p.flags & F_SYN);
                if (r.partial != partial)
                    fail(p.gi, "C07:new-stream:partial-flag", pkt_str(p) + ": is_partial_stream()=" + (r.partial ? "true" : "false"));
                if (live_sid.count(r.key))
                    fail(p.gi, "C07:new-stream:announced-twice", pkt_str(p) + ": connection announced while the previous announcement is still live");
                live_sid[r.key] = a.sid;
                cur_sid = a.sid;
                r.trace += "NEW ";
                continue;
            }
            if (a.sid != cur_sid) {
                std::string who = a.sid >= 0 ? ep_str(recs[a.sid].v6, recs[a.sid].cli) + ">" + ep_str(recs[a.sid].v6, recs[a.sid].srv) : std::string("an unknown stream");
                fail(p.gi, std::string("C07:") + ev_name(x.type) + ":wrong-connection", pkt_str(p) + ": " + ev_name(x.type) + " callback for " + who);
            }
            SRec& r = recs[a.sid];
            if (x.type == EV_DATA) {
                if (a.dir != x.dir)
                    fail(p.gi, "C07:data:wrong-direction", pkt_str(p) + ": bytes delivered to the " + (a.dir ? "server" : "client") + " direction, sender is the " + (x.dir ? "server" : "client"));
                if (x.anydata) {  // FUZZY direction: content not predicted
                    r.trace += std::string(a.dir ? "s" : "c") + "?" + std::to_string(a.bytes.size()) + " ";
                    continue;
                }
                std::vector<uint8_t> want;
                expect_bytes(want, p.gi, p.gdir, x.from, x.len);
                if (a.bytes != want) {
                    size_t k = 0;
                    while (k < want.size() && k < a.bytes.size() && want[k] == a.bytes[k]) ++k;
                    fail(p.gi, "C07:data:not-the-contiguous-prefix", pkt_str(p) + ": delivered " + std::to_string(a.bytes.size()) + " byte(s), reference " + std::to_string(want.size()) + " byte(s) from seq " + std::to_string(x.from) + "; first difference at offset " + std::to_string(k));
                }
                if (a.acoff) {
                    r.acc[a.dir].insert(r.acc[a.dir].end(), want.begin(), want.end());
                    if (a.full != r.acc[a.dir])
                        fail(p.gi, "C07:data:accumulated-payload", pkt_str(p) + ": with auto cleanup off the payload (" + std::to_string(a.full.size()) + " bytes) is not everything delivered so far (" + std::to_string(r.acc[a.dir].size()) + " bytes)");
                }
                r.trace += std::string(a.dir ? "s" : "c") + std::to_string(a.bytes.size()) + " ";
            } else if (x.type == EV_CLOSED) {
                r.trace += "CLOSED ";
                live_sid.erase(pk);
            } else {  // EV_TERM
                if (a.reason != StreamFollower::BUFFERED_DATA)
                    fail(p.gi, "C07:termination:wrong-reason", pkt_str(p) + ": reason " + std::to_string(a.reason) + ", expected BUFFERED_DATA");
                r.trace += "TERM(BUFFERED) ";
                live_sid.erase(pk);
                m.kill(pk);  // optional (FUZZY) termination: follow the implementation
            }
        }
        if (i < a2.size()) {
            AEv& a = a2[i];
            std::string who = a.sid >= 0 ? ep_str(recs[a.sid].v6, recs[a.sid].cli) + ">" + ep_str(recs[a.sid].v6, recs[a.sid].srv) : std::string("an unknown stream");
            int gi = a.sid >= 0 && recs[a.sid].gi >= 0 ? recs[a.sid].gi : p.gi;
            if (g[p.gi].alias >= 0) gi = p.gi;
            std::string extra;
            if (a.type == EV_DATA) extra = std::string(" (") + (a.dir ? "server" : "client") + " direction, " + std::to_string(a.bytes.size()) + " byte(s))";
            if (a.type == EV_TERM) extra = " (reason " + std::to_string(a.reason) + ")";
            fail(gi, std::string("C07:") + ev_name(a.type) + ":unexpected", pkt_str(p) + ": unexpected " + ev_name(a.type) + " callback for " + who + extra);
        }
        // 4. idle terminations: only streams that are live and idle >= keep-alive, at most once each
        for (auto& e : timeouts) {
            if (e.sid < 0) fail(p.gi, "C07:timeout:unknown-stream", pkt_str(p) + ": TIMEOUT termination for a stream that is not being followed");
            SRec& r = recs[e.sid];
            auto ls = live_sid.find(r.key);
            if (ls == live_sid.end() || ls->second != e.sid)
                fail(r.gi, "C07:timeout:stream-not-live", pkt_str(p) + ": TIMEOUT termination for " + ep_str(r.v6, r.cli) + ">" + ep_str(r.v6, r.srv) + " which was already closed/terminated");
            MConn* c = m.find_live(r.key);
            if (!c) fail(r.gi, "C07:timeout:stream-not-live", pkt_str(p) + ": TIMEOUT termination for a connection the reference table does not hold");
            const int64_t idle = p.t - c->last_seen;
            if (idle < K)
                fail(r.gi, "C07:timeout:not-idle", pkt_str(p) + ": TIMEOUT termination for " + ep_str(r.v6, r.cli) + ">" + ep_str(r.v6, r.srv) + " idle for " + std::to_string(idle) + " us, keep-alive " + std::to_string(K) + " us");
            r.trace += "TERM(TIMEOUT) ";
            live_sid.erase(ls);
            m.kill(r.key);
            ++m.timeouts;
        }
        // 5. boundedness: after a TCP packet at time t no stream idle >= 2 * keep-alive may remain
        if (p.kind == 0) {
            for (auto& kv : m.live) {
                const int64_t idle = p.t - kv.second.last_seen;
                if (idle >= 2 * K)
                    fail(kv.second.gi, "C07:timeout:idle-stream-remains", pkt_str(p) + ": " + ep_str(kv.second.v6, kv.second.cli) + ">" + ep_str(kv.second.v6, kv.second.srv) + " idle for " + std::to_string(idle) + " us is still followed, keep-alive " + std::to_string(K) + " us");
            }
        }
    }

    // find_stream succeeds <=> the reference table holds the connection
    void check_find(int gi) {
        const GConn& c = g[gi];
        MConn* mc = m.find_live(c.key);
        bool found = false;
        SRec r;
        try {
            Stream& st = c.v6 ? f->find_stream(v6addr(c.ep[0]), c.ep[0].port, v6addr(c.ep[1]), c.ep[1].port)
                              : f->find_stream(v4addr(c.ep[0]), c.ep[0].port, v4addr(c.ep[1]), c.ep[1].port);
            found = true;
            read_tuple(st, r);
        } catch (const stream_not_found&) {
            found = false;
        }
        std::string who = "c" + std::to_string(gi) + " " + ep_str(c.v6, c.ep[0]) + ">" + ep_str(c.v6, c.ep[1]);
        if (mc && !found) fail(gi, "C07:find_stream:live-not-found", "after packet #" + std::to_string(packets) + ": find_stream throws for " + who + " although the connection is open");
        if (!mc && found) fail(gi, "C07:find_stream:forgotten-still-found", "after packet #" + std::to_string(packets) + ": find_stream finds " + who + " although the connection is closed/terminated/never announced (returned " + ep_str(r.v6, r.cli) + ">" + ep_str(r.v6, r.srv) + ")");
        if (mc && found && (!(r.key == c.key) || !(r.cli == mc->cli)))
            fail(gi, "C07:find_stream:wrong-stream", "after packet #" + std::to_string(packets) + ": find_stream(" + who + ") returned " + ep_str(r.v6, r.cli) + ">" + ep_str(r.v6, r.srv));
    }

    // ---- script operations --------------------------------------------------------------------------
    APkt base(int gi, int gdir) {
        const GConn& c = g[gi];
        APkt p;
        p.v6 = c.v6; p.eth = c.eth; p.src = c.ep[gdir]; p.dst = c.ep[1 - gdir]; p.gi = gi; p.gdir = gdir;
        p.seq = c.cur[gdir]; p.ack = c.cur[1 - gdir];
        return p;
    }
    void send_seg(int gi, int gdir, const Seg& s) {
        APkt p = base(gi, gdir);
        p.seq = s.seq; p.len = s.len; p.ack = s.ack; p.flags = s.flags;
        send(p);
    }
    Seg make_seg(int gi, int gdir, uint32_t len, uint8_t flags) {
        GConn& c = g[gi];
        Seg s;
        s.seq = c.cur[gdir]; s.len = len; s.ack = c.cur[1 - gdir]; s.flags = flags;
        c.cur[gdir] += len + ((flags & F_FIN) ? 1 : 0);
        c.segs[gdir].push_back(s);
        return s;
    }
    void op_syn(int gi, int gdir, bool with_ack) {
        const GConn& c = g[gi];
        APkt p = base(gi, gdir);
        p.seq = c.isn[gdir];
        p.flags = with_ack ? (F_SYN | F_ACK) : F_SYN;
        p.ack = with_ack ? c.isn[1 - gdir] + 1 : 0;
        send(p);
    }
    void op_next(int gi, uint8_t p1) {
        GConn& c = g[gi];
        if (c.hs && c.stage < 3) {
            int st = c.stage++;
            if (st == 0) op_syn(gi, 0, false);
            else if (st == 1) op_syn(gi, 1, true);
            else { APkt p = base(gi, 0); p.flags = F_ACK; send(p); }
            return;
        }
        op_data(gi, p1 & 1, 1 + ((p1 >> 1) & 7), true);
    }
    void op_data(int gi, int gdir, uint32_t len, bool send_it) {
        Seg s = make_seg(gi, gdir, len, F_ACK | F_PSH);
        if (send_it) send_seg(gi, gdir, s);
        else labels.insert("segment-held-back");
    }
    static uint32_t len_class(uint8_t x, uint8_t y) {
        if (x < 96) return 1 + x % 16;
        if (x < 112) return 1460;
        if (x < 120) return 100 + y;
        if (x < 124) return MAX_SEG;
        if (x < 126) return MAX_SEG - 1 - y;
        return 536;
    }
    void op_bulk_chunks(int gi, int gdir, bool split, unsigned mode, bool big) {
        MConn* mc = m.find_live(g[gi].key);
        size_t n;
        if (!mc || !big || big_bulks >= 2) n = 2 + mode;
        else {
            ++big_bulks;
            size_t cur = mc->chunks();
            static const size_t T[8] = {511, 512, 513, 514, 0, 0, 512, 513};
            if (mode == 4) n = 255;
            else if (mode == 5) n = 300;
            else n = T[mode] > cur ? T[mode] - cur : 2;
            labels.insert("bulk-chunks");
        }
        // open a hole in front so that every following one-byte segment is out of order
        op_data(gi, gdir, 1, false);
        if (split) op_data(gi, 1 - gdir, 1, false);
        for (size_t i = 0; i < n; ++i) {
            int d = split && (i & 1) ? 1 - gdir : gdir;
            if (big && mode >= 6 && i + 1 == n) {
                // the segment that reaches the target count also ends the connection (RST / FIN riding on out-of-order
                // data): both the limit and the close have to be handled for one and the same packet
                Seg sg = make_seg(gi, d, 1, F_ACK | F_PSH | (mode == 6 ? F_RST : F_FIN));
                send_seg(gi, d, sg);
                labels.insert("limit-and-close-on-one-packet");
                break;
            }
            op_data(gi, d, 1, true);
            if (big && !m.find_live(g[gi].key)) break;
        }
    }
    void op_bulk_bytes(int gi, int gdir, unsigned mode, bool big) {
        MConn* mc = m.find_live(g[gi].key);
        if (!mc || !big || big_bulks >= 2) {
            op_data(gi, gdir, 1, false);
            op_data(gi, gdir, 1460, true);
            op_data(gi, gdir, 1460, true);
            return;
        }
        ++big_bulks;
        labels.insert("bulk-bytes");
        static const int64_t D[4] = {-1, 0, 1, 70000};
        int64_t need = (int64_t)LIMIT_BYTES + D[mode & 3] - (int64_t)mc->bytes();
        op_data(gi, gdir, 1, false);
        while (need > 0) {
            uint32_t len = (uint32_t)std::min<int64_t>(need, MAX_SEG);
            op_data(gi, gdir, len, true);
            need -= len;
            if (!m.find_live(g[gi].key)) break;
        }
    }
};

// ------------------------------------------------------------------------------------------------ tuple generator
static const uint8_t V4POOL[6][4] = {{10, 0, 0, 1}, {10, 0, 0, 2}, {192, 168, 1, 1}, {127, 0, 0, 1}, {255, 255, 255, 255}, {10, 0, 1, 0}};
static const uint8_t V6POOL[5][16] = {
    {0xfe, 0x80, 0, 0, 0, 0, 0, 0, 0, 0, 0, 0, 0, 0, 0, 1},
    {0xfe, 0x80, 0, 0, 0, 0, 0, 0, 0, 0, 0, 0, 0, 0, 0, 2},
    {0x20, 0x01, 0x0d, 0xb8, 0, 0, 0, 0, 0, 0, 0, 0, 0, 0, 0, 1},
    {0, 0, 0, 0, 0, 0, 0, 0, 0, 0, 0, 0, 0, 0, 0, 1},
    {0, 0, 0, 0, 0, 0, 0, 0, 0, 0, 0xff, 0xff, 10, 0, 0, 1},
};
static const uint16_t PORTS[8] = {1000, 80, 1001, 443, 65535, 0, 81, 32768};
static const uint32_t ISNS[8] = {1000, 0xffffffffu, 0, 0xfffffff0u, 0x7fffffffu, 0x80000000u, 0xfffffe00u, 0x12345678u};

static void gen_conn(Case& cs, Src& s, int i) {
    GConn c;
    uint8_t b0 = s.u8(), b1 = s.u8(), b2 = s.u8(), b3 = s.u8(), b4 = s.u8();
    unsigned rel = i == 0 ? 0 : b0 % 12;
    const GConn* o = i == 0 ? nullptr : &cs.g[(b0 / 12) % i];
    memset(c.ep[0].a, 0, 16);
    memset(c.ep[1].a, 0, 16);
    auto fresh = [&]() {
        c.v6 = (b1 & 1) != 0;
        unsigned ia = (b1 >> 1) & 7, ib = (b1 >> 4) & 7;
        if (c.v6) { memcpy(c.ep[0].a, V6POOL[ia % 5], 16); memcpy(c.ep[1].a, V6POOL[(ib + 1) % 5], 16); }
        else { memcpy(c.ep[0].a, V4POOL[ia % 6], 4); memcpy(c.ep[1].a, V4POOL[(ib + 1) % 6], 4); }
        c.ep[0].port = PORTS[b0 >> 5];
        c.ep[1].port = PORTS[((b0 >> 5) + 1 + (b1 >> 7)) & 7];
        c.relation = "fresh";
        if ((b1 >> 7) && (b2 & 0x40)) { c.ep[1].port = c.ep[0].port; c.relation = "same-port-both-ends"; }
    };
    switch (rel) {
        default:
        case 0: case 1: case 2: fresh(); break;
        case 3: case 4:  // differs in the client port only
            c = GConn(); c.v6 = o->v6; c.ep[0] = o->ep[0]; c.ep[1] = o->ep[1]; c.ep[0].port = (uint16_t)(o->ep[0].port + 1 + (b1 & 1));
            c.relation = "client-port-differs"; break;
        case 5:          // differs in the server port only
            c.v6 = o->v6; c.ep[0] = o->ep[0]; c.ep[1] = o->ep[1]; c.ep[1].port = (uint16_t)(o->ep[1].port + 1);
            c.relation = "server-port-differs"; break;
        case 6:          // same ports on swapped hosts
            c.v6 = o->v6; c.ep[0] = o->ep[1]; c.ep[1] = o->ep[0]; std::swap(c.ep[0].port, c.ep[1].port);
            c.relation = "swapped-hosts-same-ports"; break;
        case 7:          // same address at both ends (ports of the other connection)
            c.v6 = o->v6; c.ep[0] = o->ep[0]; c.ep[1] = o->ep[0]; c.ep[1].port = o->ep[1].port;
            c.relation = "same-address-both-ends"; break;
        case 8:          // ports crossed: A:q -> B:p
            c.v6 = o->v6; c.ep[0] = o->ep[0]; c.ep[1] = o->ep[1]; std::swap(c.ep[0].port, c.ep[1].port);
            c.relation = "ports-crossed"; break;
        case 9:          // other family, same ports
            fresh(); c.v6 = !o->v6;
            if (c.v6) { memcpy(c.ep[0].a, V6POOL[(b1 >> 1) % 5], 16); memcpy(c.ep[1].a, V6POOL[((b1 >> 4) + 1) % 5], 16); }
            else { memset(c.ep[0].a, 0, 16); memset(c.ep[1].a, 0, 16); memcpy(c.ep[0].a, V4POOL[(b1 >> 1) % 6], 4); memcpy(c.ep[1].a, V4POOL[((b1 >> 4) + 1) % 6], 4); }
            c.ep[0].port = o->ep[0].port; c.ep[1].port = o->ep[1].port;
            c.relation = "other-family-same-ports"; break;
        case 10:         // v4/v6 alias: IPv6 address = IPv4 bytes followed by zeros (finding #19)
            if (ENABLE_ALIAS_CLASS && !o->v6) {
                c.v6 = true; c.ep[0] = o->ep[0]; c.ep[1] = o->ep[1];
                if (b1 & 1) std::swap(c.ep[0], c.ep[1]);
                c.relation = "v4-v6-alias";
            } else {
                if (!ENABLE_ALIAS_CLASS) cs.ctx.excluded("v4/v6 alias tuples (IPv6 address = IPv4 bytes zero-padded), finding #19");
                fresh();
            }
            break;
        case 11:         // same hosts, both ports different
            c.v6 = o->v6; c.ep[0] = o->ep[0]; c.ep[1] = o->ep[1]; c.ep[0].port ^= 1; c.ep[1].port ^= 1;
            c.relation = "both-ports-differ"; break;
    }
    // distinct connections by construction: bump the client port until the unordered endpoint pair is new
    for (;;) {
        c.key = make_key(c.v6, c.ep[0], c.ep[1]);
        if (c.ep[0] != c.ep[1] && !cs.gidx.count(c.key)) break;
        ++c.ep[0].port;
    }
    c.isn[0] = ISNS[b2 & 7] + (b2 >> 3) * 3u;
    c.isn[1] = ISNS[b3 & 7] + (b3 >> 3) * 5u;
    c.cur[0] = c.isn[0] + 1;
    c.cur[1] = c.isn[1] + 1;
    c.hs = (b4 & 3) != 3;                     // 1 in 4: no handshake (unknown connection / mid-stream attach)
    c.acoff[0] = (b4 & 0x1c) == 0x1c;       // 1 in 8 per direction: auto cleanup off
    c.acoff[1] = (b4 & 0x70) == 0x70;
    if ((b4 & 0x8c) == 0x88) c.ign[(b4 >> 4) & 1] = true;   // 1 in 8: one direction's data ignored
    c.eth = (b2 & 0x80) != 0 && (b3 & 0x80) != 0;
    cs.gidx[c.key] = i;
    cs.g.push_back(c);
}

// zero-padded key libtins would use: two connections of different families whose padded keys coincide form an alias pair
static void find_aliases(Case& cs) {
    for (size_t i = 0; i < cs.g.size(); ++i)
        for (size_t j = 0; j < cs.g.size(); ++j) {
            if (cs.g[i].v6 == cs.g[j].v6) continue;
            Key a = cs.g[i].key, b = cs.g[j].key;
            a.v6 = b.v6 = false;
            if (a == b) cs.g[i].alias = (int)j;
        }
}

void prop_setup(Ctx&) { tab_init(); }

void prop(Src& s, Ctx& ctx) {
    tab_init();
    Case cs(ctx);
    // ---- configuration
    uint8_t h0 = s.u8(), h1 = s.u8(), h2 = s.u8();
    cs.partial_on = (h0 & 1) != 0;
    const unsigned nconn = 1 + ((h0 >> 1) % 6);
    static const int64_t KS[8] = {1000000, 1, 1000, 5000000, 60000000, 300000000, 3600000000LL, 7};
    cs.K = KS[h1 & 7];
    static const int64_t T0[4] = {0, -1, 1700000000000000LL, 1};
    cs.now = T0[h2 & 3] < 0 ? cs.K : T0[h2 & 3];
    if ((h2 & 0xfc) == 0xfc) {
        // the overload without a timestamp: libtins stamps every packet with the current time, so the generated clock is
        // switched off (keep-alive one hour, model time constant: no idle termination can be due within a case)
        cs.wall = true;
        cs.K = 3600000000LL;
        ctx.label("process_packet(PDU&)");
    }
    cs.max_packets = ctx.tier ? 4000 : 1600;
    const unsigned max_events = ctx.tier ? 400 : 160;
    for (unsigned i = 0; i < nconn; ++i) gen_conn(cs, s, (int)i);
    find_aliases(cs);
    cs.m.g = &cs.g;
    cs.m.partial_on = cs.partial_on;

    {
        std::ostringstream d;
        d << "partial=" << cs.partial_on << " keep_alive=" << cs.K << "us t0=" << cs.now << " conns:";
        for (size_t i = 0; i < cs.g.size(); ++i) {
            const GConn& c = cs.g[i];
            d << " c" << i << "{" << ep_str(c.v6, c.ep[0]) << ">" << ep_str(c.v6, c.ep[1]) << " " << c.relation << " isn=" << c.isn[0] << "/" << c.isn[1]
              << (c.hs ? "" : " no-handshake") << (c.acoff[0] || c.acoff[1] ? " keep-payload" : "") << (c.ign[0] ? " ignore-client-data" : "")
              << (c.ign[1] ? " ignore-server-data" : "") << (c.alias >= 0 ? " ALIAS" : "") << "}";
        }
        cs.desc = d.str();
        if (ctx.logging()) ctx.log(cs.desc);
    }
    cs.h = hash_str(cs.desc);

    cs.f.reset(new StreamFollower());
    cs.f->new_stream_callback([&cs](Stream& st) { cs.on_new(st); });
    cs.f->stream_termination_callback([&cs](Stream& st, StreamFollower::TerminationReason r) { cs.on_term(st, r); });
    cs.f->follow_partial_streams(cs.partial_on);
    if (cs.K % 1000000 == 0) cs.f->stream_keep_alive(std::chrono::seconds(cs.K / 1000000));
    else cs.f->stream_keep_alive(std::chrono::microseconds(cs.K));

    // ---- events
    bool stopped = false;
    try {
        for (unsigned ev = 0; ev < max_events && s.remaining() > 0 && cs.packets < cs.max_packets; ++ev) {
            uint8_t e0 = s.u8(), p1 = s.u8(), p2 = s.u8(), dtb = s.u8();
            const int gi = (int)((e0 & 7) % nconn);
            GConn& c = cs.g[gi];
            // time
            int64_t dt;
            const int64_t K = cs.K;
            if (dtb < 200) dt = dtb;
            else if (dtb < 246) dt = (int64_t)(dtb - 199) * K / 64;
            else {
                const int64_t JT[10] = {K - 1, K, K + 1, 2 * K - 1, 2 * K, 2 * K + 1, 3 * K, K + K / 2, 10 * K, 3600000000LL};
                dt = JT[dtb - 246];
                cs.labels.insert("time-jump");
            }
            if (!cs.wall) cs.now += dt;
            // operation
            enum { NEXT, DATA, SKIP, RESEND, FIN, RST, SYN, SYNACK, ACK, NONTCP, BULKC, BULKB, FINRST };
            static const uint8_t OPS[32] = {NEXT, NEXT, NEXT, DATA, DATA, DATA, DATA, DATA, DATA, DATA, SKIP, SKIP, SKIP, RESEND, RESEND, RESEND,
                                            RESEND, FIN, FIN, FIN, RST, SYN, SYNACK, ACK, ACK, NONTCP, BULKC, BULKB, FINRST, DATA, RESEND, FIN};
            unsigned sel = e0 >> 3;
            unsigned op = OPS[sel];
            if (c.hs && c.stage < 3 && sel < 27) op = NEXT;
            const int gdir = p1 & 1;
            switch (op) {
                case NEXT: cs.op_next(gi, p1); break;
                case DATA: cs.op_data(gi, gdir, Case::len_class(p1 >> 1, p2), true); break;
                case SKIP: cs.op_data(gi, gdir, Case::len_class(p1 >> 1, p2), false); break;
                case RESEND: {
                    std::vector<Seg>& v = c.segs[gdir];
                    if (v.empty()) { cs.op_data(gi, gdir, 1 + (p1 >> 1) % 16, true); break; }
                    size_t back = (p2 & 0x80) ? (p1 >> 1) % v.size() : (p1 >> 1) % std::min<size_t>(v.size(), 6);
                    cs.labels.insert("resend");
                    cs.send_seg(gi, gdir, v[v.size() - 1 - back]);
                    break;
                }
                case FIN: {
                    uint32_t len = (p1 & 0x80) ? 1 + ((p1 >> 1) & 3) : 0;
                    Seg sg = cs.make_seg(gi, gdir, len, F_FIN | F_ACK);
                    cs.send_seg(gi, gdir, sg);
                    break;
                }
                case RST: {
                    APkt p = cs.base(gi, gdir);
                    p.flags = (p1 & 2) ? (F_RST | F_ACK) : F_RST;
                    cs.send(p);
                    break;
                }
                case SYN: {
                    // retransmitted SYN; rarely a SYN from the other side (simultaneous open / roles as seen by the follower)
                    int d = (p1 & 0x0e) == 0x0e ? 1 : 0;
                    cs.labels.insert(d ? "syn-from-server-side" : "syn-again");
                    cs.op_syn(gi, d, false);
                    break;
                }
                case SYNACK: cs.op_syn(gi, (p1 & 0x0e) == 0x0e ? 0 : 1, true); break;
                case ACK: { APkt p = cs.base(gi, gdir); p.flags = F_ACK; cs.send(p); break; }
                case NONTCP: {
                    APkt p = cs.base(gi, gdir);
                    p.kind = 1 + (p1 >> 1) % 3;
                    if (p.kind == 3 && c.v6) p.kind = 1;
                    p.flags = 0;
                    p.len = p.kind == 1 ? 1 + (p2 & 7) : 0;
                    cs.labels.insert("non-tcp-packet");
                    cs.send(p);
                    break;
                }
                case BULKC: cs.op_bulk_chunks(gi, gdir, (p1 & 2) != 0, (p1 >> 2) & 7, p2 < 96); break;
                case BULKB: cs.op_bulk_bytes(gi, gdir, (p1 >> 1) & 3, p2 < 64); break;
                case FINRST: {
                    APkt p = cs.base(gi, gdir);
                    p.flags = (p2 & 3) == 3 ? (F_FIN | F_RST | F_ACK) : ((p2 & 3) == 2 ? (F_FIN | F_RST) : F_RST);
                    if (p.flags & F_FIN) cs.labels.insert("fin+rst-flags");
                    cs.send(p);
                    break;
                }
            }
        }
        // final sweep: every generated connection is findable exactly when the reference table holds it
        for (size_t i = 0; i < cs.g.size(); ++i) cs.check_find((int)i);
    } catch (const StopCase&) {
        stopped = true;
    }

    // ---- statistics
    Model& m = cs.m;
    ctx.hash(cs.h);
    for (auto& l : cs.labels) ctx.label(l);
    bool v4 = false, v6 = false;
    for (auto& c : cs.g) {
        (c.v6 ? v6 : v4) = true;
        if (c.relation != "fresh") ctx.label("tuple:" + c.relation);
        if (c.alias >= 0) ctx.label("alias-pair");
        if (c.acoff[0] || c.acoff[1]) ctx.label("auto-cleanup-off");
        if (c.ign[0] || c.ign[1]) ctx.label("ignore-data");
        if (c.isn[0] > 0xfffff000u || c.isn[1] > 0xfffff000u) ctx.label("isn-near-wrap");
    }
    if (v4 && v6) ctx.label("mixed-families");
    else if (v6) ctx.label("ipv6-only");
    if (cs.partial_on) ctx.label("partial-streams-on");
    if (m.attached) ctx.label("attached-mid-stream");
    if (m.ignored_unknown) ctx.label("unknown-connection-packet-ignored");
    if (m.closed_fin) ctx.label("closed-by-fin-fin");
    if (m.closed_rst) ctx.label("closed-by-rst");
    if (m.timeouts) ctx.label("timeout-termination");
    if (m.over_chunks) ctx.label("limit-chunks-exceeded");
    if (m.over_bytes) ctx.label("limit-bytes-exceeded");
    if (m.at_chunk_limit) ctx.label("limit-chunks-exactly-reached");
    if (m.at_byte_limit) ctx.label("limit-bytes-exactly-reached");
    if (m.reincarnations) ctx.label("tuple-reused-after-forget");
    if (m.stale_dups) ctx.label("stale-duplicate");
    if (m.buffered_segments) ctx.label("out-of-order-buffered");
    if (m.max_live >= 2) ctx.label("two-or-more-live");
    if (m.max_live >= 4) ctx.label("four-or-more-live");
    if (m.fuzzy_conns) ctx.label("unanchored-direction(no-claim)");
    if (m.finish_and_exceed) ctx.label("finished-and-over-limit-same-packet");
    if (stopped) ctx.label("stopped-at-known-finding");
    const bool nt = (m.max_live >= 2 && m.switches >= 2 && (m.closed_fin + m.closed_rst) >= 1) || m.term_buf || m.timeouts;
    ctx.nontrivial(nt);
    {
        std::ostringstream o;
        o << cs.desc << " | " << cs.packets << " packets;";
        size_t shown = 0;
        for (size_t i = 0; i < cs.recs.size() && shown < 6; ++i, ++shown)
            o << " #" << i << "(c" << cs.recs[i].gi << "): " << cs.recs[i].trace << ";";
        std::string t = o.str();
        if (t.size() > 900) t = t.substr(0, 900) + "...";
        ctx.sample(t);
        if (ctx.logging()) {
            for (size_t i = 0; i < cs.recs.size(); ++i)
                ctx.log("  stream #" + std::to_string(i) + " (c" + std::to_string(cs.recs[i].gi) + "): " + cs.recs[i].trace);
        }
    }
}
