// C12 — packet object trees keep sound ownership under copy, move, clone and re-linking.
// Stateful: a program over a pool of slots (user-owned roots, Packet wrappers) checked after EVERY step against an
// ownership-forest model: chain of (class, rendered header fields + option lists) per slot, parent links, pointer
// disjointness between slots, deep-copy equality at copy time (view + serialisation) and independence afterwards.
// ASan (use-after-free, double free) and LeakSanitizer (leak) are the "freed exactly once" oracle.
#include "../engine/src.h"
#include "../genlib/parsed.h"
#include "../genlib/builder.h"
#include <tins/pdu_cacher.h>
#include <tins/packet.h>
#include <set>

using namespace verif;
using namespace Tins;

const char* const PROP_ID = "C12";
const size_t PROP_MAXLEN_QUICK = 768;
const size_t PROP_MAXLEN_THOROUGH = 2048;

namespace {

// ---- per-class statically typed operations ---------------------------------------------------------
struct ClassOps {
    const char* name;
    PDU* (*copy_construct)(const PDU&);
    PDU* (*move_construct)(PDU&);
    void (*copy_assign)(PDU& dst, const PDU& src);
    void (*move_assign)(PDU& dst, PDU& src);
    PDU* (*divide)(const PDU& lop, const PDU& rop);  // new T(lop / rop)
    bool (*is_exact)(const PDU&);
};
template <class T> struct OpsOf {
    static PDU* cc(const PDU& s) { return new T(static_cast<const T&>(s)); }
    static PDU* mc(PDU& s) { return new T(std::move(static_cast<T&>(s))); }
    static void ca(PDU& d, const PDU& s) { static_cast<T&>(d) = static_cast<const T&>(s); }
    static void ma(PDU& d, PDU& s) { static_cast<T&>(d) = std::move(static_cast<T&>(s)); }
    static PDU* dv(const PDU& l, const PDU& r) { return new T(static_cast<const T&>(l) / r); }
    static bool ex(const PDU& p) { return typeid(p) == typeid(T); }
};
const std::vector<ClassOps>& class_ops() {
    static const std::vector<ClassOps> O = [] {
        std::vector<ClassOps> o;
#define X(C) o.push_back({#C, OpsOf<C>::cc, OpsOf<C>::mc, OpsOf<C>::ca, OpsOf<C>::ma, OpsOf<C>::dv, OpsOf<C>::ex});
        VERIF_ENTRY_CLASSES(X)
        // the caching wrapper around a few representative classes: a PDU like any other as far as ownership goes
        X(PDUCacher<IP>) X(PDUCacher<TCP>) X(PDUCacher<EthernetII>) X(PDUCacher<DNS>) X(PDUCacher<Dot11Beacon>) X(PDUCacher<RawPDU>) X(PDUCacher<ICMPv6>)
#undef X
        return o;
    }();
    return O;
}
PDU* wrap_in_cacher(PDU* p) {   // takes p; returns the wrapper (p is copied into it and deleted) or p itself
#define X(C) if (typeid(*p) == typeid(C)) { PDU* w = new PDUCacher<C>(static_cast<const C&>(*p)); delete p; return w; }
    X(IP) X(TCP) X(EthernetII) X(DNS) X(Dot11Beacon) X(RawPDU) X(ICMPv6)
#undef X
    return p;
}
const ClassOps* ops_for(const PDU& p) {
    for (const ClassOps& o : class_ops()) if (o.is_exact(p)) return &o;
    return nullptr;
}

// ---- model ---------------------------------------------------------------------------------------------
struct MLayer {
    std::string cls;
    std::string fields;   // rendered F and O kinds; empty + unknown=true after a move
    bool unknown = false;
};
typedef std::vector<MLayer> MChain;

struct Slot {
    PDU* root = nullptr;       // user-owned root (raw pointer on purpose: the program deletes explicitly)
    Packet* packet = nullptr;  // or a Packet wrapper owning its PDU
    MChain model;
    bool live() const { return root || packet; }
    PDU* top() const { return packet ? packet->pdu() : root; }   // null for an empty Packet
};

std::string layer_fields(const PDU& l) {
    LayerView v = view_layer(l);
    std::ostringstream os;
    for (const FieldView& f : v.fields) if (f.kind == 'F' || f.kind == 'O') os << f.name << "=" << f.value << ";";
    return os.str();
}
MChain snapshot(const PDU* top) {
    MChain m;
    for (const PDU* p = top; p; p = p->inner_pdu()) { MLayer l; l.cls = short_cls(demangled(typeid(*p))); l.fields = layer_fields(*p); m.push_back(l); }
    return m;
}
std::string chain_text(const MChain& m) {
    std::string s;
    for (const MLayer& l : m) { if (!s.empty()) s += "/"; s += l.cls; }
    return s.empty() ? "(empty)" : s;
}
PDU* layer_at(PDU* top, size_t d) { while (top && d--) top = top->inner_pdu(); return top; }
size_t depth_of(const PDU* top) { size_t n = 0; for (; top; top = top->inner_pdu()) ++n; return n; }
const PDU* innermost(const PDU* top) { while (top && top->inner_pdu()) top = top->inner_pdu(); return top; }
// The caching wrapper reports the wrapped class's type flag (open finding C13:pducacher-masquerade), so a child that asks its
// parent for addresses (TCP, UDP, ICMPv6 ...) downcasts the wrapper: the wrapper is therefore never made a parent here.
bool is_cacher(const PDU* p) { return p && demangled(typeid(*p)).find("PDUCacher<") != std::string::npos; }

struct Machine {
    Ctx& ctx;
    Src& s;
    std::vector<Slot> slots;
    std::vector<std::string> trace;
    Machine(Ctx& c, Src& src) : ctx(c), s(src), slots(8) {}
    ~Machine() {
        for (Slot& sl : slots) { delete sl.root; delete sl.packet; }
    }
    std::string history() const {
        std::string t;
        for (size_t i = 0; i < trace.size(); ++i) t += (i ? "; " : "") + trace[i];
        return t;
    }
    void step(const std::string& d) { trace.push_back(d); if (ctx.logging()) ctx.log("  " + d); }

    int pick_live() {
        std::vector<int> l;
        for (size_t i = 0; i < slots.size(); ++i) if (slots[i].live() && slots[i].top()) l.push_back((int)i);
        if (l.empty()) return -1;
        return l[s.pick(l.size())];
    }
    int pick_free() {
        for (size_t i = 0; i < slots.size(); ++i) if (!slots[i].live()) return (int)i;
        // evict a random slot
        int v = (int)s.pick(slots.size());
        destroy(v);
        return v;
    }
    void destroy(int i) {
        Slot& sl = slots[i];
        if (!sl.live()) return;
        delete sl.root; sl.root = nullptr;
        delete sl.packet; sl.packet = nullptr;
        sl.model.clear();
    }

    // a fresh layer of a random class with some state (never an outermost IP with source 0.0.0.0)
    PDU* fresh(std::string* name) {
        BuildOpts o;
        o.max_payload = 24;
        PDU* p = make_layer((unsigned)s.pick(n_layer_classes()), s, o.max_payload, name);
        std::vector<std::string> prog;
        if (s.chance(60)) apply_setters(*p, s, o, prog);
        if (s.chance(40)) option_program(*p, s, prog, true);
        enforce_capacity(*p, ctx, prog);
        if (IP* ip = dynamic_cast<IP*>(p)) if (ip->src_addr() == IPv4Address((uint32_t)0)) ip->src_addr("10.0.0.9");
        if (s.chance(7)) {
            PDU* w = wrap_in_cacher(p);
            if (w != p) { p = w; if (name) *name = short_cls(demangled(typeid(*p))); ctx.label("pdu-cacher"); }
        }
        return p;
    }

    // ---- the invariant, evaluated after every step ---------------------------------------------------
    void check_all(const std::string& after) {
        std::set<const PDU*> seen;
        for (size_t i = 0; i < slots.size(); ++i) {
            Slot& sl = slots[i];
            if (!sl.live()) continue;
            PDU* top = sl.top();
            std::string where = "slot " + std::to_string(i) + " after '" + after + "'";
            // chain shape
            size_t d = 0;
            const PDU* owner = nullptr;
            for (PDU* p = top; p; p = p->inner_pdu(), ++d) {
                VCHECK(ctx, d < sl.model.size(), "C12:chain-longer-than-model", where << ": real chain " << layer_chain(*top) << " model " << chain_text(sl.model) << " | " << history());
                if (d >= sl.model.size()) break;
                std::string cls = short_cls(demangled(typeid(*p)));
                VCHECK(ctx, cls == sl.model[d].cls, "C12:layer-class-differs", where << ": layer " << d << " is " << cls << " model " << sl.model[d].cls << " | " << history());
                VCHECK(ctx, p->parent_pdu() == owner, "C12:parent-link-wrong:" + cls,
                       where << ": layer " << d << " (" << cls << ") parent_pdu()=" << (const void*)p->parent_pdu() << " but its owner is " << (const void*)owner << " | " << history());
                VCHECK(ctx, seen.insert(p).second, "C12:layer-shared-between-roots:" + cls, where << ": layer " << d << " (" << cls << ") is reachable from two roots | " << history());
                if (!sl.model[d].unknown) {
                    std::string f = layer_fields(*p);
                    VCHECK(ctx, f == sl.model[d].fields, "C12:layer-state-differs:" + cls,
                           where << ": layer " << d << " (" << cls << ")\n real  " << f << "\n model " << sl.model[d].fields << " | " << history());
                }
                owner = p;
            }
            VCHECK(ctx, d == sl.model.size(), "C12:chain-shorter-than-model", where << ": real chain " << (top ? layer_chain(*top) : std::string("(null)")) << " model "
                                                                                     << chain_text(sl.model) << " | " << history());
        }
    }

    // deep copy equality at the time of copying: same view and same serialisation
    void check_copy_equal(PDU& a, PDU& b, const std::string& what, bool skip_root_state = false) {
        std::string ca = layer_chain(a), cb = layer_chain(b);
        VCHECK(ctx, ca == cb, "C12:copy-chain-differs:" + what, what << ": source " << ca << " copy " << cb << " | " << history());
        {
            const PDU* x = &a; const PDU* y = &b;
            for (size_t d = 0; x && y; x = x->inner_pdu(), y = y->inner_pdu(), ++d) {
                if (d == 0 && skip_root_state) continue;
                std::string fx = layer_fields(*x), fy = layer_fields(*y);
                VCHECK(ctx, fx == fy, "C12:copy-state-differs:" + what + ":" + short_cls(demangled(typeid(*x))), what << ": layer " << d << "\n source " << fx << "\n copy   " << fy << " | " << history());
            }
        }
        if (has_unserializable_layer(a)) return;
        if (IP* ip = dynamic_cast<IP*>(&a)) if (ip->src_addr() == IPv4Address((uint32_t)0)) return;
        PDU::serialization_type sa, sb;
        try { sa = a.serialize(); sb = b.serialize(); } catch (const std::exception&) { return; }  // C02's contract
        VCHECK(ctx, sa == sb, "C12:copy-serialization-differs:" + what, what << " of " << ca << ": serialisations differ (" << sa.size() << " vs " << sb.size() << " bytes) | " << history());
    }
    void resync(int i) {
        MChain old = slots[i].model;
        slots[i].model = snapshot(slots[i].top());
        for (size_t k = 0; k < old.size() && k < slots[i].model.size(); ++k) slots[i].model[k].unknown = old[k].unknown;
    }  // after serialize() wrote derived fields back (F/O/T kinds are unaffected, but be exact)

    // ---- operations ---------------------------------------------------------------------------------
    void op_construct() {
        int i = pick_free();
        std::string nm;
        slots[i].root = fresh(&nm);
        slots[i].model = snapshot(slots[i].root);
        step("s" + std::to_string(i) + " = new " + nm);
    }
    void op_stack_assign() {  // a /= b
        int a = pick_live(), b = pick_live();
        if (a < 0 || b < 0) return;
        if (depth_of(slots[a].top()) + depth_of(slots[b].top()) > 12) return;
        MChain add = slots[b].model;
        if (is_cacher(innermost(slots[a].top()))) { ctx.excluded("child-below-pdu-cacher (C13 open finding)"); return; }
        if (slots[a].packet) { *slots[a].packet /= *slots[b].top(); }
        else { *slots[a].root /= *slots[b].top(); }
        slots[a].model.insert(slots[a].model.end(), add.begin(), add.end());
        step("s" + std::to_string(a) + " /= s" + std::to_string(b));
        ctx.label("stack");
    }
    void op_divide() {  // c = a / b through the statically typed operator/
        int a = pick_live(), b = pick_live();
        if (a < 0 || b < 0 || slots[a].packet) return;
        if (depth_of(slots[a].top()) + depth_of(slots[b].top()) > 12) return;
        const ClassOps* o = ops_for(*slots[a].root);
        if (!o) return;
        if (is_cacher(innermost(slots[a].root))) { ctx.excluded("child-below-pdu-cacher (C13 open finding)"); return; }
        MChain m = slots[a].model;
        m.insert(m.end(), slots[b].model.begin(), slots[b].model.end());
        PDU* r = o->divide(*slots[a].root, *slots[b].top());
        int c = pick_free();
        slots[c].root = r;
        slots[c].model = m;
        step("s" + std::to_string(c) + " = s" + std::to_string(a) + " / s" + std::to_string(b));
        ctx.label("operator/");
    }
    void op_copy_construct(bool via_clone) {
        int a = pick_live();
        if (a < 0) return;
        PDU* src = slots[a].top();
        PDU* r;
        if (via_clone) r = src->clone();
        else { const ClassOps* o = ops_for(*src); if (!o) return; r = o->copy_construct(*src); }
        MChain m = slots[a].model;
        int c = pick_free();
        if (c == a) { delete r; return; }
        slots[c].root = r;
        slots[c].model = m;
        step("s" + std::to_string(c) + (via_clone ? " = s" + std::to_string(a) + ".clone()" : " = copy-construct(s" + std::to_string(a) + ")"));
        check_copy_equal(*slots[a].top(), *r, via_clone ? "clone" : "copy-construct", slots[a].model[0].unknown);
        resync(a); resync(c);
        ctx.label(via_clone ? "clone" : "copy-construct");
    }
    // a layer that is NOT a root is cloned / copy-constructed and kept as a user-owned root of its own
    void op_copy_inner(bool via_clone) {
        int a = pick_live();
        if (a < 0) return;
        size_t n = depth_of(slots[a].top());
        if (n < 2) return;
        size_t d = 1 + s.pick(n - 1);
        PDU* src = layer_at(slots[a].top(), d);
        PDU* r;
        if (via_clone) r = src->clone();
        else { const ClassOps* o = ops_for(*src); if (!o) return; r = o->copy_construct(*src); }
        MChain m(slots[a].model.begin() + d, slots[a].model.end());
        int c = pick_free();
        if (c == a) { delete r; return; }
        slots[c].root = r;
        slots[c].model = m;
        step("s" + std::to_string(c) + " = " + (via_clone ? "clone" : "copy-construct") + " of s" + std::to_string(a) + ".layer(" + std::to_string(d) + ")");
        ctx.label("copy-of-inner-layer");
    }
    void op_copy_assign() {
        int a = pick_live();
        if (a < 0 || slots[a].packet) return;
        const ClassOps* o = ops_for(*slots[a].root);
        if (!o) return;
        // source: a slot whose root has the same class (possibly a itself), else make one
        std::vector<int> same;
        for (size_t i = 0; i < slots.size(); ++i) if (slots[i].root && o->is_exact(*slots[i].root)) same.push_back((int)i);
        int b = same[s.pick(same.size())];
        if (b == a && same.size() > 1 && s.chance(70)) b = same[(s.pick(same.size() - 1) + 1 + (std::find(same.begin(), same.end(), a) - same.begin())) % same.size()];
        if (b == a && s.chance(60)) {
            // no partner of the same class: copy-construct one, give it a different chain length, then assign
            int c = pick_free();
            if (c == a) return;
            slots[c].root = o->copy_construct(*slots[a].root);
            slots[c].model = slots[a].model;
            unsigned mode = (unsigned)s.range(0, 2);
            if (mode == 0 && slots[c].root->inner_pdu()) {  // shorter source
                delete slots[c].root->release_inner_pdu();
                slots[c].model.resize(1);
            } else if (mode == 1) {  // longer source
                std::unique_ptr<RawPDU> r(gen_raw(s, 16));
                *slots[c].root /= *r;
                MChain extra = snapshot(r.get());
                slots[c].model.insert(slots[c].model.end(), extra.begin(), extra.end());
            }
            std::vector<std::string> prog;
            BuildOpts bo;
            apply_setters(*slots[c].root, s, bo, prog);
            if (IP* ip = dynamic_cast<IP*>(slots[c].root)) if (ip->src_addr() == IPv4Address((uint32_t)0)) ip->src_addr("10.0.0.9");
            slots[c].model[0] = snapshot(slots[c].root)[0];
            step("s" + std::to_string(c) + " = variant of s" + std::to_string(a) + " (" + chain_text(slots[c].model) + ")");
            b = c;
        }
        size_t before = slots[a].model.size(), srclen = slots[b].model.size();
        o->copy_assign(*slots[a].root, *slots[b].root);
        if (a != b) slots[a].model = slots[b].model;
        step("s" + std::to_string(a) + " = s" + std::to_string(b) + (a == b ? " (self-assignment)" : ""));
        if (a == b) ctx.label("self-assign");
        else if (srclen < before) ctx.label("assign-shorter-over-longer");
        else if (srclen > before) ctx.label("assign-longer-over-shorter");
        ctx.label("copy-assign");
        if (a != b) { check_copy_equal(*slots[b].root, *slots[a].root, "copy-assign", slots[b].model[0].unknown); resync(a); resync(b); }
    }
    // copy assignment INSIDE one chain: the target is a descendant of the source (IP-in-IP, stacked tags ...). The source is
    // read while the target's own sub-chain is what gets replaced, so the copy must be taken before anything is destroyed.
    // (The opposite direction - assigning a layer from its own descendant - destroys the source first and is not generated.)
    void op_assign_from_ancestor() {
        int a = pick_live();
        if (a < 0 || slots[a].packet || !slots[a].root) return;
        const ClassOps* o = ops_for(*slots[a].root);
        if (!o || depth_of(slots[a].root) > 4) return;
        if (is_cacher(innermost(slots[a].root))) { ctx.excluded("child-below-pdu-cacher (C13 open finding)"); return; }
        int c = pick_free();
        if (c == a) return;
        PDU* outer = o->copy_construct(*slots[a].root);
        PDU* inner = o->copy_construct(*slots[a].root);
        {
            std::vector<std::string> prog;
            BuildOpts bo;
            apply_setters(*inner, s, bo, prog);
            if (IP* ip = dynamic_cast<IP*>(inner)) if (ip->src_addr() == IPv4Address((uint32_t)0)) ip->src_addr("10.0.0.9");
        }
        MChain before = slots[a].model;
        const size_t d2 = before.size();
        MChain mi = snapshot(inner);
        before.insert(before.end(), mi.begin(), mi.end());
        PDU* last = outer;
        while (last->inner_pdu()) last = last->inner_pdu();
        last->inner_pdu(inner);
        slots[c].root = outer;
        slots[c].model = before;
        step("s" + std::to_string(c) + " = copy of s" + std::to_string(a) + " with a modified copy of itself stacked below (" + chain_text(before) + ")");
        check_all(trace.back());
        o->copy_assign(*inner, *outer);
        MChain after(before.begin(), before.begin() + d2);
        after.push_back(before[0]);                                   // the target takes the source's own state ...
        after.insert(after.end(), before.begin() + 1, before.end());  // ... and a copy of everything that was below the source
        slots[c].model = after;
        step("s" + std::to_string(c) + ".layer(" + std::to_string(d2) + ") = s" + std::to_string(c) + " (assignment from its own ancestor)");
        ctx.label("assign-from-ancestor");
    }
    void op_move(bool assign) {
        int a = pick_live();
        if (a < 0 || slots[a].packet) return;
        const ClassOps* o = ops_for(*slots[a].root);
        if (!o) return;
        MChain m = slots[a].model;
        if (!assign) {
            PDU* r = o->move_construct(*slots[a].root);
            int c = pick_free();
            if (c == a) { delete r; return; }
            slots[c].root = r;
            slots[c].model = m;
            step("s" + std::to_string(c) + " = move-construct(s" + std::to_string(a) + ")");
            ctx.label("move-construct");
        } else {
            std::vector<int> same;
            for (size_t i = 0; i < slots.size(); ++i) if ((int)i != a && slots[i].root && o->is_exact(*slots[i].root)) same.push_back((int)i);
            if (same.empty()) return;
            int d = same[s.pick(same.size())];
            o->move_assign(*slots[d].root, *slots[a].root);
            slots[d].model = m;
            step("s" + std::to_string(d) + " = move(s" + std::to_string(a) + ")");
            ctx.label("move-assign");
        }
        // the moved-from object: still a valid root of its class, without children; its own fields are unspecified
        slots[a].model.resize(1);
        slots[a].model[0].unknown = true;
    }
    void op_reuse_moved_from() {
        for (size_t i = 0; i < slots.size(); ++i) {
            if (!slots[i].root || slots[i].model.empty() || !slots[i].model[0].unknown) continue;
            // give it a child and some state again
            std::unique_ptr<RawPDU> r(gen_raw(s, 16));
            slots[i].root->inner_pdu(*r);
            slots[i].model = snapshot(slots[i].root);
            slots[i].model[0].unknown = true;  // header fields of a moved-from object stay unspecified until set
            step("reuse moved-from s" + std::to_string(i) + ": inner_pdu(RawPDU)");
            ctx.label("reuse-moved-from");
            return;
        }
    }
    void op_inner_ptr() {  // a.layer(d).inner_pdu(ptr of b's root): ownership transfer, old children destroyed
        int a = pick_live(), b = pick_live();
        if (a < 0 || b < 0 || a == b || !slots[b].root) return;
        size_t d = s.pick(depth_of(slots[a].top()));
        if (d + depth_of(slots[b].root) > 12) return;
        PDU* host = layer_at(slots[a].top(), d);
        if (is_cacher(host)) { ctx.excluded("child-below-pdu-cacher (C13 open finding)"); return; }
        host->inner_pdu(slots[b].root);
        slots[b].root = nullptr;
        slots[a].model.resize(d + 1);
        slots[a].model.insert(slots[a].model.end(), slots[b].model.begin(), slots[b].model.end());
        slots[b].model.clear();
        step("s" + std::to_string(a) + ".layer(" + std::to_string(d) + ").inner_pdu(s" + std::to_string(b) + " as pointer)");
        ctx.label("inner_pdu(ptr)");
    }
    void op_inner_ref() {
        int a = pick_live(), b = pick_live();
        if (a < 0 || b < 0) return;
        size_t d = s.pick(depth_of(slots[a].top()));
        if (d + depth_of(slots[b].top()) > 12) return;
        PDU* host = layer_at(slots[a].top(), d);
        if (is_cacher(host)) { ctx.excluded("child-below-pdu-cacher (C13 open finding)"); return; }
        MChain add = slots[b].model;  // b may be a itself: cloned before the old children are destroyed? the API clones first
        host->inner_pdu(*slots[b].top());
        if (a == b) { resync(a); step("s" + std::to_string(a) + ".layer(" + std::to_string(d) + ").inner_pdu(own root by reference)"); ctx.label("inner_pdu(ref-self)"); return; }
        slots[a].model.resize(d + 1);
        slots[a].model.insert(slots[a].model.end(), add.begin(), add.end());
        step("s" + std::to_string(a) + ".layer(" + std::to_string(d) + ").inner_pdu(s" + std::to_string(b) + " by reference)");
        ctx.label("inner_pdu(ref)");
    }
    void op_release() {
        int a = pick_live();
        if (a < 0) return;
        size_t n = depth_of(slots[a].top());
        if (n < 2) return;
        size_t d = s.pick(n - 1);
        PDU* host = layer_at(slots[a].top(), d);
        PDU* rel = host->release_inner_pdu();
        MChain tail(slots[a].model.begin() + d + 1, slots[a].model.end());
        slots[a].model.resize(d + 1);
        step("r = s" + std::to_string(a) + ".layer(" + std::to_string(d) + ").release_inner_pdu()");
        ctx.label("release");
        switch (s.range(0, 2)) {
            case 0: delete rel; step("delete r"); break;
            case 1: {  // becomes a root of its own
                int c = pick_free();
                if (c == a) { delete rel; break; }
                slots[c].root = rel;
                slots[c].model = tail;
                step("s" + std::to_string(c) + " = r");
                break;
            }
            default: {  // re-attach somewhere else in the same chain
                size_t d2 = s.pick(d + 1);
                PDU* host2 = layer_at(slots[a].top(), d2);
                host2->inner_pdu(rel);
                slots[a].model.resize(d2 + 1);
                slots[a].model.insert(slots[a].model.end(), tail.begin(), tail.end());
                step("s" + std::to_string(a) + ".layer(" + std::to_string(d2) + ").inner_pdu(r)");
                ctx.label("release-reattach");
                break;
            }
        }
    }
    void op_delete() {
        int a = pick_live();
        if (a < 0) return;
        destroy(a);
        step("delete s" + std::to_string(a));
    }
    void op_mutate() {
        int a = pick_live();
        if (a < 0) return;
        size_t d = s.pick(depth_of(slots[a].top()));
        PDU* l = layer_at(slots[a].top(), d);
        BuildOpts o;
        std::vector<std::string> prog;
        apply_setters(*l, s, o, prog);
        if (s.boolean()) option_program(*l, s, prog);
        enforce_capacity(*l, ctx, prog);
        if (d == 0) if (IP* ip = dynamic_cast<IP*>(l)) if (ip->src_addr() == IPv4Address((uint32_t)0)) ip->src_addr("10.0.0.9");
        bool was_unknown = slots[a].model[d].unknown;
        slots[a].model[d].fields = layer_fields(*l);
        slots[a].model[d].unknown = was_unknown;  // partial sets do not make a moved-from object's other fields known
        std::string t;
        for (const std::string& p : prog) t += p + ", ";
        step("mutate s" + std::to_string(a) + ".layer(" + std::to_string(d) + "): " + t);
        ctx.label("mutate");
    }
    int pick_packet(bool need_pdu) {
        std::vector<int> ps;
        for (size_t i = 0; i < slots.size(); ++i) if (slots[i].packet && (!need_pdu || slots[i].packet->pdu())) ps.push_back((int)i);
        return ps.empty() ? -1 : ps[s.pick(ps.size())];
    }
    void op_packet() {
        static const unsigned PK[] = {0, 1, 2, 3, 4, 5, 6, 6, 7, 7, 7, 8, 9, 9};
        switch (PK[s.pick(14)]) {
            case 9: {  // move assignment between two different packets, empty ones included; the moved-from wrapper is destroyed
                int a = pick_packet(false), b = pick_packet(false);
                if (a < 0 || b < 0 || a == b) return;
                const PDU* moved = slots[b].packet->pdu();
                Timestamp ts = slots[b].packet->timestamp();
                *slots[a].packet = std::move(*slots[b].packet);
                step("packet s" + std::to_string(a) + " = move(packet s" + std::to_string(b) + ")" + (moved ? "" : " (empty source)") + "; delete moved-from wrapper");
                VCHECK(ctx, slots[a].packet->pdu() == moved, "C12:Packet:move-assign:target-does-not-hold-the-source-pdu", history());
                VCHECK(ctx, slots[a].packet->timestamp().seconds() == ts.seconds() && slots[a].packet->timestamp().microseconds() == ts.microseconds(),
                       "C12:Packet:move-assign:timestamp-not-taken", history());
                slots[a].model = slots[b].model;
                delete slots[b].packet; slots[b].packet = nullptr; slots[b].model.clear();
                ctx.label("packet-move-assign");
                break;
            }
            case 6: {  // an empty (default-constructed) Packet
                int c = pick_free();
                slots[c].packet = new Packet();
                slots[c].model.clear();
                step("s" + std::to_string(c) + " = Packet() (empty)");
                ctx.label("empty-packet");
                break;
            }
            case 7: {  // copy assignment between any two packets, empty ones included (empty over full, full over empty)
                int a = pick_packet(false), b = pick_packet(false);
                if (a < 0 || b < 0) return;
                *slots[a].packet = *slots[b].packet;
                if (a != b) slots[a].model = slots[b].model;
                step("packet s" + std::to_string(a) + " = packet s" + std::to_string(b) + (slots[b].packet->pdu() ? "" : " (empty source)"));
                if (!slots[b].packet->pdu()) ctx.label("assign-from-empty-packet");
                break;
            }
            case 8: {  // release_pdu leaves an empty wrapper behind (kept alive)
                int a = pick_packet(true);
                if (a < 0) return;
                int c = pick_free();   // may evict any slot, including a
                if (c == a || !slots[a].packet || !slots[a].packet->pdu()) return;
                PDU* r = slots[a].packet->release_pdu();
                MChain m = slots[a].model;
                slots[a].model.clear();
                slots[c].root = r; slots[c].model = m;
                step("s" + std::to_string(c) + " = packet s" + std::to_string(a) + ".release_pdu() (wrapper kept, now empty)");
                ctx.label("empty-packet");
                break;
            }
            case 0: {  // wrap by reference (clones)
                int a = pick_live();
                if (a < 0) return;
                MChain m = slots[a].model;
                // the three cloning constructors, chosen by the depth of the chain (no further choice byte)
                const PDU* src = slots[a].top();
                Packet* p = m.size() % 3 == 0 ? new Packet(*src, Timestamp(std::chrono::microseconds(1000002)))
                          : m.size() % 3 == 1 ? new Packet(src, Timestamp(std::chrono::microseconds(1000002)))
                                              : new Packet(*src);
                int c = pick_free();
                if (c == a) { delete p; return; }
                slots[c].packet = p; slots[c].model = m;
                step("s" + std::to_string(c) + " = Packet(s" + std::to_string(a) + " by reference)");
                break;
            }
            case 1: {  // wrap taking ownership
                int a = pick_live();
                if (a < 0 || !slots[a].root) return;
                Packet* p = new Packet(slots[a].root, Timestamp(std::chrono::microseconds(3000004)), Packet::own_pdu());
                slots[a].root = nullptr;
                slots[a].packet = p;
                step("s" + std::to_string(a) + " = Packet(own s" + std::to_string(a) + ")");
                break;
            }
            case 2: {  // copy construct
                int a = pick_live();
                if (a < 0 || !slots[a].packet) return;
                MChain m = slots[a].model;
                Packet* p = new Packet(*slots[a].packet);
                int c = pick_free();
                if (c == a) { delete p; return; }
                slots[c].packet = p; slots[c].model = m;
                step("s" + std::to_string(c) + " = Packet(copy of s" + std::to_string(a) + ")");
                break;
            }
            case 3: {  // copy assign between packets (incl. self)
                std::vector<int> ps;
                for (size_t i = 0; i < slots.size(); ++i) if (slots[i].packet && slots[i].packet->pdu()) ps.push_back((int)i);
                if (ps.empty()) return;
                int a = ps[s.pick(ps.size())], b = ps[s.pick(ps.size())];
                *slots[a].packet = *slots[b].packet;
                if (a != b) slots[a].model = slots[b].model;
                step("packet s" + std::to_string(a) + " = packet s" + std::to_string(b));
                break;
            }
            case 4: {  // move construct / assign
                std::vector<int> ps;
                for (size_t i = 0; i < slots.size(); ++i) if (slots[i].packet && slots[i].packet->pdu()) ps.push_back((int)i);
                if (ps.empty()) return;
                int a = ps[s.pick(ps.size())];
                Packet* p = new Packet(std::move(*slots[a].packet));
                MChain m = slots[a].model;
                delete slots[a].packet; slots[a].packet = nullptr; slots[a].model.clear();  // moved-from wrapper: empty, destroyed
                int c = pick_free();
                slots[c].packet = p; slots[c].model = m;
                step("s" + std::to_string(c) + " = Packet(move s" + std::to_string(a) + "); delete moved-from wrapper");
                break;
            }
            case 5: {  // release_pdu
                std::vector<int> ps;
                for (size_t i = 0; i < slots.size(); ++i) if (slots[i].packet && slots[i].packet->pdu()) ps.push_back((int)i);
                if (ps.empty()) return;
                int a = ps[s.pick(ps.size())];
                PDU* r = slots[a].packet->release_pdu();
                delete slots[a].packet; slots[a].packet = nullptr;
                slots[a].root = r;
                step("s" + std::to_string(a) + " = packet.release_pdu()");
                break;
            }
            default: return;
        }
        ctx.label("packet-op");
    }
};

// ---- PDUOption value semantics (both storage classes: <= 8 bytes inline, > 8 bytes on the heap) -------------
void option_program_values(Src& s, Ctx& ctx) {
    typedef PDUOption<uint8_t, TCP> Opt;
    struct V { Opt* o; std::vector<uint8_t> bytes; uint8_t code; };
    std::vector<V> pool;
    std::string hist;
    auto check = [&](const char* after) {
        for (size_t i = 0; i < pool.size(); ++i) {
            const V& v = pool[i];
            bool ok = v.o->option() == v.code && v.o->data_size() == v.bytes.size() && (v.bytes.empty() || memcmp(v.o->data_ptr(), v.bytes.data(), v.bytes.size()) == 0);
            VCHECK(ctx, ok, std::string("C12:PDUOption:value-differs-after:") + after, "option " << i << " code " << (int)v.o->option() << " size " << v.o->data_size()
                                                                                                   << " expected code " << (int)v.code << " bytes " << hex(v.bytes) << " | " << hist);
        }
    };
    unsigned steps = 2 + (unsigned)s.range(0, 10);
    for (unsigned i = 0; i < steps; ++i) {
        unsigned op = (unsigned)s.range(0, 5);
        if (pool.empty()) op = 0;
        const char* name = "";
        switch (op) {
            case 0: {
                static const size_t L[] = {0, 1, 7, 8, 9, 16, 40, 255};
                std::vector<uint8_t> b = s.bytes(L[s.pick(8)]);
                uint8_t code = s.u8();
                if (pool.size() >= 6) { delete pool.back().o; pool.pop_back(); }
                pool.push_back({new Opt(code, b.begin(), b.end()), b, code});
                name = "construct";
                hist += "new(" + std::to_string(b.size()) + ") ";
                break;
            }
            case 1: { V& a = pool[s.pick(pool.size())]; if (pool.size() >= 6) break; pool.push_back({new Opt(*a.o), a.bytes, a.code}); name = "copy-construct"; hist += "copy "; break; }
            case 2: { size_t a = s.pick(pool.size()), b = s.pick(pool.size()); *pool[a].o = *pool[b].o; pool[a].bytes = pool[b].bytes; pool[a].code = pool[b].code; name = a == b ? "self-assign" : "copy-assign";
                      hist += std::string(name) + "(" + std::to_string(a) + "," + std::to_string(b) + ") "; if (a == b) ctx.label("option-self-assign"); break; }
            case 3: { size_t a = s.pick(pool.size()); if (pool.size() >= 6) break; Opt* m = new Opt(std::move(*pool[a].o)); V nv{m, pool[a].bytes, pool[a].code};
                      delete pool[a].o; pool.erase(pool.begin() + a); pool.push_back(nv); name = "move-construct"; hist += "move-construct "; break; }
            case 4: { size_t a = s.pick(pool.size()), b = s.pick(pool.size()); if (a == b) break; *pool[a].o = std::move(*pool[b].o); pool[a].bytes = pool[b].bytes; pool[a].code = pool[b].code;
                      delete pool[b].o; pool.erase(pool.begin() + b); name = "move-assign"; hist += "move-assign "; break; }
            default: { size_t a = s.pick(pool.size()); delete pool[a].o; pool.erase(pool.begin() + a); name = "delete"; hist += "delete "; break; }
        }
        check(name);
    }
    for (V& v : pool) delete v.o;
    ctx.label("pduoption-values");
    ctx.hash("opt"); ctx.hash(hist);
    ctx.nontrivial(hist.find("assign") != std::string::npos);
    ctx.sample("PDUOption program: " + hist);
}

}  // namespace

void prop(Src& s, Ctx& ctx) {
    if (s.u8() >= 230) { option_program_values(s, ctx); return; }
    Machine m(ctx, s);
    unsigned steps = 3 + (unsigned)s.range(0, ctx.tier ? 40 : 24);
    m.op_construct();
    m.check_all("construct");
    for (unsigned i = 0; i < steps; ++i) {
        size_t before = m.trace.size();
        switch (s.weighted({4, 3, 2, 2, 2, 4, 2, 2, 1, 2, 2, 3, 1, 4, 6, 2, 2, 1})) {
            case 0: m.op_construct(); break;
            case 1: m.op_stack_assign(); break;
            case 2: m.op_divide(); break;
            case 3: m.op_copy_construct(false); break;
            case 4: m.op_copy_construct(true); break;
            case 5: m.op_copy_assign(); break;
            case 6: m.op_move(false); break;
            case 7: m.op_move(true); break;
            case 8: m.op_reuse_moved_from(); break;
            case 9: m.op_inner_ptr(); break;
            case 10: m.op_inner_ref(); break;
            case 11: m.op_release(); break;
            case 12: m.op_delete(); break;
            case 13: m.op_mutate(); break;
            case 14: m.op_packet(); break;
            case 15: m.op_copy_inner(false); break;
            case 16: m.op_copy_inner(true); break;
            default: m.op_assign_from_ancestor(); break;
        }
        if (m.trace.size() != before) m.check_all(m.trace.back());
    }
    std::string h = m.history();
    ctx.hash(h);
    bool nt = h.find("assign") != std::string::npos || h.find("release") != std::string::npos || h.find("moved-from") != std::string::npos || h.find(" = s") != std::string::npos;
    ctx.nontrivial(nt);
    ctx.sample(h.substr(0, 400));
    // Machine's destructor destroys every live object: ASan / LeakSanitizer decide "freed exactly once"
}
