// C05 — fields libtins derives are correct on the wire for independent decoders.
//
// Domain: (b) packets built by API programs (genlib/builder.h, sane stackings only) whose values are then made adversarial
// for arithmetic (payload shapes and lengths, solved checksum corner cases, IPv6 extension chains, RFC 4884 programs),
// (a) packets accepted by the parse entry points (genlib/parsed.h), (c) built packets serialised, mutated and re-parsed.
// Every packet is SERIALISED by libtins; the bytes are judged by
//   oracle 1: ref/dissect.h (own dissector + own RFC 1071 / CRC-32 code) against a layout model computed here from the
//             public getters with my own arithmetic (header sizes from option lists, RFC 4884 / Ethernet padding rules);
//   oracle 2: libpcap filter programs (pcap_compile + pcap_offline_filter) and Tins::OfflinePacketFilter.
#include "../engine/src.h"
#include "../genlib/parsed.h"
#include "../genlib/builder.h"
#include "../ref/dissect.h"
#include <tins/offline_packet_filter.h>
#include <tins/data_link_type.h>
#include <pcap.h>
#include <map>

using namespace verif;
using namespace Tins;
using dis::Proto;
using dis::Layer;

const char* const PROP_ID = "C05";
const size_t PROP_MAXLEN_QUICK = 1536;
const size_t PROP_MAXLEN_THOROUGH = 4096;

namespace {

// ---- captured packets copied from /repo/tests/src: they cross-validate the reference before it judges libtins --------
// /repo/tests/src/udp_test.cpp checksum_packet (84 bytes)
static const uint8_t cap_udp_dns[] = {
    10,128,57,251,101,187,76,128,147,141,144,65,8,0,69,0,0,70,14,223,64,0,64,17,138,252,10,0,0,54,75,75,
    75,75,215,173,0,53,0,50,206,155,118,39,1,0,0,1,0,0,0,0,0,0,11,48,45,101,100,103,101,45,99,104,
    97,116,8,102,97,99,101,98,111,111,107,3,99,111,109,0,0,1,0,1,
};
// /repo/tests/src/udp_test.cpp checksum_packet3 (214 bytes)
static const uint8_t cap_udp_ffff[] = {
    0,20,165,53,119,224,44,240,238,33,128,46,8,0,69,184,0,200,127,204,0,0,28,17,24,185,192,168,6,224,198,199,
    118,152,213,50,192,0,0,180,255,255,128,0,0,29,86,130,177,157,1,46,0,0,0,0,7,111,0,0,52,134,86,130,
    177,132,0,5,150,253,0,0,0,0,0,0,0,0,0,0,0,0,0,0,0,0,0,0,0,0,0,0,0,0,0,0,
    0,0,0,0,0,0,0,0,0,0,0,0,0,0,0,0,0,0,0,0,0,0,0,0,0,0,0,0,0,0,0,0,
    0,0,0,0,0,0,0,0,0,0,0,0,0,0,0,0,0,0,0,0,0,0,0,0,0,0,0,0,0,0,0,0,
    0,0,0,0,0,0,0,0,0,0,0,0,0,0,0,0,0,0,0,0,0,0,0,0,0,0,0,0,0,0,0,0,
    0,0,0,0,0,0,0,0,0,0,0,0,0,0,0,0,0,0,0,0,0,0,
};
// /repo/tests/src/tcp_test.cpp checksum_packet (74 bytes)
static const uint8_t cap_tcp_syn[] = {
    10,128,57,251,101,187,76,128,147,141,144,65,8,0,69,0,0,60,152,189,64,0,64,6,0,19,10,0,0,54,198,41,
    209,140,180,207,1,187,114,130,185,186,0,0,0,0,160,2,114,16,44,228,0,0,2,4,5,180,4,2,8,10,3,81,
    33,7,0,0,0,0,1,3,3,7,
};
// /repo/tests/src/ipv6_test.cpp expected_packet1 (80 bytes)
static const uint8_t cap_ip6_tcp[] = {
    105,168,39,52,0,40,6,64,0,0,0,0,0,0,0,0,0,0,0,0,0,0,0,1,0,0,0,0,0,0,0,0,
    0,0,0,0,0,0,0,1,198,140,0,80,104,72,3,12,0,0,0,0,160,2,127,240,183,120,0,0,2,4,63,248,
    4,2,8,10,0,132,163,156,0,0,0,0,1,3,3,7,
};
// /repo/tests/src/ipv6_test.cpp expected_packet2 (76 bytes)
static const uint8_t cap_ip6_hbh_mld[] = {
    96,0,0,0,0,36,0,1,254,128,0,0,0,0,0,0,2,208,9,255,254,227,232,222,255,2,0,0,0,0,0,0,
    0,0,0,0,0,0,0,22,58,0,5,2,0,0,1,0,143,0,116,254,0,0,0,1,4,0,0,0,255,2,0,0,
    0,0,0,0,0,0,0,1,255,152,6,225,
};
// /repo/tests/src/dot1q_test.cpp expected_packet (64 bytes)
static const uint8_t cap_dot1q_arp[] = {
    255,255,255,255,255,255,0,25,6,234,184,193,129,0,176,123,8,6,0,1,8,0,6,4,0,2,0,25,6,234,184,193,
    192,168,123,1,255,255,255,255,255,255,192,168,123,1,0,0,0,0,0,0,0,0,0,0,0,0,0,0,0,0,0,0,
};
// /repo/tests/src/mpls_test.cpp eth_and_mpls (65 bytes)
static const uint8_t cap_mpls[] = {
    0,1,1,0,0,2,0,1,1,0,0,1,136,71,0,62,144,128,0,62,160,128,0,62,177,128,69,0,0,39,147,163,
    0,0,128,17,169,32,127,0,0,1,127,0,0,1,0,7,0,7,0,19,35,34,72,101,108,108,111,32,77,80,76,83,
    33,
};
// /repo/tests/src/pppoe_test.cpp full_session_packet2 (70 bytes)
static const uint8_t cap_pppoe_ip6[] = {
    255,255,255,255,255,255,0,12,41,87,232,60,136,100,17,0,0,0,0,50,0,87,96,0,0,0,0,8,58,1,254,128,
    0,0,0,0,0,0,2,12,41,255,254,87,232,60,255,2,0,0,0,0,0,0,0,0,0,0,0,0,0,2,151,20,
    88,131,0,0,0,0,
};
// /repo/tests/src/icmp_test.cpp packet_with_extensions_and_length (148 bytes)
static const uint8_t cap_icmp_ext[] = {
    11,0,204,228,0,32,0,0,69,0,0,40,165,76,0,0,1,17,247,111,12,4,4,4,12,1,1,1,165,75,130,155,
    0,20,0,0,0,0,0,0,0,0,0,0,0,0,0,0,0,0,0,0,0,0,0,0,0,0,0,0,0,0,0,0,
    0,0,0,0,0,0,0,0,0,0,0,0,0,0,0,0,0,0,0,0,0,0,0,0,0,0,0,0,0,0,0,0,
    0,0,0,0,0,0,0,0,0,0,0,0,0,0,0,0,0,0,0,0,0,0,0,0,0,0,0,0,0,0,0,0,
    0,0,0,0,0,0,0,0,32,0,197,95,0,8,1,1,24,150,1,1,
};
// /repo/tests/src/icmpv6_test.cpp packet_with_extensions_and_length (148 bytes)
static const uint8_t cap_icmp6_ext[] = {
    3,0,139,66,16,0,0,0,96,0,0,0,0,38,17,0,0,0,0,0,0,0,0,0,0,0,0,0,0,0,0,0,
    255,2,0,0,0,0,0,0,0,0,0,0,0,0,0,1,0,12,0,99,0,38,45,93,65,65,65,65,65,65,65,65,
    65,65,65,65,65,65,65,65,65,65,65,65,65,65,65,65,65,65,65,65,65,65,0,0,0,0,0,0,0,0,0,0,
    0,0,0,0,0,0,0,0,0,0,0,0,0,0,0,0,0,0,0,0,0,0,0,0,0,0,0,0,0,0,0,0,
    0,0,0,0,0,0,0,0,32,0,197,95,0,8,1,1,24,150,1,1,
};
// /repo/tests/src/sll_test.cpp expected_packet (132 bytes)
static const uint8_t cap_sll_tcp[] = {
    0,0,0,1,0,6,0,27,17,210,27,235,0,0,8,0,69,0,0,116,65,18,0,0,44,6,156,54,173,194,66,109,
    192,168,0,100,3,225,141,4,55,61,150,161,85,106,73,189,128,24,1,0,202,119,0,0,1,1,8,10,71,45,40,171,
    0,19,78,86,23,3,1,0,59,168,147,182,150,159,178,204,116,62,85,80,167,23,24,173,236,55,46,190,205,255,19,248,
    129,198,140,208,60,79,59,38,165,131,33,105,212,112,174,80,211,48,37,116,108,109,33,36,231,154,131,112,246,3,180,199,
    158,205,123,238,
};
// /repo/tests/src/radiotap_test.cpp expected_packet (176 bytes)
static const uint8_t cap_rtap_beacon[] = {
    0,0,32,0,103,8,4,0,84,198,184,36,0,0,0,0,16,12,218,160,2,0,0,0,64,1,0,0,60,20,36,17,
    128,0,0,0,255,255,255,255,255,255,6,3,127,7,160,22,6,3,127,7,160,22,176,119,58,64,203,38,0,0,0,0,
    100,0,1,5,0,10,102,114,101,101,98,115,100,45,97,112,1,8,140,18,152,36,176,72,96,108,3,1,36,5,4,0,
    1,0,0,7,42,85,83,32,36,1,17,40,1,17,44,1,17,48,1,17,52,1,23,56,1,23,60,1,23,64,1,23,
    149,1,30,153,1,30,157,1,30,161,1,30,165,1,30,32,1,0,221,24,0,80,242,2,1,1,0,0,3,164,0,0,
    39,164,0,0,66,67,94,0,98,50,47,0,229,45,146,17,
};
// /repo/tests/src/radiotap_test.cpp expected_packet3 (100 bytes)
static const uint8_t cap_rtap_arp[] = {
    0,0,36,0,47,64,0,160,32,8,0,0,0,0,0,0,75,136,126,238,50,0,0,0,18,22,133,9,192,0,181,0,
    0,0,181,0,8,2,0,0,255,255,255,255,255,255,116,37,138,78,207,112,0,102,75,134,135,47,32,84,170,170,3,0,
    0,0,8,6,0,1,8,0,6,4,0,1,0,102,75,134,135,47,172,31,30,115,0,0,0,0,0,0,172,31,31,105,
    106,113,120,145,
};
// /repo/tests/src/ipsec_test.cpp whole_packet (194 bytes)
static const uint8_t cap_ah_esp[] = {
    194,1,87,117,0,0,194,0,87,117,0,0,8,0,69,0,0,180,0,107,0,0,255,51,166,169,10,0,0,1,10,0,
    0,2,50,4,0,0,129,121,183,5,0,0,0,1,39,207,192,165,228,61,105,179,114,142,197,176,72,218,194,228,0,0,
    0,1,7,65,190,127,138,222,64,192,43,216,26,238,15,80,111,44,70,220,189,73,172,173,48,187,90,9,112,128,195,214,
    136,212,155,95,34,92,232,113,132,209,249,248,173,98,103,250,26,162,24,151,15,209,53,182,153,55,36,84,68,95,107,211,
    204,25,177,95,183,1,178,52,217,74,7,236,107,252,45,61,19,53,179,1,53,102,180,116,215,195,37,155,127,228,185,34,
    165,191,163,208,144,200,154,155,109,106,183,242,186,17,255,199,163,135,182,5,88,122,36,168,41,156,125,137,194,33,153,161,
    189,0,
};
// /repo/tests/src/ip_test.cpp options_packet (256 bytes)
static const uint8_t cap_ip_opts[] = {
    0,160,204,59,191,250,16,54,233,241,145,224,8,0,72,0,0,242,0,1,0,0,128,17,233,177,192,168,0,4,220,113,
    61,150,130,11,0,16,0,0,0,0,120,120,120,0,143,243,26,48,0,210,82,251,92,3,98,243,14,149,245,46,106,244,
    99,187,143,32,82,21,116,83,205,114,68,236,121,23,98,220,15,75,139,145,57,154,24,92,35,84,179,123,191,141,122,43,
    42,172,212,85,117,54,227,157,155,192,52,206,57,242,150,236,164,202,143,4,3,200,56,106,36,202,38,4,12,29,108,72,
    89,23,180,94,81,238,41,84,146,126,185,84,104,249,166,43,188,14,141,89,245,254,222,236,173,140,121,146,77,14,132,36,
    8,113,162,92,174,188,214,148,64,227,220,34,193,139,234,144,213,89,74,95,177,180,145,26,248,29,238,146,249,247,75,26,
    155,36,8,188,34,176,73,92,242,194,185,67,67,214,235,137,67,158,144,27,235,221,252,44,227,25,229,172,166,214,6,6,
    136,21,173,84,20,109,140,182,114,179,167,196,250,56,169,152,160,18,136,245,138,101,177,107,121,74,204,180,193,228,135,37,
};

std::string g_setup_error;
bool g_setup_done = false;

// ---- pcap helpers (compiled programs are memoised per (linktype, expression): pcap_compile is slow) --------------------
struct Compiled {
    pcap_t* h = nullptr;
    bpf_program prog;
    bool ok = false;
    std::string err;
    OfflinePacketFilter* opf = nullptr;
    bool opf_tried = false;
    std::string opf_err;
};
typedef std::map<std::pair<int, std::string>, Compiled> PcapCache;
PcapCache& pcap_cache() { static thread_local PcapCache* c = new PcapCache; return *c; }  // per thread (C18 runs this TU on several threads); never destroyed: stays reachable for LeakSanitizer

void pcap_cache_clear() {
    PcapCache& c = pcap_cache();
    for (PcapCache::iterator it = c.begin(); it != c.end(); ++it) {
        if (it->second.ok) pcap_freecode(&it->second.prog);
        if (it->second.h) pcap_close(it->second.h);
        delete it->second.opf;
    }
    c.clear();
}

Compiled& pcap_get(int dlt, const std::string& expr) {
    PcapCache& c = pcap_cache();
    if (c.size() > 6000) pcap_cache_clear();
    std::pair<int, std::string> key(dlt, expr);
    PcapCache::iterator it = c.find(key);
    if (it != c.end()) return it->second;
    Compiled& e = c[key];
    e.h = pcap_open_dead(dlt, 65535);
    memset(&e.prog, 0, sizeof e.prog);
    if (!e.h) { e.err = "pcap_open_dead failed"; return e; }
    if (pcap_compile(e.h, &e.prog, expr.c_str(), 1, 0xffffffff) == -1) { e.err = pcap_geterr(e.h); return e; }
    e.ok = true;
    return e;
}

bool pcap_direct(Compiled& e, const uint8_t* b, size_t n) {
    pcap_pkthdr h;
    memset(&h, 0, sizeof h);
    h.len = h.caplen = (bpf_u_int32)n;
    return pcap_offline_filter(&e.prog, &h, b) != 0;
}

// the same expression through libtins' wrapper; nullptr when the link type has no DataLinkType<>
OfflinePacketFilter* opf_get(Compiled& e, int dlt, const std::string& expr) {
    if (e.opf_tried) return e.opf;
    e.opf_tried = true;
    try {
        switch (dlt) {
            case DLT_EN10MB: e.opf = new OfflinePacketFilter(expr, DataLinkType<EthernetII>()); break;
            case DLT_LINUX_SLL: e.opf = new OfflinePacketFilter(expr, DataLinkType<SLL>()); break;
            case DLT_RAW: e.opf = new OfflinePacketFilter(expr, DataLinkType<IP>()); break;
            case DLT_NULL: e.opf = new OfflinePacketFilter(expr, DataLinkType<Loopback>()); break;
            default: break;
        }
    } catch (const std::exception& ex) {
        e.opf_err = ex.what();
    }
    return e.opf;
}

// ---- self tests -------------------------------------------------------------------------------------------------------
std::string expect_stack(const char* name, Proto start, const uint8_t* b, size_t n, const char* want, unsigned want_ok_sums) {
    std::vector<Layer> v = dis::dissect(start, b, n);
    std::string got = dis::stack_text(v);
    if (got != want) return std::string(name) + ": dissected as " + got + ", expected " + want;
    unsigned ok = 0;
    for (size_t i = 0; i < v.size(); ++i) {
        if (v[i].csum == dis::CS_BAD) return std::string(name) + ": " + dis::proto_name(v[i].proto) + " checksum does not verify";
        if (v[i].csum == dis::CS_OK) ++ok;
        if (v[i].ext_present) { if (v[i].ext_csum != dis::CS_OK) return std::string(name) + ": extension checksum does not verify"; ++ok; }
        if (v[i].fcs_present) { if (v[i].fcs_field != v[i].fcs_calc) return std::string(name) + ": FCS does not verify"; ++ok; }
    }
    if (ok != want_ok_sums) return std::string(name) + ": " + std::to_string(ok) + " checksums verified, expected " + std::to_string(want_ok_sums);
    return "";
}

struct PcapCal { int dlt; const uint8_t* b; size_t n; const char* expr; bool want; };

std::string selftest() {
    // RFC 1071 section 3 example and the CRC-32 check value
    {
        const uint8_t ex[] = {0x00, 0x01, 0xf2, 0x03, 0xf4, 0xf5, 0xf6, 0xf7};
        dis::Sum s;
        s.add(ex, sizeof ex);
        unsigned folds = 0;
        if (s.folded(&folds) != 0xddf2) return "RFC 1071 example sum";
        const uint8_t odd[] = {0xff, 0xff, 0xff};
        dis::Sum t;
        t.add(odd, 3);
        if (t.folded() != 0xff00) return "odd-length sum";  // 0xffff + 0xff00 = 0x1feff -> 0xff00
        if (dis::crc32_ieee((const uint8_t*)"123456789", 9) != 0xCBF43926u) return "CRC-32 check value";
        dis::Sum d;  // two folds: 0xffff + 0xffff + 0x0002 -> 0x20000 -> ...
        d.add16(0xffff); d.add16(0xffff); d.add16(2); d.add32(0xffff0000u);
        if (d.folded(&folds) != 0x0002 || folds < 2) return "double fold";
    }
#define T(cap, start, want, sums) { std::string e = expect_stack(#cap, start, cap, sizeof cap, want, sums); if (!e.empty()) return e; }
    T(cap_udp_dns, dis::en10mb_proto(cap_udp_dns, sizeof cap_udp_dns), "EthernetII/IPv4/UDP/payload", 2)
    T(cap_udp_ffff, dis::P_ETH2, "EthernetII/IPv4/UDP/payload", 2)
    T(cap_tcp_syn, dis::P_ETH2, "EthernetII/IPv4/TCP", 2)
    T(cap_ip6_tcp, dis::P_IP6, "IPv6/TCP", 1)
    T(cap_ip6_hbh_mld, dis::P_IP6, "IPv6/ICMPv6/payload", 1)
    T(cap_dot1q_arp, dis::P_ETH2, "EthernetII/802.1Q/ARP", 0)
    T(cap_mpls, dis::P_ETH2, "EthernetII/MPLS/MPLS/MPLS/IPv4/UDP/payload", 2)
    T(cap_pppoe_ip6, dis::P_ETH2, "EthernetII/PPPoE/PPP/IPv6/ICMPv6", 1)
    T(cap_icmp_ext, dis::P_ICMP, "ICMP/payload", 2)
    T(cap_icmp6_ext, dis::P_ICMP6, "ICMPv6/payload", 1)
    T(cap_sll_tcp, dis::P_SLL, "SLL/IPv4/TCP/payload", 2)
    T(cap_rtap_beacon, dis::P_RADIOTAP, "RadioTap/payload", 1)
    T(cap_rtap_arp, dis::P_RADIOTAP, "RadioTap/payload", 1)
    T(cap_ah_esp, dis::P_ETH2, "EthernetII/IPv4/AH/ESP/payload", 1)
    T(cap_ip_opts, dis::P_ETH2, "EthernetII/IPv4/UDP/payload", 2)
#undef T
    {
        // UDP checksum that computes to zero is transmitted as 0xffff (capture from the wild)
        std::vector<Layer> v = dis::dissect(dis::P_ETH2, cap_udp_ffff, sizeof cap_udp_ffff);
        if (v[2].csum_field != 0xffff || v[2].csum_calc != 0x0000) return "cap_udp_ffff: expected field ffff, computed 0000";
        // a flipped payload bit must break the checksum; a flipped FCS-covered bit must break the CRC
        std::vector<uint8_t> c(cap_udp_dns, cap_udp_dns + sizeof cap_udp_dns);
        c[60] ^= 0x10;
        v = dis::dissect(dis::P_ETH2, c.data(), c.size());
        if (v[2].csum != dis::CS_BAD) return "corrupted UDP payload still verifies";
        std::vector<uint8_t> r(cap_rtap_arp, cap_rtap_arp + sizeof cap_rtap_arp);
        r[50] ^= 1;
        v = dis::dissect(dis::P_RADIOTAP, r.data(), r.size());
        if (!v[0].fcs_present || v[0].fcs_field == v[0].fcs_calc) return "corrupted 802.11 frame still passes the FCS";
    }
    // libpcap expression shapes used by oracle 2, calibrated on captured packets (a wrong expectation about libpcap is a false alarm)
    static const PcapCal CAL[] = {
        {DLT_EN10MB, cap_tcp_syn, sizeof cap_tcp_syn, "ip src 10.0.0.54", true},
        {DLT_EN10MB, cap_tcp_syn, sizeof cap_tcp_syn, "ip src 10.0.0.55", false},
        {DLT_EN10MB, cap_tcp_syn, sizeof cap_tcp_syn, "ip dst 198.41.209.140 and tcp dst port 443 and tcp src port 46287", true},
        {DLT_EN10MB, cap_tcp_syn, sizeof cap_tcp_syn, "tcp dst port 444", false},
        {DLT_EN10MB, cap_tcp_syn, sizeof cap_tcp_syn, "tcp[13] = 2", true},
        {DLT_EN10MB, cap_tcp_syn, sizeof cap_tcp_syn, "tcp[13] = 3", false},
        {DLT_EN10MB, cap_tcp_syn, sizeof cap_tcp_syn, "ip proto 6 and ip[2:2] = 60 and ip[0] & 0xf = 5 and len = 74", true},
        {DLT_EN10MB, cap_tcp_syn, sizeof cap_tcp_syn, "len = 75", false},
        {DLT_EN10MB, cap_tcp_syn, sizeof cap_tcp_syn, "ether[12:2] = 0x800 and ether src 4c:80:93:8d:90:41 and ether dst 0a:80:39:fb:65:bb", true},
        {DLT_EN10MB, cap_tcp_syn, sizeof cap_tcp_syn, "ether src 4c:80:93:8d:90:40", false},
        {DLT_EN10MB, cap_udp_dns, sizeof cap_udp_dns, "udp dst port 53 and udp src port 55213 and udp[4:2] = 50", true},
        {DLT_EN10MB, cap_udp_dns, sizeof cap_udp_dns, "udp[4:2] = 51", false},
        {DLT_EN10MB, cap_ip_opts, sizeof cap_ip_opts, "ip[0] & 0xf = 8 and udp src port 36851 and udp dst port 6704 and udp[4:2] = 210", true},
        {DLT_EN10MB, cap_dot1q_arp, sizeof cap_dot1q_arp, "vlan 123 and arp", true},
        {DLT_EN10MB, cap_dot1q_arp, sizeof cap_dot1q_arp, "vlan 122", false},
        {DLT_EN10MB, cap_mpls, sizeof cap_mpls, "mpls 1001 and mpls 1002 and mpls 1003 and ip src 127.0.0.1 and udp dst port 7", true},
        {DLT_EN10MB, cap_mpls, sizeof cap_mpls, "mpls 1001 and mpls 1003", false},
        {DLT_EN10MB, cap_mpls, sizeof cap_mpls, "mpls 1001 and ip", false},   // not bottom of stack
        {DLT_RAW, cap_ip6_tcp, sizeof cap_ip6_tcp, "ip6 src 0:0:0:0:0:0:0:1 and ip6 dst 0:0:0:0:0:0:0:1 and tcp dst port 80 and ip6[6] = 6 and ip6[4:2] = 40", true},
        {DLT_RAW, cap_ip6_tcp, sizeof cap_ip6_tcp, "ip6 src 0:0:0:0:0:0:0:0", false},
        {DLT_RAW, cap_ip6_tcp, sizeof cap_ip6_tcp, "tcp dst port 81", false},
        {DLT_RAW, cap_ip6_tcp, sizeof cap_ip6_tcp, "ip6[53] = 2", true},
        {DLT_LINUX_SLL, cap_sll_tcp, sizeof cap_sll_tcp, "ip src 173.194.66.109 and tcp src port 993 and tcp[13] = 0x18", true},
        {DLT_LINUX_SLL, cap_sll_tcp, sizeof cap_sll_tcp, "tcp src port 992", false},
    };
    for (size_t i = 0; i < sizeof CAL / sizeof *CAL; ++i) {
        Compiled& e = pcap_get(CAL[i].dlt, CAL[i].expr);
        if (!e.ok) return std::string("libpcap calibration: '") + CAL[i].expr + "' does not compile: " + e.err;
        if (pcap_direct(e, CAL[i].b, CAL[i].n) != CAL[i].want) return std::string("libpcap calibration: '") + CAL[i].expr + "' expected " + (CAL[i].want ? "match" : "no match");
    }
    return "";
}

void ensure_setup(Ctx& ctx) {
    if (!g_setup_done) { g_setup_error = selftest(); g_setup_done = true; }
    if (!g_setup_error.empty()) VFAIL(ctx, "C05:setup:reference-validation", g_setup_error);
}

// ---- small helpers ------------------------------------------------------------------------------------------------------
size_t pad_to(size_t n, size_t a) { return (n + a - 1) / a * a; }
bool all_zero(const uint8_t* b, size_t from, size_t to) { for (size_t i = from; i < to; ++i) if (b[i]) return false; return true; }

std::string mac_str(const HWAddress<6>& a) {
    char buf[32];
    const uint8_t* p = a.begin();
    snprintf(buf, sizeof buf, "%02x:%02x:%02x:%02x:%02x:%02x", p[0], p[1], p[2], p[3], p[4], p[5]);
    return buf;
}
std::string ip4_str(const uint8_t* p) {
    char buf[32];
    snprintf(buf, sizeof buf, "%u.%u.%u.%u", p[0], p[1], p[2], p[3]);
    return buf;
}
std::string ip6_str(const uint8_t* p) {
    char buf[64];
    snprintf(buf, sizeof buf, "%x:%x:%x:%x:%x:%x:%x:%x", (p[0] << 8) | p[1], (p[2] << 8) | p[3], (p[4] << 8) | p[5], (p[6] << 8) | p[7], (p[8] << 8) | p[9],
             (p[10] << 8) | p[11], (p[12] << 8) | p[13], (p[14] << 8) | p[15]);
    return buf;
}

// ---- layout model: what the wire must look like, computed from the public getters with my own arithmetic -------------------
const Proto P_OPAQUE = (Proto)100;  // a class the dissector does not know: skipped using libtins' own header_size()/trailer_size()

struct Lay {
    PDU* p = nullptr;
    Proto proto = dis::P_NONE;
    std::string cls;
    size_t hdr = 0, trl = 0, size = 0, off = 0, end = 0;
    bool indep_hdr = true;      // hdr comes from my arithmetic, not from libtins' header_size()
    bool has_user_tag = false;
    uint32_t user_tag = 0;      // next-protocol tag as the user left it (snapshot before serialize())
    unsigned user_len = 0;      // ICMP/ICMPv6 length()
    unsigned dsap = 0, ssap = 0;
    size_t opt_bytes = 0;       // IPv4/TCP: option bytes before padding
    bool spoofed_option = false;
    std::vector<uint8_t> ext_types;  // IPv6: extension header types in order (snapshot)
    bool chain_generic = true;       // IPv6: every header in the chain has the generic extension header format
};

Proto proto_of(const PDU& p) {
    const std::type_info& t = typeid(p);
    if (t == typeid(EthernetII)) return dis::P_ETH2;
    if (t == typeid(Dot3)) return dis::P_DOT3;
    if (t == typeid(LLC)) return dis::P_LLC;
    if (t == typeid(SNAP)) return dis::P_SNAP;
    if (t == typeid(Dot1Q)) return dis::P_DOT1Q;
    if (t == typeid(MPLS)) return dis::P_MPLS;
    if (t == typeid(PPPoE)) return dis::P_PPPOE;
    if (t == typeid(SLL)) return dis::P_SLL;
    if (t == typeid(Loopback)) return dis::P_NULL;
    if (t == typeid(IP)) return dis::P_IP4;
    if (t == typeid(IPv6)) return dis::P_IP6;
    if (t == typeid(IPSecAH)) return dis::P_AH;
    if (t == typeid(IPSecESP)) return dis::P_ESP;
    if (t == typeid(TCP)) return dis::P_TCP;
    if (t == typeid(UDP)) return dis::P_UDP;
    if (t == typeid(ICMP)) return dis::P_ICMP;
    if (t == typeid(ICMPv6)) return dis::P_ICMP6;
    if (t == typeid(ARP)) return dis::P_ARP;
    if (t == typeid(RC4EAPOL) || t == typeid(RSNEAPOL)) return dis::P_EAPOL;
    if (t == typeid(RadioTap)) return dis::P_RADIOTAP;
    if (t == typeid(RawPDU)) return dis::P_PAYLOAD;
    return P_OPAQUE;
}

uint8_t ip_opt_byte(const IP::option_identifier& id) { return (uint8_t)((id.copied << 7) | (id.op_class << 5) | id.number); }

size_t ext_structure_size(const ICMPExtensionsStructure& e) {
    size_t n = 4;
    for (const ICMPExtension& x : e.extensions()) n += 4 + x.payload().size();
    return n;
}

// per-layer header size by the protocol specifications; snapshot of what the user left in the tag fields
void model_layer(Lay& a) {
    PDU& p = *a.p;
    switch ((int)a.proto) {
        case dis::P_ETH2: a.hdr = 14; a.has_user_tag = true; a.user_tag = static_cast<EthernetII&>(p).payload_type(); break;
        case dis::P_DOT3: a.hdr = 14; break;
        case dis::P_LLC: a.hdr = p.header_size(); a.indep_hdr = false; a.dsap = static_cast<LLC&>(p).dsap(); a.ssap = static_cast<LLC&>(p).ssap(); break;
        case dis::P_SNAP: a.hdr = 8; a.has_user_tag = true; a.user_tag = static_cast<SNAP&>(p).eth_type(); break;
        case dis::P_DOT1Q: a.hdr = 4; a.has_user_tag = true; a.user_tag = static_cast<Dot1Q&>(p).payload_type(); break;
        case dis::P_MPLS: a.hdr = 4; a.has_user_tag = true; a.user_tag = static_cast<MPLS&>(p).bottom_of_stack(); break;
        case dis::P_PPPOE: {
            a.hdr = 6;
            for (const PPPoE::tag& t : static_cast<PPPoE&>(p).tags()) { a.hdr += 4 + t.data_size(); if (t.length_field() != t.data_size()) a.spoofed_option = true; }
            break;
        }
        case dis::P_SLL: a.hdr = 16; a.has_user_tag = true; a.user_tag = static_cast<SLL&>(p).protocol(); break;
        case dis::P_NULL: a.hdr = 4; a.has_user_tag = true; a.user_tag = static_cast<Loopback&>(p).family(); break;
        case dis::P_IP4: {
            IP& ip = static_cast<IP&>(p);
            size_t o = 0;
            for (const IP::option& op : ip.options()) {
                uint8_t raw = ip_opt_byte(op.option());
                o += raw <= 1 ? 1 : 2 + op.data_size();
                if (raw > 1 && op.length_field() != op.data_size()) a.spoofed_option = true;
            }
            a.opt_bytes = o;
            a.hdr = 20 + pad_to(o, 4);
            a.has_user_tag = true;
            a.user_tag = ip.protocol();
            break;
        }
        case dis::P_IP6: {
            IPv6& v6 = static_cast<IPv6&>(p);
            a.hdr = 40;
            for (const IPv6::ext_header& h : v6.headers()) {
                a.hdr += pad_to(2 + h.data_size(), 8);
                a.ext_types.push_back(h.option());
                if (h.length_field() != h.data_size()) a.spoofed_option = true;
            }
            a.has_user_tag = v6.headers().empty();   // with extension headers the user's final next-header is not readable
            a.user_tag = v6.next_header();
            break;
        }
        case dis::P_AH: a.hdr = 12 + static_cast<IPSecAH&>(p).icv().size(); a.has_user_tag = true; a.user_tag = static_cast<IPSecAH&>(p).next_header(); break;
        case dis::P_ESP: a.hdr = 8; break;
        case dis::P_TCP: {
            size_t o = 0;
            for (const TCP::option& op : static_cast<TCP&>(p).options()) {
                o += (uint8_t)op.option() <= 1 ? 1 : 2 + op.data_size();
                if ((uint8_t)op.option() > 1 && op.length_field() != op.data_size()) a.spoofed_option = true;
            }
            a.opt_bytes = o;
            a.hdr = 20 + pad_to(o, 4);
            break;
        }
        case dis::P_UDP: a.hdr = 8; break;
        case dis::P_ICMP: {
            ICMP& ic = static_cast<ICMP&>(p);
            unsigned t = ic.type();
            a.hdr = (t == 13 || t == 14) ? 20 : (t == 17 || t == 18) ? 12 : 8;
            a.user_len = ic.length();
            break;
        }
        case dis::P_ICMP6: a.hdr = p.header_size(); a.indep_hdr = false; a.user_len = static_cast<ICMPv6&>(p).length(); break;
        case dis::P_RADIOTAP: a.hdr = 4 + static_cast<RadioTap&>(p).options_payload().size(); break;  // version, pad, it_len + present words and fields
        case dis::P_PAYLOAD: a.hdr = static_cast<RawPDU&>(p).payload().size(); break;
        default: a.hdr = p.header_size(); a.indep_hdr = false; break;  // ARP, EAPOL, opaque classes
    }
}

void build_model(PDU& root, std::vector<Lay>& m) {
    m.clear();
    for (PDU* p = &root; p; p = p->inner_pdu()) {
        Lay a;
        a.p = p;
        a.proto = proto_of(*p);
        a.cls = short_cls(demangled(typeid(*p)));
        model_layer(a);
        m.push_back(a);
    }
    // sizes bottom-up: trailers depend on what is inside
    for (size_t i = m.size(); i-- > 0;) {
        Lay& a = m[i];
        bool has_inner = i + 1 < m.size();
        size_t inner = has_inner ? m[i + 1].size : 0;
        switch ((int)a.proto) {
            case dis::P_ETH2: a.trl = inner < 46 ? 46 - inner : 0; break;  // 60-byte minimum frame (without FCS)
            case dis::P_DOT1Q: a.trl = (static_cast<Dot1Q*>(a.p)->append_padding() && inner < 46) ? 46 - inner : 0; break;  // tagged minimum 64
            case dis::P_ICMP: case dis::P_ICMP6: {
                bool v6 = a.proto == dis::P_ICMP6;
                bool has_ext = v6 ? static_cast<ICMPv6*>(a.p)->has_extensions() : static_cast<ICMP*>(a.p)->has_extensions();
                if (has_ext) {
                    const ICMPExtensionsStructure& e = v6 ? static_cast<const ICMPv6*>(a.p)->extensions() : static_cast<const ICMP*>(a.p)->extensions();
                    a.trl = ext_structure_size(e);
                    // RFC 4884 section 4: the original datagram is zero padded to a 32-bit (ICMPv6: 64-bit) boundary and to at least 128 octets
                    if (has_inner) { size_t padded = pad_to(inner, v6 ? 8 : 4); if (padded < 128) padded = 128; a.trl += padded - inner; }
                }
                break;
            }
            case dis::P_RADIOTAP: a.trl = a.p->trailer_size(); break;  // cross-checked against the FCS flag read from the wire
            default: a.trl = a.indep_hdr || a.proto == dis::P_LLC || a.proto == dis::P_ARP || a.proto == dis::P_EAPOL ? 0 : a.p->trailer_size(); break;
        }
        a.size = a.hdr + inner + a.trl;
    }
    size_t off = 0, end = m.empty() ? 0 : m[0].size;
    for (size_t i = 0; i < m.size(); ++i) {
        m[i].off = off;
        m[i].end = end;
        off += m[i].hdr;
        end -= m[i].trl;
    }
}

// ---- next-protocol tags: my own table of what each encapsulation must say about its payload -----------------------------------
struct TagExp { bool known = false; uint32_t v[4]; unsigned n = 0; void add(uint32_t x) { v[n++] = x; known = true; } bool has(uint32_t x) const { for (unsigned i = 0; i < n; ++i) if (v[i] == x) return true; return false; } };

TagExp expected_ethertype(const Lay& parent, const Lay& child, const Lay* grandchild) {
    TagExp e;
    switch ((int)child.proto) {
        case dis::P_IP4: e.add(0x0800); break;
        case dis::P_IP6: e.add(0x86dd); break;
        case dis::P_ARP: e.add(0x0806); break;
        case dis::P_DOT1Q:
            // stacked tags behind Ethernet: the outer one is an 802.1ad service tag; elsewhere either TPID names a VLAN tag
            if (parent.proto == dis::P_ETH2 && grandchild && grandchild->proto == dis::P_DOT1Q) e.add(0x88a8);
            else { e.add(0x8100); e.add(0x88a8); }
            break;
        case dis::P_MPLS: e.add(0x8847); break;
        case dis::P_PPPOE: e.add(static_cast<PPPoE*>(child.p)->code() == 0 ? 0x8864 : 0x8863); break;  // RFC 2516: session / discovery stage
        case dis::P_EAPOL: e.add(0x888e); break;
        default: break;
    }
    return e;
}
TagExp expected_ipproto(const Lay& child) {
    TagExp e;
    switch ((int)child.proto) {
        case dis::P_IP4: e.add(4); break;
        case dis::P_IP6: e.add(41); break;
        case dis::P_TCP: e.add(6); break;
        case dis::P_UDP: e.add(17); break;
        case dis::P_ICMP: e.add(1); break;
        case dis::P_ICMP6: e.add(58); break;
        case dis::P_AH: e.add(51); break;
        case dis::P_ESP: e.add(50); break;
        default: break;
    }
    return e;
}

// ---- oracle 1: the serialised bytes against the model, read through the independent dissector -------------------------------
struct Facts {   // what a case exercised (labels, non-trivial rule)
    unsigned layers = 0, checksum_layers = 0, verified = 0;
    bool folded_twice = false, odd_len = false, padding = false, udp_zero = false, vlan = false, icmp_ext = false, fcs = false;
    unsigned ext_chain = 0;
    bool pcap = false;
};

struct Checker {
    Ctx& ctx;
    const std::string& origin;
    std::string chain;
    std::vector<Lay> m;
    std::vector<Layer> D;
    std::vector<uint8_t> bytes;
    Facts facts;

    Checker(Ctx& c, const std::string& o) : ctx(c), origin(o) {}

    std::string where(size_t i) const { return " | layer " + std::to_string(i) + " (" + m[i].cls + " at offset " + std::to_string(m[i].off) + ") of " + chain + ", " + std::to_string(bytes.size()) + " bytes: " + hex(bytes, 160) + " | " + origin; }

#define CK(cond, sig, msgexpr) VCHECK(ctx, cond, std::string("C05:") + sig, msgexpr << where(i))

    void note_sum(const Layer& L, unsigned folds, size_t len) {
        ++facts.verified;
        if (folds >= 2) facts.folded_twice = true;
        if (len & 1) facts.odd_len = true;
        (void)L;
    }

    // transports whose pseudo-header destination is not the header's destination (source routing): no claim
    bool final_destination_differs(const Lay& ipl) const {
        if (ipl.proto == dis::P_IP4) {
            for (const IP::option& op : static_cast<IP*>(ipl.p)->options()) { uint8_t r = ip_opt_byte(op.option()); if (r == 0x83 || r == 0x89) return true; }
        } else if (ipl.proto == dis::P_IP6) {
            for (const IPv6::ext_header& h : static_cast<IPv6*>(ipl.p)->headers())
                if (h.option() == 43 && h.data_size() >= 2 && h.data_ptr()[1] != 0) return true;
        }
        return false;
    }

    void check_tag(size_t i, const Layer& L) {
        if (i + 1 >= m.size()) return;
        const Lay& a = m[i];
        const Lay& c = m[i + 1];
        const Lay* g = i + 2 < m.size() ? &m[i + 2] : nullptr;
        TagExp e;
        const char* field = "tag";
        switch ((int)a.proto) {
            case dis::P_ETH2: case dis::P_DOT1Q: case dis::P_SNAP: case dis::P_SLL: e = expected_ethertype(a, c, g); field = "ethertype"; break;
            case dis::P_IP4: case dis::P_AH: e = expected_ipproto(c); field = "protocol"; break;
            case dis::P_IP6: e = expected_ipproto(c); field = "next-header"; break;
            case dis::P_NULL:
                field = "family";
                if (c.proto == dis::P_IP4) e.add(2);          // AF_INET
                else if (c.proto == dis::P_IP6) e.add(10);    // AF_INET6 of this host (DLT_NULL is host specific)
                else if (c.proto == dis::P_LLC) e.add(26);    // PF_LLC
                break;
            default: return;
        }
        if (e.known) {
            CK(e.has(L.tag), a.cls + ":" + field + ":" + c.cls, a.cls << " " << field << " on the wire is 0x" << std::hex << L.tag << std::dec << " but a " << c.cls
                                                                       << " follows (expected 0x" << std::hex << e.v[0] << std::dec << ")");
        } else if (a.has_user_tag) {
            // libtins has no tag for this payload: the specified behaviour is that the user's value stays
            CK(L.tag == a.user_tag, a.cls + ":" + field + "-of-user-overwritten:" + c.cls,
               a.cls << " " << field << " was " << a.user_tag << " before serialize(), the wire has " << L.tag << " in front of a " << c.cls << " (no tag exists for it)");
        }
    }

    void check_icmp(size_t i, const Layer& L, bool v6) {
        const Lay& a = m[i];
        const uint8_t* b = bytes.data();
        bool has_inner = i + 1 < m.size();
        size_t inner = has_inner ? m[i + 1].size : 0;
        const ICMPExtensionsStructure& es = v6 ? static_cast<const ICMPv6*>(a.p)->extensions() : static_cast<const ICMP*>(a.p)->extensions();
        bool has_ext = !es.extensions().empty();
        unsigned unit = v6 ? 8 : 4;
        size_t body = a.off + a.hdr;
        size_t orig_end = a.end - a.trl;            // where the inner packet ends
        size_t field_end = has_ext ? a.end - ext_structure_size(es) : a.end;  // where the (padded) original datagram field ends
        CK(all_zero(b, orig_end, field_end), a.cls + ":original-datagram-padding-nonzero", "padding after the inner packet (up to the extension structure / end of the original datagram field) is not zero");
        if (field_end > orig_end) facts.padding = true;
        if (has_ext) {
            facts.icmp_ext = true;
            Layer E;
            E.off = a.off;
            dis::dissect_icmp_ext(E, b, field_end, a.end);
            CK(E.ok(), a.cls + ":extension-structure:" + E.err, E.err_detail);
            if (E.ok()) {
                CK(E.ext_csum == dis::CS_OK, a.cls + ":extension-checksum", "RFC 4884 extension structure checksum does not verify (structure at offset " << field_end << ", " << a.end - field_end << " bytes)");
                if (E.ext_csum == dis::CS_OK) note_sum(E, E.ext_folds, a.end - field_end);
                CK(E.ext_items.size() == es.extensions().size(), a.cls + ":extension-object-count", E.ext_items.size() << " objects on the wire, " << es.extensions().size() << " were added");
                for (size_t k = 0; k < E.ext_items.size() && k < es.extensions().size(); ++k) {
                    const ICMPExtension& x = es.extensions()[k];
                    CK(E.ext_items[k].len == 4 + x.payload().size(), a.cls + ":extension-object-length", "object " << k << " length field " << E.ext_items[k].len << ", object has " << 4 + x.payload().size() << " bytes");
                    CK(E.ext_items[k].type == (uint32_t)((x.extension_class() << 8) | x.extension_type()), a.cls + ":extension-object-class-type", "object " << k);
                }
            }
        }
        // the RFC 4884 length attribute, for the message types libtins derives it for
        unsigned type = b[a.off];
        bool derives = v6 ? type == 3 : (type == 3 || type == 11 || type == 12);
        if (!derives || a.end - a.off < 8) return;
        if (v6 && !static_cast<const ICMPv6*>(a.p)->options().empty()) { ctx.excluded("icmpv6-error-message-with-nd-options"); return; }
        size_t present = field_end - body;   // bytes of original datagram field actually on the wire
        if (present > 255u * unit) { ctx.excluded("rfc4884-original-datagram-longer-than-the-length-attribute-can-say"); return; }
        unsigned attr = b[a.off + (v6 ? 4 : 5)] * unit;
        if (attr != 0 && !has_ext && present % unit != 0 && attr == pad_to(present, unit))
            // RFC 4884 wants the original datagram zero padded to the unit the attribute counts in; without an extension structure libtins
            // counts the padding but does not emit it (pinned by tests: BigEncapsulatedPacketIsNotConsideredToHaveExtensions)
            CK(false, a.cls + ":rfc4884-length-counts-padding-that-is-not-emitted", "length attribute says " << attr << " bytes of original datagram, " << present << " bytes are there and no padding follows (no extension structure)");
        else if (attr != 0)
            CK(attr == present, a.cls + ":rfc4884-length", "length attribute says " << attr << " bytes of original datagram, " << present << " bytes are there (inner packet " << inner << " bytes, extensions " << (has_ext ? "yes" : "no") << ")");
        if (has_ext && !has_inner) ctx.excluded("rfc4884-extension-structure-without-original-datagram");
        else if (has_ext && present != 128)
            CK(attr != 0, a.cls + ":rfc4884-length-missing", "extension structure follows an original datagram field of " << present << " bytes but the length attribute is 0 (decoders then look at offset 128)");
        (void)L;
    }

    void check_ipv6_chain(size_t i, Layer& L) {
        Lay& a = m[i];
        const uint8_t* b = bytes.data();
        IPv6& v6 = *static_cast<IPv6*>(a.p);
        const IPv6::headers_type& hs = v6.headers();
        facts.ext_chain = (unsigned)hs.size();
        bool all_generic = true;
        size_t p = a.off + 40, tagpos = a.off + 6;
        for (size_t k = 0; k < hs.size(); ++k) {
            const IPv6::ext_header& h = hs[k];
            uint8_t t = a.ext_types[k];
            bool generic = t == 0 || t == 43 || t == 60 || t == 135 || t == 139 || t == 140 || (t == 44 && h.data_size() == 6);
            if (!generic) all_generic = false;
            size_t tot = pad_to(2 + h.data_size(), 8);
            if (p + tot > a.end) break;  // total size check already reported
            CK(b[tagpos] == t, "IPv6:extension-chain-tag", "extension header " << k << " has type " << (int)t << " but the preceding next-header field says " << (int)b[tagpos]);
            if (tot <= 2048)
                CK(((size_t)b[p + 1] + 1) * 8 == tot, "IPv6:extension-header-length", "extension header " << k << " (type " << (int)t << ", " << h.data_size() << " data bytes) occupies " << tot
                                                                                               << " bytes, its Hdr Ext Len says " << ((size_t)b[p + 1] + 1) * 8);
            else ctx.excluded("ipv6-extension-header-over-2048-bytes");
            CK(all_zero(b, p + 2 + h.data_size(), p + tot), "IPv6:extension-header-padding-nonzero", "extension header " << k);
            if (tot > 2 + h.data_size()) facts.padding = true;
            tagpos = p;
            p += tot;
        }
        uint8_t fin = b[tagpos];
        bool fin_is_ext = fin == 0 || fin == 43 || fin == 44 || fin == 60 || fin == 135 || fin == 139 || fin == 140;
        bool child_known = i + 1 < m.size() && expected_ipproto(m[i + 1]).known;
        a.chain_generic = all_generic && !a.spoofed_option && !(fin_is_ext && !child_known);
        if (all_generic && !a.spoofed_option && fin_is_ext && !child_known) {
            // no tag exists for what follows (or nothing follows) and the value left in the last next-header field happens to be an
            // extension header type: a decoder walks on into the payload. Specified behaviour (the user's tag stays): follow the built chain
            ctx.excluded("ipv6-final-next-header-left-by-user-is-an-extension-header-type");
            L.err.clear();
            L.hlen = a.hdr; L.pay_off = a.off + a.hdr; L.tag = fin; L.later_fragment = false;
            unsigned plen = dis::be16(b + a.off + 4);
            L.pay_end = a.off + 40 + plen <= a.end ? a.off + 40 + plen : a.end;
            L.items.resize(hs.size());
        } else if (!all_generic || a.spoofed_option) {
            // the user put a header type into the chain that the generic format cannot carry: follow the built chain instead
            ctx.excluded("ipv6-chain-with-non-extension-header-types");
            L.err.clear();
            L.hlen = a.hdr;
            L.pay_off = a.off + a.hdr;
            L.tag = b[tagpos];
            L.later_fragment = false;
            unsigned plen = dis::be16(b + a.off + 4);
            L.pay_end = a.off + 40 + plen <= a.end ? a.off + 40 + plen : a.end;
        } else if (L.ok()) {
            CK(L.items.size() == hs.size(), "IPv6:extension-chain-differs", "dissector follows " << L.items.size() << " extension headers, " << hs.size() << " were added");
        }
    }

    // returns false when the packet is outside the claim (size) or could not be serialised
    bool run(PDU& pdu) {
        chain = layer_chain(pdu);
        build_model(pdu, m);
        if (m[0].size > 65535) { ctx.excluded("packet-over-65535-bytes"); return false; }
        try {
            bytes = pdu.serialize();
        } catch (const std::exception& e) {
            ctx.excluded("serialize-threw (C02's clause)");
            return false;
        }
        const uint8_t* b = bytes.data();
        size_t n = bytes.size();
        {
            size_t i = 0;
            CK(n == m[0].size, "serialized-size-differs-from-layout", "serialize() returned " << n << " bytes, the layers and their specified padding need " << m[0].size);
            if (n != m[0].size) return false;
        }
        D.assign(m.size(), Layer());
        facts.layers = (unsigned)m.size();
        for (size_t i = 0; i < m.size(); ++i) {
            Lay& a = m[i];
            if (a.proto == P_OPAQUE) { D[i].proto = dis::P_PAYLOAD; continue; }
            if (a.proto == dis::P_ARP) { D[i].proto = dis::P_ARP; D[i].off = a.off; D[i].hlen = a.hdr; continue; }  // body not modelled (fixed 28 bytes in libtins whatever hlen/plen say)
            if (a.proto == dis::P_PAYLOAD) {
                const RawPDU::payload_type& pl = static_cast<RawPDU*>(a.p)->payload();
                CK(a.end - a.off == pl.size() && (pl.empty() || memcmp(b + a.off, pl.data(), pl.size()) == 0), "RawPDU:payload-bytes-differ", "payload of " << pl.size() << " bytes is not at [" << a.off << "," << a.end << ")");
                if (pl.size() & 1) facts.odd_len = true;
                continue;
            }
            const Layer* parentL = (i > 0 && m[i - 1].proto != P_OPAQUE && m[i - 1].proto != dis::P_PAYLOAD) ? &D[i - 1] : nullptr;
            Layer L = dis::dissect_one(a.proto, b, a.off, a.end, parentL);
            if (a.proto == dis::P_LLC && L.proto == dis::P_SNAP) {  // an LLC header that happens to read aa-aa-03: keep it an LLC header
                L = Layer(); L.proto = dis::P_LLC; L.off = a.off; L.end = a.end; L.hlen = a.hdr; L.pay_off = a.off + a.hdr; L.pay_end = a.end;
                L.has_tag = true; L.tag = (b[a.off] << 8) | b[a.off + 1];
            }
            if (a.proto == dis::P_IP6) check_ipv6_chain(i, L);
            bool rfc4884_err = L.err.compare(0, 7, "rfc4884") == 0;
            bool option_err = L.err.compare(0, 6, "option") == 0 || L.err.compare(0, 3, "tag") == 0;
            if (option_err && a.spoofed_option) { ctx.excluded("option-with-spoofed-length-field"); L.err.clear(); }
            if (a.proto == dis::P_PPPOE && static_cast<PPPoE*>(a.p)->code() != 0 && i + 1 < m.size()) { ctx.excluded("pppoe-discovery-packet-with-a-payload-layer"); L.err.clear(); L.hlen = a.hdr; L.pay_off = a.off + a.hdr; L.items.resize(static_cast<PPPoE*>(a.p)->tags().size());
                unsigned pl = dis::be16(b + a.off + 4); L.pay_end = a.off + 6 + pl <= a.end ? a.off + 6 + pl : a.end; }
            if (a.proto == dis::P_PPPOE && static_cast<PPPoE*>(a.p)->code() == 0 && a.hdr > 6) { ctx.excluded("pppoe-session-packet-with-tags"); D[i] = L; continue; }
            if (a.proto == dis::P_AH && (a.hdr % 4) != 0) { ctx.excluded("ah-icv-not-a-multiple-of-4-bytes"); L.err.clear(); L.hlen = a.hdr; L.pay_off = a.off + a.hdr; L.pay_end = a.end; D[i] = L; check_tag(i, L); continue; }
            if (a.proto == dis::P_DOT3 && a.size - 14 > 1500) { ctx.excluded("802.3-frame-over-1500-bytes"); L.err.clear(); L.pay_off = a.off + 14; L.pay_end = a.end; D[i] = L; continue; }
            if (a.proto == dis::P_ICMP6 && L.err.compare(0, 2, "nd") == 0) {
                // ND option framing is only claimed for bare ND messages whose options all fit the 8-octet unit
                bool claim = i + 1 == m.size() && a.trl == 0;
                for (const ICMPv6::option& o : static_cast<ICMPv6*>(a.p)->options()) if ((o.data_size() + 2) % 8 != 0 || o.length_field() != o.data_size()) claim = false;
                if (!claim) { ctx.excluded("icmpv6-nd-option-not-a-multiple-of-8-bytes-or-followed-by-payload"); L.err.clear(); }
            }
            if (!rfc4884_err) CK(L.ok(), a.cls + ":structure:" + L.err, L.err_detail);
            D[i] = L;
            if (!L.ok() && !rfc4884_err) continue;
            // header length / offset fields
            bool wire_hlen = a.proto == dis::P_IP4 || a.proto == dis::P_TCP || a.proto == dis::P_IP6 || a.proto == dis::P_AH || a.proto == dis::P_RADIOTAP ||
                             (a.proto == dis::P_PPPOE && static_cast<PPPoE*>(a.p)->code() != 0);
            if (wire_hlen && a.indep_hdr)
                CK(L.hlen == a.hdr, a.cls + ":header-length", "the header-length field puts the end of the " << a.cls << " header at " << L.hlen << " bytes, the header (fixed part + options as added) has " << a.hdr);
            // length fields: the bytes the layer hands to its payload must be exactly the inner layers
            bool wire_len = a.proto == dis::P_IP4 || a.proto == dis::P_IP6 || a.proto == dis::P_UDP || a.proto == dis::P_DOT3 || a.proto == dis::P_PPPOE || a.proto == dis::P_EAPOL;
            if (wire_len)
                CK(L.pay_end == a.end - a.trl, a.cls + ":length-field", "the length field of " << a.cls << " ends its payload at offset " << L.pay_end << ", the layers inside end at " << a.end - a.trl);
            check_tag(i, L);
            switch ((int)a.proto) {
                case dis::P_ETH2: case dis::P_DOT1Q:
                    if (a.proto == dis::P_DOT1Q) facts.vlan = true;
                    CK(all_zero(b, a.end - a.trl, a.end), a.cls + ":padding-nonzero", a.trl << " padding bytes at the end of the frame are not all zero");
                    if (a.trl) facts.padding = true;
                    if (a.proto == dis::P_ETH2) CK(a.end - a.off >= 60, "EthernetII:frame-below-60-bytes", "frame has " << a.end - a.off << " bytes");
                    break;
                case dis::P_MPLS:
                    if (i > 0) {
                        bool next_is_mpls = i + 1 < m.size() && m[i + 1].proto == dis::P_MPLS;
                        CK(L.get("bos") == (next_is_mpls ? 0u : 1u), "MPLS:bottom-of-stack", "bottom-of-stack bit is " << L.get("bos") << " but the next layer is " << (i + 1 < m.size() ? m[i + 1].cls : std::string("nothing")));
                    }
                    break;
                case dis::P_LLC:
                    if (i + 1 < m.size() && m[i + 1].cls == "STP") CK(b[a.off] == 0x42 && b[a.off + 1] == 0x42, "LLC:saps:STP", "DSAP/SSAP " << (int)b[a.off] << "/" << (int)b[a.off + 1] << " in front of STP");
                    else CK(b[a.off] == a.dsap && b[a.off + 1] == a.ssap, "LLC:saps-of-user-overwritten", "DSAP/SSAP were " << a.dsap << "/" << a.ssap << ", wire has " << (int)b[a.off] << "/" << (int)b[a.off + 1]);
                    break;
                case dis::P_PPPOE:
                    if (static_cast<PPPoE*>(a.p)->code() != 0 && !a.spoofed_option) CK(L.items.size() == static_cast<PPPoE*>(a.p)->tags().size(), "PPPoE:tag-count", L.items.size() << " tags on the wire");
                    break;
                case dis::P_IP4:
                    ++facts.checksum_layers;
                    CK(L.csum == dis::CS_OK, "IP:header-checksum", "IPv4 header checksum on the wire 0x" << std::hex << L.csum_field << ", the header sums to 0x" << L.csum_calc << std::dec << " (" << L.hlen << " header bytes)");
                    if (L.csum == dis::CS_OK) note_sum(L, L.csum_folds, L.hlen);
                    CK(all_zero(b, a.off + 20 + a.opt_bytes, a.off + a.hdr), "IP:option-padding-nonzero", "bytes after the last option are not zero");
                    if (a.hdr > 20 + a.opt_bytes) facts.padding = true;
                    break;
                case dis::P_TCP: case dis::P_UDP: case dis::P_ICMP6: {
                    if (a.proto == dis::P_TCP) {
                        CK(all_zero(b, a.off + 20 + a.opt_bytes, a.off + a.hdr), "TCP:option-padding-nonzero", "bytes after the last option are not zero");
                        if (a.hdr > 20 + a.opt_bytes) facts.padding = true;
                    }
                    if (a.proto == dis::P_ICMP6) check_icmp(i, L, true);
                    bool in_ip = i > 0 && (m[i - 1].proto == dis::P_IP6 || (m[i - 1].proto == dis::P_IP4 && a.proto != dis::P_ICMP6));
                    if (!in_ip) { ctx.label("transport-not-directly-inside-ip"); break; }
                    if (final_destination_differs(m[i - 1])) { ctx.excluded("source-route-final-destination-in-pseudo-header"); break; }
                    ++facts.checksum_layers;
                    if (a.proto == dis::P_UDP) {
                        CK(L.csum != dis::CS_ZERO, "UDP:checksum-zero-transmitted", "UDP checksum field is 0 (= no checksum) although the datagram is directly inside " << m[i - 1].cls << "; the sum computes to 0x" << std::hex << L.csum_calc);
                        if (L.csum == dis::CS_ZERO) break;
                        if (L.csum_calc == 0) facts.udp_zero = true;
                    }
                    CK(L.csum == dis::CS_OK, a.cls + ":checksum", a.cls << " checksum on the wire 0x" << std::hex << L.csum_field << ", pseudo-header + " << std::dec << L.csum_len << " bytes sum to 0x" << std::hex << L.csum_calc << std::dec);
                    if (L.csum == dis::CS_OK) note_sum(L, L.csum_folds, L.csum_len);
                    break;
                }
                case dis::P_ICMP:
                    ++facts.checksum_layers;
                    CK(L.csum == dis::CS_OK, "ICMP:checksum", "ICMP checksum on the wire 0x" << std::hex << L.csum_field << ", the message (" << std::dec << L.csum_len << " bytes) sums to 0x" << std::hex << L.csum_calc << std::dec);
                    if (L.csum == dis::CS_OK) note_sum(L, L.csum_folds, L.csum_len);
                    check_icmp(i, L, false);
                    break;
                case dis::P_RADIOTAP: {
                    // chained present words: whether later words restart the field numbering is the RadioTap parser's business (C11);
                    // the FCS is then located from the layout the packet was built with
                    bool chained = (L.get("present", 0) & 0x80000000u) != 0;
                    if (chained) ctx.excluded("radiotap-chained-present-words (FLAGS lookup not cross-checked)");
                    else CK(L.fcs_present == (a.trl == 4), "RadioTap:fcs-presence", "FLAGS field on the wire " << (L.fcs_present ? "announces" : "does not announce") << " an FCS, the packet was laid out with a " << a.trl << " byte trailer");
                    if (a.trl == 4 && i + 1 < m.size() && a.end - a.off >= a.hdr + 4) {
                        ++facts.checksum_layers;
                        facts.fcs = true;
                        uint32_t field = dis::le32(b + a.end - 4), calc = dis::crc32_ieee(b + a.off + a.hdr, a.end - 4 - (a.off + a.hdr));
                        CK(field == calc, "RadioTap:fcs", "FCS on the wire 0x" << std::hex << field << ", CRC-32 of the 802.11 frame is 0x" << calc << std::dec);
                        if (field == calc) ++facts.verified;
                    }
                    break;
                }
                default: break;
            }
        }
        check_pure();
        return true;
    }

    // an uninstructed dissector that only follows the tags must see the same stack, as far as every tag on the way is one libtins knows
    void check_pure() {
        const uint8_t* b = bytes.data();
        Proto start = m[0].proto;
        if (start == P_OPAQUE || start == dis::P_PAYLOAD) return;
        std::vector<Layer> pure = dis::dissect(start, b, bytes.size());
        for (size_t i = 0; i < m.size() && i < pure.size(); ++i) {
            const Lay& a = m[i];
            if (a.proto == P_OPAQUE || a.proto == dis::P_PAYLOAD) return;
            if (!D[i].ok() || !pure[i].ok()) return;
            CK(pure[i].proto == a.proto && pure[i].off == a.off, "tag-following-dissector-sees-other-stack", "following the tags gives " << dis::stack_text(pure) << ", layer " << i << " is " << dis::proto_name(pure[i].proto) << " at " << pure[i].off);
            if (pure[i].proto != a.proto) return;
            if (i + 1 >= m.size()) return;
            const Lay& c = m[i + 1];
            const Lay* g = i + 2 < m.size() ? &m[i + 2] : nullptr;
            bool known = false;
            switch ((int)a.proto) {
                case dis::P_ETH2: case dis::P_DOT1Q: case dis::P_SLL: known = expected_ethertype(a, c, g).known; break;
                case dis::P_SNAP: known = expected_ethertype(a, c, g).known && pure[i].get("oui") == 0; break;  // with another OUI the protocol id is not an EtherType
                case dis::P_IP4: known = expected_ipproto(c).known && !D[i].later_fragment; break;
                case dis::P_IP6: known = expected_ipproto(c).known && !D[i].later_fragment && !pure[i].later_fragment && a.chain_generic && pure[i].hlen == a.hdr; break;
                case dis::P_AH: known = expected_ipproto(c).known && a.hdr % 4 == 0; break;
                case dis::P_NULL: known = c.proto == dis::P_IP4 || c.proto == dis::P_IP6; break;
                case dis::P_DOT3: known = c.proto == dis::P_LLC && a.size - 14 <= 1500 && !(b[a.off + 14] == 0xaa && b[a.off + 15] == 0xaa && b[a.off + 16] == 3); break;
                case dis::P_MPLS: known = i > 0 && (c.proto == dis::P_MPLS || ((c.proto == dis::P_IP4 && (b[c.off] >> 4) == 4) || (c.proto == dis::P_IP6 && (b[c.off] >> 4) == 6))); break;
                default: known = false; break;
            }
            if (!known) return;
        }
    }
#undef CK
};

// ---- oracle 2: libpcap as an independent decoder -------------------------------------------------------------------------------
struct Pred {
    std::string kind;   // stable name (signature)
    std::string yes;    // must match ("" = none)
    std::string no;     // must not match ("" = none)
};

std::string hexs(uint32_t v) { char buf[16]; snprintf(buf, sizeof buf, "0x%x", v); return buf; }

// Only expression shapes whose libpcap semantics are certain (see the calibration table in selftest()):
//  - tcp/udp port primitives and tcp[]/udp[]/icmp[] index IPv4 through the IHL and require fragment offset 0; tcp[]/udp[]/icmp[]
//    never match IPv6; for IPv6 port primitives read at fixed offset 40 (no extension headers allowed by the generator);
//  - 'vlan N' and 'mpls N' shift the offsets of everything to their right; 'ip' after 'mpls' needs the bottom-of-stack bit;
//  - on DLT_RAW 'ip'/'ip6' test the version nibble.
void build_preds(const std::vector<Lay>& m, const std::vector<Layer>& D, const std::vector<uint8_t>& bytes, int& dlt, std::vector<Pred>& out) {
    dlt = -1;
    const uint8_t* b = bytes.data();
    size_t i = 0;
    std::string pre;
    switch ((int)m[0].proto) {
        case dis::P_ETH2: dlt = DLT_EN10MB; break;
        case dis::P_SLL: dlt = DLT_LINUX_SLL; break;
        case dis::P_IP4: case dis::P_IP6: dlt = DLT_RAW; break;
        case dis::P_NULL: dlt = DLT_NULL; break;
        default: return;
    }
    for (size_t k = 0; k < m.size(); ++k) if (m[k].proto != P_OPAQUE && m[k].proto != dis::P_PAYLOAD && !D[k].ok()) { dlt = -1; return; }
    out.push_back({"len", "len = " + std::to_string(bytes.size()), "len = " + std::to_string(bytes.size() + 1)});
    if (m[0].proto == dis::P_ETH2) {
        EthernetII& e = *static_cast<EthernetII*>(m[0].p);
        HWAddress<6> s = e.src_addr(), d = e.dst_addr();
        uint8_t s2[6], d2[6];
        memcpy(s2, s.begin(), 6); memcpy(d2, d.begin(), 6);
        s2[5] ^= 1; d2[5] ^= 1;
        out.push_back({"ether-src", "ether src " + mac_str(s), "ether src " + mac_str(HWAddress<6>(s2))});
        out.push_back({"ether-dst", "ether dst " + mac_str(d), "ether dst " + mac_str(HWAddress<6>(d2))});
        uint32_t et = D[0].tag;
        if (m.size() > 1) out.push_back({"ether-type", "ether[12:2] = " + hexs(et), "ether[12:2] = " + hexs(et ^ 1)});
        i = 1;
        unsigned vlans = 0;
        while (i < m.size() && m[i].proto == dis::P_DOT1Q && vlans < 2) {
            unsigned vid = static_cast<Dot1Q*>(m[i].p)->id();
            out.push_back({"vlan", pre + "vlan " + std::to_string(vid), pre + "vlan " + std::to_string(vid ^ 1)});
            pre += "vlan " + std::to_string(vid) + " and ";
            ++i; ++vlans;
        }
        if (i < m.size() && m[i].proto == dis::P_DOT1Q) return;
        if (vlans == 0) {
            unsigned labels = 0;
            while (i < m.size() && m[i].proto == dis::P_MPLS && labels < 3) {
                unsigned lab = static_cast<MPLS*>(m[i].p)->label();
                out.push_back({"mpls", pre + "mpls " + std::to_string(lab), pre + "mpls " + std::to_string(lab ^ 1)});
                pre += "mpls " + std::to_string(lab) + " and ";
                ++i; ++labels;
            }
            if (i < m.size() && m[i].proto == dis::P_MPLS) return;
        }
    } else if (m[0].proto == dis::P_SLL || m[0].proto == dis::P_NULL) {
        i = 1;
    }
    if (i >= m.size()) return;
    if (i > 0 && !D[i - 1].ok()) return;
    const Lay& n = m[i];
    const Layer& N = D[i];
    if (n.proto == dis::P_IP4) {
        if ((b[n.off] >> 4) != 4) return;   // 'ip' tests the version nibble on DLT_RAW and after 'mpls'
        if (m[0].proto == dis::P_NULL && D[0].tag != 2) return;
        IP& ip = *static_cast<IP*>(n.p);
        uint32_t sa = ip.src_addr(), da = ip.dst_addr();   // network byte order in memory
        uint8_t s4[4], d4[4], s5[4], d5[4];
        memcpy(s4, &sa, 4); memcpy(d4, &da, 4); memcpy(s5, s4, 4); memcpy(d5, d4, 4);
        s5[3] ^= 1; d5[3] ^= 1;
        out.push_back({"ip-src", pre + "ip src " + ip4_str(s4), pre + "ip src " + ip4_str(s5)});
        out.push_back({"ip-dst", pre + "ip dst " + ip4_str(d4), pre + "ip dst " + ip4_str(d5)});
        out.push_back({"ip-proto", pre + "ip proto " + std::to_string(N.tag), pre + "ip proto " + std::to_string(N.tag ^ 1)});
        out.push_back({"ip-totlen", pre + "ip[2:2] = " + std::to_string(n.size), pre + "ip[2:2] = " + std::to_string((n.size + 1) & 0xffff)});
        out.push_back({"ip-ihl", pre + "ip[0] & 0xf = " + std::to_string(n.hdr / 4), pre + "ip[0] & 0xf = " + std::to_string((n.hdr / 4) ^ 1)});
        out.push_back({"ip-ttl", pre + "ip[8] = " + std::to_string(ip.ttl()), pre + "ip[8] = " + std::to_string(ip.ttl() ^ 1)});
        if (i + 1 >= m.size()) return;
        const Lay& t = m[i + 1];
        bool later = N.later_fragment;
        auto port = [](unsigned p) { return std::to_string(p); };
        if (t.proto == dis::P_TCP && D[i + 1].ok()) {
            TCP& tcp = *static_cast<TCP*>(t.p);
            if (later) { out.push_back({"tcp-port-in-later-fragment", "", pre + "tcp dst port " + port(tcp.dport())}); return; }
            out.push_back({"tcp-dport", pre + "tcp dst port " + port(tcp.dport()), pre + "tcp dst port " + port(tcp.dport() ^ 1)});
            out.push_back({"tcp-sport", pre + "tcp src port " + port(tcp.sport()), pre + "tcp src port " + port(tcp.sport() ^ 1)});
            unsigned fl = tcp.flags() & 0xff;
            out.push_back({"tcp-flags", pre + "tcp[13] = " + std::to_string(fl), pre + "tcp[13] = " + std::to_string(fl ^ 1)});
            out.push_back({"tcp-doff", pre + "tcp[12] & 0xf0 = " + std::to_string((t.hdr / 4) << 4), pre + "tcp[12] & 0xf0 = " + std::to_string(((t.hdr / 4) ^ 1) << 4)});
        } else if (t.proto == dis::P_UDP && D[i + 1].ok()) {
            UDP& udp = *static_cast<UDP*>(t.p);
            if (later) { out.push_back({"udp-port-in-later-fragment", "", pre + "udp dst port " + port(udp.dport())}); return; }
            out.push_back({"udp-dport", pre + "udp dst port " + port(udp.dport()), pre + "udp dst port " + port(udp.dport() ^ 1)});
            out.push_back({"udp-sport", pre + "udp src port " + port(udp.sport()), pre + "udp src port " + port(udp.sport() ^ 1)});
            out.push_back({"udp-length", pre + "udp[4:2] = " + std::to_string(t.size), pre + "udp[4:2] = " + std::to_string((t.size + 1) & 0xffff)});
        } else if (t.proto == dis::P_ICMP && D[i + 1].ok() && !later) {
            ICMP& ic = *static_cast<ICMP*>(t.p);
            out.push_back({"icmp-type", pre + "icmp[icmptype] = " + std::to_string((unsigned)ic.type()), pre + "icmp[icmptype] = " + std::to_string((unsigned)ic.type() ^ 1)});
            out.push_back({"icmp-code", pre + "icmp[icmpcode] = " + std::to_string(ic.code()), pre + "icmp[icmpcode] = " + std::to_string(ic.code() ^ 1)});
        }
    } else if (n.proto == dis::P_IP6) {
        if ((b[n.off] >> 4) != 6) return;
        if (m[0].proto == dis::P_NULL) return;   // AF_INET6 differs between systems: not asserted through libpcap
        IPv6& v6 = *static_cast<IPv6*>(n.p);
        IPv6Address sa = v6.src_addr(), da = v6.dst_addr();
        uint8_t s6[16], d6[16], s7[16], d7[16];
        memcpy(s6, sa.begin(), 16); memcpy(d6, da.begin(), 16); memcpy(s7, s6, 16); memcpy(d7, d6, 16);
        s7[15] ^= 1; d7[15] ^= 1;
        out.push_back({"ip6-src", pre + "ip6 src " + ip6_str(s6), pre + "ip6 src " + ip6_str(s7)});
        out.push_back({"ip6-dst", pre + "ip6 dst " + ip6_str(d6), pre + "ip6 dst " + ip6_str(d7)});
        out.push_back({"ip6-next-header", pre + "ip6[6] = " + std::to_string(b[n.off + 6]), pre + "ip6[6] = " + std::to_string(b[n.off + 6] ^ 1)});
        out.push_back({"ip6-payload-length", pre + "ip6[4:2] = " + std::to_string(n.size - 40), pre + "ip6[4:2] = " + std::to_string((n.size - 40 + 1) & 0xffff)});
        if (!n.ext_types.empty() || i + 1 >= m.size() || !D[i + 1].ok()) return;
        const Lay& t = m[i + 1];
        auto port = [](unsigned p) { return std::to_string(p); };
        if (t.proto == dis::P_TCP) {
            TCP& tcp = *static_cast<TCP*>(t.p);
            out.push_back({"tcp6-dport", pre + "tcp dst port " + port(tcp.dport()), pre + "tcp dst port " + port(tcp.dport() ^ 1)});
            out.push_back({"tcp6-sport", pre + "tcp src port " + port(tcp.sport()), pre + "tcp src port " + port(tcp.sport() ^ 1)});
            unsigned fl = tcp.flags() & 0xff;
            out.push_back({"tcp6-flags", pre + "ip6[53] = " + std::to_string(fl), pre + "ip6[53] = " + std::to_string(fl ^ 1)});
        } else if (t.proto == dis::P_UDP) {
            UDP& udp = *static_cast<UDP*>(t.p);
            out.push_back({"udp6-dport", pre + "udp dst port " + port(udp.dport()), pre + "udp dst port " + port(udp.dport() ^ 1)});
            out.push_back({"udp6-sport", pre + "udp src port " + port(udp.sport()), pre + "udp src port " + port(udp.sport() ^ 1)});
            out.push_back({"udp6-length", pre + "ip6[44:2] = " + std::to_string(t.size), pre + "ip6[44:2] = " + std::to_string((t.size + 1) & 0xffff)});
        } else if (t.proto == dis::P_ICMP6) {
            ICMPv6& ic = *static_cast<ICMPv6*>(t.p);
            out.push_back({"icmp6-type", pre + "ip6[40] = " + std::to_string((unsigned)ic.type()), pre + "ip6[40] = " + std::to_string((unsigned)ic.type() ^ 1)});
        }
    }
}

// evaluate a few predicates directly and through Tins::OfflinePacketFilter
void check_pcap(Ctx& ctx, Src& s, Checker& ck, PDU& pdu) {
    int dlt;
    std::vector<Pred> preds;
    build_preds(ck.m, ck.D, ck.bytes, dlt, preds);
    if (dlt < 0 || preds.empty()) return;
    const uint8_t* b = ck.bytes.data();
    size_t n = ck.bytes.size();
    unsigned want = 1 + (unsigned)s.range(0, 3);
    size_t first = s.pick(preds.size());
    bool pdu_overload_done = false;
    for (unsigned k = 0; k < want && k < preds.size(); ++k) {
        const Pred& p = preds[(first + k * 5) % preds.size()];
        for (int side = 0; side < 2; ++side) {
            const std::string& expr = side == 0 ? p.yes : p.no;
            if (expr.empty()) continue;
            bool expect = side == 0;
            std::string tail = " | filter '" + expr + "' on " + ck.chain + ", " + std::to_string(n) + " bytes: " + hex(ck.bytes, 160) + " | " + ck.origin;
            Compiled& c = pcap_get(dlt, expr);
            VCHECK(ctx, c.ok, "C05:pcap:" + p.kind + ":does-not-compile", "pcap_compile: " << c.err << tail);
            if (!c.ok) continue;
            bool got = pcap_direct(c, b, n);
            VCHECK(ctx, got == expect, "C05:pcap:" + p.kind + (expect ? ":value-set-does-not-match" : ":other-value-matches"),
                   "pcap_offline_filter " << (got ? "matches" : "does not match") << tail);
            ck.facts.pcap = true;
                        OfflinePacketFilter* f = opf_get(c, dlt, expr);
            VCHECK(ctx, f != nullptr, "C05:OfflinePacketFilter:rejects-valid-filter", "constructor threw: " << c.opf_err << tail);
            if (!f) continue;
            bool got2 = f->matches_filter(b, (uint32_t)n);
            VCHECK(ctx, got2 == got, "C05:OfflinePacketFilter:differs-from-pcap_offline_filter", "matches_filter(buffer) says " << got2 << ", libpcap says " << got << tail);
            if (!pdu_overload_done) {
                pdu_overload_done = true;
                bool got3 = f->matches_filter(pdu);
                VCHECK(ctx, got3 == got, "C05:OfflinePacketFilter:pdu-overload-differs", "matches_filter(PDU&) says " << got3 << ", libpcap on serialize() says " << got << tail);
            }
        }
    }
}

// ---- generators: values adversarial for the arithmetic -------------------------------------------------------------------------------
uint32_t mix32(uint32_t& st) { st = st * 1664525u + 1013904223u; return st >> 8; }

void ipv6_chain_program(IPv6& v6, Src& s, std::vector<std::string>& prog) {
    unsigned n = (unsigned)s.weighted({4, 3, 3, 2, 1});
    static const uint8_t GEN[] = {0, 43, 60, 135, 44, 0, 60, 43};
    static const uint8_t ODD[] = {51, 50, 59, 6, 17, 58, 139, 140};
    static const uint16_t LEN[] = {6, 0, 1, 5, 7, 8, 13, 14, 15, 22, 23, 30, 62, 63, 254};
    for (unsigned i = 0; i < n; ++i) {
        uint8_t t = s.chance(8) ? (s.boolean() ? ODD[s.pick(sizeof ODD)] : (uint8_t)s.edgy(8)) : GEN[s.pick(sizeof GEN)];
        size_t len = (t == 44 && !s.chance(10)) ? 6 : (s.chance(60) ? LEN[s.pick(sizeof LEN / sizeof *LEN)] : (size_t)s.range(0, 40));
        std::vector<uint8_t> d = s.bytes(len);
        if (t == 43 && d.size() >= 2 && !s.chance(15)) d[1] = 0;  // segments left 0: the header destination is the final one
        v6.add_header(IPv6::ext_header(t, d.begin(), d.end()));
        prog.push_back("IPv6::add_header(" + std::to_string(t) + "," + hex(d, 24) + ")");
    }
}

template <class I>
void rfc4884_program(I& ic, bool v6, Src& s, std::vector<std::string>& prog) {
    if (!s.chance(75)) return;
    if (s.chance(80)) {
        static const uint8_t T4[] = {3, 11, 12, 11};
        unsigned t = v6 ? (s.chance(20) ? 1 : 3) : T4[s.pick(4)];
        ic.type((typename std::decay<decltype(ic.type())>::type)t);
        prog.push_back(std::string(v6 ? "ICMPv6" : "ICMP") + "::type(" + std::to_string(t) + ")");
    }
    if (s.boolean()) { ic.use_length_field(true); prog.push_back("use_length_field(true)"); }
    static const uint8_t PL[] = {4, 0, 1, 2, 3, 5, 8, 12, 16, 33};
    unsigned ne = (unsigned)s.weighted({2, 4, 3, 1});
    for (unsigned i = 0; i < ne; ++i) {
        ICMPExtension e((uint8_t)s.edgy(8), (uint8_t)s.edgy(8));
        std::vector<uint8_t> d = s.bytes(PL[s.pick(sizeof PL)]);
        e.payload(d);
        ic.extensions().add_extension(e);
        prog.push_back("extensions().add_extension(class " + std::to_string(e.extension_class()) + ", type " + std::to_string(e.extension_type()) + ", " + hex(d, 16) + ")");
    }
    if (ne && s.chance(20)) { unsigned r = (unsigned)s.edgy(12); ic.extensions().reserved(r); prog.push_back("extensions().reserved(" + std::to_string(r) + ")"); }
}

PDU* innermost(PDU& root) { PDU* p = &root; while (p->inner_pdu()) p = p->inner_pdu(); return p; }

// payload shapes: all 0x00 / all 0xff (sums that sit on the 0xffff boundary), odd lengths, lengths around the RFC 4884 128-byte rule
void shape_payload(PDU& root, Src& s, Ctx& ctx, std::vector<std::string>& prog, size_t model_total) {
    PDU* last = innermost(root);
    RawPDU* raw = typeid(*last) == typeid(RawPDU) ? static_cast<RawPDU*>(last) : nullptr;
    unsigned mode = (unsigned)s.weighted({5, 2, 2, 3, 3, 2, 1});
    if (mode == 0) return;
    if (!raw) {
        Proto lp = proto_of(*last);
        if (!(lp == dis::P_TCP || lp == dis::P_UDP || lp == dis::P_ICMP || lp == dis::P_ICMP6 || lp == dis::P_IP4 || lp == dis::P_IP6 || lp == dis::P_ESP || lp == dis::P_AH)) return;
        raw = new RawPDU((const uint8_t*)"", 0);
        last->inner_pdu(raw);
        prog.push_back("/ RawPDU()");
    }
    RawPDU::payload_type pl = raw->payload();
    static const uint16_t LEN[] = {1, 2, 3, 5, 7, 8, 9, 17, 33, 63, 100, 119, 120, 121, 124, 125, 126, 127, 128, 129, 130, 131, 132, 133, 135, 136, 137, 255, 256, 257, 511, 999, 1021, 1024, 1027};
    size_t newlen = pl.size();
    if (mode >= 3) {
        if (mode == 5) newlen = (size_t)s.range(0, ctx.tier ? 9000 : 1600);
        else if (mode == 6) {
            if (s.chance(ctx.tier ? 40 : 25)) {   // totals next to 65535 and next to 32768 (16-bit and 15-bit boundaries of the length arithmetic)
                size_t target = (s.boolean() ? 65535 : 32768 + 20) - (size_t)s.range(0, 40);
                newlen = model_total < target ? pl.size() + (target - model_total) : pl.size();
            }
            else newlen = (size_t)s.range(1400, 1600);
        } else newlen = LEN[s.pick(sizeof LEN / sizeof *LEN)];
    }
    unsigned fill = mode == 1 ? 0 : mode == 2 ? 1 : (unsigned)s.weighted({3, 2, 2, 2, 3});
    RawPDU::payload_type np(newlen);
    uint32_t st = (uint32_t)s.u16() * 2654435761u + 1;
    for (size_t i = 0; i < newlen; ++i) {
        switch (fill) {
            case 0: np[i] = 0x00; break;
            case 1: np[i] = 0xff; break;
            case 2: np[i] = i < pl.size() ? pl[i] : (uint8_t)mix32(st); break;   // keep what the builder drew, extend pseudo-randomly
            case 3: np[i] = (i & 1) ? 0xff : 0xfe; break;                         // 0xfeff words: many carries
            default: np[i] = (uint8_t)mix32(st); break;
        }
    }
    raw->payload(np);
    prog.push_back("RawPDU::payload(" + std::to_string(newlen) + " bytes, fill " + std::to_string(fill) + ")");
}

// Solve one 16-bit word (two payload bytes, or the IPv4 id) so that a checksum hits a corner: the sum comes out as 0x0000
// (UDP must then transmit 0xffff), or the accumulator needs a second end-around carry - for a big-endian accumulator over
// pseudo-header + segment, or for a little-endian (host order on x86) accumulator over the segment alone.
void solve_sums(PDU& root, Src& s, Ctx& ctx, std::vector<std::string>& prog) {
    unsigned mode = (unsigned)s.weighted({3, 5, 3, 3, 2});
    if (mode == 0) return;
    unsigned sub = (unsigned)s.range(0, 2);
    std::vector<Lay> m;
    build_model(root, m);
    if (m[0].size > 65535) return;
    std::vector<uint8_t> w;
    try { w = root.serialize(); } catch (const std::exception&) { return; }
    if (w.size() != m[0].size) return;   // reported by the main check
    size_t from, to, field_off, word_off;
    int raw_idx = -1, ip_idx = -1, t_idx = -1;
    dis::Sum base;
    if (mode == 4) {
        for (size_t i = 0; i < m.size(); ++i) if (m[i].proto == dis::P_IP4) ip_idx = (int)i;
        if (ip_idx < 0) return;
        from = m[ip_idx].off; to = from + m[ip_idx].hdr; field_off = from + 10; word_off = from + 4;
        mode = 1 + sub;
    } else {
        for (size_t i = 0; i < m.size(); ++i) if (m[i].proto == dis::P_TCP || m[i].proto == dis::P_UDP || m[i].proto == dis::P_ICMP || m[i].proto == dis::P_ICMP6) t_idx = (int)i;
        if (t_idx < 0) return;
        if (m[t_idx].proto == dis::P_UDP && mode != 1 && s.chance(45)) mode = 1;   // RFC 768: a computed 0 is transmitted as 0xffff
        from = m[t_idx].off; to = m[t_idx].end;
        field_off = from + (m[t_idx].proto == dis::P_TCP ? 16 : m[t_idx].proto == dis::P_UDP ? 6 : 2);
        bool port_word = false;
        if (m.back().proto == dis::P_PAYLOAD && (int)m.size() - 1 > t_idx) {
            raw_idx = (int)m.size() - 1;
            word_off = m[raw_idx].off + ((m[raw_idx].off - from) & 1);
            if (word_off + 2 > m[raw_idx].end) raw_idx = -1;
        }
        if (raw_idx < 0) {   // no payload bytes to solve for: the source port is a free aligned word too
            if (m[t_idx].proto != dis::P_TCP && m[t_idx].proto != dis::P_UDP) return;
            port_word = true;
            word_off = from;
        }
        (void)port_word;
        if (m[t_idx].proto != dis::P_ICMP) {
            if (t_idx == 0) return;
            const Lay& ipl = m[t_idx - 1];
            if (ipl.proto != dis::P_IP4 && ipl.proto != dis::P_IP6) return;
            Layer IPL = dis::dissect_one(ipl.proto, w.data(), ipl.off, ipl.end, nullptr);
            unsigned pn = m[t_idx].proto == dis::P_TCP ? 6 : m[t_idx].proto == dis::P_UDP ? 17 : 58;
            if (!dis::pseudo_header(&IPL, pn, to - from, base)) return;
        }
    }
    if (field_off + 2 > to || to > w.size()) return;
    w[field_off] = w[field_off + 1] = 0;
    w[word_off] = w[word_off + 1] = 0;
    uint16_t solved;
    bool le = false;
    if (mode == 1) {            // total one's-complement sum 0xffff: the checksum computes to 0x0000
        dis::Sum t = base;
        t.add(w.data() + from, to - from);
        solved = (uint16_t)~t.folded();
    } else if (mode == 2) {     // big-endian accumulator over pseudo-header + data: low half + carries >= 0x10000
        dis::Sum t = base;
        t.add(w.data() + from, to - from);
        if ((t.acc >> 16) == 0) return;
        solved = (uint16_t)(0xffff - (t.acc & 0xffff));
    } else {                    // little-endian accumulator over the data alone
        uint64_t acc = 0;
        size_t i = from;
        for (; i + 1 < to; i += 2) acc += (uint32_t)(w[i] | (w[i + 1] << 8));
        if (i < to) acc += w[i];
        if ((acc >> 16) == 0) return;
        solved = (uint16_t)(0xffff - (acc & 0xffff));
        le = true;
    }
    uint8_t b0 = le ? (uint8_t)(solved & 0xff) : (uint8_t)(solved >> 8), b1 = le ? (uint8_t)(solved >> 8) : (uint8_t)(solved & 0xff);
    if (ip_idx >= 0) {
        static_cast<IP*>(m[ip_idx].p)->id((uint16_t)((b0 << 8) | b1));
        prog.push_back("IP::id(" + std::to_string((b0 << 8) | b1) + ") [solved, mode " + std::to_string(mode) + "]");
    } else if (raw_idx < 0) {
        uint16_t port = (uint16_t)((b0 << 8) | b1);
        if (m[t_idx].proto == dis::P_TCP) static_cast<TCP*>(m[t_idx].p)->sport(port); else static_cast<UDP*>(m[t_idx].p)->sport(port);
        prog.push_back(m[t_idx].cls + "::sport(" + std::to_string(port) + ") [solved, mode " + std::to_string(mode) + "]");
    } else {
        RawPDU* raw = static_cast<RawPDU*>(m[raw_idx].p);
        size_t k = word_off - m[raw_idx].off;
        raw->payload()[k] = b0;
        raw->payload()[k + 1] = b1;
        prog.push_back("payload[" + std::to_string(k) + ".." + std::to_string(k + 1) + "] = " + hex(&raw->payload()[k], 2) + " [solved, mode " + std::to_string(mode) + "]");
    }
    ctx.label(mode == 1 ? "solved-checksum-zero" : mode == 2 ? "solved-double-fold-be" : "solved-double-fold-le");
}

std::unique_ptr<PDU> build_case(Src& s, Ctx& ctx, std::vector<std::string>& prog) {
    BuildOpts o;
    o.allow_wrong_stackings = false;
    o.allow_option_programs = false;   // run below: IPv6 chains and RFC 4884 programs are C05's own
    o.max_payload = ctx.tier ? 1500 : 300;
    Built b = build_packet(s, ctx, o);
    prog = b.program;
    std::unique_ptr<PDU> pdu = std::move(b.pdu);
    for (PDU* p = pdu.get(); p; p = p->inner_pdu()) {
        const std::type_info& t = typeid(*p);
        if (t == typeid(IPv6)) ipv6_chain_program(*static_cast<IPv6*>(p), s, prog);
        else if (t == typeid(ICMP)) rfc4884_program(*static_cast<ICMP*>(p), false, s, prog);
        else if (t == typeid(ICMPv6)) { if (s.chance(60)) rfc4884_program(*static_cast<ICMPv6*>(p), true, s, prog); else if (s.chance(40)) option_program(*p, s, prog); }
        else if (t == typeid(Dot1Q)) {
            // the documented switch that makes the tag pad short frames itself; decided by the VLAN id (no further choice byte)
            Dot1Q* q = static_cast<Dot1Q*>(p);
            if (q->id() & 1) { q->append_padding(true); prog.push_back("Dot1Q::append_padding(true)"); ctx.label("dot1q-append-padding"); }
        }
        else if (s.chance(50)) option_program(*p, s, prog);
        enforce_capacity(*p, ctx, prog);
    }
    std::vector<Lay> m;
    build_model(*pdu, m);
    shape_payload(*pdu, s, ctx, prog, m[0].size);
    if (IP* root = dynamic_cast<IP*>(pdu.get())) if (root->src_addr() == IPv4Address((uint32_t)0)) { root->src_addr(IPv4Address("10.9.8.7")); ctx.excluded("outermost-ip-src-0.0.0.0"); }
    solve_sums(*pdu, s, ctx, prog);
    return pdu;
}

const Entry* entry_for_root(const PDU& root) {
    const std::vector<Entry>& E = entries();
    std::string want;
    switch ((int)proto_of(root)) {
        case dis::P_ETH2: case dis::P_DOT3: want = "dlt:EN10MB"; break;
        case dis::P_RADIOTAP: want = "dlt:IEEE802_11_RADIO"; break;
        case dis::P_SLL: want = "dlt:LINUX_SLL"; break;
        case dis::P_NULL: want = "dlt:NULL"; break;
        case dis::P_IP4: case dis::P_IP6: want = "dlt:RAW"; break;
        default: want = short_cls(demangled(typeid(root))); break;
    }
    for (const Entry& e : E) if (want == e.name) return &e;
    return nullptr;
}

void check_and_record(PDU& pdu, Src& s, Ctx& ctx, const std::string& origin, const char* domain) {
    Checker ck(ctx, origin);
    if (!ck.run(pdu)) return;
    check_pcap(ctx, s, ck, pdu);
    const Facts& f = ck.facts;
    if (f.verified) ctx.label("checksum-verified");
    if (f.udp_zero) ctx.label("udp-checksum-zero-case");
    if (f.ext_chain) ctx.label("ipv6-ext-chain");
    if (f.vlan) ctx.label("vlan");
    if (f.icmp_ext) ctx.label("icmp-extensions");
    if (f.fcs) ctx.label("radiotap-fcs");
    if (f.pcap) ctx.label("pcap-filter");
    if (f.folded_twice) ctx.label("sum-folded-twice");
    if (f.odd_len) ctx.label("odd-length");
    if (f.padding) ctx.label("padding");
    ctx.nontrivial(f.layers >= 3 && f.checksum_layers >= 1 && (f.folded_twice || f.odd_len || f.padding || f.ext_chain >= 2));
    ctx.hash(domain);
    ctx.hash(ck.chain);
    ctx.hash(hash_bytes(ck.bytes.data(), ck.bytes.size()));
    ctx.sample(std::string(domain) + " " + ck.chain + " " + std::to_string(ck.bytes.size()) + "B: " + origin.substr(0, 260));
}

}  // namespace

void prop_setup(Ctx&) {
    if (!g_setup_done) { g_setup_error = selftest(); g_setup_done = true; }
}

void prop(Src& s, Ctx& ctx) {
    ensure_setup(ctx);
    unsigned domain = s.u8() & 3;
    if (domain == 1 || domain == 3) {
        // ---- (b) API-built packet
        ctx.label("built");
        std::vector<std::string> prog;
        std::unique_ptr<PDU> pdu = build_case(s, ctx, prog);
        std::string origin = "program: ";
        for (const std::string& p : prog) { origin += p; origin += "; "; }
        if (ctx.logging()) ctx.log(origin);
        if (has_unserializable_layer(*pdu)) { ctx.excluded("ppi-pktap-not-serializable"); return; }
        check_and_record(*pdu, s, ctx, origin, "built");
        return;
    }
    std::unique_ptr<PDU> pdu;
    std::string origin;
    const char* dname = "parsed";
    if (domain == 2) {
        // ---- (c) built, serialised, a few bytes changed, parsed again through the entry point of its link type
        ctx.label("reparsed");
        dname = "reparsed";
        std::vector<std::string> prog;
        std::unique_ptr<PDU> built = build_case(s, ctx, prog);
        if (has_unserializable_layer(*built)) { ctx.excluded("ppi-pktap-not-serializable"); return; }
        const Entry* e = entry_for_root(*built);
        if (!e) return;
        std::vector<uint8_t> w;
        try { w = built->serialize(); } catch (const std::exception&) { ctx.excluded("serialize-threw (C02's clause)"); return; }
        if (w.size() > 65535) { ctx.excluded("packet-over-65535-bytes"); return; }
        unsigned edits = (unsigned)s.weighted({3, 3, 2, 1, 1});
        for (unsigned k = 0; k < edits && !w.empty(); ++k) { size_t pos = s.u16() % w.size(); w[pos] = s.boolean() ? s.u8() : (uint8_t)(w[pos] ^ (1u << s.range(0, 7))); }
        try { pdu = parse_entry(*e, w.data(), w.size(), s.u8() & 7); } catch (const std::exception&) { return; }  // C01's business
        origin = std::string("entry=") + e->name + " input=" + hex(w, 1024) + " (from program: ";
        for (const std::string& p : prog) { origin += p; origin += "; "; }
        origin += ")";
    } else {
        // ---- (a) packet accepted by a parse entry point
        ctx.label("parsed");
        const std::vector<Entry>& E = entries();
        const Entry& e = E[s.u8() % E.size()];
        unsigned placement = s.u8() & 7;
        std::vector<uint8_t> data = s.rest();
        if (data.size() > 65535) data.resize(65535);
        try { pdu = parse_entry(e, data.data(), data.size(), placement); } catch (const std::exception&) { return; }  // C01's business
        origin = std::string("entry=") + e.name + " input=" + hex(data, 1024);
    }
    if (!pdu) { ctx.label("rejected"); return; }
    if (has_unserializable_layer(*pdu)) {
        PDU* inner = pdu->inner_pdu();
        while (inner && (inner->pdu_type() == PDU::PPI || inner->pdu_type() == PDU::PKTAP)) inner = inner->inner_pdu();
        if (!inner) { ctx.excluded("ppi-pktap-not-serializable"); return; }
        std::unique_ptr<PDU> c(inner->clone());
        pdu = std::move(c);
    }
    if (IP* root = dynamic_cast<IP*>(pdu.get())) if (root->src_addr() == IPv4Address((uint32_t)0)) { ctx.excluded("outermost-ip-src-0.0.0.0"); return; }
    if (ctx.logging()) ctx.log(origin + " -> " + layer_chain(*pdu));
    ctx.label("accepted");
    check_and_record(*pdu, s, ctx, origin, dname);
}
