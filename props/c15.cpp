// C15 - header field accessors are exact inverses and do not disturb neighbouring fields.
//
// Domain: every (concrete layer class, one-argument setter) pair of kind S (scalar header field), T (next-protocol
// tag) and D (derived field that has a setter) of the generated setter table genlib/setters_gen.inc (RadioTap is
// C11's, typed option setters are C04's).  One case = (class, row, prior object state, value, operation).
//
// Oracle clauses (signature = "C15:<owner class>.<setter>:<clause>"):
//   1. getter-differs            get_f(set_f(o, v)) == v                              (rendered through rstr)
//   2. neighbour-changed:<g>     every other getter of the object (view_layer: kinds F/D/T/O/X/S) keeps its
//                                rendered value, except getters that share wire bits with f according to the
//                                protocol layouts in ref/wire_positions.h and the documented derived getters
//   3. too-large-accepted        small_uint<n> parameter, value above 2^n-1 passed as the underlying integer:
//                                Tins::value_too_large is thrown and the object is unchanged
//      silent-truncation         plain integer parameter that is wider than the field: values that do not fit
//      rejected-but-modified
//   4. serialisation             after == before with exactly the field's wire bits replaced by v's bits, outside
//                                the per-class derived bytes (checksums / lengths, written from the RFCs)
//        (a) table free: value bit -> wire bit map learned in prop_setup (v = base ^ 1<<i on a fresh object);
//            it must be a bijection (learned-map-not-bijective), masks of different non-alias fields must be
//            disjoint (mask-overlaps:<g>)
//        (b) independent table ref/wire_positions.h (RFC / IEEE layouts): learned map == specified position
//            (wire-position); the per-case expectation is built from the specified position
//      wire-value / serialisation-changed-outside-field / serialisation-size-changed
#include "../engine/src.h"
#include "../genlib/setters.h"
#include "../genlib/entries.h"
#include "../ref/wire_positions.h"
#include <memory>
#include <algorithm>
#include <cstdio>
#include <cstdlib>

using namespace verif;
using namespace Tins;

const char* const PROP_ID = "C15";
const size_t PROP_MAXLEN_QUICK = 640;
const size_t PROP_MAXLEN_THOROUGH = 1024;

static_assert(TINS_IS_LITTLE_ENDIAN, "ref/wire_positions.h lists DLT_NULL's host-order family as little endian");

namespace c15 {

typedef std::vector<uint8_t> Bytes;

// ---------------------------------------------------------------------------------------------- values
// A value is a big-endian, right-aligned bit string: value bit 0 is the least significant bit of the last byte.
struct Val {
    Bytes be;
    explicit Val(size_t nbytes = 0) : be(nbytes, 0) {}
    bool bit(unsigned i) const { size_t n = be.size(); return i / 8 < n && ((be[n - 1 - i / 8] >> (i % 8)) & 1); }
    void set(unsigned i, bool b) {
        size_t n = be.size();
        if (i / 8 >= n) return;
        uint8_t m = (uint8_t)(1u << (i % 8));
        if (b) be[n - 1 - i / 8] |= m; else be[n - 1 - i / 8] &= (uint8_t)~m;
    }
    uint64_t u64() const { uint64_t x = 0; size_t n = be.size(); for (size_t i = n > 8 ? n - 8 : 0; i < n; ++i) x = (x << 8) | be[i]; return x; }
    static Val of(uint64_t x, size_t nbytes) { Val v(nbytes); for (size_t i = 0; i < nbytes && i < 8; ++i) v.be[nbytes - 1 - i] = (uint8_t)(x >> (8 * i)); return v; }
    bool is_zero() const { for (uint8_t b : be) if (b) return false; return true; }
    unsigned top_bit() const { for (unsigned i = (unsigned)be.size() * 8; i-- > 0;) if (bit(i)) return i; return 0; }
    std::string hexs() const { return verif::hex(be.data(), be.size(), 64); }
};

static Bytes fit(const Val& v, size_t n) {  // exactly n bytes, right aligned
    Bytes b(n, 0);
    size_t m = v.be.size();
    for (size_t i = 0; i < n && i < m; ++i) b[n - 1 - i] = v.be[m - 1 - i];
    return b;
}
static std::string hexs(const Bytes& b) { std::ostringstream os; rhex(os, b.data(), b.size()); return os.str(); }

enum VKind { VK_UINT, VK_BOOL, VK_ENUM, VK_SMALL, VK_BYTES, VK_VAR };

// how a parameter type is built from / rendered as a bit string
template <class VT, class E = void> struct VTraits {  // fallback: variable-size values, decoded by genlib's generators
    typedef VT ArgT;
    static const VKind kind = VK_VAR;
    static unsigned width() { return 0; }
    static unsigned repr_bits() { return 0; }
    static VT make(const Val& v) { Src s(v.be.data(), v.be.size()); return genv(s, Tag<VT>()); }
    static std::string text(const Val& v) { return rstr(make(v)); }
};
template <class T> struct VTraits<T, typename std::enable_if<std::is_integral<T>::value && !std::is_same<T, bool>::value>::type> {
    typedef T ArgT;
    static const VKind kind = VK_UINT;
    static unsigned width() { return 8 * sizeof(T); }
    static unsigned repr_bits() { return 8 * sizeof(T); }
    static T make(const Val& v) { return (T)v.u64(); }
    static std::string text(const Val& v) { return std::to_string((unsigned long long)(typename std::make_unsigned<T>::type)make(v)); }
};
template <> struct VTraits<bool> {
    typedef bool ArgT;
    static const VKind kind = VK_BOOL;
    static unsigned width() { return 1; }
    static unsigned repr_bits() { return 1; }
    static bool make(const Val& v) { return (v.u64() & 1) != 0; }
    static std::string text(const Val& v) { return make(v) ? "1" : "0"; }
};
template <class T> struct VTraits<T, typename std::enable_if<std::is_enum<T>::value>::type> {
    typedef T ArgT;
    static const VKind kind = VK_ENUM;
    static unsigned width() { return sizeof(T) >= 2 ? 16 : 8; }   // enumerators never exceed 16 bits in libtins' headers
    static unsigned repr_bits() { return width(); }
    static T make(const Val& v) { return (T)(unsigned)v.u64(); }
    static std::string text(const Val& v) { return std::to_string((long long)(unsigned)v.u64()); }
};
template <size_t n> struct VTraits<small_uint<n> > {
    typedef typename small_uint<n>::repr_type ArgT;   // the setter is called with the underlying integer
    static const VKind kind = VK_SMALL;
    static unsigned width() { return n; }
    static unsigned repr_bits() { return 8 * sizeof(ArgT); }
    static ArgT make(const Val& v) { return (ArgT)v.u64(); }
    static std::string text(const Val& v) { return std::to_string((unsigned long long)make(v)); }
};
template <size_t n> struct VTraits<HWAddress<n> > {
    typedef HWAddress<n> ArgT;
    static const VKind kind = VK_BYTES;
    static unsigned width() { return 8 * n; }
    static unsigned repr_bits() { return 8 * n; }
    static ArgT make(const Val& v) { Bytes b = fit(v, n); return HWAddress<n>(b.data()); }
    static std::string text(const Val& v) { return hexs(fit(v, n)); }
};
template <> struct VTraits<IPv4Address> {
    typedef IPv4Address ArgT;
    static const VKind kind = VK_BYTES;
    static unsigned width() { return 32; }
    static unsigned repr_bits() { return 32; }
    static std::string text(const Val& v) {
        Bytes b = fit(v, 4);
        return std::to_string(b[0]) + "." + std::to_string(b[1]) + "." + std::to_string(b[2]) + "." + std::to_string(b[3]);
    }
    static ArgT make(const Val& v) { return IPv4Address(text(v)); }   // documented dotted-quad constructor
};
template <> struct VTraits<IPv6Address> {
    typedef IPv6Address ArgT;
    static const VKind kind = VK_BYTES;
    static unsigned width() { return 128; }
    static unsigned repr_bits() { return 128; }
    static ArgT make(const Val& v) { Bytes b = fit(v, 16); return IPv6Address(b.data()); }
    static std::string text(const Val& v) { return hexs(fit(v, 16)); }
};
template <> struct VTraits<STP::bpdu_id_type> {   // IEEE 802.1D bridge identifier: priority(4) system id extension(12) address(48)
    typedef STP::bpdu_id_type ArgT;
    static const VKind kind = VK_BYTES;
    static unsigned width() { return 64; }
    static unsigned repr_bits() { return 64; }
    static ArgT make(const Val& v) {
        Bytes b = fit(v, 8);
        return STP::bpdu_id_type((uint8_t)(b[0] >> 4), (uint16_t)(((b[0] & 0x0f) << 8) | b[1]), STP::address_type(b.data() + 2));
    }
    static std::string text(const Val& v) {
        Bytes b = fit(v, 8);
        return "{priority=" + std::to_string(b[0] >> 4) + ";ext_id=" + std::to_string(((b[0] & 0x0f) << 8) | b[1]) + ";id=" + hexs(Bytes(b.begin() + 2, b.end())) + ";}";
    }
};

struct RowInfo {
    const char* owner;    // class that declares the setter
    const char* name;     // setter
    const char* getter;
    char kind;            // S / T / D / O
    VKind vk;
    unsigned width;       // value bits of the parameter type (small_uint<n>: n)
    unsigned repr_bits;   // bits of the type the caller passes (small_uint<n>: its representation type)
};

// The generated table calls this "SetterCtx"; ours carries one operation on one row.
struct SetterCtx {
    int op = 0;                 // 0: describe the row only, 1: call the setter with *val
    RowInfo info = RowInfo();
    const Val* val = nullptr;
    std::string expect;         // what the getter must render afterwards
    std::string threw;          // demangled exception type, empty if the setter returned
};

template <class P, class VT>
static void do_set(SetterCtx& sc, P& p, void (*fn)(P&, const typename VTraits<VT>::ArgT&)) {
    typedef VTraits<VT> TR;
    sc.threw.clear();
    typename TR::ArgT a = TR::make(*sc.val);
    sc.expect = TR::text(*sc.val);
    try {
        fn(p, a);
    } catch (const std::exception& e) {
        sc.threw = demangled(typeid(e));
    }
}

#define VS(C, K, NAME, GETTER, T) { typedef std::decay<T>::type VT; typedef VTraits<VT> TR; typedef std::remove_reference<decltype(p)>::type PT; \
        sc.info = RowInfo{#C, #NAME, #GETTER, K, TR::kind, TR::width(), TR::repr_bits()}; \
        if (sc.op == 1) do_set<PT, VT>(sc, p, [](PT& o, const TR::ArgT& a) { o.NAME(a); }); }
#define VSP(C, K, NAME, GETTER, N) { sc.info = RowInfo{#C, #NAME, #GETTER, K, VK_BYTES, 8 * N, 8 * N}; \
        if (sc.op == 1) { sc.threw.clear(); Bytes b = fit(*sc.val, N); sc.expect = hexs(b); \
            try { p.NAME(b.data()); } catch (const std::exception& e) { sc.threw = demangled(typeid(e)); } } }

#include "../genlib/setters_gen.inc"

#undef VS
#undef VSP

// ---------------------------------------------------------------------------------------------- rows and classes
struct Row {
    unsigned k = 0;
    RowInfo info = RowInfo();
    const wirepos::Pos* spec = nullptr;
    std::vector<long> learned;    // value bit -> wire bit (MSB-0 index) | -1 no effect | -2 several bits | -3 setter threw
    unsigned eff_width = 0;       // value bits the field can hold (specification if tabled, else type / learned)
    bool map_ok = false;          // learned map is a bijection onto eff_width wire bits
    bool resizes = false;         // specification: the field decides which header variant is used
    std::vector<std::pair<std::string, std::string> > setup_errors;   // (signature, message)
    std::string id() const { return std::string(info.owner) + "." + info.name; }
    bool fixed() const { return info.vk != VK_VAR; }
    bool narrow() const { return info.vk == VK_UINT && eff_width < info.width; }
    unsigned val_bytes() const { unsigned w = std::max(info.width, info.repr_bits); return (w + 7) / 8; }
};
struct ClassInfo {
    const char* name;
    PDU* (*make)();
    PDU* (*parse)(const uint8_t*, uint32_t);
    Bytes (*make_on)(uint8_t);
    std::vector<Row> rows;
    size_t default_size = 0;
    std::string ctor_error;
};

template <class T> static PDU* mk() { return new T(); }
// serialisation of a default-constructed object built on memory pre-filled with `fill`: it must not depend on the fill
// (a constructor that leaves header bits indeterminate would make every before/after comparison meaningless)
template <class T> static T* construct_at(void* m) { return new (m) T(); }
template <> IP* construct_at<IP>(void* m) { return new (m) IP("10.0.0.2", "10.0.0.1"); }   // a parentless IP with source 0.0.0.0 asks the routing table
template <> RawPDU* construct_at<RawPDU>(void* m) { return new (m) RawPDU(std::string()); }
template <class T> static Bytes mk_on(uint8_t fill) {
    void* m = ::operator new(sizeof(T));
    memset(m, fill, sizeof(T));
    T* o = construct_at<T>(m);
    Bytes out;
    try { out = o->serialize(); } catch (const exception_base&) {}
    o->~T();
    ::operator delete(m);
    return out;
}
template <> PDU* mk<IP>() { return new IP("10.0.0.2", "10.0.0.1"); }
template <> PDU* mk<RawPDU>() { return new RawPDU(std::string()); }

static std::vector<ClassInfo> g_classes;
static int g_tier = 0;
static bool g_dump = false;

struct EnumBlock { unsigned ci, ri; uint64_t first, count; bool saturated; };
static std::vector<EnumBlock> g_enum;
static uint64_t g_enum_total = 0;

// ---- specification knowledge that needs the libtins API to be applied ----------------------------------------
// make the object a message variant that carries the (conditional) field
static void force_cond(wirepos::Cond c, PDU& p, Src& s) {
    switch (c) {
        case wirepos::ALWAYS: break;
        case wirepos::ICMP_TIMESTAMP: static_cast<ICMP&>(p).type(s.boolean() ? ICMP::TIMESTAMP_REPLY : ICMP::TIMESTAMP_REQUEST); break;
        case wirepos::ICMP_ADDRMASK: static_cast<ICMP&>(p).type(s.boolean() ? ICMP::ADDRESS_MASK_REPLY : ICMP::ADDRESS_MASK_REQUEST); break;
        case wirepos::ICMP6_RA: static_cast<ICMPv6&>(p).type(ICMPv6::ROUTER_ADVERT); break;
        case wirepos::ICMP6_TARGET: {
            static const ICMPv6::Types T[] = {ICMPv6::NEIGHBOUR_SOLICIT, ICMPv6::NEIGHBOUR_ADVERT, ICMPv6::REDIRECT};
            static_cast<ICMPv6&>(p).type(T[s.pick(3)]);
            break;
        }
        case wirepos::ICMP6_REDIRECT: static_cast<ICMPv6&>(p).type(ICMPv6::REDIRECT); break;
        case wirepos::ICMP6_MLD_QUERY: static_cast<ICMPv6&>(p).type(ICMPv6::MGM_QUERY); break;
        case wirepos::ICMP6_MLD2_QUERY: static_cast<ICMPv6&>(p).type(ICMPv6::MGM_QUERY); static_cast<ICMPv6&>(p).use_mldv2(true); break;
        case wirepos::DOT11_ADDR4: static_cast<Dot11&>(p).to_ds(1); static_cast<Dot11&>(p).from_ds(1); break;
        case wirepos::RTP_EXT: static_cast<RTP&>(p).extension_bit(1); break;
        case wirepos::DHCP6_RELAY: static_cast<DHCPv6&>(p).msg_type(s.boolean() ? DHCPv6::RELAY_REPLY : DHCPv6::RELAY_FORWARD); break;
        case wirepos::DHCP6_CLIENT_SERVER: static_cast<DHCPv6&>(p).msg_type(DHCPv6::SOLICIT); break;
    }
}

typedef std::pair<size_t, size_t> Range;   // [lo, hi) MSB-0 bit indices of the serialisation

// Bits of the serialised header that the protocol defines as computed from the rest of the packet.
static void derived_ranges(const PDU& p, const Bytes& w, std::vector<Range>& out) {
    auto B = [&](size_t byte, size_t n) { out.push_back(Range(byte * 8, (byte + n) * 8)); };
    auto bits = [&](size_t byte, unsigned first, unsigned n) { out.push_back(Range(byte * 8 + first, byte * 8 + first + n)); };
    const uint8_t t = w.empty() ? 0 : w[0];
    if (dynamic_cast<const IP*>(&p)) { bits(0, 4, 4); B(2, 2); B(10, 2); }                   // RFC 791: IHL, total length, header checksum
    else if (dynamic_cast<const TCP*>(&p)) { bits(12, 0, 4); B(16, 2); }                      // RFC 9293: data offset, checksum
    else if (dynamic_cast<const UDP*>(&p)) { B(4, 2); B(6, 2); }                              // RFC 768: length, checksum
    else if (dynamic_cast<const ICMP*>(&p)) { B(2, 2); if (t == 3 || t == 11 || t == 12) B(5, 1); }   // checksum; RFC 4884 length
    else if (dynamic_cast<const ICMPv6*>(&p)) {
        B(2, 2);                                                                                // checksum
        if (t == 1 || t == 3) B(4, 1);                                                         // RFC 4884 4.4 / 4.5 length
        if (t == 143) B(6, 2);                                                                 // RFC 3810 5.2: number of records
        if (t == 130 && w.size() >= 28) B(26, 2);                                              // RFC 3810 5.1: number of sources
    }
    else if (dynamic_cast<const IPv6*>(&p)) B(4, 2);                                          // RFC 8200: payload length
    else if (dynamic_cast<const Dot3*>(&p)) B(12, 2);                                         // IEEE 802.3 length
    else if (dynamic_cast<const EAPOL*>(&p)) {
        B(2, 2);                                                                                // IEEE 802.1X packet body length
        if (dynamic_cast<const RSNEAPOL*>(&p)) B(97, 2);                                       // IEEE 802.11 12.7.2: key data length
        if (const RC4EAPOL* rc4 = dynamic_cast<const RC4EAPOL*>(&p))                           // IEEE 802.1X-2004 7.6.2: key length = octets of the key
            if (!rc4->key().empty()) B(5, 2);                                                   //   that follows (when the frame carries one)
    }
    else if (dynamic_cast<const PPPoE*>(&p)) B(4, 2);                                         // RFC 2516 LENGTH
    else if (dynamic_cast<const IPSecAH*>(&p)) B(1, 1);                                       // RFC 4302 payload length
}
static bool in_ranges(const std::vector<Range>& r, size_t bit) {
    for (const Range& x : r) if (bit >= x.first && bit < x.second) return true;
    return false;
}

// Fields that select the header variant (the header length legitimately depends on them).
static bool spec_resizes(const PDU& sample, const Row& r) {
    const std::string id = r.id();
    if (id == "ICMP.type") return true;                 // RFC 792: timestamp / RFC 950 address mask messages are longer
    if (id == "ICMPv6.type") return true;               // RFC 4861 / 2710 / 3810: per-type fixed parts
    if (id == "DHCPv6.msg_type") return true;           // RFC 8415: relay messages have a 34-byte header, others 4
    if (id == "RTP.extension_bit") return true;         // RFC 3550 5.3.1: the header extension follows iff X = 1
    if ((id == "Dot11.to_ds" || id == "Dot11.from_ds") &&   // IEEE 802.11: address 4 present iff ToDS = FromDS = 1
        (dynamic_cast<const Dot11Data*>(&sample) || dynamic_cast<const Dot11ManagementFrame*>(&sample)))
        return true;
    return false;
}

// Getters that are documented functions of other fields: (class that declares the getter, getter) <- setters
struct Dep { const char* getter; const char* setters; };
static const Dep DEPS[] = {
    {"is_fragmented", " IP.flags IP.fragment_offset "},                                          // ip.h: MF set or offset != 0
    {"src_addr", " Dot11.to_ds Dot11.from_ds Dot11.addr1 Dot11Data.addr2 Dot11Data.addr3 Dot11Data.addr4 "},    // dot11_data.h: chosen by ToDS/FromDS
    {"dst_addr", " Dot11.to_ds Dot11.from_ds Dot11.addr1 Dot11Data.addr2 Dot11Data.addr3 Dot11Data.addr4 "},
    {"bssid_addr", " Dot11.to_ds Dot11.from_ds Dot11.addr1 Dot11Data.addr2 Dot11Data.addr3 Dot11Data.addr4 "},
    {"is_relay_message", " DHCPv6.msg_type "},
};

static const Row* row_by_getter(const ClassInfo& c, const std::string& g) {
    for (const Row& r : c.rows) if (g == r.info.getter) return &r;
    return nullptr;
}
static bool spec_overlap(const wirepos::Pos& a, const wirepos::Pos& b) {
    if (a.dyn != b.dyn) return false;
    for (unsigned i = 0; i < a.width; ++i) {
        size_t x = wirepos::wire_bit(a, i);
        for (unsigned j = 0; j < b.width; ++j) if (wirepos::wire_bit(b, j) == x) return true;
    }
    return false;
}
// may getter g (kind gk) of an object of class c change when row r is set?  Specification / documentation only.
static bool exempt(const ClassInfo& c, const Row& r, char gk, const std::string& g) {
    if (gk == 'S' && (r.resizes || !r.fixed())) return true;     // header_size / size follow the variant / the value's length
    if (gk == 'D' && !r.fixed()) return true;                     // length fields cover a variable-size value
    const std::string key = " " + r.id() + " ";
    for (const Dep& d : DEPS) if (g == d.getter && strstr(d.setters, key.c_str())) return true;
    if (r.spec) {   // same wire bits (possibly in another message variant)
        const Row* o = row_by_getter(c, g);
        const wirepos::Pos* op = o ? o->spec : nullptr;
        if (!op) op = wirepos::find(r.info.owner, g, true);
        if (op && spec_overlap(*r.spec, *op)) return true;
    }
    return false;
}

// ---------------------------------------------------------------------------------------------- object handling
static bool set_field(PDU& p, const Row& r, const Val& v, SetterCtx& sc) {
    sc.op = 1;
    sc.val = &v;
    return apply_setter(p, r.k, sc);
}
static bool serialize(PDU& p, Bytes& out, std::string* why = nullptr) {
    try {
        out = p.serialize();
        return true;
    } catch (const exception_base& e) {
        if (why) *why = demangled(typeid(e));
        return false;
    }
}
static void attach_inner(PDU& p, const Bytes& payload) { p.inner_pdu(new RawPDU(payload.begin(), payload.end())); }

static std::string bitpos(size_t wb) { return "byte " + std::to_string(wb / 8) + " bit " + std::to_string(wb % 8); }

// value used as the other operand while learning: all zero, except where zero is outside the usable domain
static Val learn_base(const Row& r) {
    Val v(r.val_bytes());
    if (r.id() == "IP.src_addr") { v.set(31, true); v.set(0, true); }   // never 0.0.0.0 on a parentless IP
    return v;
}

static void learn_row(ClassInfo& c, Row& r) {
    { std::unique_ptr<PDU> sample(c.make()); r.resizes = spec_resizes(*sample, r); }
    r.spec = wirepos::find(r.info.owner, r.info.name);
    if (!r.fixed()) return;
    // values outside an enumeration's range are not representable: an enum parameter is as wide as the field it names
    if (r.info.vk == VK_ENUM && r.spec && r.spec->width < r.info.width) r.info.width = r.info.repr_bits = r.spec->width;
    const unsigned W = r.info.width;
    r.learned.assign(W, -1);
    auto err = [&](const char* what, const std::string& msg) {
        r.setup_errors.push_back(std::make_pair("C15:" + r.id() + ":" + what, "class " + std::string(c.name) + ": " + msg));
    };
    size_t hdr = 0;   // header_size() of the last fresh object
    auto fresh = [&](const Val& v, Bytes& ser, std::string& threw) -> bool {
        std::unique_ptr<PDU> p(c.make());
        static const uint8_t Z[8] = {0};
        Src zs(Z, sizeof Z);
        if (r.spec) force_cond(r.spec->cond, *p, zs);
        attach_inner(*p, Bytes{0xde, 0xad});
        SetterCtx sc;
        set_field(*p, r, v, sc);
        threw = sc.threw;
        if (!threw.empty()) return false;
        std::string why;
        if (!serialize(*p, ser, &why)) { threw = "serialize: " + why; return false; }
        hdr = p->header_size();
        std::vector<Range> d;
        derived_ranges(*p, ser, d);
        for (const Range& x : d)
            for (size_t b = x.first; b < x.second && b / 8 < ser.size(); ++b) ser[b / 8] &= (uint8_t)~(0x80u >> (b % 8));
        return true;
    };
    const Val base = learn_base(r);
    Bytes s0;
    std::string threw;
    if (!fresh(base, s0, threw)) { err("setup", "cannot set the base value on a default object: " + threw); return; }
    const size_t hdr0 = hdr;
    for (unsigned i = 0; i < W; ++i) {
        Val v = base;
        v.set(i, !base.bit(i));
        Bytes s1;
        if (!fresh(v, s1, threw)) { r.learned[i] = -3; continue; }
        if (s1.size() != s0.size() && !r.resizes) {
            r.learned[i] = -2;
            err("serialisation-size-changed", "setting value bit " + std::to_string(i) + " changes the serialised size " + std::to_string(s0.size()) + " -> " + std::to_string(s1.size()));
            continue;
        }
        // a variant-selecting field may lengthen the header: its own bits lie in the common prefix
        long found = -1;
        size_t cmp = s0.size();
        if (s1.size() != s0.size()) cmp = std::min(std::min(hdr0, hdr), std::min(s0.size(), s1.size()));
        for (size_t b = 0; b < cmp * 8; ++b) {
            bool x = (s0[b / 8] >> (7 - b % 8)) & 1, y = (s1[b / 8] >> (7 - b % 8)) & 1;
            if (x != y) found = found == -1 ? (long)b : -2;
        }
        r.learned[i] = found;
    }
    // effective width: the specification if tabled; the parameter type for range-checked types; else what was learned
    unsigned top_mapped = 0;
    for (unsigned i = 0; i < W; ++i) if (r.learned[i] >= 0) top_mapped = i + 1;
    if (r.spec) r.eff_width = r.spec->width - r.spec->scale_shift;
    else if (r.info.vk == VK_UINT || r.info.vk == VK_ENUM) r.eff_width = (r.info.kind == 'D' || top_mapped == 0) ? W : top_mapped;
    else r.eff_width = W;
    if (r.eff_width > W) { err("setup", "specified width exceeds the parameter type"); r.eff_width = W; }
    if (r.info.kind == 'D') return;   // the serialiser overwrites derived fields: no wire clause
    // (a) bijection onto eff_width distinct wire bits; no value bit above the field's width reaches the wire
    bool ok = true;
    std::string detail;
    std::vector<long> seen;
    for (unsigned i = 0; i < W; ++i) {
        long b = r.learned[i];
        if (i < r.eff_width) {
            if (b < 0) { ok = false; detail += " value bit " + std::to_string(i) + (b == -1 ? " reaches no wire bit;" : b == -2 ? " changes several wire bits;" : " is rejected;"); }
            else if (std::find(seen.begin(), seen.end(), b) != seen.end()) { ok = false; detail += " value bit " + std::to_string(i) + " shares " + bitpos((size_t)b) + ";"; }
            else seen.push_back(b);
        } else if (b >= 0 || b == -2) {
            ok = false;
            detail += " value bit " + std::to_string(i) + " is above the field's " + std::to_string(r.eff_width) + " bits but changes the wire;";
        }
    }
    r.map_ok = ok && r.eff_width > 0;
    if (!ok) err("learned-map-not-bijective", detail);
    // (b) the independent table
    if (r.spec && r.map_ok) {
        size_t shift = 8 * wirepos::dyn_shift(r.spec->dyn, s0.data(), s0.size());
        for (unsigned i = 0; i < r.eff_width; ++i) {
            size_t want = wirepos::wire_bit(*r.spec, i + r.spec->scale_shift) + shift;
            if ((size_t)r.learned[i] != want) {
                err("wire-position", "value bit " + std::to_string(i) + " is serialised at " + bitpos((size_t)r.learned[i]) + ", the specification puts it at " + bitpos(want));
                break;
            }
        }
    }
}

static void check_disjoint(ClassInfo& c) {
    for (size_t a = 0; a < c.rows.size(); ++a)
        for (size_t b = a + 1; b < c.rows.size(); ++b) {
            Row &x = c.rows[a], &y = c.rows[b];
            if (!x.map_ok || !y.map_ok) continue;
            bool alias = x.spec && y.spec && spec_overlap(*x.spec, *y.spec);
            if (alias) continue;
            for (unsigned i = 0; i < x.eff_width; ++i)
                for (unsigned j = 0; j < y.eff_width; ++j)
                    if (x.learned[i] == y.learned[j]) {
                        // conditional fields of different message variants may reuse positions
                        if (x.spec && y.spec && x.spec->cond != y.spec->cond) goto next_pair;
                        x.setup_errors.push_back(std::make_pair("C15:" + x.id() + ":mask-overlaps:" + y.info.name,
                                                                "class " + std::string(c.name) + ": " + x.id() + " and " + y.id() + " both write " + bitpos((size_t)x.learned[i])));
                        goto next_pair;
                    }
        next_pair:;
        }
}

static unsigned enum_limit() { return g_tier ? 16 : 8; }

static void init_tables() {
    if (!g_classes.empty()) return;
#define X(C) if (std::string(#C) != "RadioTap" && std::string(#C) != "RawPDU") g_classes.push_back(ClassInfo{#C, mk<Tins::C>, parse_class<Tins::C>, mk_on<Tins::C>, {}, 0, ""});
    VERIF_ENTRY_CLASSES(X)
#undef X
    for (ClassInfo& c : g_classes) {
        std::unique_ptr<PDU> p(c.make());
        c.default_size = p->header_size();
        unsigned n = n_setters(*p);
        for (unsigned k = 0; k < n; ++k) {
            SetterCtx sc;
            sc.op = 0;
            if (!apply_setter(*p, k, sc)) continue;
            if (!strchr("STD", sc.info.kind)) continue;
            Row r;
            r.k = k;
            r.info = sc.info;
            c.rows.push_back(r);
        }
    }
    g_classes.erase(std::remove_if(g_classes.begin(), g_classes.end(), [](const ClassInfo& c) { return c.rows.empty(); }), g_classes.end());
    for (ClassInfo& c : g_classes) {
        Bytes a = c.make_on(0x00), b = c.make_on(0xff);
        if (a != b) c.ctor_error = "default-constructed " + std::string(c.name) + " serialises as " + verif::hex(a, 64) + " on zeroed memory and as " + verif::hex(b, 64) + " on 0xff-filled memory";
        for (Row& r : c.rows) learn_row(c, r);
        check_disjoint(c);
    }
    // enumeration index space: (row, every value of the type the caller passes) for rows whose type has <= limit bits
    g_enum.clear();
    g_enum_total = 0;
    for (unsigned ci = 0; ci < g_classes.size(); ++ci)
        for (unsigned ri = 0; ri < g_classes[ci].rows.size(); ++ri) {
            const Row& r = g_classes[ci].rows[ri];
            if (!r.fixed()) continue;
            unsigned bits = r.info.vk == VK_ENUM ? r.eff_width : r.info.repr_bits;
            if (bits == 0 || bits > enum_limit()) continue;
            g_enum.push_back(EnumBlock{ci, ri, g_enum_total, 1ULL << bits, false});
            g_enum_total += 1ULL << bits;
        }
    // second block: every fixed-size field (any width) x {0, all ones, 1010..} on an object whose OTHER fields were all
    // set to their maximum first ("saturated" prior state: a setter that clears a neighbour's bit shows deterministically)
    for (unsigned ci = 0; ci < g_classes.size(); ++ci)
        for (unsigned ri = 0; ri < g_classes[ci].rows.size(); ++ri) {
            if (!g_classes[ci].rows[ri].fixed()) continue;
            g_enum.push_back(EnumBlock{ci, ri, g_enum_total, 3, true});
            g_enum_total += 3;
        }
    if (g_dump) {
        unsigned nrows = 0, tabled = 0, mapped = 0;
        for (const ClassInfo& c : g_classes)
            for (const Row& r : c.rows) {
                ++nrows;
                if (r.spec) ++tabled;
                if (r.map_ok) ++mapped;
                std::string m;
                for (unsigned i = 0; i < r.learned.size() && i < 24; ++i) m += (i ? "," : "") + std::to_string(r.learned[i]);
                fprintf(stderr, "C15ROW %-22s %-28s kind=%c vk=%d width=%u repr=%u eff=%u spec=%s map_ok=%d narrow=%d resizes=%d learned=[%s%s]\n", c.name, r.id().c_str(),
                        r.info.kind, (int)r.info.vk, r.info.width, r.info.repr_bits, r.eff_width, r.spec ? "yes" : "no", (int)r.map_ok, (int)r.narrow(), (int)r.resizes, m.c_str(),
                        r.learned.size() > 24 ? ",..." : "");
                for (auto& e : r.setup_errors) fprintf(stderr, "C15ERR   %s | %s\n", e.first.c_str(), e.second.c_str());
            }
        fprintf(stderr, "C15SUM classes=%zu rows=%u tabled=%u mapped=%u enum_rows=%zu enum_cases=%llu\n", g_classes.size(), nrows, tabled, mapped, g_enum.size(),
                (unsigned long long)g_enum_total);
    }
}

// ---------------------------------------------------------------------------------------------- one case
struct Case {
    unsigned ci = 0, ri = 0;
    int mode = 0;            // 0 default, 1 storm, 2 parsed, 3 parsed + storm
    bool enumerated = false;
    bool overflow = false;
    bool inner = false;
    bool force_variant = true;
    bool saturated = false;   // enumerated block 2: all other fields at their maximum
    Bytes payload;
    Val v;
    std::vector<std::string> program;
};

static Val gen_value(Src& s, const Row& r) {
    const unsigned nb = r.val_bytes();
    if (!r.fixed()) { Val v; v.be = s.bytes(gen_len(s, 48)); return v; }
    const unsigned w = r.eff_width ? r.eff_width : r.info.width;
    if (w <= 64) return Val::of(s.edgy(w), nb);
    Val v(nb);
    switch (s.weighted({5, 1, 1, 2, 1})) {
        case 0: { Bytes b = s.bytes(nb); v.be = b; break; }
        case 1: break;
        case 2: std::fill(v.be.begin(), v.be.end(), 0xff); break;
        case 3: v.set((unsigned)s.range(0, w - 1), true); break;
        default: for (size_t i = 0; i < nb; ++i) v.be[i] = (i & 1) ? 0x55 : 0xaa; break;
    }
    for (unsigned i = w; i < nb * 8; ++i) v.set(i, false);
    return v;
}
// a value that does not fit the field but fits the type the caller passes
static Val gen_too_large(Src& s, const Row& r) {
    const unsigned nb = r.val_bytes(), top = r.info.repr_bits, w = r.eff_width;
    uint64_t x = s.edgy(top > 64 ? 64 : top);
    uint64_t fieldmax = w >= 64 ? UINT64_MAX : ((1ULL << w) - 1);
    if (x <= fieldmax) x |= 1ULL << (w + (unsigned)s.range(0, top - w - 1));
    return Val::of(x, nb);
}

static std::string view_text(const LayerView& v) {
    std::string t;
    for (const FieldView& f : v.fields) t += f.name + "=" + f.value + ";";
    return t;
}

static void run_case(Src& s, Ctx& ctx, Case& cs) {
    ClassInfo& c = g_classes[cs.ci];
    Row& r = c.rows[cs.ri];
    const std::string id = r.id();
    const std::string sig = "C15:" + id + ":";

    // setup findings of this row (learned map, table) are reported by the cases that exercise the row
    for (auto& e : r.setup_errors) ctx.report(e.first, e.second);
    if (!c.ctor_error.empty()) ctx.report("C15:" + std::string(c.name) + ":default-object-indeterminate-bits", c.ctor_error);

    // ---- prior state
    std::unique_ptr<PDU> p;
    if (cs.mode >= 2) {
        size_t len = c.default_size + (size_t)s.range(0, 40);
        Bytes raw = s.bytes(len);
        try {
            p.reset(c.parse(raw.data(), (uint32_t)raw.size()));
            if (p) p->inner_pdu(nullptr);
            cs.program.push_back("parse(" + verif::hex(raw, 96) + ")");
        } catch (const malformed_packet&) {
            ctx.label("parse-rejected");
        }
    }
    if (!p) { p.reset(c.make()); if (cs.mode >= 2) cs.mode = 1; }
    if (cs.mode == 1 || cs.mode == 3) {
        // storm steps come last in the choice sequence, each one length-prefixed (0..31 bytes)
        for (unsigned i = 0; i < 10 && s.remaining() > 0; ++i) {
            Bytes step = s.bytes(s.u8() & 31);
            if (step.empty()) continue;
            Src sub(step.data(), step.size());
            verif::SetterCtx sc(sub, "SDT");
            unsigned k = c.rows[sub.pick(c.rows.size())].k;
            if (verif::apply_setter(*p, k, sc) && sc.applied) cs.program.push_back(sc.describe());
        }
    }
    if (cs.saturated) {
        for (const Row& q : c.rows) {
            if (&q == &r || !q.fixed() || q.info.kind == 'D' || q.resizes || q.eff_width == 0) continue;
            if (q.spec && r.spec && spec_overlap(*q.spec, *r.spec)) continue;
            Val ones(q.val_bytes());
            for (unsigned i = 0; i < q.eff_width; ++i) ones.set(i, true);
            SetterCtx qs;
            set_field(*p, q, ones, qs);
        }
        cs.program.push_back("every other field := all ones");
        ctx.label("state:saturated");
    }
    bool cond_forced = false;
    if (r.spec && r.spec->cond != wirepos::ALWAYS && cs.force_variant) {
        Src fs(cs.payload.data(), cs.payload.size());
        force_cond(r.spec->cond, *p, fs);
        cond_forced = true;
        ctx.label("cond-forced");
    }
    if (IP* ip = dynamic_cast<IP*>(p.get())) {
        if (ip->src_addr() == IPv4Address()) { ip->src_addr("10.0.0.1"); ctx.excluded("parentless-ip-source-0.0.0.0"); }
    }
    // next-protocol tags are rewritten from the payload's type; an unrecognised payload keeps them
    cs.inner = cs.inner || cs.enumerated || r.info.kind == 'T';
    if (cs.inner) { attach_inner(*p, cs.payload); ctx.label("with-raw-payload"); }

    // normalise: serialising writes derived values back into the object
    Bytes ser0, ser_before;
    std::string why;
    bool serialisable = serialize(*p, ser0, &why) && serialize(*p, ser_before, &why);
    if (!serialisable) ctx.label("prior-state-not-serialisable");
    const LayerView before = view_layer(*p);

    // ---- the operation
    SetterCtx sc;
    set_field(*p, r, cs.v, sc);
    const LayerView after = view_layer(*p);

    static const char* VK[] = {"uint", "bool", "enum", "small_uint", "bytes", "variable"};
    ctx.label(std::string("kind:") + r.info.kind);
    ctx.label(std::string("type:") + VK[r.info.vk]);
    if (!cs.saturated) ctx.label(cs.mode == 0 ? "state:default" : cs.mode == 1 ? "state:setter-storm" : cs.mode == 2 ? "state:parsed" : "state:parsed+storm");
    ctx.label(r.spec ? "position:specified" : (r.map_ok ? "position:learned-only" : "position:none"));
    if (r.fixed()) {
        unsigned w = r.eff_width;
        ctx.label(w == 1 ? "width:1" : w < 8 ? "width:2-7" : w == 8 ? "width:8" : w <= 16 ? "width:9-16" : w <= 32 ? "width:17-32" : "width:33+");
    }
    if (ctx.logging()) {
        ctx.log("class " + std::string(c.name) + " row " + id + " kind " + r.info.kind + (cs.enumerated ? " [enumerated]" : "") + " mode " + std::to_string(cs.mode) +
                (cs.inner ? " +RawPDU payload" : "") + (cond_forced ? " +variant forced" : ""));
        for (auto& l : cs.program) ctx.log("  prior: " + l);
        ctx.log("  before: " + view_text(before));
        ctx.log("  wire before: " + (serialisable ? verif::hex(ser_before, 128) : "<" + why + ">"));
        ctx.log("  " + id + "(" + (r.fixed() ? "0x" + cs.v.hexs() : sc.expect) + ")" + (cs.overflow ? " [too large for the field]" : "") + (sc.threw.empty() ? "" : " threw " + sc.threw));
        ctx.log("  after:  " + view_text(after));
    }

    auto unchanged = [&](const char* what) {
        VCHECK(ctx, before.fields.size() == after.fields.size(), sig + what, "getter list changed");
        for (size_t i = 0; i < before.fields.size(); ++i)
            VCHECK(ctx, before.fields[i].value == after.fields[i].value, sig + what,
                   c.name << ": " << id << "(0x" << cs.v.hexs() << ") threw " << sc.threw << " but " << before.fields[i].name << " changed from " << before.fields[i].value
                          << " to " << after.fields[i].value);
        if (serialisable) {
            Bytes sa;
            if (serialize(*p, sa)) VCHECK(ctx, sa == ser_before, sig + what, c.name << ": " << id << " threw " << sc.threw << " but the serialisation changed");
        }
    };

    if (cs.overflow) {
        // clause 3
        if (r.info.vk == VK_SMALL) {
            ctx.label("too-large:small_uint");
            VCHECK(ctx, sc.threw == "Tins::value_too_large", sig + "too-large-accepted",
                   c.name << ": " << id << "(" << cs.v.u64() << ") exceeds " << r.eff_width << " bits but " << (sc.threw.empty() ? std::string("was accepted") : "threw " + sc.threw)
                          << "; getter now " << (after.find(r.info.getter) ? after.find(r.info.getter)->value : "?"));
            if (!sc.threw.empty()) unchanged("rejected-but-modified");
        } else {
            ctx.label("too-large:plain-integer");
            VCHECK(ctx, !sc.threw.empty(), sig + "silent-truncation",
                   c.name << ": " << id << "(" << cs.v.u64() << "): the field holds " << r.eff_width << " bits, the " << r.info.width
                          << "-bit parameter is truncated without an error; getter now " << (after.find(r.info.getter) ? after.find(r.info.getter)->value : "?"));
            if (!sc.threw.empty()) unchanged("rejected-but-modified");
        }
        ctx.nontrivial(cs.mode != 0 || cs.saturated);
        return;
    }

    VCHECK(ctx, sc.threw.empty(), sig + "setter-threw", c.name << ": " << id << "(0x" << cs.v.hexs() << ") is representable but threw " << sc.threw);
    if (!sc.threw.empty()) return;

    // clause 1
    const FieldView* g = after.find(r.info.getter);
    VCHECK(ctx, g != nullptr, sig + "no-getter", "getter " << r.info.getter << " not in the view of " << c.name);
    if (g) VCHECK(ctx, g->value == sc.expect, sig + "getter-differs", c.name << ": after " << id << "(" << sc.expect << ") the getter returns " << g->value);

    // clause 2
    VCHECK(ctx, before.fields.size() == after.fields.size(), sig + "neighbour-changed:getter-list", "getter list changed");
    for (size_t i = 0; i < before.fields.size() && i < after.fields.size(); ++i) {
        const FieldView &b = before.fields[i], &a = after.fields[i];
        if (b.name == r.info.getter || b.value == a.value) continue;
        if (exempt(c, r, b.kind, b.name)) { ctx.label("alias-or-derived-getter-moved"); continue; }
        VCHECK(ctx, false, sig + "neighbour-changed:" + b.name,
               c.name << ": " << id << "(" << sc.expect << ") changed " << b.name << " from " << b.value << " to " << a.value);
    }

    // clause 4
    bool wire_checked = false;
    bool wire_applicable = true;
    if (const IPv6* v6 = dynamic_cast<const IPv6*>(p.get())) {
        // RFC 8200 4: with extension headers the upper-layer protocol number lives in the LAST extension header and the
        // fixed header's Next Header names the first one; libtins' next_header() is the upper-layer tag (C04 owns the chain)
        if (id == "IPv6.next_header" && !v6->headers().empty()) { wire_applicable = false; ctx.excluded("ipv6-next-header-behind-extension-headers"); }
    }
    if (serialisable && wire_applicable) {
        Bytes ser_after;
        std::string why2;
        if (!serialize(*p, ser_after, &why2)) {
            ctx.label("state-after-set-not-serialisable");
        } else if (ser_after.size() != ser_before.size()) {
            VCHECK(ctx, r.resizes || !r.fixed(), sig + "serialisation-size-changed",
                   c.name << ": " << id << "(" << sc.expect << ") changed the serialised size " << ser_before.size() << " -> " << ser_after.size());
            ctx.label("header-variant-changed");
        } else if (r.fixed()) {
            if (ctx.logging()) ctx.log("  wire after:  " + verif::hex(ser_after, 128));
            std::vector<Range> mask;
            derived_ranges(*p, ser_before, mask);
            derived_ranges(*p, ser_after, mask);
            Bytes expect = ser_before;
            std::vector<bool> isfield(expect.size() * 8, false);
            bool have_map = false, present = true;
            if (r.info.kind == 'D') {
                have_map = true;   // own bits are derived bits: everything else must stay
            } else if (r.spec) {
                present = wirepos::cond_holds(r.spec->cond, ser_after.data(), ser_after.size()) && wirepos::cond_holds(r.spec->cond, ser_before.data(), ser_before.size());
                if (present) {
                    have_map = true;
                    size_t shift = 8 * wirepos::dyn_shift(r.spec->dyn, ser_after.data(), ser_after.size());
                    for (unsigned j = 0; j < r.spec->width; ++j) {
                        size_t wb = wirepos::wire_bit(*r.spec, j) + shift;
                        if (wb / 8 >= expect.size()) { have_map = false; break; }
                        bool bit = j >= r.spec->scale_shift ? cs.v.bit(j - r.spec->scale_shift) : false;
                        isfield[wb] = true;
                        if (bit) expect[wb / 8] |= (uint8_t)(0x80u >> (wb % 8)); else expect[wb / 8] &= (uint8_t)~(0x80u >> (wb % 8));
                    }
                }
            } else if (r.map_ok) {
                have_map = true;
                for (unsigned i = 0; i < r.eff_width; ++i) {
                    size_t wb = (size_t)r.learned[i];
                    if (wb / 8 >= expect.size()) { have_map = false; break; }
                    isfield[wb] = true;
                    if (cs.v.bit(i)) expect[wb / 8] |= (uint8_t)(0x80u >> (wb % 8)); else expect[wb / 8] &= (uint8_t)~(0x80u >> (wb % 8));
                }
            }
            if (!present) ctx.label("field-absent-in-this-variant");
            if (have_map) {
                wire_checked = true;
                for (size_t b = 0; b < expect.size() * 8; ++b) {
                    bool x = (expect[b / 8] >> (7 - b % 8)) & 1, y = (ser_after[b / 8] >> (7 - b % 8)) & 1;
                    if (x == y || in_ranges(mask, b)) continue;
                    if (isfield[b])
                        VCHECK(ctx, false, sig + "wire-value",
                               c.name << ": after " << id << "(0x" << cs.v.hexs() << ") " << bitpos(b) << " is " << y << ", the specified position holds " << x << "; wire "
                                      << verif::hex(ser_after, 64));
                    else {
                        // name the specified field that owns the clobbered bit (keeps signatures of distinct causes distinct)
                        std::string victim = "unassigned";
                        for (const Row& q : c.rows) {
                            if (!q.spec || &q == &r) continue;
                            size_t sh = 8 * wirepos::dyn_shift(q.spec->dyn, ser_after.data(), ser_after.size());
                            bool hit = false;
                            for (unsigned j = 0; j < q.spec->width && !hit; ++j) hit = wirepos::wire_bit(*q.spec, j) + sh == b;
                            if (hit && wirepos::cond_holds(q.spec->cond, ser_after.data(), ser_after.size())) { victim = q.info.name; break; }
                        }
                        VCHECK(ctx, false, sig + "serialisation-changed-outside-field:" + victim,
                               c.name << ": " << id << "(0x" << cs.v.hexs() << ") changed " << bitpos(b) << " which is neither the field nor a checksum/length; before "
                                      << verif::hex(ser_before, 64) << " after " << verif::hex(ser_after, 64));
                    }
                    break;
                }
            }
        }
    }
    if (wire_checked) ctx.label("wire-checked");
    const bool odd = r.fixed() && (r.eff_width != 8 || (r.spec && (r.spec->first_bit % 8) != 0));
    ctx.nontrivial(odd && (cs.mode != 0 || cs.saturated));
}

}  // namespace c15

using namespace c15;

void prop_setup(Ctx& ctx) {
    g_tier = ctx.tier;
    g_dump = getenv("C15_DUMP") != nullptr;
    init_tables();
}

// Enumerated block: every value of the caller-visible type of every field whose type has <= 8 (quick) / 16 (thorough)
// bits, on a default-constructed object: [0xff][class][row][value be32]
bool prop_enum(uint64_t idx, std::vector<uint8_t>& out) {
    if (idx >= g_enum_total) return false;
    size_t lo = 0, hi = g_enum.size();
    while (hi - lo > 1) { size_t mid = (lo + hi) / 2; if (g_enum[mid].first <= idx) lo = mid; else hi = mid; }
    const EnumBlock& b = g_enum[lo];
    uint32_t v = (uint32_t)(idx - b.first);
    out = {(uint8_t)(b.saturated ? 0xfe : 0xff), (uint8_t)b.ci, (uint8_t)b.ri, (uint8_t)(v >> 24), (uint8_t)(v >> 16), (uint8_t)(v >> 8), (uint8_t)v};
    return true;
}

// ---- format-dependent LLC control field and the two-argument TCP flag accessors (not one-argument table rows) -----------
// IEEE 802.2 control field (bit 0 = least significant bit of the first control octet):
//   I format: bit0 = 0, bits1-7 = N(S); second octet: bit0 = P/F, bits1-7 = N(R)
//   S format: bits0-1 = 01, bits2-3 = supervisory function, bits4-7 = 0; second octet as above
//   U format: one octet, bits0-1 = 11, bit4 = P/F, modifier bits in 2,3,5,6,7
static void llc_case(Src& s, Ctx& ctx) {
    using namespace Tins;
    LLC l;
    static const LLC::Format F[] = {LLC::INFORMATION, LLC::SUPERVISORY, LLC::UNNUMBERED};
    LLC::Format fmt = F[s.pick(3)];
    l.type(fmt);
    unsigned ns = 0, nr = 0, pf = 0, sup = 0, mod = 0, dsap = l.dsap(), ssap = l.ssap();
    std::string hist = std::string("LLC type=") + (fmt == LLC::INFORMATION ? "I" : fmt == LLC::SUPERVISORY ? "S" : "U");
    unsigned steps = 1 + (unsigned)s.range(0, 7);
    auto check = [&](const char* after) {
        std::string tag = std::string("C15:LLC.control:") + after;
        VCHECK(ctx, l.type() == (uint8_t)fmt, tag + ":type", hist);
        if (fmt == LLC::INFORMATION) VCHECK(ctx, l.send_seq_number() == ns, "C15:LLC.send_seq_number:getter-differs-in-state", hist << " N(S) is " << (int)l.send_seq_number() << " expected " << ns);
        if (fmt != LLC::UNNUMBERED) VCHECK(ctx, l.receive_seq_number() == nr, "C15:LLC.receive_seq_number:getter-differs-in-state", hist << " N(R) is " << (int)l.receive_seq_number() << " expected " << nr);
        VCHECK(ctx, (unsigned)l.poll_final() == pf, "C15:LLC.poll_final:getter-differs-in-state", hist);
        if (fmt == LLC::SUPERVISORY) VCHECK(ctx, l.supervisory_function() == sup, "C15:LLC.supervisory_function:getter-differs-in-state", hist);
        if (fmt == LLC::UNNUMBERED) VCHECK(ctx, l.modifier_function() == mod, "C15:LLC.modifier_function:getter-differs-in-state", hist);
        VCHECK(ctx, l.dsap() == dsap && l.ssap() == ssap, "C15:LLC.sap:neighbour-changed", hist);
        // the wire
        PDU::serialization_type y = l.serialize();
        size_t need = fmt == LLC::UNNUMBERED ? 3 : 4;
        VCHECK(ctx, y.size() == need, "C15:LLC.control:serialisation-size", hist << " size " << y.size());
        if (y.size() != need) return;
        VCHECK(ctx, y[0] == dsap && y[1] == ssap, "C15:LLC.sap:wire-value", hist);
        bool ok;
        if (fmt == LLC::INFORMATION) ok = y[2] == (uint8_t)(ns << 1) && y[3] == (uint8_t)((nr << 1) | pf);
        else if (fmt == LLC::SUPERVISORY) ok = y[2] == (uint8_t)(0x01 | (sup << 2)) && y[3] == (uint8_t)((nr << 1) | pf);
        else ok = (y[2] & 0x03) == 0x03 && ((y[2] >> 4) & 1) == pf && ((unsigned)(((y[2] >> 2) & 3) << 3) | (unsigned)(y[2] >> 5)) == mod;
        VCHECK(ctx, ok, "C15:LLC.control:wire-value", hist << " control octets " << hex(y.data() + 2, y.size() - 2));
        LLC q(y.data(), (uint32_t)y.size());
        bool same = q.type() == l.type() && q.send_seq_number() == l.send_seq_number() && q.receive_seq_number() == l.receive_seq_number() &&
                    q.poll_final() == l.poll_final() && q.supervisory_function() == l.supervisory_function() && q.modifier_function() == l.modifier_function();
        VCHECK(ctx, same, "C15:LLC.control:reparse-differs", hist);
    };
    for (unsigned i = 0; i < steps; ++i) {
        unsigned op = (unsigned)s.range(0, 7);
        unsigned v = (unsigned)s.edgy(8);
        std::ostringstream d;
        switch (op) {
            case 0: if (fmt != LLC::INFORMATION) continue;
                    l.send_seq_number((uint8_t)v); d << " N(S)=" << v;
                    if (v > 127) { VCHECK(ctx, false, "C15:LLC.send_seq_number:silent-truncation", hist << d.str()); ns = l.send_seq_number(); } else ns = v;
                    break;
            case 1: if (fmt == LLC::UNNUMBERED) continue;
                    l.receive_seq_number((uint8_t)v); d << " N(R)=" << v;
                    if (v > 127) { VCHECK(ctx, false, "C15:LLC.receive_seq_number:silent-truncation", hist << d.str()); nr = l.receive_seq_number(); } else nr = v;
                    break;
            case 2: pf = v & 1; l.poll_final(pf != 0); d << " P/F=" << pf; break;
            case 3: if (fmt != LLC::SUPERVISORY) continue;
                    sup = v % 3; l.supervisory_function((LLC::SupervisoryFunctions)sup); d << " S=" << sup; break;
            case 4: if (fmt != LLC::UNNUMBERED) continue;
                    mod = v & 31; l.modifier_function((LLC::ModifierFunctions)mod); d << " M=" << mod; break;
            case 5: l.type(fmt); d << " type(same format again)"; break;   // must not disturb any field
            case 6: dsap = v; l.dsap((uint8_t)v); d << " dsap=" << v; break;
            default: ssap = v; l.ssap((uint8_t)v); d << " ssap=" << v; break;
        }
        hist += d.str();
        check("step");
    }
    ctx.label("llc-control-block");
    ctx.hash("llc"); ctx.hash(hist);
    ctx.nontrivial(steps >= 3);
    ctx.sample(hist);
}

// TCP flag bits by name (RFC 9293 / RFC 3168): the per-flag accessors must agree with flags(), with the wire octet and
// with each other's neighbours
static void tcp_flag_case(Src& s, Ctx& ctx) {
    using namespace Tins;
    static const TCP::Flags FL[] = {TCP::FIN, TCP::SYN, TCP::RST, TCP::PSH, TCP::ACK, TCP::URG, TCP::ECE, TCP::CWR};
    static const unsigned MASK[] = {0x01, 0x02, 0x04, 0x08, 0x10, 0x20, 0x40, 0x80};   // position in octet 13 of the TCP header
    static const char* NAME[] = {"FIN", "SYN", "RST", "PSH", "ACK", "URG", "ECE", "CWR"};
    TCP t;
    unsigned model = (unsigned)s.u8();
    t.flags((small_uint<12>)model);
    std::string hist = "TCP flags=" + std::to_string(model);
    unsigned steps = 1 + (unsigned)s.range(0, 5);
    for (unsigned i = 0; i < steps; ++i) {
        unsigned k = (unsigned)s.pick(8), v = s.u8() & 1;
        t.set_flag(FL[k], (small_uint<1>)v);
        model = v ? (model | MASK[k]) : (model & ~MASK[k]);
        hist += std::string(" set_flag(") + NAME[k] + "," + std::to_string(v) + ")";
        for (unsigned j = 0; j < 8; ++j)
            VCHECK(ctx, (unsigned)t.get_flag(FL[j]) == ((model & MASK[j]) ? 1u : 0u), std::string("C15:TCP.set_flag:get_flag-differs:") + NAME[j], hist);
        VCHECK(ctx, ((unsigned)t.flags() & 0xff) == model, "C15:TCP.set_flag:flags()-differs", hist << " flags() = " << (unsigned)t.flags() << " expected " << model);
        VCHECK(ctx, t.has_flags((small_uint<12>)model), "C15:TCP.set_flag:has_flags-differs", hist);
        PDU::serialization_type y = t.serialize();
        VCHECK(ctx, y.size() >= 20 && y[13] == model, "C15:TCP.set_flag:wire-value", hist << " octet 13 = " << (y.size() >= 20 ? (int)y[13] : -1) << " expected " << model);
    }
    ctx.label("tcp-flag-block");
    ctx.hash("tcpflag"); ctx.hash(hist);
    ctx.nontrivial(steps >= 2);
    ctx.sample(hist);
}

// ================================================================================================================
// Coverage extension (2026-10-04): accessors that are neither one-argument table rows nor reached by any generator
// ================================================================================================================
namespace c15x {
using namespace Tins;
using c15::Bytes;

static std::string view_text_of(const LayerView& v) { std::string t; for (const FieldView& f : v.fields) t += f.name + "=" + f.value + ";"; return t; }

// a prior state for a freshly made object: 0 default | 1 setter storm | 2 class(buffer,size) of random bytes | 3 both
template <class T> static std::unique_ptr<T> prior_state(Src& s, Ctx& ctx, size_t min_size, std::string& hist, T* (*make)()) {
    std::unique_ptr<T> p;
    unsigned mode = (unsigned)s.weighted({2, 4, 3, 2});
    if (mode >= 2) {
        Bytes raw = s.bytes(min_size + (size_t)s.range(0, 24));
        try {
            p.reset(new T(raw.data(), (uint32_t)raw.size()));
            p->inner_pdu(nullptr);
            hist += "parse(" + verif::hex(raw, 96) + ")";
        } catch (const malformed_packet&) { ctx.label("parse-rejected"); }
    }
    if (!p) { p.reset(make()); if (mode >= 2) mode = 1; }
    if (mode == 1 || mode == 3) {
        unsigned n = verif::n_setters(*p), steps = 1 + (unsigned)s.range(0, 5);
        for (unsigned i = 0; i < steps && n; ++i) {
            Bytes step = s.bytes(s.u8() & 31);
            Src sub(step.data(), step.size());
            verif::SetterCtx sc(sub, "SDT");
            unsigned k = (unsigned)sub.pick(n);
            if (verif::apply_setter(*p, k, sc) && sc.applied) hist += " " + sc.describe();
        }
    }
    ctx.label(mode == 0 ? "x-state:default" : mode == 1 ? "x-state:setter-storm" : mode == 2 ? "x-state:parsed" : "x-state:parsed+storm");
    return p;
}
template <class T> static T* mk_default() { return new T(); }

// ---- 1. Capability Information bits of the 802.11 management frames (positions: ref/wire_positions.h) -------------------
typedef Dot11ManagementFrame::capability_information CI;
struct CapAcc { const char* name; void (CI::*set)(bool); bool (CI::*get)() const; };
static const CapAcc CAPS[16] = {
    {"ess", &CI::ess, &CI::ess}, {"ibss", &CI::ibss, &CI::ibss}, {"cf_poll", &CI::cf_poll, &CI::cf_poll}, {"cf_poll_req", &CI::cf_poll_req, &CI::cf_poll_req},
    {"privacy", &CI::privacy, &CI::privacy}, {"short_preamble", &CI::short_preamble, &CI::short_preamble}, {"pbcc", &CI::pbcc, &CI::pbcc},
    {"channel_agility", &CI::channel_agility, &CI::channel_agility}, {"spectrum_mgmt", &CI::spectrum_mgmt, &CI::spectrum_mgmt}, {"qos", &CI::qos, &CI::qos},
    {"sst", &CI::sst, &CI::sst}, {"apsd", &CI::apsd, &CI::apsd}, {"radio_measurement", &CI::radio_measurement, &CI::radio_measurement},
    {"dsss_ofdm", &CI::dsss_ofdm, &CI::dsss_ofdm}, {"delayed_block_ack", &CI::delayed_block_ack, &CI::delayed_block_ack},
    {"immediate_block_ack", &CI::immediate_block_ack, &CI::immediate_block_ack},
};

template <class T> static void cap_case(Src& s, Ctx& ctx, const char* cls) {
    const int base_off = wirepos::dot11_capability_offset(cls);
    std::string hist = std::string(cls) + ": ";
    std::unique_ptr<T> p = prior_state<T>(s, ctx, (size_t)base_off + 2, hist, mk_default<T>);
    const std::string C = std::string("C15:") + cls + ".capabilities";
    Bytes w0 = p->serialize(), before = p->serialize();
    auto field_off = [&](const Bytes& w) { return (size_t)base_off + wirepos::dyn_shift(wirepos::DOT11_AFTER_ADDR4, w.data(), w.size()); };
    VCHECK(ctx, before.size() >= field_off(before) + 2, C + ":serialisation-size", hist << " serialises to " << before.size() << " octets");
    // the model starts from the wire: the getters of the prior state must agree with the specified positions
    unsigned model = before[field_off(before)] | (before[field_off(before) + 1] << 8);
    unsigned steps = 1 + (unsigned)s.range(0, 7);
    for (unsigned i = 0; i <= steps; ++i) {
        unsigned k = 0;
        bool v = false;
        LayerView lv0 = view_layer(*p);
        if (i > 0) {
            k = (unsigned)s.pick(16);
            v = s.boolean();
            const int bit = wirepos::dot11_capability_bit(CAPS[k].name);
            (p->capabilities().*CAPS[k].set)(v);
            hist += std::string(" ") + CAPS[k].name + "(" + (v ? "1" : "0") + ")";
            model = v ? (model | (1u << bit)) : (model & ~(1u << bit));
        }
        const std::string sig = i ? C + "." + CAPS[k].name : C;
        // getters: every bit through its own accessor, on the const and on the non-const path
        const T& cp = *p;
        for (unsigned j = 0; j < 16; ++j) {
            const int bit = wirepos::dot11_capability_bit(CAPS[j].name);
            bool want = (model >> bit) & 1;
            bool got = (cp.capabilities().*CAPS[j].get)();
            if (i && j == k) VCHECK(ctx, got == want, sig + ":getter-differs", hist << ": " << CAPS[j].name << "() returns " << got);
            else if (!i) VCHECK(ctx, got == want, sig + ":getter-disagrees-with-wire:" + CAPS[j].name, hist << ": " << CAPS[j].name << "() returns " << got << " but the specified wire bit B" << bit << " is " << want);
            else VCHECK(ctx, got == want, sig + ":neighbour-changed:" + CAPS[j].name, hist << ": " << CAPS[j].name << "() returns " << got << ", expected " << want);
        }
        // every other getter of the frame keeps its value
        if (i) {
            LayerView lv1 = view_layer(*p);
            for (size_t f = 0; f < lv0.fields.size() && f < lv1.fields.size(); ++f) {
                if (lv0.fields[f].name == "capabilities") continue;
                VCHECK(ctx, lv0.fields[f].value == lv1.fields[f].value, sig + ":neighbour-changed:" + lv0.fields[f].name,
                       hist << " changed " << lv0.fields[f].name << " from " << lv0.fields[f].value << " to " << lv1.fields[f].value);
            }
        }
        // the wire: before with exactly the specified bit replaced
        Bytes after = p->serialize();
        VCHECK(ctx, after.size() == before.size(), sig + ":serialisation-size-changed", hist << " " << before.size() << " -> " << after.size());
        if (after.size() != before.size()) return;
        Bytes expect = before;
        size_t off = field_off(expect);
        expect[off] = (uint8_t)model;
        expect[off + 1] = (uint8_t)(model >> 8);
        if (after != expect) {
            bool in_field = true;
            for (size_t b = 0; b < after.size(); ++b) if (after[b] != expect[b] && b != off && b != off + 1) in_field = false;
            VCHECK(ctx, false, sig + (in_field ? ":wire-value" : ":serialisation-changed-outside-field"),
                   hist << ": wire " << verif::hex(after, 64) << ", specified " << verif::hex(expect, 64) << " (Capability Information at octet " << off << ", little endian)");
        }
        // and a parser of those bytes gets the bits back
        T q(after.data(), (uint32_t)after.size());
        const T& cq = q;
        for (unsigned j = 0; j < 16; ++j) {
            const int bit = wirepos::dot11_capability_bit(CAPS[j].name);
            VCHECK(ctx, (cq.capabilities().*CAPS[j].get)() == (bool)((model >> bit) & 1), sig + ":reparse-differs", hist << ": " << CAPS[j].name << " after re-parse");
        }
        before = after;
    }
    ctx.label("dot11-capability-block");
    ctx.label(std::string("cap:") + cls);
    ctx.hash("cap"); ctx.hash(hist);
    ctx.nontrivial(steps >= 2);
    ctx.sample(hist.substr(0, 300));
    if (ctx.logging()) ctx.log(hist);
}
static void dot11_capability_case(Src& s, Ctx& ctx) {
    switch (s.pick(6)) {
        case 0: cap_case<Dot11Beacon>(s, ctx, "Dot11Beacon"); break;
        case 1: cap_case<Dot11ProbeResponse>(s, ctx, "Dot11ProbeResponse"); break;
        case 2: cap_case<Dot11AssocRequest>(s, ctx, "Dot11AssocRequest"); break;
        case 3: cap_case<Dot11AssocResponse>(s, ctx, "Dot11AssocResponse"); break;
        case 4: cap_case<Dot11ReAssocRequest>(s, ctx, "Dot11ReAssocRequest"); break;
        default: cap_case<Dot11ReAssocResponse>(s, ctx, "Dot11ReAssocResponse"); break;
    }
}

// ---- 2. ICMP composite helpers (include/tins/icmp.h; message layouts RFC 792, codes RFC 792 / RFC 1122 3.2.2.5) ----------
// Each helper is documented to set the message type and the fields named by its parameters.  Expectation per helper:
// the header octets it must write (type 0, code 1, identifier 4-5, sequence number 6-7, gateway address 4-7, pointer 4),
// their values, and - for every other octet and every getter that does not read one of those octets - no change.
// set_echo_* / set_info_*: the documentation names id and seq only and RFC 792 fixes code 0 for these messages; libtins
// resets the code for the information messages and keeps it for echo: no claim on the code octet for these four.
static void icmp_helper_case(Src& s, Ctx& ctx) {
    std::string hist = "ICMP: ";
    std::unique_ptr<ICMP> p = prior_state<ICMP>(s, ctx, 8, hist, mk_default<ICMP>);
    Bytes payload = s.bytes((size_t)s.range(0, 3));
    if (s.boolean()) { p->inner_pdu(new RawPDU(payload.begin(), payload.end())); hist += " +RawPDU(" + verif::hex(payload, 8) + ")"; }
    Bytes w0, before;
    try { w0 = p->serialize(); before = p->serialize(); } catch (const exception_base&) { ctx.label("prior-state-not-serialisable"); return; }
    const LayerView lv0 = view_layer(*p);
    static const char* NAME[] = {"set_echo_request", "set_echo_reply", "set_info_request", "set_info_reply", "set_dest_unreachable",
                                 "set_time_exceeded", "set_param_problem", "set_source_quench", "set_redirect"};
    const unsigned op = (unsigned)s.pick(9);
    const std::string sig = std::string("C15:ICMP.") + NAME[op];
    // expectation: octet -> value; -1 = written but no claim on the value; -2 = must differ from 0
    std::map<size_t, int> want;
    std::map<std::string, std::string> getters;   // named getters and their expected rendering
    uint16_t id = (uint16_t)s.edgy(16), seq = (uint16_t)s.edgy(16);
    uint8_t code = (uint8_t)s.edgy(8), octet = (uint8_t)s.edgy(8);
    bool flag = s.boolean();
    Bytes gwb = s.bytes(4);
    std::string gws = std::to_string(gwb[0]) + "." + std::to_string(gwb[1]) + "." + std::to_string(gwb[2]) + "." + std::to_string(gwb[3]);
    std::ostringstream call;
    auto echo_like = [&](unsigned type) {
        want[0] = (int)type; want[1] = -1; want[4] = id >> 8; want[5] = id & 0xff; want[6] = seq >> 8; want[7] = seq & 0xff;
        getters["type"] = std::to_string(type); getters["id"] = std::to_string(id); getters["sequence"] = std::to_string(seq);
        call << NAME[op] << "(" << id << "," << seq << ")";
    };
    switch (op) {
        case 0: p->set_echo_request(id, seq); echo_like(8); break;      // RFC 792: echo = 8
        case 1: p->set_echo_reply(id, seq); echo_like(0); break;        //          echo reply = 0
        case 2: p->set_info_request(id, seq); echo_like(15); break;     //          information request = 15
        case 3: p->set_info_reply(id, seq); echo_like(16); break;       //          information reply = 16
        case 4: p->set_dest_unreachable(); want[0] = 3; getters["type"] = "3"; call << NAME[op] << "()"; break;
        case 5:  // RFC 792 time exceeded = 11; code 0 = time to live exceeded in transit, 1 = fragment reassembly time exceeded
            p->set_time_exceeded(flag); want[0] = 11; want[1] = flag ? 0 : 1;
            getters["type"] = "11"; getters["code"] = flag ? "0" : "1"; call << NAME[op] << "(" << flag << ")"; break;
        case 6:  // RFC 792 parameter problem = 12; code 0 = the pointer (octet 4) indicates the error; without a pointer the code is not 0
            p->set_param_problem(flag, octet); want[0] = 12; getters["type"] = "12";
            if (flag) { want[1] = 0; want[4] = octet; getters["code"] = "0"; getters["pointer"] = std::to_string(octet); }
            else want[1] = -2;
            call << NAME[op] << "(" << flag << "," << (int)octet << ")"; break;
        case 7: p->set_source_quench(); want[0] = 4; getters["type"] = "4"; call << NAME[op] << "()"; break;
        default:  // RFC 792 redirect = 5; gateway internet address in octets 4-7
            p->set_redirect(code, IPv4Address(gws)); want[0] = 5; want[1] = code;
            for (size_t i = 0; i < 4; ++i) want[4 + i] = gwb[i];
            getters["type"] = "5"; getters["code"] = std::to_string(code); getters["gateway"] = gws;
            call << NAME[op] << "(" << (int)code << "," << gws << ")"; break;
    }
    hist += " " + call.str();
    if (ctx.logging()) { ctx.log(hist); ctx.log("  before: " + view_text_of(lv0)); }
    const LayerView lv1 = view_layer(*p);
    if (ctx.logging()) ctx.log("  after:  " + view_text_of(lv1));
    // getters
    for (size_t f = 0; f < lv0.fields.size() && f < lv1.fields.size(); ++f) {
        const FieldView &a = lv0.fields[f], &b = lv1.fields[f];
        auto g = getters.find(a.name);
        if (g != getters.end()) { VCHECK(ctx, b.value == g->second, sig + ":getter-differs:" + a.name, hist << ": " << a.name << "() returns " << b.value << ", expected " << g->second); continue; }
        if (a.kind == 'S' || a.kind == 'D' || a.value == b.value) continue;
        // a getter that reads one of the written octets may move (RFC 792 "rest of header" variants share octets 4-7)
        const wirepos::Pos* pos = wirepos::find("ICMP", a.name);
        if (!pos) pos = wirepos::find("ICMP", a.name, true);
        bool shares = false;
        if (pos) for (auto& kv : want) if (kv.first >= pos->byte_off && kv.first < pos->byte_off + (size_t)(pos->width + 7) / 8) shares = true;
        if (shares) { ctx.label("alias-or-derived-getter-moved"); continue; }
        VCHECK(ctx, false, sig + ":neighbour-changed:" + a.name, hist << " changed " << a.name << " from " << a.value << " to " << b.value);
    }
    // wire: the first 8 octets (RFC 792 common header), and everything behind them when the message keeps its size
    Bytes after;
    try { after = p->serialize(); } catch (const exception_base&) { ctx.label("state-after-set-not-serialisable"); return; }
    VCHECK(ctx, after.size() >= 8 && before.size() >= 8, sig + ":serialisation-size", hist);
    std::vector<c15::Range> mask;
    c15::derived_ranges(*p, before, mask);
    c15::derived_ranges(*p, after, mask);
    const size_t cmp = after.size() == before.size() ? after.size() : 8;
    if (after.size() != before.size()) ctx.label("header-variant-changed");
    for (size_t b = 0; b < cmp; ++b) {
        auto w = want.find(b);
        if (w != want.end() && w->second == -1) continue;
        bool derived = true;
        for (unsigned k = 0; k < 8; ++k) if (!c15::in_ranges(mask, b * 8 + k)) derived = false;
        if (derived) continue;
        if (w != want.end() && w->second == -2) { VCHECK(ctx, after[b] != 0, sig + ":wire-value", hist << ": octet " << b << " is 0"); continue; }
        int expect = w != want.end() ? w->second : before[b];
        VCHECK(ctx, after[b] == expect, sig + (w != want.end() ? ":wire-value" : ":serialisation-changed-outside-field"),
               hist << ": octet " << b << " is " << (int)after[b] << ", expected " << expect << "; before " << verif::hex(before, 32) << " after " << verif::hex(after, 32));
    }
    // a parser of those bytes gets the named fields back
    try {
        ICMP q(after.data(), (uint32_t)after.size());
        LayerView lq = view_layer(q);
        for (auto& g : getters) {
            const FieldView* f = lq.find(g.first);
            VCHECK(ctx, f && f->value == g.second, sig + ":reparse-differs:" + g.first, hist << ": " << g.first << " after re-parse " << (f ? f->value : "?") << ", expected " << g.second);
        }
    } catch (const malformed_packet&) { VCHECK(ctx, false, sig + ":reparse-rejected", hist << " wire " << verif::hex(after, 64)); }
    ctx.label("icmp-helper-block");
    ctx.label(std::string("icmp:") + NAME[op]);
    ctx.hash("icmphelper"); ctx.hash(hist);
    ctx.nontrivial(true);
    ctx.sample(hist.substr(0, 300));
}

// ---- 3. LLC(dsap, ssap), add_xid_information, clear_information_fields (include/tins/llc.h, IEEE 802.2) -------------------
// LLC(dsap, ssap): "The control field is set to 0": two zero control octets = an I-format PDU with N(S) = N(R) = P = 0.
// add_xid_information: "Only applied if format is UNNUMBERED and function is XID"; IEEE 802.2 5.4.1.1.2: the XID information
// field is three octets (format identifier, types/classes, receive window) that follow the control octet (XID = 0xAF / 0xBF).
// clear_information_fields: "Delete all the information fields added".
static void llc_info_case(Src& s, Ctx& ctx) {
    unsigned dsap = (unsigned)s.edgy(8), ssap = (unsigned)s.edgy(8);
    bool two_arg = !s.chance(20);
    std::unique_ptr<LLC> l(two_arg ? new LLC((uint8_t)dsap, (uint8_t)ssap) : new LLC());
    std::string hist = two_arg ? "LLC(" + std::to_string(dsap) + "," + std::to_string(ssap) + ")" : "LLC()";
    if (!two_arg) { l->dsap((uint8_t)dsap); l->ssap((uint8_t)ssap); hist += " dsap=" + std::to_string(dsap) + " ssap=" + std::to_string(ssap); }
    {
        VCHECK(ctx, l->dsap() == dsap && l->ssap() == ssap, "C15:LLC.LLC(dsap,ssap):getter-differs", hist << ": dsap() " << (int)l->dsap() << " ssap() " << (int)l->ssap());
        VCHECK(ctx, l->group() == (bool)(dsap & 1) && l->response() == (bool)(ssap & 1), "C15:LLC.LLC(dsap,ssap):getter-differs", hist << ": group/response");
        VCHECK(ctx, l->type() == LLC::INFORMATION && l->send_seq_number() == 0 && l->receive_seq_number() == 0 && !l->poll_final(), "C15:LLC.LLC(dsap,ssap):control-not-zero", hist);
        Bytes y = l->serialize();
        Bytes want = {(uint8_t)dsap, (uint8_t)ssap, 0, 0};
        VCHECK(ctx, y == want, "C15:LLC.LLC(dsap,ssap):wire-value", hist << " serialises as " << verif::hex(y, 16));
    }
    static const LLC::Format F[] = {LLC::UNNUMBERED, LLC::INFORMATION, LLC::SUPERVISORY};
    static const LLC::ModifierFunctions M[] = {LLC::XID, LLC::UI, LLC::TEST, LLC::SABME, LLC::DISC, LLC::UA, LLC::DM, LLC::FRMR};
    LLC::Format fmt = F[s.weighted({6, 1, 1})];
    unsigned mod = M[s.weighted({6, 1, 1, 1, 1, 1, 1, 1})];
    l->type(fmt);
    hist += std::string(" type=") + (fmt == LLC::UNNUMBERED ? "U" : fmt == LLC::INFORMATION ? "I" : "S");
    if (fmt == LLC::UNNUMBERED) { l->modifier_function((LLC::ModifierFunctions)mod); hist += " M=" + std::to_string(mod); }
    const bool xid_frame = fmt == LLC::UNNUMBERED && mod == LLC::XID;
    Bytes info;      // the information fields the model holds
    unsigned adds = 0;
    Bytes payload = s.bytes((size_t)s.range(0, 4));
    if (s.boolean()) { l->inner_pdu(new RawPDU(payload.begin(), payload.end())); hist += " +RawPDU(" + verif::hex(payload, 8) + ")"; } else payload.clear();
    unsigned steps = 1 + (unsigned)s.range(0, 6);
    for (unsigned i = 0; i < steps; ++i) {
        unsigned op = (unsigned)s.weighted({5, 2, 1, 1});
        std::string what;
        if (op == 0) {
            if (adds >= 6) continue;   // information_field_length_ is an octet; IEEE 802.2 defines one XID information field per PDU
            uint8_t a = (uint8_t)s.edgy(8), b = (uint8_t)s.edgy(8), c = (uint8_t)s.edgy(8);
            l->add_xid_information(a, b, c);
            ++adds;
            hist += " add_xid_information(" + std::to_string(a) + "," + std::to_string(b) + "," + std::to_string(c) + ")";
            what = "add_xid_information";
            if (xid_frame) { info.push_back(a); info.push_back(b); info.push_back(c); }
        } else if (op == 1) {
            l->clear_information_fields();
            info.clear();
            hist += " clear_information_fields()";
            what = "clear_information_fields";
        } else if (op == 2) {
            dsap = (unsigned)s.edgy(8); l->dsap((uint8_t)dsap); hist += " dsap=" + std::to_string(dsap); what = "dsap";
        } else {
            std::unique_ptr<LLC> c(l->clone()); l = std::move(c); hist += " clone"; what = "clone";
        }
        const std::string sig = "C15:LLC." + what;
        const size_t ctl = fmt == LLC::UNNUMBERED ? 1 : 2;
        if (!xid_frame && what == "add_xid_information" && l->header_size() != 2 + ctl) {
            // documented: "Only applied if format is UNNUMBERED and function is XID"
            VCHECK(ctx, false, "C15:LLC.add_xid_information:applied-outside-xid-frame", hist << ": header_size() " << l->header_size() << ", an LLC header of this format has " << 2 + ctl << " octets");
            ctx.label("llc-info-block");
            return;   // (open finding) the object is no longer what the documentation describes
        }
        VCHECK(ctx, l->header_size() == 2 + ctl + info.size(), sig + ":header-size", hist << ": header_size() " << l->header_size() << ", expected " << 2 + ctl + info.size());
        VCHECK(ctx, l->dsap() == dsap && l->ssap() == ssap && l->type() == (uint8_t)fmt && (fmt != LLC::UNNUMBERED || l->modifier_function() == mod), sig + ":neighbour-changed", hist);
        Bytes y = l->serialize();
        Bytes want = {(uint8_t)dsap, (uint8_t)ssap};
        if (fmt == LLC::UNNUMBERED) want.push_back((uint8_t)(0x03 | ((mod >> 3) << 2) | ((mod & 7) << 5)));   // IEEE 802.2 U format: 11 MM P MMM, P = 0
        else { want.push_back(fmt == LLC::SUPERVISORY ? 0x01 : 0x00); want.push_back(0x00); }
        want.insert(want.end(), info.begin(), info.end());
        want.insert(want.end(), payload.begin(), payload.end());
        VCHECK(ctx, y == want, sig + ":wire-value", hist << " serialises as " << verif::hex(y, 48) << ", expected " << verif::hex(want, 48));
        if (y == want) {   // a parser keeps the header fields (libtins does not rebuild information fields: they come back as payload)
            try {
                LLC q(y.data(), (uint32_t)y.size());
                VCHECK(ctx, q.dsap() == dsap && q.ssap() == ssap && q.type() == (uint8_t)fmt && q.modifier_function() == l->modifier_function(), sig + ":reparse-differs", hist);
            } catch (const malformed_packet&) {
                // SAP 0x42 announces a spanning-tree BPDU: the few random octets behind the header are not one, so the parser
                // rejects the frame - nothing to do with the LLC header fields that this block is about
                ctx.label("llc-reparse-payload-rejected");
            }
        }
    }
    ctx.label("llc-info-block");
    if (xid_frame && adds) ctx.label("llc-xid-information-added");
    ctx.hash("llcinfo"); ctx.hash(hist);
    ctx.nontrivial(adds >= 1);
    ctx.sample(hist.substr(0, 300));
    if (ctx.logging()) ctx.log(hist);
}

// ---- 4. IP::frag_off (deprecated 16-bit accessor) against flags / fragment_offset (RFC 791 3.1: Flags(3) Fragment Offset(13),
//         octets 6-7, network order) ---------------------------------------------------------------------------------------
static IP* mk_ip() { return new IP("10.0.0.2", "10.0.0.1"); }
static void ip_frag_off_case(Src& s, Ctx& ctx) {
    std::string hist = "IP: ";
    std::unique_ptr<IP> p = prior_state<IP>(s, ctx, 20, hist, mk_ip);
    if (p->src_addr() == IPv4Address()) { p->src_addr("10.0.0.1"); ctx.excluded("parentless-ip-source-0.0.0.0"); }
    Bytes pl = s.bytes((size_t)s.range(0, 3));
    p->inner_pdu(new RawPDU(pl.begin(), pl.end()));
    Bytes w0, before;
    try { w0 = p->serialize(); before = p->serialize(); } catch (const exception_base&) { ctx.label("prior-state-not-serialisable"); return; }
    unsigned model = (before[6] << 8) | before[7];
    unsigned steps = 1 + (unsigned)s.range(0, 4);
    for (unsigned i = 0; i < steps; ++i) {
        const LayerView lv0 = view_layer(*p);
        unsigned op = (unsigned)s.weighted({4, 2, 2});
        std::string what;
        if (op == 0) {
            unsigned v = (unsigned)s.edgy(16);
            p->frag_off((uint16_t)v);
            model = v;
            what = "frag_off";
            hist += " frag_off(" + std::to_string(v) + ")";
        } else if (op == 1) {
            unsigned f = (unsigned)s.range(0, 7);
            p->flags((IP::Flags)f);
            model = (model & 0x1fff) | (f << 13);
            what = "flags";
            hist += " flags(" + std::to_string(f) + ")";
        } else {
            unsigned o = (unsigned)s.edgy(13);
            p->fragment_offset((small_uint<13>)o);
            model = (model & 0xe000) | o;
            what = "fragment_offset";
            hist += " fragment_offset(" + std::to_string(o) + ")";
        }
        const std::string sig = "C15:IP." + what;
        const IP& c = *p;
        VCHECK(ctx, c.frag_off() == model, sig + ":getter-differs:frag_off", hist << ": frag_off() returns " << c.frag_off() << ", expected " << model);
        VCHECK(ctx, (unsigned)c.flags() == (model >> 13), sig + ":getter-differs:flags", hist << ": flags() returns " << (unsigned)c.flags() << ", expected " << (model >> 13));
        VCHECK(ctx, (unsigned)c.fragment_offset() == (model & 0x1fff), sig + ":getter-differs:fragment_offset", hist << ": fragment_offset() returns " << (unsigned)c.fragment_offset());
        VCHECK(ctx, c.is_fragmented() == ((model & 0x3fff) != 0), sig + ":getter-differs:is_fragmented", hist);   // ip.h: MF set or offset != 0
        const LayerView lv1 = view_layer(*p);
        for (size_t f = 0; f < lv0.fields.size() && f < lv1.fields.size(); ++f) {
            const std::string& n = lv0.fields[f].name;
            if (n == "flags" || n == "fragment_offset" || n == "is_fragmented") continue;
            VCHECK(ctx, lv0.fields[f].value == lv1.fields[f].value, sig + ":neighbour-changed:" + n, hist << " changed " << n << " from " << lv0.fields[f].value << " to " << lv1.fields[f].value);
        }
        Bytes after;
        try { after = p->serialize(); } catch (const exception_base&) { ctx.label("state-after-set-not-serialisable"); return; }
        VCHECK(ctx, after.size() == before.size(), sig + ":serialisation-size-changed", hist);
        if (after.size() != before.size()) return;
        for (size_t b = 0; b < after.size(); ++b) {
            if (b == 10 || b == 11) continue;   // RFC 791 header checksum
            int expect = b == 6 ? (int)(model >> 8) : b == 7 ? (int)(model & 0xff) : before[b];
            VCHECK(ctx, after[b] == expect, sig + ((b == 6 || b == 7) ? ":wire-value" : ":serialisation-changed-outside-field"),
                   hist << ": octet " << b << " is " << (int)after[b] << ", expected " << expect);
        }
        try {
            IP q(after.data(), (uint32_t)after.size());
            const IP& cq = q;
            VCHECK(ctx, cq.frag_off() == model && (unsigned)cq.flags() == (model >> 13) && (unsigned)cq.fragment_offset() == (model & 0x1fff), sig + ":reparse-differs", hist);
        } catch (const malformed_packet&) {
            ctx.label("reparse-payload-rejected");   // the random payload octets are not a message of the protocol the (random) protocol field names
        }
        before = after;
    }
    ctx.label("ip-frag-off-block");
    ctx.hash("ipfragoff"); ctx.hash(hist);
    ctx.nontrivial(steps >= 2);
    ctx.sample(hist.substr(0, 300));
    if (ctx.logging()) ctx.log(hist);
}

// ---- 5. RTP padding (RFC 3550 5.1: P = bit 2 of octet 0 (mask 0x20): "the packet contains one or more additional padding
//         octets at the end which are not part of the payload.  The last octet of the padding contains a count of how many
//         padding octets should be ignored, including itself") ---------------------------------------------------------
static void rtp_padding_case(Src& s, Ctx& ctx) {
    std::string hist = "RTP: ";
    std::unique_ptr<RTP> p(new RTP());
    {   // prior state: a few setters and list elements
        unsigned n = verif::n_setters(*p), steps = (unsigned)s.range(0, 5);
        for (unsigned i = 0; i < steps; ++i) {
            Bytes step = s.bytes(s.u8() & 15);
            Src sub(step.data(), step.size());
            verif::SetterCtx sc(sub, "SDT");
            if (verif::apply_setter(*p, (unsigned)sub.pick(n), sc) && sc.applied) hist += " " + sc.describe();
        }
        unsigned nc = (unsigned)s.range(0, 3);
        for (unsigned i = 0; i < nc; ++i) p->add_csrc_id((uint32_t)s.edgy(32));
        if (nc) hist += " +" + std::to_string(nc) + " csrc";
    }
    Bytes pl = s.bytes((size_t)s.range(0, 6));
    if (s.chance(75)) { p->inner_pdu(new RawPDU(pl.begin(), pl.end())); hist += " +RawPDU(" + verif::hex(pl, 8) + ")"; } else pl.clear();
    Bytes w0 = p->serialize(), before = p->serialize();   // no padding yet
    VCHECK(ctx, p->padding_size() == 0 && p->padding_bit() == 0 && (before[0] & 0x20) == 0, "C15:RTP.padding_size:default-not-zero", hist);
    const size_t hdr = before.size() - pl.size();
    unsigned steps = 1 + (unsigned)s.range(0, 3);
    for (unsigned i = 0; i < steps; ++i) {
        const LayerView lv0 = view_layer(*p);
        unsigned n = s.chance(25) ? 0 : (unsigned)s.edgy(8);
        p->padding_size((uint8_t)n);
        hist += " padding_size(" + std::to_string(n) + ")";
        const std::string sig = "C15:RTP.padding_size";
        const RTP& c = *p;
        VCHECK(ctx, c.padding_size() == n, sig + ":getter-differs", hist << ": padding_size() returns " << (int)c.padding_size());
        VCHECK(ctx, (unsigned)c.padding_bit() == (n ? 1u : 0u), sig + ":padding-bit", hist << ": padding_bit() returns " << (int)c.padding_bit());
        VCHECK(ctx, c.trailer_size() == n, sig + ":trailer-size", hist << ": trailer_size() returns " << c.trailer_size());
        const LayerView lv1 = view_layer(*p);
        for (size_t f = 0; f < lv0.fields.size() && f < lv1.fields.size(); ++f) {
            const std::string& nm = lv0.fields[f].name;
            if (nm == "padding_size" || nm == "padding_bit" || lv0.fields[f].kind == 'S') continue;   // size queries follow the trailer (checked above / below)
            VCHECK(ctx, lv0.fields[f].value == lv1.fields[f].value, sig + ":neighbour-changed:" + nm, hist << " changed " << nm << " from " << lv0.fields[f].value << " to " << lv1.fields[f].value);
        }
        Bytes after = p->serialize();
        VCHECK(ctx, after.size() == before.size() + n, sig + ":serialisation-size", hist << ": " << after.size() << " octets, expected " << before.size() + n);
        if (after.size() != before.size() + n) return;
        for (size_t b = 0; b < before.size(); ++b) {
            int expect = b == 0 ? ((before[0] & ~0x20) | (n ? 0x20 : 0)) : before[b];
            VCHECK(ctx, after[b] == expect, sig + (b == 0 ? ":wire-value" : ":serialisation-changed-outside-field"), hist << ": octet " << b << " is " << (int)after[b] << ", expected " << expect);
        }
        if (n) VCHECK(ctx, after.back() == n, sig + ":padding-count-octet", hist << ": last octet " << (int)after.back() << ", expected " << n);
        // a parser of those bytes strips the padding and keeps the payload
        RTP q(after.data(), (uint32_t)after.size());
        const RTP& cq = q;
        VCHECK(ctx, cq.padding_size() == n && (unsigned)cq.padding_bit() == (n ? 1u : 0u), sig + ":reparse-differs", hist << ": padding_size() after re-parse " << (int)cq.padding_size());
        const RawPDU* r = q.find_pdu<RawPDU>();
        Bytes got = r ? Bytes(r->payload().begin(), r->payload().end()) : Bytes();
        VCHECK(ctx, got == pl, sig + ":reparse-payload-differs", hist << ": payload after re-parse " << verif::hex(got, 16) << ", expected " << verif::hex(pl, 16));
        VCHECK(ctx, q.header_size() == hdr, sig + ":reparse-differs", hist << ": header_size after re-parse");
    }
    ctx.label("rtp-padding-block");
    ctx.hash("rtppad"); ctx.hash(hist);
    ctx.nontrivial(true);
    ctx.sample(hist.substr(0, 300));
    if (ctx.logging()) ctx.log(hist);
}

}  // namespace c15x

void prop(Src& s, Ctx& ctx) {
    init_tables();
    Case cs;
    uint8_t sel = s.u8();
    if (sel == 0xfd) { llc_case(s, ctx); return; }
    if (sel == 0xfc) { tcp_flag_case(s, ctx); return; }
    // coverage extension blocks (selectors 0xe4 .. 0xfb, drawn from the byte that the table cases ignore)
    if (sel >= 0xf6 && sel <= 0xfb) { c15x::dot11_capability_case(s, ctx); return; }
    if (sel >= 0xf0 && sel <= 0xf5) { c15x::icmp_helper_case(s, ctx); return; }
    if (sel >= 0xec && sel <= 0xef) { c15x::llc_info_case(s, ctx); return; }
    if (sel >= 0xe8 && sel <= 0xeb) { c15x::ip_frag_off_case(s, ctx); return; }
    if (sel >= 0xe4 && sel <= 0xe7) { c15x::rtp_padding_case(s, ctx); return; }
    if (sel == 0xff || sel == 0xfe) {
        cs.enumerated = true;
        cs.ci = s.u8() % g_classes.size();
        cs.ri = s.u8() % g_classes[cs.ci].rows.size();
        const Row& r = g_classes[cs.ci].rows[cs.ri];
        uint32_t x = s.u32();
        if (!r.fixed()) { cs.v = gen_value(s, r); }
        else if (sel == 0xfe) {
            cs.saturated = true;
            cs.v = Val(r.val_bytes());
            for (unsigned i = 0; i < r.eff_width; ++i) cs.v.set(i, x % 3 == 1 || (x % 3 == 2 && (i & 1)));
        }
        else {
            unsigned bits = r.info.vk == VK_ENUM ? r.eff_width : std::min(r.info.repr_bits, 32u);
            if (bits < 32) x &= (1u << bits) - 1;
            cs.v = Val::of(x, r.val_bytes());
            uint64_t fieldmax = r.eff_width >= 64 ? UINT64_MAX : ((1ULL << r.eff_width) - 1);
            cs.overflow = x > fieldmax && (r.info.vk == VK_SMALL || (r.narrow() && r.info.kind != 'D'));
            if (x > fieldmax && !cs.overflow) cs.v = Val::of(x & fieldmax, r.val_bytes());
        }
        cs.mode = 0;
        ctx.label(cs.saturated ? "enumerated:saturated-state" : "enumerated:all-values");
    } else {
        cs.ci = (unsigned)s.pick(g_classes.size());
        cs.ri = (unsigned)s.pick(g_classes[cs.ci].rows.size());
        const Row& r = g_classes[cs.ci].rows[cs.ri];
        cs.mode = (int)s.weighted({2, 5, 3, 2});
        cs.force_variant = s.chance(88);
        cs.inner = s.chance(50);
        cs.payload = s.bytes((size_t)s.range(0, 3));
        bool can_overflow = r.fixed() && r.eff_width < r.info.repr_bits && (r.info.vk == VK_SMALL || (r.narrow() && r.info.kind != 'D'));
        cs.overflow = can_overflow && s.chance(18);
        cs.v = cs.overflow ? gen_too_large(s, r) : gen_value(s, r);
    }
    const Row& r = g_classes[cs.ci].rows[cs.ri];
    if (r.id() == "IP.src_addr" && r.fixed() && cs.v.is_zero()) { cs.v.set(0, true); ctx.excluded("parentless-ip-source-0.0.0.0"); }
    ctx.hash((uint64_t)cs.ci * 1000 + cs.ri);
    ctx.hash(hash_bytes(cs.v.be.data(), cs.v.be.size()));
    ctx.hash((uint64_t)cs.overflow);
    run_case(s, ctx, cs);
    // the prior state is part of the case
    ctx.hash(hash_bytes(&cs.mode, sizeof cs.mode));
    for (auto& l : cs.program) ctx.hash(l);
    if (!ctx.logging()) {
        std::string t = std::string(g_classes[cs.ci].name) + ": " + r.id() + "(0x" + cs.v.hexs() + ")" + (cs.overflow ? " too-large" : "") + " after [";
        for (size_t i = 0; i < cs.program.size() && i < 4; ++i) t += (i ? "; " : "") + cs.program[i].substr(0, 60);
        ctx.sample(t + "]");
    }
}
