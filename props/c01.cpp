// C01 — parsing untrusted bytes is memory-safe and fails only as malformed_packet; every read accessor on an
// accepted packet is memory-safe and may fail only with a libtins exception.
// Oracles: ASan/UBSan/LSan (exact-size heap blocks so a 1-byte over/under-read hits a redzone),
// exception-type contract, accessor exception contract (view.h), clone/iterator consistency.
#include "../engine/src.h"
#include "../genlib/view.h"
#include "../genlib/entries.h"
#include "../genlib/parse_input.h"
#include "../genlib/optconv.h"
#include <tins/utils/radiotap_parser.h>
#include <tins/pdu_iterator.h>
#include <tins/packet.h>
#include <cstdlib>

using namespace verif;
using namespace Tins;

const char* const PROP_ID = "C01";
const size_t PROP_MAXLEN_QUICK = 2048;
const size_t PROP_MAXLEN_THOROUGH = 65535 + 8;

// "after a bounded number of steps": instrumented comparisons allowed for an input of n bytes. Measured maximum over
// 6e5 quick cases: 1.9e5 per case, 1.4e3 per input byte; the bound leaves two orders of magnitude and room for the
// quadratic size() walk over thousands of nested 4-byte headers.
uint64_t prop_step_budget(size_t n) { return 20000000ULL + 200000ULL * n; }

namespace {

const char* const AUX_NAMES[] = {"aux:ICMPExtension", "aux:ICMPExtensionsStructure", "aux:validate_extensions", "aux:RSNInformation",
                                 "aux:DNS::soa_record", "aux:duid_llt", "aux:duid_en", "aux:duid_ll", "aux:multicast_address_record",
                                 "aux:RadioTapParser"};
const size_t N_AUX = sizeof AUX_NAMES / sizeof *AUX_NAMES;

// sub-object decoders a user reaches from wire data; they may throw libtins exceptions only
std::string run_aux(size_t which, const uint8_t* b, uint32_t n) {
    std::ostringstream os;
    switch (which) {
        case 0: { ICMPExtension e(b, n); r(os, e); os << e.size(); e.serialize(); break; }
        case 1: { ICMPExtensionsStructure e(b, n); r(os, e); os << e.size(); break; }
        case 2: os << ICMPExtensionsStructure::validate_extensions(b, n); break;
        case 3: { RSNInformation e(b, n); r(os, e); e.serialize(); break; }
        case 4: { DNS::soa_record e(b, n); os << e.mname() << e.rname() << e.serial() << e.refresh() << e.retry() << e.expire() << e.minimum_ttl(); e.serialize(); break; }
        case 5: { DHCPv6::duid_llt e = DHCPv6::duid_llt::from_bytes(b, n); os << e.hw_type << e.time; r(os, e.lladdress); e.serialize(); break; }
        case 6: { DHCPv6::duid_en e = DHCPv6::duid_en::from_bytes(b, n); os << e.enterprise_number; r(os, e.identifier); e.serialize(); break; }
        case 7: { DHCPv6::duid_ll e = DHCPv6::duid_ll::from_bytes(b, n); os << e.hw_type; r(os, e.lladdress); e.serialize(); break; }
        case 8: { ICMPv6::multicast_address_record e(b, n); r(os, e); os << e.size(); break; }
        default: {
            std::vector<uint8_t> v(b, b + n);
            Utils::RadioTapParser p(v);
            unsigned guard = 0;
            os << p.has_fields();
            if (p.has_fields()) {
                do {
                    os << (unsigned)p.current_field() << ":" << p.current_namespace() << ":" << p.current_namespace_index() << ",";
                    RadioTap::option o = p.current_option();
                    r(os, o);
                    if (++guard > 4096) throw PropFail{"C01:aux:RadioTapParser:does-not-terminate", "more than 4096 fields"};
                } while (p.advance_field());
            }
            os << p.has_field(RadioTap::TSFT) << p.has_field(RadioTap::MCS);
            break;
        }
    }
    return os.str();
}

// accessors that are not plain getters
void touch_extras(const PDU& top, Ctx& ctx, std::multiset<int>& codes) {
    unsigned depth = 0;
    for (const PDU* p = &top; p; p = p->inner_pdu(), ++depth) {
        if (const IPv6* v6 = dynamic_cast<const IPv6*>(p)) {
            for (const IPv6::ext_header& h : v6->headers()) {
                codes.insert(1000 + h.option());
                optconv::touch(h);
                try { IPv6::hop_by_hop_header::from_extension_header(h); } catch (const exception_base&) {}
                try { IPv6::destination_routing_header::from_extension_header(h); } catch (const exception_base&) {}
                try { IPv6::routing_header::from_extension_header(h); } catch (const exception_base&) {}
                try { IPv6::fragment_header::from_extension_header(h); } catch (const exception_base&) {}
            }
            (void)v6->search_header(IPv6::ROUTING);
        } else if (const TCP* t = dynamic_cast<const TCP*>(p)) {
            for (const TCP::option& o : t->options()) { optconv::touch(o); codes.insert(2000 + o.option()); (void)t->search_option((TCP::OptionTypes)o.option()); }
            (void)t->get_flag(TCP::SYN);
            (void)t->has_flags(TCP::SYN | TCP::ACK);
        } else if (const IP* ip = dynamic_cast<const IP*>(p)) {
            for (const IP::option& o : ip->options()) { optconv::touch(o); codes.insert(3000 + o.option().number); (void)ip->search_option(o.option()); }
        } else if (const DHCP* d = dynamic_cast<const DHCP*>(p)) {
            for (const DHCP::option& o : d->options()) { optconv::touch(o); codes.insert(4000 + o.option()); (void)d->search_option((DHCP::OptionTypes)o.option()); }
        } else if (const DHCPv6* d6 = dynamic_cast<const DHCPv6*>(p)) {
            for (const DHCPv6::option& o : d6->options()) { optconv::touch(o); codes.insert(5000 + o.option()); (void)d6->search_option((DHCPv6::OptionTypes)o.option()); }
        } else if (const ICMPv6* i6 = dynamic_cast<const ICMPv6*>(p)) {
            for (const ICMPv6::option& o : i6->options()) { optconv::touch(o); codes.insert(6000 + o.option()); (void)i6->search_option((ICMPv6::OptionTypes)o.option()); }
        } else if (const Dot11* d11 = dynamic_cast<const Dot11*>(p)) {
            for (const Dot11::option& o : d11->options()) {
                codes.insert(7000 + o.option());
                optconv::touch(o);
                (void)d11->search_option((Dot11::OptionTypes)o.option());
                if (o.option() == Dot11::RSN) { try { RSNInformation::from_option(o); } catch (const exception_base&) {} }
            }
        } else if (const PPPoE* pe = dynamic_cast<const PPPoE*>(p)) {
            for (const PPPoE::tag& o : pe->tags()) { optconv::touch(o); codes.insert(8000 + o.option()); (void)pe->search_tag(o.option()); }
        } else if (const DNS* dns = dynamic_cast<const DNS*>(p)) {
            DNS::resources_type all[3];
            try { all[0] = dns->answers(); all[1] = dns->authority(); all[2] = dns->additional(); } catch (const exception_base&) {}
            for (const DNS::resources_type& rs : all)
                for (const DNS::resource& rr : rs) {
                    codes.insert(9000 + rr.query_type());
                    if (rr.query_type() == DNS::SOA) { try { DNS::soa_record soa(rr); (void)soa.serial(); } catch (const exception_base&) {} }
                }
        } else if (const RadioTap* rt = dynamic_cast<const RadioTap*>(p)) {
            (void)rt->present();
        } else if (const ICMP* ic = dynamic_cast<const ICMP*>(p)) {
            if (ic->has_extensions()) codes.insert(10000 + (int)ic->extensions().extensions().size());
        }
        // lookup helpers from this layer downwards
        (void)p->find_pdu<RawPDU>();
        (void)p->find_pdu<IP>();
        (void)p->find_pdu<TCP>();
        (void)p->find_pdu<Dot11Data>();
        (void)p->find_pdu<Dot11ManagementFrame>();
        (void)p->advertised_size();
        (void)p->matches_flag(p->pdu_type());
    }
    (void)ctx;
}

}  // namespace

void prop(Src& s, Ctx& ctx) {
    const std::vector<Entry>& E = entries();
    unsigned placement = 0;
    std::vector<uint8_t> data;
    size_t which = gen_parse_input(s, ctx, N_AUX, placement, data);
    Block blk(data, placement);
    const uint32_t n = (uint32_t)data.size();
    ctx.hash(which);

    if (which >= E.size()) {
        size_t a = which - E.size();
        std::string tag = std::string("C01:") + AUX_NAMES[a];
        ctx.label("aux-decoder");
        bool ok = false;
        try {
            std::string text = run_aux(a, blk.ptr, n);
            ok = true;
            ctx.result(text);
            ctx.hash(hash_str(text) & 0xff);
        } catch (const exception_base&) {
        } catch (const PropFail&) {
            throw;
        } catch (const std::exception& e) {
            VFAIL(ctx, tag + ":foreign-exception:" + demangled(typeid(e)), AUX_NAMES[a] << " on " << n << " bytes threw " << e.what() << " input=" << hex(data));
        }
        ctx.hash(ok);
        ctx.nontrivial(ok && n >= 4);
        if (ok) ctx.label("aux-accepted");
        if (ctx.logging()) ctx.log(std::string(AUX_NAMES[a]) + " bytes=" + hex(data) + (ok ? " accepted" : " rejected"));
        ctx.sample(std::string(AUX_NAMES[a]) + " " + hex(data, 40) + (ok ? " accepted" : " rejected"));
        return;
    }

    const Entry& e = E[which];
    std::string tag = std::string("C01:") + e.name;
    // the static "peek" decoder of the same class on the same bytes (header size / next protocol without building the
    // object): another from-buffer entry point, with the same contract
    {
        const std::string en = e.name;
        try {
#define XM(C) if (en == #C) { PDU::metadata md = Tins::C::extract_metadata(blk.ptr, n); ctx.result((uint64_t)md.header_size * 131 + (uint64_t)md.next_pdu_type); ctx.label("extract_metadata"); }
            XM(ARP) XM(DHCP) XM(DHCPv6) XM(DNS) XM(Dot1Q) XM(Dot3) XM(EthernetII) XM(ICMP) XM(IP) XM(IPv6) XM(TCP) XM(UDP) XM(RC4EAPOL) XM(RSNEAPOL)
#undef XM
        } catch (const exception_base&) {
        } catch (const PropFail&) {
            throw;
        } catch (const std::exception& ex) {
            VFAIL(ctx, tag + ":extract_metadata-foreign-exception:" + demangled(typeid(ex)), e.name << "::extract_metadata on " << n << " bytes threw " << ex.what() << " input=" << hex(data));
        }
    }
    std::unique_ptr<PDU> pdu;
    bool rejected = false;
    try {
        pdu.reset(e.parse(blk.ptr, n));
    } catch (const malformed_packet&) {
        rejected = true;
    } catch (const std::exception& ex) {
        // the capture loop intercepts malformed_packet only: anything else escapes to the user
        VFAIL(ctx, tag + ":constructor-foreign-exception:" + demangled(typeid(ex)),
              e.name << " on " << n << " bytes threw " << demangled(typeid(ex)) << ": " << ex.what() << " input=" << hex(data));
    }
    if (ctx.logging()) ctx.log(std::string("entry=") + e.name + " placement=" + std::to_string(placement) + " bytes=" + hex(data, 4096) +
                               (pdu ? " accepted as " + layer_chain(*pdu) : " rejected"));
    if (!pdu) {
        ctx.label(rejected ? "rejected" : "no-packet");
        ctx.hash(0);
        ctx.nontrivial(rejected && n >= 8);
        ctx.sample(std::string(e.name) + " " + hex(data, 40) + " rejected");
        return;
    }
    ctx.label("accepted");
    if (e.link) ctx.label("link-entry");

    // every read accessor of every layer
    std::string chain = layer_chain(*pdu);
    PacketView pv;
    try {
        pv = view_packet(*pdu);
    } catch (PropFail& f) {
        f.sig = "C01:" + f.sig;
        f.msg += " entry=" + std::string(e.name) + " input=" + hex(data);
        throw;
    }
    ctx.result(to_text(pv));  // every getter value is part of the result: it must not depend on uninitialised memory
    std::multiset<int> codes;
    try {
        touch_extras(*pdu, ctx, codes);
    } catch (const exception_base&) {
        // libtins exceptions are allowed from accessors
    } catch (const PropFail&) {
        throw;
    } catch (const std::exception& ex) {
        VFAIL(ctx, tag + ":accessor-foreign-exception:" + demangled(typeid(ex)), "accessor on " << chain << " threw " << ex.what() << " input=" << hex(data));
    }
    // iterator traversal visits exactly the chain
    {
        size_t cnt = 0;
        const PDU& cref = *pdu;
        for (const PDU& layer : iterate_pdus(cref)) { (void)layer.pdu_type(); if (++cnt > 100000) break; }
        VCHECK(ctx, cnt == pv.size(), "C01:pdu-iterator-count", "iterate_pdus visited " << cnt << " layers, chain has " << pv.size());
        // the other overloads (pointer / reference / Packet, const and not) and the remaining iterator operators
        size_t c2 = 0, c3 = 0, c4 = 0, c5 = 0, c6 = 0;
        const PDU* cptr = pdu.get();
        for (const PDU& layer : iterate_pdus(cptr)) { (void)layer.size(); if (++c2 > 100000) break; }
        for (PDU& layer : iterate_pdus(*pdu)) { (void)layer.header_size(); if (++c3 > 100000) break; }
        {
            PDUIteratorRange<PDUIterator> r = iterate_pdus(pdu.get());
            PDUIterator last = r.begin();
            for (PDUIterator it = r.begin(); it != r.end(); it++) { last = it; (void)(*it).pdu_type(); (void)it->inner_pdu(); if (++c4 > 100000) break; }
            // and back to the root with the decrement operators
            size_t back = 0;
            for (PDUIterator it = last; it != r.end() && back <= 100000; ) { ++back; if (it->parent_pdu() == nullptr) break; if (back & 1) --it; else it--; }
            VCHECK(ctx, c4 == 0 || back == c4, "C01:pdu-iterator-count", "walking back from the innermost layer took " << back << " steps, chain has " << c4);
            ConstPDUIterator ci(r.begin());   // conversion from the mutable iterator
            (void)ci->pdu_type();
            (void)(*ci).pdu_type();
        }
        {
            Packet pk(pdu.get(), Timestamp(), Packet::own_pdu());
            for (PDU& layer : iterate_pdus(pk)) { (void)layer.pdu_type(); if (++c5 > 100000) break; }
            const Packet& cpk = pk;
            for (const PDU& layer : iterate_pdus(cpk)) { (void)layer.pdu_type(); if (++c6 > 100000) break; }
            pk.release_pdu();
        }
        VCHECK(ctx, c2 == cnt && c3 == cnt && c4 == cnt && c5 == cnt && c6 == cnt, "C01:pdu-iterator-count",
               "iterate_pdus overloads visited " << c2 << "/" << c3 << "/" << c4 << "/" << c5 << "/" << c6 << " layers, chain has " << cnt);
    }
    // clone is readable and renders identically; destruction of both is LeakSanitizer's business
    {
        std::unique_ptr<PDU> c(pdu->clone());
        std::string a = to_text(pv), b;
        try { b = to_text(view_packet(*c)); } catch (PropFail& f) { f.sig = "C01:clone:" + f.sig; throw; }
        VCHECK(ctx, a == b, "C01:clone-view-differs:" + pv[0].cls, "entry=" << e.name << " input=" << hex(data) << "\n orig=" << a << "\n clone=" << b);
    }
    size_t nopts = codes.size();
    ctx.hash(chain);
    for (int c : codes) ctx.hash((uint64_t)c);
    ctx.nontrivial(pv.size() >= 2 || nopts >= 1);
    if (pv.size() >= 3) ctx.label("layers>=3");
    if (nopts) ctx.label("has-options");
    ctx.sample(std::string(e.name) + " " + hex(data, 48) + " -> " + chain);
}
