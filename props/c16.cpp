// C16 — address types: text round trip, ordering, hashing, range arithmetic and iteration.
// Oracles: own byte-array arithmetic, own RFC 4291 / dotted-quad text parsers (share no code with libtins / libc).
#include "../engine/src.h"
#include <tins/ip_address.h>
#include <tins/ipv6_address.h>
#include <tins/hw_address.h>
#include <tins/address_range.h>
#include <tins/exceptions.h>
#include <algorithm>
#include <iterator>
#include <functional>
#include <cstdio>

using namespace verif;
using namespace Tins;

const char* const PROP_ID = "C16";
const size_t PROP_MAXLEN_QUICK = 96;
const size_t PROP_MAXLEN_THOROUGH = 128;

typedef std::vector<uint8_t> Bytes;

// ---------------------------------------------------------------- family adapters
struct V4 {
    typedef IPv4Address A;
    static const unsigned N = 4;
    static const int K = 0;
    static const char* name() { return "IPv4"; }
    static A make(const Bytes& b) {
        uint32_t be;  // IPv4Address(uint32_t) takes the value in network byte order as stored in memory
        memcpy(&be, b.data(), 4);
        return A(be);
    }
    static Bytes bytes(const A& a) {
        uint32_t be = a;
        Bytes b(4);
        memcpy(b.data(), &be, 4);
        return b;
    }
    static A parse(const std::string& s) { return A(s); }
    static A parse_c(const std::string& s) { return A(s.c_str()); }          // the const char* constructor
    static AddressRange<A> slash(const A& a, int p) { return a / p; }
};
struct V6 {
    typedef IPv6Address A;
    static const unsigned N = 16;
    static const int K = 1;
    static const char* name() { return "IPv6"; }
    static A make(const Bytes& b) { return A(b.data()); }
    static Bytes bytes(const A& a) { return Bytes(a.begin(), a.end()); }
    static A parse(const std::string& s) { return A(s); }
    static A parse_c(const std::string& s) { return A(s.c_str()); }
    static AddressRange<A> slash(const A& a, int p) { return a / p; }
};
struct HW {
    typedef HWAddress<6> A;
    static const unsigned N = 6;
    static const int K = 2;
    static const char* name() { return "HW"; }
    static A make(const Bytes& b) { return A(b.data()); }
    static Bytes bytes(const A& a) { return Bytes(a.begin(), a.end()); }
    static A parse(const std::string& s) { return A(s); }
    static A parse_c(const std::string& s) { char buf[160] = {0}; memcpy(buf, s.data(), std::min<size_t>(s.size(), 159)); return A(buf); }   // the char-array constructor, array larger than the text
    static AddressRange<A> slash(const A& a, int p) { return a / p; }
};
struct HW8 {  // SLL::address_type
    typedef HWAddress<8> A;
    static const unsigned N = 8;
    static const int K = 2;
    static const char* name() { return "HW8"; }
    static A make(const Bytes& b) { return A(b.data()); }
    static Bytes bytes(const A& a) { return Bytes(a.begin(), a.end()); }
    static A parse(const std::string& s) { return A(s); }
    static A parse_c(const std::string& s) { char buf[160] = {0}; memcpy(buf, s.data(), std::min<size_t>(s.size(), 159)); return A(buf); }   // the char-array constructor, array larger than the text
    static AddressRange<A> slash(const A& a, int p) { return a / p; }
};
struct HW16 {  // BootP::chaddr_type
    typedef HWAddress<16> A;
    static const unsigned N = 16;
    static const int K = 2;
    static const char* name() { return "HW16"; }
    static A make(const Bytes& b) { return A(b.data()); }
    static Bytes bytes(const A& a) { return Bytes(a.begin(), a.end()); }
    static A parse(const std::string& s) { return A(s); }
    static A parse_c(const std::string& s) { char buf[160] = {0}; memcpy(buf, s.data(), std::min<size_t>(s.size(), 159)); return A(buf); }   // the char-array constructor, array larger than the text
    static AddressRange<A> slash(const A& a, int p) { return a / p; }
};

// ---------------------------------------------------------------- own big-endian arithmetic
static bool inc(Bytes& b) {  // returns true on wrap
    for (size_t i = b.size(); i-- > 0;) { if (++b[i] != 0) return false; }
    return true;
}
static bool dec(Bytes& b) {
    for (size_t i = b.size(); i-- > 0;) { if (b[i]-- != 0) return false; }
    return true;
}
static int cmp(const Bytes& a, const Bytes& b) {
    for (size_t i = 0; i < a.size(); ++i) if (a[i] != b[i]) return a[i] < b[i] ? -1 : 1;
    return 0;
}
// last - first if it is < 2^24, else 2^24 (saturating)
static uint32_t span(const Bytes& first, const Bytes& last) {
    // compute big-endian difference
    Bytes d(first.size());
    int borrow = 0;
    for (size_t i = first.size(); i-- > 0;) {
        int v = (int)last[i] - (int)first[i] - borrow;
        borrow = v < 0;
        d[i] = (uint8_t)(v & 0xff);
    }
    for (size_t i = 0; i + 3 < d.size(); ++i) if (d[i]) return 1u << 24;
    size_t n = d.size();
    return ((uint32_t)d[n - 3] << 16) | ((uint32_t)d[n - 2] << 8) | d[n - 1];
}
static Bytes prefix_mask(unsigned n, unsigned p) {
    Bytes m(n, 0);
    for (unsigned i = 0; i < p; ++i) m[i / 8] |= (uint8_t)(0x80 >> (i % 8));
    return m;
}
static Bytes add_small(Bytes b, uint32_t k) {  // b + k, wraps
    for (size_t i = b.size(); i-- > 0 && k;) {
        uint32_t v = b[i] + (k & 0xff);
        b[i] = (uint8_t)v;
        k = (k >> 8) + (v >> 8);
    }
    return b;
}

// ---------------------------------------------------------------- address generator
static Bytes gen_addr(Src& s, unsigned n) {
    Bytes b(n, 0);
    switch (s.weighted({5, 1, 1, 3, 3, 2})) {
        case 0: b = s.bytes(n); break;
        case 1: break;  // all zeros
        case 2: std::fill(b.begin(), b.end(), 0xff); break;
        case 3: {  // boundary in the low bytes: ..ffff / ..0000 / +-1 / +-2
            b = s.bytes(n);
            unsigned k = 1 + (unsigned)s.range(0, n - 1);
            uint8_t fillv = s.boolean() ? 0xff : 0x00;
            for (unsigned i = n - k; i < n; ++i) b[i] = fillv;
            switch (s.range(0, 4)) {
                case 1: inc(b); break;
                case 2: dec(b); break;
                case 3: inc(b); inc(b); break;
                case 4: dec(b); dec(b); break;
                default: break;
            }
            break;
        }
        case 4: {  // per 16-bit group patterns (zero-run ties for '::', leading zeros)
            for (unsigned i = 0; i + 1 < n; i += 2) {
                switch (s.range(0, 5)) {
                    case 0: case 1: break;
                    case 2: b[i + 1] = 1; break;
                    case 3: b[i] = b[i + 1] = 0xff; break;
                    case 4: b[i + 1] = s.u8(); break;
                    default: b[i] = s.u8(); b[i + 1] = s.u8(); break;
                }
            }
            break;
        }
        case 5: {  // v4-mapped / v4-compatible shapes (IPv6), otherwise small values
            if (n == 16) {
                bool mapped = s.boolean();
                if (mapped) b[10] = b[11] = 0xff;
                Bytes t = s.bytes(4);
                std::copy(t.begin(), t.end(), b.begin() + 12);
            } else {
                b[n - 1] = s.u8();
            }
            break;
        }
    }
    return b;
}

// ---------------------------------------------------------------- reference text forms
static std::string v4_text(const uint8_t* b) {
    char buf[32];
    snprintf(buf, sizeof buf, "%u.%u.%u.%u", b[0], b[1], b[2], b[3]);
    return buf;
}

enum Verdict { REJECT = 0, ACCEPT = 1, UNSPEC = 2 };

// strict dotted quad; a group with a leading zero (e.g. "01") is left unspecified
static Verdict ref_parse_v4(const std::string& s, uint8_t out[4]) {
    size_t i = 0;
    bool unspec = false;
    for (int g = 0; g < 4; ++g) {
        size_t st = i;
        unsigned v = 0;
        while (i < s.size() && s[i] >= '0' && s[i] <= '9') {
            v = v * 10 + (unsigned)(s[i] - '0');
            if (i - st >= 3) return REJECT;
            ++i;
        }
        size_t len = i - st;
        if (len == 0 || v > 255) return REJECT;
        if (len > 1 && s[st] == '0') unspec = true;
        out[g] = (uint8_t)v;
        if (g < 3) {
            if (i >= s.size() || s[i] != '.') return REJECT;
            ++i;
        }
    }
    if (i != s.size()) return REJECT;
    return unspec ? UNSPEC : ACCEPT;
}

static int hexval(char c) {
    if (c >= '0' && c <= '9') return c - '0';
    if (c >= 'a' && c <= 'f') return c - 'a' + 10;
    if (c >= 'A' && c <= 'F') return c - 'A' + 10;
    return -1;
}

// RFC 4291 section 2.2 text forms (1: x:x:x:x:x:x:x:x, 2: '::' once, 3: trailing d.d.d.d)
static Verdict ref_parse_v6(const std::string& s, uint8_t out[16]) {
    std::vector<uint16_t> left, right;
    bool seen_dc = false, unspec = false;
    std::vector<uint16_t>* cur = &left;
    size_t i = 0, n = s.size();
    if (n == 0) return REJECT;
    bool v4tail = false;
    uint8_t v4[4];
    if (s.compare(0, 2, "::") == 0) { seen_dc = true; cur = &right; i = 2; }
    else if (s[0] == ':') return REJECT;
    bool need_group = !(seen_dc && i == n);  // "::" alone is fine
    while (i < n) {
        // try a group
        size_t st = i;
        unsigned v = 0;
        while (i < n && hexval(s[i]) >= 0) { v = (v << 4) | (unsigned)hexval(s[i]); ++i; if (i - st > 4) break; }
        size_t len = i - st;
        if (i < n && s[i] == '.') {
            // dotted quad must be the last element
            Verdict r = ref_parse_v4(s.substr(st), v4);
            if (r == REJECT) return REJECT;
            if (r == UNSPEC) unspec = true;
            v4tail = true;
            i = n;
            need_group = false;
            break;
        }
        if (len == 0 || len > 4) return REJECT;
        cur->push_back((uint16_t)v);
        need_group = false;
        if (i == n) break;
        if (s[i] != ':') return REJECT;
        ++i;
        if (i < n && s[i] == ':') {
            if (seen_dc) return REJECT;
            seen_dc = true;
            cur = &right;
            ++i;
            if (i == n) break;  // trailing "::"
            need_group = true;
            continue;
        }
        need_group = true;  // a single ':' must be followed by a group
    }
    if (need_group) return REJECT;
    size_t groups = left.size() + right.size() + (v4tail ? 2 : 0);
    if (seen_dc) { if (groups > 7) return REJECT; }
    else if (groups != 8) return REJECT;
    if (v4tail && cur == &left && seen_dc) return REJECT;  // cannot happen, defensive
    memset(out, 0, 16);
    size_t k = 0;
    for (uint16_t g : left) { out[k++] = (uint8_t)(g >> 8); out[k++] = (uint8_t)g; }
    size_t rlen = right.size() * 2 + (v4tail ? 4 : 0);
    if (!seen_dc) {
        // no '::' : everything was collected in left (and the v4 tail)
        if (v4tail) memcpy(out + 12, v4, 4);
    } else {
        k = 16 - rlen;
        for (uint16_t g : right) { out[k++] = (uint8_t)(g >> 8); out[k++] = (uint8_t)g; }
        if (v4tail) memcpy(out + 12, v4, 4);
    }
    return unspec ? UNSPEC : ACCEPT;
}

// hardware addresses: documented form "XX:XX:XX:XX:XX:XX"; short forms (1..6 groups) are zero padded.
// must-accept: 1..6 groups of exactly two hex digits. must-reject: a character that is neither hex nor ':'
// or a run of >= 3 hex digits, located before the end of the sixth group. Everything else: no claim.
static Verdict ref_parse_hw(const std::string& s, uint8_t* out, unsigned n = 6) {
    // must-accept shape
    {
        size_t i = 0, g = 0;
        bool ok = !s.empty();
        memset(out, 0, n);
        while (ok && i < s.size()) {
            if (g == n) { ok = false; break; }
            if (i + 1 >= s.size() || hexval(s[i]) < 0 || hexval(s[i + 1]) < 0) { ok = false; break; }
            out[g++] = (uint8_t)(hexval(s[i]) * 16 + hexval(s[i + 1]));
            i += 2;
            if (i == s.size()) break;
            if (s[i] != ':') { ok = false; break; }
            ++i;
            if (i == s.size()) { ok = false; break; }  // trailing ':' : no claim
        }
        if (ok) return ACCEPT;
    }
    // must-reject shape
    size_t groups_done = 0, run = 0;
    for (size_t i = 0; i < s.size() && groups_done < n; ++i) {
        char c = s[i];
        if (c == ':') { groups_done++; run = 0; continue; }
        if (hexval(c) < 0) return REJECT;
        if (++run >= 3) return REJECT;
        if (run == 2 && groups_done == n - 1) break;  // sixth group complete: the rest is outside the claim
    }
    return UNSPEC;
}

// ---------------------------------------------------------------- string generator (valid forms + mutations)
static std::string v6_text_variant(Src& s, const Bytes& b) {
    // write groups; optionally compress some zero run (not necessarily the longest), random case/leading zeros
    unsigned style = (unsigned)s.range(0, 3);
    bool upper = s.boolean(), lead = s.chance(25), tail4 = s.chance(25);
    unsigned ngroups = tail4 ? 6 : 8;
    std::vector<std::string> g;
    for (unsigned i = 0; i < ngroups; ++i) {
        unsigned v = (b[2 * i] << 8) | b[2 * i + 1];
        char buf[8];
        snprintf(buf, sizeof buf, lead ? (upper ? "%04X" : "%04x") : (upper ? "%X" : "%x"), v);
        g.push_back(buf);
    }
    std::string out;
    int zs = -1, zl = 0;
    if (style != 0) {
        // choose a zero run to compress: style1 = first run, style2 = longest, style3 = chosen start
        int best = -1, bestl = 0;
        for (unsigned i = 0; i < ngroups;) {
            if (b[2 * i] == 0 && b[2 * i + 1] == 0) {
                unsigned j = i;
                while (j < ngroups && b[2 * j] == 0 && b[2 * j + 1] == 0) ++j;
                int l = (int)(j - i);
                if (best < 0 || (style == 2 && l > bestl) || (style == 3 && s.boolean())) { best = (int)i; bestl = l; }
                i = j;
            } else ++i;
        }
        zs = best; zl = bestl;
        if (zs >= 0 && style == 3 && zl > 1 && s.boolean()) zl = 1 + (int)s.range(0, zl - 1);  // partial run
    }
    for (unsigned i = 0; i < ngroups;) {
        if ((int)i == zs) {
            out += "::";
            i += zl;
            continue;
        }
        if (!out.empty() && out.back() != ':') out += ":";
        out += g[i];
        ++i;
    }
    if (tail4) {
        if (out.empty() || out.back() != ':') out += ":";
        out += v4_text(&b[12]);
    }
    return out;
}

static std::string mutate_text(Src& s, std::string t) {
    // printable look-alikes plus control / high bytes (a parser that folds case or masks bits must not let them through)
    static const char ALPH[] = "0123456789abcdefABCDEFgGxz:.%/ -+,;[]@`{}\x01\x10\x11\x15\x19\x1a\x1f\x7f\x80\x90\xb0\xe6\xff";
    unsigned nm = (unsigned)s.weighted({3, 5, 2, 1});
    for (unsigned m = 0; m < nm; ++m) {
        size_t pos = t.empty() ? 0 : s.pick(t.size() + 1);
        switch (s.range(0, 7)) {
            case 0: if (pos < t.size()) t.erase(pos, 1); break;
            case 1: if (pos < t.size()) t.insert(pos, 1, t[pos]); break;
            case 2: t.insert(pos, 1, ALPH[s.pick(sizeof ALPH - 1)]); break;
            case 3: if (pos < t.size()) t[pos] = ALPH[s.pick(sizeof ALPH - 1)]; break;
            case 4: t = t.substr(0, pos); break;
            case 5: t += ALPH[s.pick(sizeof ALPH - 1)]; break;
            case 6: t.insert(pos, s.boolean() ? "::" : ":"); break;
            case 7: {  // replace one decimal/hex group by an out-of-range value
                static const char* BAD[] = {"256", "300", "00001", "1ffff", "0", "00", "255", "ffff", "10000", "999"};
                size_t e = pos;
                while (e < t.size() && t[e] != ':' && t[e] != '.') ++e;
                t.replace(pos, e - pos, BAD[s.pick(10)]);
                break;
            }
        }
    }
    return t;
}

// ---------------------------------------------------------------- sub-properties
template <class F>
static void text_and_order(Src& s, Ctx& ctx) {
    typedef typename F::A A;
    Bytes ba = gen_addr(s, F::N), bb;
    switch (s.weighted({3, 1, 2})) {
        case 0: bb = gen_addr(s, F::N); break;
        case 1: bb = ba; break;
        default: {  // neighbour: differs in exactly one byte, or +-1
            bb = ba;
            if (s.boolean()) bb[s.pick(F::N)] ^= (uint8_t)(1u << s.pick(8));
            else if (s.boolean()) inc(bb); else dec(bb);
        }
    }
    A a = F::make(ba), b = F::make(bb);
    std::string tag = std::string("C16:") + F::name();
    ctx.hash(tag); ctx.hash(hash_bytes(ba.data(), ba.size())); ctx.hash(hash_bytes(bb.data(), bb.size()));
    VCHECK(ctx, F::bytes(a) == ba, tag + ":bytes-roundtrip", "construct from bytes " << hex(ba) << " gives " << hex(F::bytes(a)));

    // text round trip
    std::string ta = a.to_string();
    A a2;
    try { a2 = F::parse(ta); }
    catch (const invalid_address&) { VFAIL(ctx, tag + ":text-roundtrip-rejected", "to_string gave '" << ta << "' which parse rejects, bytes " << hex(ba)); }
    VCHECK(ctx, a2 == a && F::bytes(a2) == ba, tag + ":text-roundtrip", "'" << ta << "' parsed to " << hex(F::bytes(a2)) << " expected " << hex(ba));
    // reference agrees with the produced text
    {
        uint8_t out[16] = {0};
        Verdict v = F::K == 0 ? ref_parse_v4(ta, out) : (F::K == 1 ? ref_parse_v6(ta, out) : ref_parse_hw(ta, out, F::N));
        VCHECK(ctx, v == ACCEPT && memcmp(out, ba.data(), F::N) == 0, tag + ":text-form",
               "to_string gave '" << ta << "' for bytes " << hex(ba) << "; reference parser verdict " << (int)v << " value " << hex(out, F::N));
        if (F::K == 0) VCHECK(ctx, ta == v4_text(ba.data()), tag + ":text-form", "dotted quad expected, got '" << ta << "'");
    }
    // alternative text forms must parse to the same address
    if (F::K == 1) {
        std::string alt = v6_text_variant(s, ba);
        uint8_t out[16];
        Verdict v = ref_parse_v6(alt, out);
        if (v == ACCEPT && memcmp(out, ba.data(), 16) == 0) {
            try {
                A a3 = F::parse(alt);
                VCHECK(ctx, a3 == a, tag + ":alt-form-value", "'" << alt << "' parsed to " << hex(F::bytes(a3)) << " expected " << hex(ba));
            } catch (const invalid_address&) {
                VFAIL(ctx, tag + ":alt-form-rejected", "valid RFC 4291 form '" << alt << "' rejected");
            }
            if (alt != ta) { ctx.label("v6-alt-form"); }
        }
    }
    // ordering, equality, hashing against byte order
    int c = cmp(ba, bb);
    bool ok = (a == b) == (c == 0) && (a != b) == (c != 0) && (a < b) == (c < 0) && (a > b) == (c > 0) &&
              (a <= b) == (c <= 0) && (a >= b) == (c >= 0);
    VCHECK(ctx, ok, tag + ":ordering", "a=" << hex(ba) << " b=" << hex(bb) << " cmp=" << c << " ==" << (a == b) << " <" << (a < b) << " >" << (a > b)
                                             << " <=" << (a <= b) << " >=" << (a >= b));
    std::hash<A> h;
    VCHECK(ctx, h(a) == h(a2), tag + ":hash", "equal addresses hash differently: " << ta);
    if (c == 0) VCHECK(ctx, h(a) == h(b), tag + ":hash", "equal addresses hash differently: " << ta);
    // bit operators
    {
        Bytes band(F::N), bor(F::N), bnot(F::N);
        for (unsigned i = 0; i < F::N; ++i) { band[i] = ba[i] & bb[i]; bor[i] = ba[i] | bb[i]; bnot[i] = (uint8_t)~ba[i]; }
        VCHECK(ctx, F::bytes(a & b) == band && F::bytes(a | b) == bor && F::bytes(~a) == bnot, tag + ":bitops",
               "a=" << hex(ba) << " b=" << hex(bb) << " &=" << hex(F::bytes(a & b)) << " |=" << hex(F::bytes(a | b)) << " ~=" << hex(F::bytes(~a)));
    }
    bool boundary = ba == Bytes(F::N, 0) || ba == Bytes(F::N, 0xff) || ba[F::N - 1] == 0xff || ba[F::N - 1] == 0;
    ctx.label(F::name());
    if (c != 0 && span(c < 0 ? ba : bb, c < 0 ? bb : ba) <= 1) ctx.label("order-neighbours");
    ctx.nontrivial(boundary || c == 0 || ctx.tier >= 0);
    ctx.sample(std::string(F::name()) + " text/order a=" + ta + " b=" + b.to_string());
}

// iterate a range in one of four styles with a step cap; returns false if the cap was exceeded
template <class A>
static bool iterate(const AddressRange<A>& r, unsigned style, size_t cap, std::vector<A>& out) {
    typedef typename AddressRange<A>::const_iterator It;
    It it = r.begin(), e = r.end();
    switch (style) {
        case 0:
            for (; it != e; ++it) { if (out.size() > cap) return false; out.push_back(*it); }
            return true;
        case 1:
            while (it != e) { if (out.size() > cap) return false; It old = it++; out.push_back(*old); }
            return true;
        case 2: {
            // std::distance first (bounded by hand), then std::copy
            size_t n = 0;
            for (It j = r.begin(); j != e; ++j) { if (++n > cap) return false; }
            if ((size_t)std::distance(r.begin(), r.end()) != n) return false;
            std::copy(r.begin(), r.end(), std::back_inserter(out));
            return true;
        }
        default:
            for (const A& a : r) { if (out.size() > cap) return false; out.push_back(a); }
            return true;
    }
}

template <class F>
static void check_range(Ctx& ctx, Src& s, const std::string& tag, const AddressRange<typename F::A>& r, const Bytes& first, const Bytes& last,
                        bool hosts, const std::string& desc) {
    typedef typename F::A A;
    // contains: probes at and around the ends, mid, random
    std::vector<Bytes> probes;
    Bytes t;
    t = first; probes.push_back(t); if (!dec(t)) probes.push_back(t);
    t = first; if (!inc(t)) probes.push_back(t);
    t = last; probes.push_back(t); if (!inc(t)) probes.push_back(t);
    t = last; if (!dec(t)) probes.push_back(t);
    probes.push_back(Bytes(F::N, 0)); probes.push_back(Bytes(F::N, 0xff));
    {   // a point inside: first with some of the free bits of last
        Bytes m(F::N), rnd = s.bytes(F::N);
        for (unsigned i = 0; i < F::N; ++i) m[i] = (uint8_t)((first[i] & ~rnd[i]) | (last[i] & rnd[i]));
        probes.push_back(m);
    }
    unsigned extra = (unsigned)s.range(0, 3);
    for (unsigned i = 0; i < extra; ++i) probes.push_back(gen_addr(s, F::N));
    for (const Bytes& p : probes) {
        bool expect = cmp(first, p) <= 0 && cmp(p, last) <= 0;
        bool got = r.contains(F::make(p));
        VCHECK(ctx, got == expect, tag + ":contains", desc << " first=" << hex(first) << " last=" << hex(last) << " x=" << hex(p) << " contains=" << got
                                                                 << " expected=" << expect);
    }
    // iteration for small ranges
    uint32_t sp = span(first, last);  // number of elements - 1
    const uint32_t LIMIT = ctx.tier ? 65535 : 4095;
    bool iterable = r.is_iterable();
    if (hosts) {
        // documented: a host range needs at least one host address... (distance >= 3)
        bool expect_iterable = sp >= 3;
        VCHECK(ctx, iterable == expect_iterable, tag + ":is_iterable", desc << " elements-1=" << sp << " is_iterable=" << iterable);
    } else {
        VCHECK(ctx, iterable, tag + ":is_iterable", desc << " plain range reports not iterable");
    }
    if (iterable) {
        // a non-empty iterable range never has begin() == end() (this is what the wrap-aware end sentinel is for)
        VCHECK(ctx, r.begin() != r.end(), tag + ":begin-equals-end", desc << " is iterable but begin() == end()");
    }
    if (sp <= LIMIT && iterable) {
        Bytes lo = first, hi = last;
        if (hosts) { inc(lo); dec(hi); }
        uint32_t count = span(lo, hi) + 1;
        unsigned style = (unsigned)s.range(0, 3);
        std::vector<A> got;
        got.reserve(count);
        bool term = iterate(r, style, (size_t)count + 2, got);
        VCHECK(ctx, term, tag + ":iteration-does-not-terminate", desc << " style=" << style << " expected " << count << " addresses, visited more than " << got.size() - 1);
        VCHECK(ctx, got.size() == count, tag + ":iteration-count", desc << " style=" << style << " expected " << count << " addresses, got " << got.size());
        Bytes cur = lo;
        for (size_t i = 0; i < got.size(); ++i) {
            VCHECK(ctx, F::bytes(got[i]) == cur, tag + ":iteration-value", desc << " style=" << style << " element " << i << " is " << hex(F::bytes(got[i])) << " expected "
                                                                                  << hex(cur));
            inc(cur);
        }
        ctx.label("iterated");
        if (last == Bytes(F::N, 0xff)) { ctx.label("iterated-to-all-ones"); }
        if (style == 1) ctx.label("post-increment");
        ctx.nontrivial();
    }
    if (last == Bytes(F::N, 0xff)) ctx.label("ends-at-all-ones");
}

template <class F>
static void range_prefix(Src& s, Ctx& ctx) {
    typedef typename F::A A;
    std::string tag = std::string("C16:") + F::name();
    unsigned maxp = F::N * 8;
    unsigned p;
    switch (s.weighted({3, 3, 1})) {
        case 0: p = (unsigned)s.range(0, maxp); break;
        case 1: p = maxp - (unsigned)s.range(0, std::min(16u, maxp)); break;  // small ranges: iterable
        default: { static const unsigned E[] = {0, 1, 7, 8, 9, 31, 32, 33, 47, 48, 127, 128}; p = std::min(maxp, E[s.pick(12)]); }
    }
    Bytes ba = gen_addr(s, F::N);
    A a = F::make(ba);
    Bytes mask = prefix_mask(F::N, p), first(F::N), last(F::N);
    for (unsigned i = 0; i < F::N; ++i) { first[i] = ba[i] & mask[i]; last[i] = (uint8_t)(ba[i] | ~mask[i]); }
    ctx.hash(tag + ":prefix"); ctx.hash(p); ctx.hash(hash_bytes(ba.data(), ba.size()));
    std::ostringstream d;
    d << a.to_string() << "/" << p;
    AddressRange<A> r = F::slash(a, (int)p);
    ctx.label(std::string(F::name()) + "-prefix");
    ctx.nontrivial(p == 0 || p == 1 || p >= maxp - 1 || p == 31 || p == 32 || p == 47 || p == 48 || last == Bytes(F::N, 0xff));
    ctx.sample("range " + d.str());
    check_range<F>(ctx, s, tag + ":prefix", r, first, last, true, d.str());
    // over-long prefixes are rejected with logic_error as documented in the header
    if (s.chance(10)) {
        int bad = (int)maxp + 1 + (int)s.range(0, 300);
        bool threw = false;
        try { F::slash(a, bad); } catch (const std::logic_error&) { threw = true; }
        VCHECK(ctx, threw, tag + ":prefix-too-long-accepted", a.to_string() << "/" << bad << " accepted");
    }
}

template <class F>
static void range_mask(Src& s, Ctx& ctx) {
    typedef typename F::A A;
    std::string tag = std::string("C16:") + F::name();
    Bytes ba = gen_addr(s, F::N), mask(F::N, 0xff);
    switch (s.weighted({2, 3, 1})) {
        case 0: mask = s.bytes(F::N); break;
        case 1: {  // arbitrary bits in the low 12..16 bits only: small range
            Bytes lowm = s.bytes(2);
            mask[F::N - 2] = lowm[0] | (ctx.tier ? 0 : 0xf0);
            mask[F::N - 1] = lowm[1];
            break;
        }
        default: mask = prefix_mask(F::N, (unsigned)s.range(0, F::N * 8)); break;
    }
    A a = F::make(ba), m = F::make(mask);
    Bytes first(F::N), last(F::N);
    for (unsigned i = 0; i < F::N; ++i) { first[i] = ba[i] & mask[i]; last[i] = (uint8_t)(ba[i] | ~mask[i]); }
    ctx.hash(tag + ":mask"); ctx.hash(hash_bytes(mask.data(), mask.size())); ctx.hash(hash_bytes(ba.data(), ba.size()));
    AddressRange<A> r = AddressRange<A>::from_mask(a, m);
    std::ostringstream d;
    d << "from_mask(" << a.to_string() << ", " << m.to_string() << ")";
    ctx.label(std::string(F::name()) + "-mask");
    ctx.nontrivial();
    ctx.sample(d.str());
    check_range<F>(ctx, s, tag + ":mask", r, first, last, true, d.str());
}

template <class F>
static void range_explicit(Src& s, Ctx& ctx) {
    typedef typename F::A A;
    std::string tag = std::string("C16:") + F::name();
    Bytes first = gen_addr(s, F::N), last;
    bool hosts = s.chance(30);
    switch (s.weighted({4, 2, 1})) {
        case 0: last = add_small(first, (uint32_t)s.range(0, ctx.tier ? 70000 : 5000)); break;
        case 1: {  // ends at all-ones
            last = Bytes(F::N, 0xff);
            first = last;
            uint32_t k = (uint32_t)s.range(0, ctx.tier ? 66000 : 4200);
            for (uint32_t i = 0; i < k; ++i) dec(first);  // k small
            break;
        }
        default: last = gen_addr(s, F::N); break;
    }
    ctx.hash(tag + ":explicit"); ctx.hash(hash_bytes(first.data(), first.size())); ctx.hash(hash_bytes(last.data(), last.size())); ctx.hash(hosts);
    A fa = F::make(first), la = F::make(last);
    std::ostringstream d;
    d << "range[" << fa.to_string() << ", " << la.to_string() << "]" << (hosts ? " hosts-only" : "");
    ctx.label(std::string(F::name()) + "-explicit");
    if (cmp(last, first) < 0) {
        bool threw = false;
        try { AddressRange<A> r(fa, la, hosts); } catch (const exception_base&) { threw = true; }
        VCHECK(ctx, threw, tag + ":explicit:inverted-accepted", d.str() << " accepted although last < first");
        ctx.label("inverted-range");
        return;
    }
    AddressRange<A> r(fa, la, hosts);
    ctx.nontrivial();
    ctx.sample(d.str());
    check_range<F>(ctx, s, tag + ":explicit", r, first, last, hosts, d.str());
}

template <class F>
static void string_accept(Src& s, Ctx& ctx) {
    typedef typename F::A A;
    std::string tag = std::string("C16:") + F::name();
    Bytes ba = gen_addr(s, F::N);
    std::string base;
    if (F::K == 0) base = v4_text(ba.data());
    else if (F::K == 1) base = v6_text_variant(s, ba);
    else {
        base = F::make(ba).to_string();
        if (s.chance(30)) { unsigned g = 1 + (unsigned)s.range(0, F::N - 1); base = base.substr(0, g * 3 - 1); }  // short form
        if (s.boolean()) for (char& c : base) c = (char)toupper(c);
    }
    std::string t = mutate_text(s, base);
    for (char& c : t) if (c == 0) c = '0';
    uint8_t out[16] = {0};
    Verdict v = F::K == 0 ? ref_parse_v4(t, out) : (F::K == 1 ? ref_parse_v6(t, out) : ref_parse_hw(t, out, F::N));
    ctx.hash(tag + ":string"); ctx.hash(t);
    bool accepted = false;
    Bytes got;
    try {
        A a = F::parse(t);
        accepted = true;
        got = F::bytes(a);
    } catch (const invalid_address&) {
        accepted = false;
    }
    // the other textual constructor (const char* / char array) must decide and decode exactly like the std::string one
    if (t.size() < 159) {
        bool accepted_c = false;
        Bytes got_c;
        try { A a = F::parse_c(t); accepted_c = true; got_c = F::bytes(a); } catch (const invalid_address&) {}
        VCHECK(ctx, accepted_c == accepted && got_c == got, tag + ":c-string-constructor-differs",
               "'" << t << "': std::string constructor " << (accepted ? "accepts as " + hex(got) : std::string("rejects")) << ", C-string constructor "
                   << (accepted_c ? "accepts as " + hex(got_c) : std::string("rejects")));
    }
    if (v == ACCEPT) {
        VCHECK(ctx, accepted, tag + ":string-valid-rejected", "valid text '" << t << "' rejected");
        VCHECK(ctx, memcmp(got.data(), out, F::N) == 0, tag + ":string-value", "'" << t << "' parsed to " << hex(got) << " reference " << hex(out, F::N));
        ctx.label("string-valid");
    } else if (v == REJECT) {
        VCHECK(ctx, !accepted, tag + ":string-invalid-accepted", "invalid text '" << t << "' accepted as " << hex(got));
        ctx.label("string-invalid");
    } else {
        ctx.label("string-unspecified");
    }
    ctx.label(std::string(F::name()) + "-string");
    ctx.nontrivial(t != base);
    ctx.sample(std::string(F::name()) + " string '" + t + "' -> " + (accepted ? "accepted" : "rejected"));
}

template <class F>
static void range_prefix_fixed(unsigned p, Src& s, Ctx& ctx) {
    typedef typename F::A A;
    std::string tag = std::string("C16:") + F::name();
    unsigned maxp = F::N * 8;
    if (p > maxp) p = maxp;
    // address: class byte 1 = zeros, 2 = ones, otherwise literal bytes
    unsigned cls = s.u8();
    Bytes ba(F::N, 0);
    if (cls == 2) std::fill(ba.begin(), ba.end(), 0xff);
    else if (cls != 1) ba = s.bytes(F::N);
    A a = F::make(ba);
    Bytes mask = prefix_mask(F::N, p), first(F::N), last(F::N);
    for (unsigned i = 0; i < F::N; ++i) { first[i] = ba[i] & mask[i]; last[i] = (uint8_t)(ba[i] | ~mask[i]); }
    ctx.hash(tag + ":prefix"); ctx.hash(p); ctx.hash(hash_bytes(ba.data(), ba.size()));
    std::ostringstream d;
    d << a.to_string() << "/" << p;
    AddressRange<A> r = F::slash(a, (int)p);
    ctx.nontrivial();
    ctx.sample("range " + d.str());
    // from_prefix_length against the reference mask
    check_range<F>(ctx, s, tag + ":prefix", r, first, last, true, d.str());
}

template <class F>
static void dispatch(unsigned kind, Src& s, Ctx& ctx) {
    switch (kind) {
        case 0: text_and_order<F>(s, ctx); break;
        case 1: range_prefix<F>(s, ctx); break;
        case 2: range_mask<F>(s, ctx); break;
        case 3: range_explicit<F>(s, ctx); break;
        default: string_accept<F>(s, ctx); break;
    }
}

void prop(Src& s, Ctx& ctx) {
    unsigned sel = s.u8();
    if (sel >= 250) {
        // enumerated block (see prop_enum): every prefix length of every family on fixed address classes
        unsigned fam = s.u8() % 3, p = s.u8();
        ctx.label("enumerated-prefix-block");
        Src rest = s.sub();
        (void)p;
        if (fam == 0) range_prefix_fixed<V4>(p, rest, ctx);
        else if (fam == 1) range_prefix_fixed<V6>(p, rest, ctx);
        else range_prefix_fixed<HW>(p, rest, ctx);
        return;
    }
    static const unsigned KIND[15] = {0, 0, 0, 1, 1, 1, 2, 2, 3, 3, 3, 4, 4, 4, 4};
    unsigned kind = KIND[sel % 15];
    unsigned fam = (unsigned)s.range(0, 2);
    if (fam == 0) dispatch<V4>(kind, s, ctx);
    else if (fam == 1) dispatch<V6>(kind, s, ctx);
    else {
        // hardware addresses of other widths libtins itself uses (no further choice byte: taken from the selector)
        unsigned variant = (sel / 15) % 4;
        if (variant == 2) dispatch<HW8>(kind, s, ctx);
        else if (variant == 3) dispatch<HW16>(kind, s, ctx);
        else dispatch<HW>(kind, s, ctx);
    }
}

// exhaustive block: family x prefix length x 6 address classes
bool prop_enum(uint64_t idx, std::vector<uint8_t>& out) {
    static const unsigned MAXP[3] = {32, 128, 48};
    static const uint8_t ADDR[6][17] = {
        {16, 1}, {16, 2},                                         // all zeros, all ones
        {16, 0, 0xc0, 0xa8, 0x01, 0x7f, 0x12, 0x34, 0x56, 0x78, 0x9a, 0xbc, 0xde, 0xf0, 0x11, 0x22, 0x33},
        {16, 0, 0xff, 0xff, 0xff, 0xfe, 0xff, 0xff, 0xff, 0xff, 0xff, 0xff, 0xff, 0xff, 0xff, 0xff, 0xff},
        {16, 0, 0x00, 0x00, 0x00, 0x01, 0x00, 0x00, 0x00, 0x00, 0x00, 0x00, 0x00, 0x00, 0x00, 0x00, 0x00},
        {16, 0, 0x80, 0x00, 0x00, 0x00, 0x7f, 0xff, 0x80, 0x00, 0x00, 0x01, 0xff, 0xfe, 0x00, 0xff, 0xff},
    };
    uint64_t i = idx;
    for (unsigned fam = 0; fam < 3; ++fam) {
        uint64_t block = (uint64_t)(MAXP[fam] + 1) * 6;
        if (i < block) {
            unsigned p = (unsigned)(i / 6), a = (unsigned)(i % 6);
            out.clear();
            out.push_back(250); out.push_back((uint8_t)fam); out.push_back((uint8_t)p);
            out.push_back(ADDR[a][0]);
            out.insert(out.end(), ADDR[a] + 1, ADDR[a] + 17);
            return true;
        }
        i -= block;
    }
    return false;
}
