// C14 — response matching accepts mirrored replies, rejects strangers, is memory-safe.
//
// (a) A request r is built with the libtins API (Ethernet [+802.1Q x0..2] / IPv4|IPv6 / TCP | UDP+payload | ICMP echo,
//     timestamp, address-mask | ICMPv6 echo | DNS over UDP; random public setters and option programs on every layer,
//     then the matched fields pinned to generated values).  The mirrored reply is written AS BYTES by the reference
//     writer below (no libtins code): addresses and ports swapped, reply type, same id/seq/DNS id, its own IP/TCP
//     options, IPv6 extension headers, lengths and checksums.  Oracle: r.matches_response(mirror) == true.
// (b) Every matched field of the mirror is perturbed alone: matches_response must be false, except in the relaxed
//     classes the matchers implement on purpose (request sent to a broadcast / ff02:: destination), where the reply
//     is expected to be accepted (grounded in the code comments and in the upstream DHCP matching test).
//     "Stranger": an ICMP error from a third host quoting a header that is not the request's must be rejected; a
//     destination-unreachable quoting the request's own header is accepted (pdu.h / ip.cpp comments, upstream tests).
// (c) Memory safety: every layer class x every buffer length 0..128, buffer at the end of an exact-size heap block;
//     random-state objects; packet-builder chains; every truncation of the valid replies of (a).
#include "../engine/src.h"
#include "../genlib/parsed.h"
#include "../genlib/builder.h"

using namespace verif;
using namespace Tins;

const char* const PROP_ID = "C14";
const size_t PROP_MAXLEN_QUICK = 768;
const size_t PROP_MAXLEN_THOROUGH = 2048;

// =====================================================================================================================
// Reference byte writer (written from RFC 791/792/793/768/8200/4443/1035, IEEE 802.3/802.1Q) — shares no code with libtins
// =====================================================================================================================
typedef std::vector<uint8_t> Bytes;
static inline void p8(Bytes& b, unsigned v) { b.push_back((uint8_t)v); }
static inline void p16(Bytes& b, unsigned v) { b.push_back((uint8_t)(v >> 8)); b.push_back((uint8_t)v); }
static inline void p32(Bytes& b, uint32_t v) { p16(b, v >> 16); p16(b, v & 0xffff); }
static inline void pn(Bytes& b, const uint8_t* d, size_t n) { b.insert(b.end(), d, d + n); }
static inline void pv(Bytes& b, const Bytes& d) { b.insert(b.end(), d.begin(), d.end()); }
static inline void w16(Bytes& b, size_t off, unsigned v) { b[off] = (uint8_t)(v >> 8); b[off + 1] = (uint8_t)v; }
static inline unsigned r16(const Bytes& b, size_t off) { return (unsigned)(b[off] << 8) | b[off + 1]; }

static uint32_t sum16(const uint8_t* d, size_t n, uint32_t acc) {
    for (size_t i = 0; i < n; i += 2) acc += (uint32_t)(d[i] << 8) | (i + 1 < n ? d[i + 1] : 0);
    return acc;
}
static uint16_t fold(uint32_t acc) {
    while (acc >> 16) acc = (acc & 0xffff) + (acc >> 16);
    return (uint16_t)~acc;
}

enum Link { LINK_ETH, LINK_NONE, LINK_DOT3, LINK_LOOPBACK };
enum L4 { L4_TCP, L4_UDP_RAW, L4_UDP_DNS, L4_ICMP_ECHO, L4_ICMP_TS, L4_ICMP_MASK, L4_ICMP6_ECHO,
          // safety-only stacks (not part of clauses (a)/(b))
          L4_UDP_BOOTP, L4_UDP_DHCP, L4_UDP_DHCPV6, L4_TCP_DNS };

// the request as the generator decided it (the mirror is computed from this record, never from libtins getters)
struct Req {
    Link link = LINK_ETH;
    uint8_t smac[6] = {0}, dmac[6] = {0};
    unsigned ntags = 0;
    uint16_t vid[2] = {0, 0};
    bool has_net = true, v6 = false;
    uint8_t sip[16] = {0}, dip[16] = {0};   // IPv4 uses the first four bytes
    L4 l4 = L4_TCP;
    uint16_t sport = 0, dport = 0, id = 0, seq = 0, dnsid = 0;
    uint32_t xid = 0;
    bool dmac_unicast() const { return (dmac[0] & 1) == 0; }
    bool dmac_broadcast() const { for (int i = 0; i < 6; ++i) if (dmac[i] != 0xff) return false; return true; }
    bool dip4_broadcast() const { return dip[0] == 255 && dip[1] == 255 && dip[2] == 255 && dip[3] == 255; }
    bool sip4_zero() const { return !sip[0] && !sip[1] && !sip[2] && !sip[3]; }
    bool dip6_ff02() const { return dip[0] == 0xff && dip[1] == 0x02; }
    size_t alen() const { return v6 ? 16 : 4; }
    unsigned proto() const {
        switch (l4) {
            case L4_TCP: case L4_TCP_DNS: return 6;
            case L4_ICMP_ECHO: case L4_ICMP_TS: case L4_ICMP_MASK: return 1;
            case L4_ICMP6_ECHO: return 58;
            default: return 17;
        }
    }
    bool is_icmp4() const { return l4 == L4_ICMP_ECHO || l4 == L4_ICMP_TS || l4 == L4_ICMP_MASK; }
    bool extended() const { return link == LINK_LOOPBACK || l4 >= L4_UDP_BOOTP; }
    unsigned icmp_request_type() const { return l4 == L4_ICMP_ECHO ? 8 : l4 == L4_ICMP_TS ? 13 : l4 == L4_ICMP_MASK ? 17 : 128; }
    unsigned icmp_reply_type() const { return l4 == L4_ICMP_ECHO ? 0 : l4 == L4_ICMP_TS ? 14 : l4 == L4_ICMP_MASK ? 18 : 129; }
    unsigned matching_layers() const {
        return (link == LINK_ETH || link == LINK_DOT3 || link == LINK_LOOPBACK ? 1 : 0) + ntags + (has_net ? 2 : 0) + (l4 == L4_UDP_DNS ? 1 : 0);
    }
};

// where the fields of a written packet are
struct Layout {
    int eth = -1;              // 14-byte Ethernet II / 802.3 header
    int tag[2] = {-1, -1};     // each 802.1Q tag: TCI (2 bytes) + following type (2 bytes)
    int ntags = 0;
    int ip = -1;               // IPv4 / IPv6 header
    bool v6 = false;
    int iphl = 0;              // IPv4: ihl*4; IPv6: 40 + extension headers
    int l4 = -1, l4len = 0;
    unsigned proto = 0;
    int dns = -1;
};
struct Wire { Bytes b; Layout L; std::string what; };

static void fix_checksums(Bytes& b, const Layout& L) {
    if (L.ip < 0) return;
    uint32_t pseudo = 0;
    if (!L.v6) {
        w16(b, L.ip + 10, 0);
        w16(b, L.ip + 10, fold(sum16(&b[L.ip], L.iphl, 0)));
        pseudo = sum16(&b[L.ip + 12], 8, 0) + L.proto + (uint32_t)L.l4len;
    } else {
        pseudo = sum16(&b[L.ip + 8], 32, 0) + (uint32_t)L.l4len + L.proto;
    }
    if (L.l4 < 0) return;
    switch (L.proto) {
        case 6:
            if (L.l4len >= 20) { w16(b, L.l4 + 16, 0); w16(b, L.l4 + 16, fold(sum16(&b[L.l4], L.l4len, pseudo))); }
            break;
        case 17:
            if (L.l4len >= 8) {
                w16(b, L.l4 + 6, 0);
                uint16_t c = fold(sum16(&b[L.l4], L.l4len, pseudo));
                w16(b, L.l4 + 6, c ? c : 0xffff);
            }
            break;
        case 1:
            if (L.l4len >= 4) { w16(b, L.l4 + 2, 0); w16(b, L.l4 + 2, fold(sum16(&b[L.l4], L.l4len, 0))); }
            break;
        case 58:
            if (L.l4len >= 4) { w16(b, L.l4 + 2, 0); w16(b, L.l4 + 2, fold(sum16(&b[L.l4], L.l4len, pseudo))); }
            break;
        default: break;
    }
}

// ---- free parts of a reply ------------------------------------------------------------------------------------------
static Bytes gen_ip4_options(Src& s) {
    Bytes o;
    switch (s.weighted({5, 1, 1, 1, 1, 1})) {
        case 0: break;
        case 1: o = {1, 1, 1, 0}; break;                                        // NOP NOP NOP EOL
        case 2: o = {148, 4, 0, 0}; break;                                      // router alert
        case 3: { unsigned slots = 1 + (unsigned)s.range(0, 8); p8(o, 7); p8(o, 3 + 4 * slots); p8(o, 4); for (unsigned i = 0; i < 4 * slots; ++i) p8(o, 0); break; }   // record route
        case 4: { p8(o, 68); p8(o, 12); p8(o, 5); p8(o, 0); p32(o, s.u32()); p32(o, 0); break; }                              // timestamp
        default: { o = {148, 4, 0, 0, 1, 1}; unsigned slots = 1 + (unsigned)s.range(0, 7); p8(o, 7); p8(o, 3 + 4 * slots); p8(o, 4); for (unsigned i = 0; i < 4 * slots; ++i) p8(o, 0); break; }
    }
    while (o.size() % 4) p8(o, 0);
    if (o.size() > 40) o.resize(40);
    return o;
}
static Bytes gen_tcp_options(Src& s) {
    Bytes o;
    switch (s.weighted({5, 2, 2, 1, 1})) {
        case 0: break;
        case 1: o = {2, 4}; p16(o, s.u16()); break;                                               // MSS
        case 2: o = {1, 1, 8, 10}; p32(o, s.u32()); p32(o, s.u32()); break;                       // NOP NOP timestamps
        case 3: o = {2, 4, 5, 180, 4, 2, 8, 10}; p32(o, s.u32()); p32(o, 0); o.push_back(1); o.push_back(3); o.push_back(3); o.push_back(7); break;
        default: { o = {1, 1, 5, 34}; for (int i = 0; i < 32; ++i) p8(o, s.u8()); o.push_back(1); o.push_back(1); o.push_back(1); o.push_back(0); break; }   // 4 SACK blocks: 40 bytes
    }
    while (o.size() % 4) p8(o, 0);
    return o;
}
// IPv6 extension header chain in the order recommended by RFC 8200; returns the chain and the first next-header value
static Bytes gen_ext6(Src& s, unsigned final_nh, unsigned& first_nh, std::string& what) {
    static const unsigned ORDER[5] = {0, 60, 43, 44, 60};
    std::vector<unsigned> types;
    if (s.chance(60)) for (unsigned i = 0; i < 5; ++i) if (s.chance(40)) types.push_back(ORDER[i]);
    Bytes e;
    first_nh = types.empty() ? final_nh : types[0];
    for (size_t i = 0; i < types.size(); ++i) {
        unsigned next = i + 1 < types.size() ? types[i + 1] : final_nh;
        what += " ext" + std::to_string(types[i]);
        if (types[i] == 44) {              // fragment header of an atomic fragment (offset 0, M = 0)
            p8(e, next); p8(e, 0); p16(e, 0); p32(e, s.u32());
        } else if (types[i] == 43) {       // routing header, segments left 0
            unsigned units = s.boolean() ? 2 : 0;
            p8(e, next); p8(e, units); p8(e, s.u8()); p8(e, 0);
            for (unsigned k = 0; k < 4 + 8 * units; ++k) p8(e, 0);
        } else {                           // hop-by-hop / destination options: one PadN
            static const unsigned UNITS[6] = {0, 0, 1, 2, 0, 31};
            unsigned units = UNITS[s.pick(6)];
            unsigned total = (units + 1) * 8;
            p8(e, next); p8(e, units); p8(e, 1); p8(e, total - 4);
            for (unsigned k = 0; k < total - 4; ++k) p8(e, 0);
        }
    }
    return e;
}
static const uint8_t DNS_NAME[] = {3, 'w', 'w', 'w', 7, 'e', 'x', 'a', 'm', 'p', 'l', 'e', 3, 'c', 'o', 'm', 0};

// the layers in front of the network header of a packet sent back to the requester
static void write_link(const Req& q, Src& s, Wire& w, unsigned ethertype) {
    Bytes& b = w.b;
    Layout& L = w.L;
    if (q.link == LINK_ETH) {
        L.eth = 0;
        pn(b, q.smac, 6);    // reply destination = request source
        pn(b, q.dmac, 6);    // reply source = request destination
        L.ntags = (int)q.ntags;
        for (unsigned i = 0; i < q.ntags; ++i) {
            p16(b, (i == 0 && q.ntags == 2 && s.boolean()) ? 0x88a8 : 0x8100);
            L.tag[i] = (int)b.size();
            p16(b, ((unsigned)(s.u8() & 0xf) << 12) | q.vid[i]);   // priority / DEI free, VLAN id as in the request
        }
        p16(b, ethertype);
    } else if (q.link == LINK_LOOPBACK) {
        uint32_t fam = q.v6 ? 30 : 2;   // host byte order on the wire (little endian here)
        p8(b, fam); p8(b, 0); p8(b, 0); p8(b, 0);
    }
}
// IPv4 / IPv6 header of a packet from `src` to `dst` (checksum and lengths filled in by finish())
static void write_net(bool v6, const uint8_t* src, const uint8_t* dst, unsigned proto, Src& s, Wire& w) {
    Bytes& b = w.b;
    Layout& L = w.L;
    L.v6 = v6;
    L.proto = proto;
    L.ip = (int)b.size();
    if (!v6) {
        Bytes opts = gen_ip4_options(s);
        L.iphl = 20 + (int)opts.size();
        if (!opts.empty()) w.what += " ipopts=" + std::to_string(opts.size());
        p8(b, 0x40 | (L.iphl / 4)); p8(b, s.u8()); p16(b, 0); p16(b, s.u16()); p16(b, s.boolean() ? 0x4000 : 0);
        p8(b, 1 + s.u8() % 255); p8(b, proto); p16(b, 0);
        pn(b, src, 4); pn(b, dst, 4);
        pv(b, opts);
    } else {
        unsigned first_nh = proto;
        Bytes ext = gen_ext6(s, proto, first_nh, w.what);
        L.iphl = 40 + (int)ext.size();
        p32(b, 0x60000000u | (s.u32() & 0x0fffffffu)); p16(b, 0); p8(b, first_nh); p8(b, 1 + s.u8() % 255);
        pn(b, src, 16); pn(b, dst, 16);
        pv(b, ext);
    }
    L.l4 = (int)b.size();
}
static void finish(Wire& w, Src& s, bool may_pad) {
    Bytes& b = w.b;
    Layout& L = w.L;
    if (L.ip >= 0) {
        L.l4len = (int)b.size() - L.l4;
        if (!L.v6) w16(b, L.ip + 2, (unsigned)(L.iphl + L.l4len));
        else w16(b, L.ip + 4, (unsigned)(L.iphl - 40 + L.l4len));
    }
    if (may_pad && L.eth >= 0 && b.size() < 60 && s.boolean()) { b.resize(60, 0); w.what += " padded"; }   // Ethernet minimum frame
    fix_checksums(b, L);
}

static Bytes dns_reply(const Req& q, Src& s) {
    Bytes pl;
    bool qd = s.boolean(), an = s.boolean();
    p16(pl, q.dnsid); p16(pl, 0x8000 | (s.u16() & 0x7fff)); p16(pl, qd); p16(pl, an); p16(pl, 0); p16(pl, 0);
    if (qd) { pn(pl, DNS_NAME, sizeof DNS_NAME); p16(pl, 1); p16(pl, 1); }
    if (an) {
        if (qd) p16(pl, 0xc00c); else pn(pl, DNS_NAME, sizeof DNS_NAME);
        p16(pl, 1); p16(pl, 1); p32(pl, s.u32()); p16(pl, 4); p32(pl, s.u32());
    }
    return pl;
}

static Wire write_mirror(const Req& q, Src& s) {
    Wire w;
    Bytes& b = w.b;
    Layout& L = w.L;
    if (q.link == LINK_DOT3) {
        L.eth = 0;
        pn(b, q.smac, 6); pn(b, q.dmac, 6);
        Bytes pl = s.bytes(s.range(0, 8));
        p16(b, (unsigned)pl.size());
        pv(b, pl);
        return w;
    }
    write_link(q, s, w, q.v6 ? 0x86dd : 0x0800);
    write_net(q.v6, q.dip, q.sip, q.proto(), s, w);
    switch (q.l4) {
        case L4_TCP: case L4_TCP_DNS: {
            Bytes opts = gen_tcp_options(s);
            if (!opts.empty()) w.what += " tcpopts=" + std::to_string(opts.size());
            p16(b, q.dport); p16(b, q.sport); p32(b, s.u32()); p32(b, s.u32());
            p8(b, ((5 + opts.size() / 4) << 4)); p8(b, s.u8()); p16(b, s.u16()); p16(b, 0); p16(b, 0);
            pv(b, opts);
            if (q.l4 == L4_TCP_DNS) { L.dns = (int)b.size(); pv(b, dns_reply(q, s)); }
            else pv(b, s.bytes(gen_len(s, 48)));
            break;
        }
        case L4_UDP_RAW: case L4_UDP_DNS: case L4_UDP_BOOTP: case L4_UDP_DHCP: case L4_UDP_DHCPV6: {
            Bytes pl;
            if (q.l4 == L4_UDP_RAW) pl = s.bytes(gen_len(s, 48));
            else if (q.l4 == L4_UDP_DNS) pl = dns_reply(q, s);
            else if (q.l4 == L4_UDP_DHCPV6) {
                p8(pl, s.boolean() ? 2 : 7); p8(pl, q.xid >> 16); p16(pl, q.xid & 0xffff);
                pv(pl, s.bytes(gen_len(s, 24)));
            } else {
                p8(pl, 2); p8(pl, 1); p8(pl, 6); p8(pl, 0); p32(pl, q.xid); p16(pl, s.u16()); p16(pl, s.u16());
                for (int i = 0; i < 4; ++i) p32(pl, s.u32());
                pn(pl, q.smac, 6); for (int i = 0; i < 10 + 64 + 128; ++i) p8(pl, 0);
                if (q.l4 == L4_UDP_DHCP) { p32(pl, 0x63825363); p8(pl, 53); p8(pl, 1); p8(pl, 2); p8(pl, 255); }
            }
            p16(b, q.dport); p16(b, q.sport); p16(b, (unsigned)(8 + pl.size())); p16(b, 0);
            if (q.l4 == L4_UDP_DNS) L.dns = (int)b.size();
            pv(b, pl);
            break;
        }
        case L4_ICMP_ECHO: case L4_ICMP_TS: case L4_ICMP_MASK: case L4_ICMP6_ECHO: {
            p8(b, q.icmp_reply_type()); p8(b, 0); p16(b, 0); p16(b, q.id); p16(b, q.seq);
            if (q.l4 == L4_ICMP_TS) { p32(b, s.u32()); p32(b, s.u32()); p32(b, s.u32()); }
            else if (q.l4 == L4_ICMP_MASK) p32(b, 0xffffff00u);
            else pv(b, s.bytes(gen_len(s, 56)));
            break;
        }
    }
    finish(w, s, true);
    return w;
}

// ICMP / ICMPv6 error message sent to the requester by `from`, quoting `quoted`
static Wire write_icmp_error(const Req& q, const uint8_t* from, unsigned type, const Bytes& quoted, Src& s) {
    Wire w;
    Bytes& b = w.b;
    write_link(q, s, w, q.v6 ? 0x86dd : 0x0800);
    write_net(q.v6, from, q.sip, q.v6 ? 58 : 1, s, w);
    p8(b, type); p8(b, s.u8() % 16); p16(b, 0); p32(b, 0);
    pv(b, quoted);
    finish(w, s, false);
    return w;
}

// =====================================================================================================================
// Generators
// =====================================================================================================================
static void gen_mac(Src& s, uint8_t* m) {
    switch (s.weighted({5, 2, 1, 1, 1})) {
        case 0: { Bytes r = s.bytes(6); memcpy(m, r.data(), 6); m[0] &= 0xfe; break; }    // unicast
        case 1: { Bytes r = s.bytes(6); memcpy(m, r.data(), 6); break; }
        case 2: memset(m, 0xff, 6); break;                                                // broadcast
        case 3: { static const uint8_t mc4[6] = {0x01, 0x00, 0x5e, 0x00, 0x00, 0xfb}; memcpy(m, mc4, 6); break; }
        default: { static const uint8_t mc6[6] = {0x33, 0x33, 0x00, 0x00, 0x00, 0x01}; memcpy(m, mc6, 6); m[5] = s.u8(); break; }
    }
}
static void gen_ip4(Src& s, uint8_t* a) {
    uint32_t v;
    switch (s.weighted({5, 2, 1, 1, 1})) {
        case 0: v = s.u32(); break;
        case 1: v = (uint32_t)s.edgy(32); break;
        case 2: v = 0xffffffffu; break;                      // limited broadcast
        case 3: v = 0x0a000000u | s.u8(); break;
        default: v = 0xe0000000u | s.u8(); break;            // multicast
    }
    a[0] = v >> 24; a[1] = v >> 16; a[2] = v >> 8; a[3] = v;
}
static void gen_ip6(Src& s, uint8_t* a) {
    memset(a, 0, 16);
    switch (s.weighted({5, 1, 2, 1, 1, 1})) {
        case 0: { Bytes r = s.bytes(16); memcpy(a, r.data(), 16); break; }
        case 1: a[15] = s.u8(); break;                                               // ::x
        case 2: a[0] = 0xff; a[1] = 0x02; a[15] = s.u8(); if (s.boolean()) { a[11] = 1; a[12] = 0xff; a[13] = s.u8(); } break;   // ff02::/16
        case 3: a[0] = 0xfe; a[1] = 0x80; a[8] = s.u8(); a[15] = s.u8(); break;
        case 4: memset(a, 0xff, 16); break;
        default: a[0] = 0xff; a[1] = s.u8(); a[15] = 1; break;                       // other multicast scopes
    }
}
static std::string mac_str(const uint8_t* m) { char t[32]; snprintf(t, sizeof t, "%02x:%02x:%02x:%02x:%02x:%02x", m[0], m[1], m[2], m[3], m[4], m[5]); return t; }
static std::string ip_str(const uint8_t* a, bool v6) {
    if (!v6) { char t[32]; snprintf(t, sizeof t, "%u.%u.%u.%u", a[0], a[1], a[2], a[3]); return t; }
    return hex(a, 16);
}
static IPv4Address to_v4(const uint8_t* a) { uint32_t v; memcpy(&v, a, 4); return IPv4Address(v); }

static Req gen_req(Src& s, bool extended) {
    Req q;
    unsigned link = (unsigned)s.weighted({12, 3, 1});
    q.link = link == 0 ? LINK_ETH : link == 1 ? LINK_NONE : LINK_DOT3;
    if (extended && s.boolean()) q.link = LINK_LOOPBACK;
    if (q.link == LINK_ETH || q.link == LINK_DOT3) { gen_mac(s, q.smac); gen_mac(s, q.dmac); }
    if (q.link == LINK_DOT3) { q.has_net = false; return q; }
    if (q.link == LINK_ETH) {
        q.ntags = (unsigned)s.weighted({5, 3, 1});
        for (unsigned i = 0; i < q.ntags; ++i) q.vid[i] = (uint16_t)s.edgy(12);
    }
    q.v6 = s.chance(40);
    if (q.v6) { gen_ip6(s, q.sip); gen_ip6(s, q.dip); }
    else {
        gen_ip4(s, q.sip); gen_ip4(s, q.dip);
        // the DHCP-discover shape: 0.0.0.0 -> 255.255.255.255 on the broadcast MAC (the matchers relax both address tests for it)
        if (q.link == LINK_ETH && s.chance(5)) { memset(q.sip, 0, 4); memset(q.dip, 0xff, 4); memset(q.dmac, 0xff, 6); }
        // a parentless IP with source 0.0.0.0 makes serialize() consult the host routing table (documented): excluded
        if (q.link == LINK_NONE && q.sip4_zero()) q.sip[3] = 1;
    }
    if (q.v6) {
        static const L4 K[] = {L4_TCP, L4_UDP_RAW, L4_UDP_DNS, L4_ICMP6_ECHO};
        q.l4 = K[s.weighted({3, 3, 2, 4})];
    } else {
        static const L4 K[] = {L4_TCP, L4_UDP_RAW, L4_UDP_DNS, L4_ICMP_ECHO, L4_ICMP_TS, L4_ICMP_MASK};
        q.l4 = K[s.weighted({3, 3, 2, 2, 1, 1})];
    }
    if (extended && (q.link != LINK_LOOPBACK || s.boolean())) {
        static const L4 K[] = {L4_UDP_BOOTP, L4_UDP_DHCP, L4_UDP_DHCPV6, L4_TCP_DNS};
        q.l4 = K[s.pick(4)];
    }
    q.sport = (uint16_t)s.edgy(16); q.dport = (uint16_t)s.edgy(16);
    q.id = (uint16_t)s.edgy(16); q.seq = (uint16_t)s.edgy(16); q.dnsid = (uint16_t)s.edgy(16);
    q.xid = (uint32_t)s.edgy(32);
    if (q.l4 == L4_UDP_DHCPV6) q.xid &= 0xffffff;
    return q;
}

// build the request with the public API: random setters / option programs on every layer, then the matched fields pinned
static std::unique_ptr<PDU> build_request(const Req& q, Src& s, Ctx& ctx, std::vector<std::string>& prog) {
    std::unique_ptr<PDU> top;
    std::string stack;
    auto add = [&](PDU* p, const char* n) { push_inner(top, p); if (!stack.empty()) stack += " / "; stack += n; };
    EthernetII* eth = nullptr; Dot3* d3 = nullptr; Dot1Q* tag[2] = {nullptr, nullptr};
    IP* ip = nullptr; IPv6* ip6 = nullptr; TCP* tcp = nullptr; UDP* udp = nullptr; ICMP* icmp = nullptr; ICMPv6* icmp6 = nullptr;
    DNS* dns = nullptr; BootP* bootp = nullptr; DHCPv6* d6 = nullptr;
    if (q.link == LINK_ETH) add(eth = new EthernetII(), "EthernetII");
    else if (q.link == LINK_DOT3) add(d3 = new Dot3(), "Dot3");
    else if (q.link == LINK_LOOPBACK) add(new Loopback(), "Loopback");
    for (unsigned i = 0; i < q.ntags; ++i) add(tag[i] = new Dot1Q(), "Dot1Q");
    if (q.has_net) {
        if (q.v6) add(ip6 = new IPv6(), "IPv6"); else add(ip = new IP(), "IP");
        switch (q.l4) {
            case L4_TCP: add(tcp = new TCP(), "TCP"); if (s.boolean()) add(gen_raw(s, 64), "RawPDU"); break;
            case L4_UDP_RAW: add(udp = new UDP(), "UDP"); add(gen_raw(s, 64, true), "RawPDU"); break;
            case L4_UDP_DNS: add(udp = new UDP(), "UDP"); add(dns = new DNS(), "DNS"); break;
            case L4_ICMP_ECHO: case L4_ICMP_TS: case L4_ICMP_MASK:
                add(icmp = new ICMP(), "ICMP");
                if (q.l4 == L4_ICMP_ECHO && s.boolean()) add(gen_raw(s, 64), "RawPDU");
                break;
            case L4_ICMP6_ECHO: add(icmp6 = new ICMPv6(), "ICMPv6"); if (s.boolean()) add(gen_raw(s, 64), "RawPDU"); break;
            case L4_UDP_BOOTP: add(udp = new UDP(), "UDP"); add(bootp = new BootP(), "BootP"); break;
            case L4_UDP_DHCP: add(udp = new UDP(), "UDP"); add(bootp = new DHCP(), "DHCP"); break;
            case L4_UDP_DHCPV6: add(udp = new UDP(), "UDP"); add(d6 = new DHCPv6(), "DHCPv6"); break;
            case L4_TCP_DNS: add(tcp = new TCP(), "TCP"); add(dns = new DNS(), "DNS"); break;
        }
    }
    prog.push_back("stack " + stack);
    // arbitrary field values: random public setters and raw option programs on every layer
    BuildOpts o;
    o.max_setters_per_layer = 3;
    for (PDU* p = top.get(); p; p = p->inner_pdu()) {
        if (s.chance(60)) apply_setters(*p, s, o, prog);
        if (s.chance(35)) option_program(*p, s, prog);
        enforce_capacity(*p, ctx, prog);
    }
    if (dns && s.boolean()) { dns->add_query(DNS::query("www.example.com", DNS::A, DNS::IN)); prog.push_back("DNS::add_query(www.example.com)"); }
    // the matched fields
    std::ostringstream pin;
    if (eth) { eth->src_addr(EthernetII::address_type(q.smac)); eth->dst_addr(EthernetII::address_type(q.dmac)); pin << "eth " << mac_str(q.smac) << ">" << mac_str(q.dmac) << " "; }
    if (d3) { d3->src_addr(Dot3::address_type(q.smac)); d3->dst_addr(Dot3::address_type(q.dmac)); pin << "dot3 " << mac_str(q.smac) << ">" << mac_str(q.dmac) << " "; }
    for (unsigned i = 0; i < q.ntags; ++i) { tag[i]->id(small_uint<12>(q.vid[i])); pin << "vlan " << q.vid[i] << " "; }
    if (ip) { ip->src_addr(to_v4(q.sip)); ip->dst_addr(to_v4(q.dip)); }
    if (ip6) { ip6->src_addr(IPv6Address(q.sip)); ip6->dst_addr(IPv6Address(q.dip)); }
    if (q.has_net) pin << (q.v6 ? "ip6 " : "ip ") << ip_str(q.sip, q.v6) << ">" << ip_str(q.dip, q.v6) << " ";
    if (tcp) { tcp->sport(q.sport); tcp->dport(q.dport); pin << "tcp " << q.sport << ">" << q.dport; }
    if (udp) { udp->sport(q.sport); udp->dport(q.dport); pin << "udp " << q.sport << ">" << q.dport; }
    if (icmp) { icmp->type((ICMP::Flags)q.icmp_request_type()); icmp->id(q.id); icmp->sequence(q.seq); pin << "icmp type " << q.icmp_request_type() << " id " << q.id << " seq " << q.seq; }
    if (icmp6) { icmp6->type(ICMPv6::ECHO_REQUEST); icmp6->identifier(q.id); icmp6->sequence(q.seq); pin << "icmp6 echo id " << q.id << " seq " << q.seq; }
    if (dns) { dns->id(q.dnsid); pin << " dns id " << q.dnsid; }
    if (bootp) { bootp->xid(q.xid); pin << " bootp xid " << q.xid; }
    if (d6) { d6->msg_type(DHCPv6::SOLICIT); d6->transaction_id(small_uint<24>(q.xid)); pin << " dhcpv6 xid " << q.xid; }
    prog.push_back("pin " + pin.str());
    return top;
}

// =====================================================================================================================
// Oracle helpers
// =====================================================================================================================
static bool match(const PDU& r, const uint8_t* d, size_t n, unsigned placement) {
    Block blk(d, n, placement);
    return r.matches_response(blk.ptr, (uint32_t)n);
}
static bool match(const PDU& r, const Bytes& b, unsigned placement) { return match(r, b.data(), b.size(), placement); }

// make the n-byte field at off different: one flipped bit, or a fresh value
static std::string perturb_bytes(Bytes& b, size_t off, size_t n, Src& s) {
    if (s.boolean()) {
        unsigned bit = (unsigned)s.range(0, n * 8 - 1);
        b[off + bit / 8] ^= (uint8_t)(0x80 >> (bit % 8));
        return "bit " + std::to_string(bit) + " flipped";
    }
    Bytes r = s.bytes(n);
    if (memcmp(&b[off], r.data(), n) == 0) r[n - 1] ^= 1;
    memcpy(&b[off], r.data(), n);
    return "replaced by " + hex(r);
}

// the deepest layer of the request that, handed the reply from its own offset, does not recognise it
static std::string rejecting_layer(const PDU& r, const Bytes& m, const Layout& L, unsigned placement) {
    std::string culprit = "none";
    unsigned tags = 0;
    for (const PDU* p = &r; p; p = p->inner_pdu()) {
        int off = -1;
        switch (p->pdu_type()) {
            case PDU::ETHERNET_II: case PDU::DOT3: off = L.eth; break;
            case PDU::DOT1Q: off = tags < 2 ? L.tag[tags] : -1; ++tags; break;
            case PDU::IP: case PDU::IPv6: off = L.ip; break;
            case PDU::TCP: case PDU::UDP: case PDU::ICMP: case PDU::ICMPv6: off = L.l4; break;
            case PDU::DNS: off = L.dns; break;
            default: break;
        }
        if (off < 0 || (size_t)off > m.size()) continue;
        if (!match(*p, m.data() + off, m.size() - off, placement)) culprit = short_cls(demangled(typeid(*p)));
    }
    return culprit;
}

struct PairCase {
    const Req& q;
    const PDU& r;
    Ctx& ctx;
    Src& s;
    unsigned placement;
    std::string desc;
    uint64_t h = 0;
    // expected: 0 rejected, 1 accepted, -1 no claim (only memory safety)
    void check(const char* field, const Bytes& m, int expected, const std::string& how) {
        bool got = match(r, m, placement);
        h = hash_bytes(m.data(), m.size(), h ^ 0x9e3779b97f4a7c15ULL);
        if (ctx.logging()) ctx.log(std::string("  ") + field + " (" + how + "): expected " + (expected < 0 ? "-" : expected ? "accept" : "reject") + " got " + (got ? "accept" : "reject") + "  " + hex(m, 512));
        if (expected == 0) {
            ctx.label(std::string("perturbation-rejected:") + field);
            VCHECK(ctx, !got, std::string("C14:perturbed-accepted:") + field, desc << ": reply differing only in " << field << " (" << how << ") was accepted: " << hex(m, 512));
        } else if (expected == 1) {
            ctx.label(std::string("relaxed-accepted:") + field);
            VCHECK(ctx, got, std::string("C14:relaxed-rejected:") + field, desc << ": request to a broadcast/ff02:: destination, reply differing only in " << field << " (" << how << ") was rejected: " << hex(m, 512));
        } else {
            ctx.label(std::string("no-claim:") + field);
        }
    }
};

static void sweep_truncations(const PDU& r, const Bytes& m, unsigned placement, Ctx& ctx, size_t step = 1) {
    for (size_t n = 0; n < m.size(); n += step) (void)match(r, m.data(), n, placement);
    ctx.label("truncated-reply");
}

// ---- the pair case: clauses (a), (b), stranger, truncations --------------------------------------------------------
static void pair_case(Src& s, Ctx& ctx, bool extended) {
    Req q = gen_req(s, extended);
    std::vector<std::string> prog;
    std::unique_ptr<PDU> r = build_request(q, s, ctx, prog);
    unsigned placement = s.u8() & 7;
    std::string program;
    for (const std::string& p : prog) { if (!program.empty()) program += "; "; program += p; }
    std::string chain = layer_chain(*r);
    // send_recv() serialises the request before it looks at replies; do the same (most of the time)
    Bytes reqbytes;
    bool serialized = false;
    if (!s.chance(15)) {
        try { reqbytes = r->serialize(); serialized = true; }
        catch (const exception_base&) { ctx.excluded("request-not-serializable"); }   // C02's business
    }
    Wire mir = write_mirror(q, s);
    std::string desc = chain + " [" + program + "] reply[" + mir.what + " ]";
    if (ctx.logging()) {
        ctx.log("request: " + program);
        ctx.log("request bytes: " + (serialized ? hex(reqbytes, 1024) : std::string("(not serialised)")));
        ctx.log("mirror" + mir.what + ": " + hex(mir.b, 1024));
    }
    ctx.hash(extended ? "pairx" : "pair"); ctx.hash(hash_str(program)); ctx.hash(hash_bytes(mir.b.data(), mir.b.size()));
    ctx.sample((chain + " " + prog.back() + " reply:" + mir.what).substr(0, 300));

    if (extended || q.extended()) {
        // stacks outside the statement (Loopback link, BOOTP/DHCP/DHCPv6 over UDP, DNS over TCP): memory safety only
        ctx.label("extended-stack");
        (void)match(*r, mir.b, placement);
        sweep_truncations(*r, mir.b, placement, ctx);
        Bytes m = mir.b;
        unsigned flips = (unsigned)s.range(0, 4);
        for (unsigned i = 0; i < flips && !m.empty(); ++i) m[s.range(0, m.size() - 1)] ^= (uint8_t)(1 + s.u8() % 255);
        (void)match(*r, m, placement);
        ctx.nontrivial(true);
        return;
    }

    // ---- (a) the mirror is recognised
    unsigned layers = q.matching_layers();
    ctx.nontrivial(layers >= 3);
    ctx.label("layers:" + std::to_string(layers));
    ctx.label(std::string("l4:") + (!q.has_net ? "none" : q.l4 == L4_TCP ? "tcp" : q.l4 == L4_UDP_RAW ? "udp" : q.l4 == L4_UDP_DNS ? "dns" : q.l4 == L4_ICMP6_ECHO ? "icmp6" : "icmp"));
    if (q.has_net) ctx.label(q.v6 ? "ipv6" : "ipv4");
    if (q.ntags) ctx.label("vlan");
    {
        bool got = match(*r, mir.b, placement);
        if (q.has_net && !q.v6) {
            const IP* ip = r->find_pdu<IP>();
            if (ip && (int)ip->header_size() != mir.L.iphl) ctx.label("reply-ihl-differs");
        }
        if (q.v6 && mir.L.iphl > 40) ctx.label("reply-ext-headers");
        ctx.label("mirror-accepted");
        if (!got) {
            std::string layer = rejecting_layer(*r, mir.b, mir.L, placement);
            VCHECK(ctx, false, "C14:mirror-rejected:" + layer, desc << ": the mirrored reply was not recognised (deepest layer that rejects its part: " << layer << "): " << hex(mir.b, 1024));
        }
    }

    // ---- (b) single-field perturbations
    PairCase pc{q, *r, ctx, s, placement, desc};
    auto perturbed = [&](size_t off, size_t n, std::string& how) {
        Bytes m = mir.b;
        how = perturb_bytes(m, off, n, s);
        if (s.boolean()) fix_checksums(m, mir.L);
        return m;
    };
    std::string how;
    const Layout& L = mir.L;
    if (q.link == LINK_ETH) {
        { Bytes m = perturbed(L.eth, 6, how); pc.check("eth-dst", m, 0, how); }
        { Bytes m = perturbed(L.eth + 6, 6, how); pc.check("eth-src", m, q.dmac_unicast() ? 0 : q.dmac_broadcast() ? 1 : -1, how); }
        for (unsigned i = 0; i < q.ntags; ++i) {
            Bytes m = mir.b;
            unsigned mask = s.boolean() ? (1u << s.range(0, 11)) : (s.u16() & 0xfff);
            if (!mask) mask = 1;
            w16(m, L.tag[i], r16(m, L.tag[i]) ^ mask);
            pc.check("vlan-id", m, 0, "tag " + std::to_string(i) + " id xor " + std::to_string(mask));
        }
    } else if (q.link == LINK_DOT3) {
        { Bytes m = perturbed(L.eth, 6, how); pc.check("dot3-dst", m, 0, how); }
        { Bytes m = perturbed(L.eth + 6, 6, how); pc.check("dot3-src", m, q.dmac_broadcast() ? 1 : 0, how); }
    }
    if (q.has_net) {
        size_t al = q.alen();
        size_t so = L.ip + (q.v6 ? 8 : 12), dofs = so + al;
        {   // reply source address (= request destination)
            Bytes m = perturbed(so, al, how);
            int exp = q.v6 ? (q.dip6_ff02() ? 1 : 0) : (q.dip4_broadcast() ? 1 : 0);
            pc.check("ip-src", m, exp, how);
        }
        {   // reply destination address (= request source)
            Bytes m = perturbed(dofs, al, how);
            int exp = (!q.v6 && q.dip4_broadcast() && q.sip4_zero()) ? 1 : 0;
            pc.check("ip-dst", m, exp, how);
        }
        if (q.l4 == L4_TCP || q.l4 == L4_UDP_RAW || q.l4 == L4_UDP_DNS) {
            { Bytes m = perturbed(L.l4, 2, how); pc.check("src-port", m, 0, how); }
            { Bytes m = perturbed(L.l4 + 2, 2, how); pc.check("dst-port", m, 0, how); }
        }
        if (q.l4 == L4_UDP_DNS) { Bytes m = perturbed(L.dns, 2, how); pc.check("dns-id", m, 0, how); }
        if (q.is_icmp4() || q.l4 == L4_ICMP6_ECHO) {
            { Bytes m = perturbed(L.l4 + 4, 2, how); pc.check("icmp-id", m, 0, how); }
            { Bytes m = perturbed(L.l4 + 6, 2, how); pc.check("icmp-seq", m, 0, how); }
            {   // the reply type must be the reply of the request's type
                static const unsigned T4[] = {8, 13, 17, 0, 14, 18, 3, 11};
                static const unsigned T6[] = {128, 1, 3, 134, 136, 0};
                unsigned t;
                switch (s.weighted({2, 2, 1})) {
                    case 0: t = q.icmp_request_type(); break;
                    case 1: t = q.v6 ? T6[s.pick(6)] : T4[s.pick(8)]; break;
                    default: t = s.u8(); break;
                }
                if (t == q.icmp_reply_type()) t = q.icmp_request_type();
                Bytes m = mir.b;
                m[L.l4] = (uint8_t)t;
                if (s.boolean()) fix_checksums(m, L);
                // an IPv4 destination unreachable is matched through the quoted header instead (documented): keep that shape out
                bool quotes_own = !q.v6 && t == 3 && serialized && L.l4len >= 28 && reqbytes.size() >= 20 + (size_t)(q.link == LINK_ETH ? 14 + 4 * q.ntags : 0) &&
                                  memcmp(&m[L.l4 + 8], &reqbytes[q.link == LINK_ETH ? 14 + 4 * q.ntags : 0], 20) == 0;
                if (quotes_own) ctx.excluded("type-perturbation-became-a-valid-unreachable");
                else pc.check("icmp-type", m, 0, "type " + std::to_string(t));
            }
        }
    }

    // ---- stranger: ICMP errors
    if (q.has_net) {
        uint8_t third[16];
        if (q.v6) gen_ip6(s, third); else gen_ip4(s, third);
        if (memcmp(third, q.dip, q.alen()) == 0) third[q.alen() - 1] ^= 1;
        size_t ipoff = q.link == LINK_ETH ? 14 + 4 * q.ntags : 0;
        bool relaxed = q.v6 ? q.dip6_ff02() : q.dip4_broadcast();
        // (1) quoting a header that is not the request's
        {
            Bytes quoted;
            if (serialized && reqbytes.size() > ipoff + (q.v6 ? 40 : 20) && s.boolean()) {
                size_t hl = q.v6 ? 40 : 20;
                size_t n = std::min(reqbytes.size() - ipoff, hl + 8 + (size_t)s.range(0, 24));
                quoted.assign(reqbytes.begin() + ipoff, reqbytes.begin() + ipoff + n);
                std::string h2 = perturb_bytes(quoted, 0, hl, s);   // differs from the request's header in one field
            } else {
                quoted = s.bytes((q.v6 ? 48 : 28) + s.range(0, 16));
                if (s.boolean()) quoted[0] = q.v6 ? 0x60 : 0x45;
                if (serialized && reqbytes.size() >= ipoff + 20 && memcmp(quoted.data(), &reqbytes[ipoff], 20) == 0) quoted[4] ^= 1;
            }
            unsigned type = q.v6 ? (s.boolean() ? 1 : 3) : (s.boolean() ? 3 : 11);
            Wire e = write_icmp_error(q, third, type, quoted, s);
            bool got = match(*r, e.b, placement);
            pc.h = hash_bytes(e.b.data(), e.b.size(), pc.h);
            if (ctx.logging()) ctx.log(std::string("  stranger type ") + std::to_string(type) + " from " + ip_str(third, q.v6) + ": got " + (got ? "accept" : "reject") + "  " + hex(e.b, 512));
            if (!relaxed) {
                ctx.label("stranger");
                VCHECK(ctx, !got, std::string("C14:stranger-accepted:") + (q.v6 ? "icmpv6-error" : type == 3 ? "dest-unreachable" : "time-exceeded"),
                       desc << ": ICMP error type " << type << " from third host " << ip_str(third, q.v6) << " quoting a header that is not the request's was accepted: " << hex(e.b, 512));
            } else ctx.label("no-claim:stranger-to-broadcast-request");
            if (s.chance(25)) sweep_truncations(*r, e.b, placement, ctx);
        }
        // (2) destination unreachable quoting the request's own header + at least 8 bytes: "it's the same packet" (ip.cpp)
        if (!q.v6 && serialized && reqbytes.size() >= ipoff + 20) {
            size_t hl = (reqbytes[ipoff] & 0x0f) * 4u;
            if (hl >= 20 && reqbytes.size() >= ipoff + hl) {
                size_t n = std::min(reqbytes.size() - ipoff, hl + 8 + (s.boolean() ? (size_t)s.range(0, 32) : 0));
                Bytes quoted(reqbytes.begin() + ipoff, reqbytes.begin() + ipoff + n);
                bool from_third = s.boolean();
                unsigned type = s.chance(80) ? 3 : 11;
                Wire e = write_icmp_error(q, from_third ? third : q.dip, type, quoted, s);
                bool got = match(*r, e.b, placement);
                pc.h = hash_bytes(e.b.data(), e.b.size(), pc.h);
                if (ctx.logging()) ctx.log(std::string("  own-quote type ") + std::to_string(type) + (from_third ? " from third host" : " from the destination") + ": got " + (got ? "accept" : "reject") + "  " + hex(e.b, 512));
                if (type == 3) {
                    ctx.label("unreachable-quoting-request");
                    VCHECK(ctx, got, "C14:own-unreachable-rejected", desc << ": destination unreachable" << (from_third ? " from a third host" : " from the destination")
                                                                          << " quoting the request's own IP header (" << e.what << " ) was rejected: " << hex(e.b, 512));
                } else ctx.label("no-claim:time-exceeded-quoting-request");
                if (s.chance(25)) sweep_truncations(*r, e.b, placement, ctx);
            }
        }
    }
    ctx.hash(pc.h);

    // ---- (c) truncations of the valid reply at every length
    switch (s.u8() % 3) {
        case 0: sweep_truncations(*r, mir.b, placement, ctx); break;
        case 1: sweep_truncations(*r, mir.b, placement, ctx, 1 + s.u8() % 7); break;
        default: break;
    }
}

// ---- (c) single objects and chains against arbitrary short buffers -----------------------------------------------------
static Bytes gen_content(Src& s, size_t len, unsigned style) {
    Bytes c(len, 0);
    switch (style % 5) {
        case 0: c = s.bytes(len); break;
        case 1: break;
        case 2: std::fill(c.begin(), c.end(), 0xff); break;
        case 3: c = s.bytes(len); for (uint8_t& x : c) x &= 0x0f; break;      // small values: lengths / header-length fields stay inside
        default: c = s.bytes(len); for (size_t i = 0; i < len; ++i) if (i % 4 != 0) c[i] = (i % 4 == 2) ? (uint8_t)(c[i] % 9) : 0; break;
    }
    return c;
}

static void single_object_case(Src& s, Ctx& ctx, bool random_state) {
    unsigned ncls = n_layer_classes();
    unsigned cls = s.u8() % ncls;
    size_t len = s.u8() % 129;
    unsigned placement = s.u8() & 7;
    unsigned style = s.u8();
    std::string name;
    std::unique_ptr<PDU> obj(make_layer(cls, s, 64, &name));
    std::vector<std::string> prog;
    if (random_state) {
        BuildOpts o;
        o.max_setters_per_layer = 6;
        apply_setters(*obj, s, o, prog);
        option_program(*obj, s, prog);
        enforce_capacity(*obj, ctx, prog);
        ctx.label("random-state-object");
    } else ctx.label("default-state-object");
    if ((style & 0xc0) == 0xc0) {
        // the caching wrapper forwards matches_response to a copy of the object: the same clause applies to it
        if (PDU* w = make_cacher_of(*obj)) { obj.reset(w); name = "PDUCacher<" + name + ">"; ctx.label("pdu-cacher-object"); }
    }
    Bytes content = gen_content(s, len, style);
    if (ctx.logging()) {
        std::string p;
        for (const std::string& x : prog) p += x + "; ";
        ctx.log(name + " [" + p + "] len=" + std::to_string(len) + " placement=" + std::to_string(placement) + " buffer=" + hex(content));
    }
    bool got = match(*obj, content, placement);
    uint32_t hs = obj->header_size();
    ctx.label("short-buffer");
    ctx.label(got ? "single:accepted" : "single:rejected");
    ctx.nontrivial(len < hs);
    if (len < hs) ctx.label("below-header-size");
    ctx.hash(random_state ? "obj-r" : "obj-d"); ctx.hash(cls); ctx.hash(len); ctx.hash(hash_bytes(content.data(), content.size()));
    for (const std::string& x : prog) ctx.hash(hash_str(x));
    ctx.sample(name + " len=" + std::to_string(len) + (got ? " accepted" : " rejected"));
}

static void chain_case(Src& s, Ctx& ctx) {
    BuildOpts o;
    o.max_payload = 64;
    Built b = build_packet(s, ctx, o);
    PDU& pdu = *b.pdu;
    unsigned placement = s.u8() & 7;
    std::string chain = layer_chain(pdu);
    ctx.label("builder-chain");
    if (ctx.logging()) ctx.log("chain " + chain + " program: " + b.text());
    Bytes buf;
    bool own = s.boolean() && !has_unserializable_layer(pdu);
    if (own) {
        // a look-alike buffer: the chain's own serialisation, lightly mutated
        try { buf = pdu.serialize(); } catch (const exception_base&) { own = false; }
    }
    if (own) {
        unsigned flips = (unsigned)s.range(0, 3);
        for (unsigned i = 0; i < flips && !buf.empty(); ++i) buf[s.range(0, buf.size() - 1)] ^= (uint8_t)(1 + s.u8() % 255);
        ctx.label("chain:own-serialisation");
    } else {
        buf = gen_content(s, s.u8() % 129, s.u8());
        ctx.label("chain:random-buffer");
    }
    if (ctx.logging()) ctx.log("buffer " + hex(buf, 1024));
    // every layer of the chain looks at the buffer from its own offset, at a sample of lengths (all lengths if short)
    size_t off = 0;
    bool below = false;
    for (const PDU* p = &pdu; p; p = p->inner_pdu()) {
        size_t avail = buf.size() > off ? buf.size() - off : 0;
        size_t cap = std::min<size_t>(avail, 128);
        size_t step = s.boolean() ? 1 : 1 + s.u8() % 5;
        for (size_t n = 0; n <= cap; n += step) (void)match(*p, buf.data() + off, n, placement);
        (void)match(*p, buf.data() + off, avail, placement);
        if (p->header_size() > 0) below = true;
        off += p->header_size();
        if (off > buf.size()) off = buf.size();
    }
    ctx.label("short-buffer");
    ctx.nontrivial(below);
    ctx.hash("chain"); ctx.hash(hash_str(b.text())); ctx.hash(hash_bytes(buf.data(), buf.size()));
    ctx.sample(("chain " + chain).substr(0, 200));
}

// =====================================================================================================================
// Self-test of the reference writer against the captured replies of libtins' own test-suite (tests/src/matches_response_test.cpp)
// =====================================================================================================================
void prop_setup(Ctx& ctx) {
    // TCP SYN/ACK: 192.168.0.1:8080 -> 192.168.0.100:56149
    {
        Bytes b = {0x45, 0, 0, 40, 0, 0, 0x40, 0, 64, 6, 0, 0, 192, 168, 0, 1, 192, 168, 0, 100,
                   31, 144, 219, 85, 0, 0, 0, 0, 11, 209, 99, 141, 80, 20, 0, 0, 0, 0, 0, 0};
        Layout L; L.ip = 0; L.iphl = 20; L.l4 = 20; L.l4len = 20; L.proto = 6;
        fix_checksums(b, L);
        if (!(b[10] == 185 && b[11] == 26 && b[36] == 195 && b[37] == 214)) VFAIL(ctx, "C14:selftest:ipv4-tcp-checksum", "reference checksums differ from the captured SYN/ACK: " << hex(b));
    }
    // ICMP echo reply 209.131.36.158 -> 10.10.1.89
    {
        Bytes b = {69, 0, 0, 84, 74, 84, 0, 0, 55, 1, 0, 0, 209, 131, 36, 158, 10, 10, 1, 89,
                   0, 0, 0, 0, 54, 12, 0, 0, 146, 91, 68, 72, 241, 31, 12, 0};
        for (unsigned v = 8; v <= 55; ++v) b.push_back((uint8_t)v);
        Layout L; L.ip = 0; L.iphl = 20; L.l4 = 20; L.l4len = 64; L.proto = 1;
        fix_checksums(b, L);
        if (!(b[10] == 55 && b[11] == 209 && b[22] == 11 && b[23] == 45)) VFAIL(ctx, "C14:selftest:icmp-checksum", "reference checksums differ from the captured echo reply: " << hex(b));
    }
    // ICMPv6 echo reply ::1 -> ::1
    {
        Bytes b = {0x60, 0, 0, 0, 0, 64, 58, 64};
        for (int k = 0; k < 2; ++k) { for (int i = 0; i < 15; ++i) b.push_back(0); b.push_back(1); }
        Bytes icmp = {129, 0, 0, 0, 25, 156, 0, 1, 226, 206, 89, 81, 0, 0, 0, 0, 14, 139, 1, 0, 0, 0, 0, 0};
        pv(b, icmp);
        for (unsigned v = 16; v <= 55; ++v) b.push_back((uint8_t)v);
        Layout L; L.ip = 0; L.v6 = true; L.iphl = 40; L.l4 = 40; L.l4len = 64; L.proto = 58;
        fix_checksums(b, L);
        if (!(b[42] == 90 && b[43] == 104)) VFAIL(ctx, "C14:selftest:icmpv6-checksum", "reference checksum differs from the captured echo reply: " << hex(b));
    }
    // address conversion used to pin the request's IPv4 addresses
    {
        const uint8_t a[4] = {1, 2, 3, 4};
        if (to_v4(a).to_string() != "1.2.3.4") VFAIL(ctx, "C14:selftest:ipv4-conversion", "to_v4 gives " << to_v4(a).to_string());
    }
}

// =====================================================================================================================
void prop(Src& s, Ctx& ctx) {
    unsigned sel = s.u8();
    if (sel >= 250) { ctx.label("enumerated-class-length-block"); single_object_case(s, ctx, false); return; }
    if (sel < 140) pair_case(s, ctx, false);
    else if (sel < 165) single_object_case(s, ctx, false);
    else if (sel < 195) single_object_case(s, ctx, true);
    else if (sel < 225) chain_case(s, ctx);
    else pair_case(s, ctx, true);
}

// exhaustive block: every layer class x every length 0..128 x 16 contents (4 styles x 4 pseudo-random fills), default state
bool prop_enum(uint64_t idx, std::vector<uint8_t>& out) {
    const unsigned ncls = n_layer_classes();
    const unsigned K = 16;
    uint64_t total = (uint64_t)ncls * 129 * K;
    if (idx >= total) return false;
    unsigned k = (unsigned)(idx % K);
    unsigned len = (unsigned)((idx / K) % 129);
    unsigned cls = (unsigned)(idx / K / 129);
    out.clear();
    out.push_back(250); out.push_back((uint8_t)cls); out.push_back((uint8_t)len); out.push_back((uint8_t)(idx * 5 % 8));
    static const uint8_t STYLE[16] = {0, 0, 0, 0, 0, 0, 3, 3, 3, 4, 4, 4, 4, 1, 2, 0};
    out.push_back(STYLE[k]);
    // then the pseudo-random stream the buffer contents are read from (the RawPDU class takes its payload from it first)
    uint64_t x = idx * 0x9e3779b97f4a7c15ULL + 0x632be59bd9b4e019ULL;
    for (unsigned i = 0; i < len + 16; ++i) {
        x ^= x >> 30; x *= 0xbf58476d1ce4e5b9ULL; x ^= x >> 27; x *= 0x94d049bb133111ebULL; x ^= x >> 31;
        out.push_back((uint8_t)x);
    }
    return true;
}
