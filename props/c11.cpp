// C11 — RadioTap fields can be set in any order and read back.
// Oracle: last-write model (bit -> little-endian wire bytes of the field) + an independent canonical layout encoder
// written from the radiotap.org field table (size / natural alignment measured from the start of the RadioTap header)
// + own bitwise IEEE CRC-32. Shares no code with Utils::RadioTapParser / RadioTapWriter.
#include "../engine/src.h"
#include <tins/radiotap.h>
#include <tins/dot11.h>
#include <tins/rawpdu.h>
#include <tins/exceptions.h>
#include <memory>
#include <algorithm>
#include <cstdio>

using namespace verif;
using namespace Tins;

const char* const PROP_ID = "C11";
const size_t PROP_MAXLEN_QUICK = 320;
const size_t PROP_MAXLEN_THOROUGH = 512;

typedef std::vector<uint8_t> Bytes;

// ---------------------------------------------------------------- radiotap.org field table (bits 0..21)
struct FieldDef {
    const char* name;
    unsigned size, align;
    bool settable;  // libtins offers a setter/getter pair
};
static const unsigned NFIELDS = 22;
static const FieldDef FIELDS[NFIELDS] = {
    {"TSFT", 8, 8, true},              // u64 mactime
    {"FLAGS", 1, 1, true},             // u8
    {"RATE", 1, 1, true},              // u8
    {"CHANNEL", 4, 2, true},           // u16 frequency, u16 flags
    {"FHSS", 2, 2, false},             // u8 hop set, u8 hop pattern (alignment 2 as on radiotap.org and in the Linux iterator)
    {"DBM_SIGNAL", 1, 1, true},        // s8
    {"DBM_NOISE", 1, 1, true},         // s8
    {"SIGNAL_QUALITY", 2, 2, true},    // u16 lock quality
    {"TX_ATTENUATION", 2, 2, false},   // u16
    {"DB_TX_ATTENUATION", 2, 2, false},// u16
    {"DBM_TX_POWER", 1, 1, false},     // s8
    {"ANTENNA", 1, 1, true},           // u8
    {"DB_SIGNAL", 1, 1, true},         // u8
    {"DB_NOISE", 1, 1, false},         // u8
    {"RX_FLAGS", 2, 2, true},          // u16
    {"TX_FLAGS", 2, 2, true},          // u16
    {"RTS_RETRIES", 1, 1, false},      // u8
    {"DATA_RETRIES", 1, 1, true},      // u8
    {"XCHANNEL", 8, 4, true},          // u32 flags, u16 freq, u8 channel, u8 maxpower
    {"MCS", 3, 1, true},               // u8 known, u8 flags, u8 mcs
    {"AMPDU_STATUS", 8, 4, false},     // u32 reference, u16 flags, u8 delimiter crc, u8 reserved
    {"VHT", 12, 2, false},             // u16 known, u8 flags, u8 bandwidth, u8 mcs_nss[4], u8 coding, u8 group id, u16 partial aid
};
static const unsigned BIT_FLAGS = 1, BIT_LOCKQ = 7;
static const unsigned SETTABLE[14] = {0, 1, 2, 3, 5, 6, 7, 11, 12, 14, 15, 17, 18, 19};
static const uint8_t FLAG_FCS = 0x10, FLAG_FAILED_FCS = 0x40;

// A further present word of a parsed header (bit 31 of the word before it), as written by mac80211 for per-chain signal and
// antenna: bit 29 of the word before it says that its bits are numbered from 0 again (radiotap namespace). The setters of
// libtins only ever touch the first word; the fields of the further words must keep their values, their order and their
// natural alignment, and a getter reports the first occurrence of its field.
struct ExtWord {
    uint32_t present = 0;
    Bytes val[NFIELDS];
    bool has(unsigned b) const { return (present >> b) & 1; }
};
static const uint32_t BIT_NS = 1u << 29, BIT_EXT = 1u << 31;

struct Model {
    uint32_t present = 0;
    Bytes val[NFIELDS];
    std::vector<ExtWord> ext;
    // Fields libtins does not know (present bits 22..28: timestamp, HE, ... as written by current drivers) and slack up to
    // it_len: opaque octets behind the last known field. Setters must leave them where they are - behind the known fields -
    // and the unknown present bits untouched (their alignment cannot be maintained by a library that does not know their
    // sizes, so only order and content are demanded).
    uint32_t unknown_bits = 0;
    Bytes tail;
    bool has(unsigned b) const { return (present >> b) & 1; }
    void set(unsigned b, const Bytes& v) { present |= 1u << b; val[b] = v; }
    const Bytes* first(unsigned b) const {  // first occurrence of the field in any present word
        if (has(b)) return &val[b];
        for (const ExtWord& w : ext) if (w.has(b)) return &w.val[b];
        return nullptr;
    }
    uint32_t word(size_t k) const {  // present word k as it appears on the wire
        uint32_t w = k == 0 ? (present | unknown_bits) : ext[k - 1].present;
        if (k < ext.size()) w |= BIT_NS | BIT_EXT;
        return w;
    }
    uint32_t all_fields() const { uint32_t w = present; for (const ExtWord& e : ext) w |= e.present; return w; }
};

struct Layout {
    Bytes header;               // complete RadioTap header: version, pad, it_len, present words, fields
    int off[NFIELDS];           // offset of every field of the first word from the start of the header, -1 if absent
    int pad[NFIELDS];           // padding bytes in front of the field
    std::vector<std::vector<int> > ext_off;  // the same for the fields of the further words
};

// canonical layout: fields in bit order, each at the next offset that is a multiple of its alignment
static Layout ref_layout(const Model& m) {
    Layout l;
    l.header.assign(8 + 4 * m.ext.size(), 0);
    for (size_t k = 0; k <= m.ext.size(); ++k)
        for (unsigned i = 0; i < 4; ++i) l.header[4 + 4 * k + i] = (uint8_t)(m.word(k) >> (8 * i));
    for (unsigned b = 0; b < NFIELDS; ++b) {
        l.off[b] = -1;
        l.pad[b] = 0;
        if (!m.has(b)) continue;
        size_t o = l.header.size();
        size_t a = FIELDS[b].align;
        size_t padded = (o + a - 1) / a * a;
        l.pad[b] = (int)(padded - o);
        l.header.resize(padded, 0);
        l.off[b] = (int)padded;
        l.header.insert(l.header.end(), m.val[b].begin(), m.val[b].end());
    }
    for (const ExtWord& w : m.ext) {
        std::vector<int> offs(NFIELDS, -1);
        for (unsigned b = 0; b < NFIELDS; ++b) {
            if (!w.has(b)) continue;
            size_t a = FIELDS[b].align;
            size_t padded = (l.header.size() + a - 1) / a * a;
            l.header.resize(padded, 0);
            offs[b] = (int)padded;
            l.header.insert(l.header.end(), w.val[b].begin(), w.val[b].end());
        }
        l.ext_off.push_back(offs);
    }
    l.header.insert(l.header.end(), m.tail.begin(), m.tail.end());
    l.header[2] = (uint8_t)(l.header.size() & 0xff);
    l.header[3] = (uint8_t)(l.header.size() >> 8);
    return l;
}

// IEEE 802.3 / 802.11 FCS: CRC-32, reflected polynomial 0xEDB88320, init and final xor 0xffffffff
static uint32_t ref_crc32(const Bytes& d) {
    uint32_t c = 0xffffffffu;
    for (uint8_t b : d) {
        c ^= b;
        for (int k = 0; k < 8; ++k) c = (c >> 1) ^ (0xEDB88320u & (0u - (c & 1u)));
    }
    return ~c;
}

static Bytes le(uint64_t v, unsigned n) {
    Bytes b(n);
    for (unsigned i = 0; i < n; ++i) b[i] = (uint8_t)(v >> (8 * i));
    return b;
}
static uint64_t unle(const Bytes& b, unsigned off, unsigned n) {
    uint64_t v = 0;
    for (unsigned i = 0; i < n; ++i) v |= (uint64_t)b[off + i] << (8 * i);
    return v;
}

// ---------------------------------------------------------------- libtins access
// the 15 getters: (bit, name, slice of the field's wire bytes it reports)
struct GetterDef { unsigned bit; const char* name; unsigned off, len; };
static const GetterDef GETTERS[15] = {
    {0, "tsft", 0, 8}, {1, "flags", 0, 1}, {2, "rate", 0, 1}, {3, "channel_freq", 0, 2}, {3, "channel_type", 2, 2},
    {5, "dbm_signal", 0, 1}, {6, "dbm_noise", 0, 1}, {7, "signal_quality", 0, 2}, {11, "antenna", 0, 1},
    {12, "db_signal", 0, 1}, {14, "rx_flags", 0, 2}, {15, "tx_flags", 0, 2}, {17, "data_retries", 0, 1},
    {18, "xchannel", 0, 8}, {19, "mcs", 0, 3},
};

static Bytes call_getter(const RadioTap& rt, unsigned g) {
    switch (g) {
        case 0: return le(rt.tsft(), 8);
        case 1: return le((uint8_t)rt.flags(), 1);
        case 2: return le(rt.rate(), 1);
        case 3: return le(rt.channel_freq(), 2);
        case 4: return le(rt.channel_type(), 2);
        case 5: return le((uint8_t)rt.dbm_signal(), 1);
        case 6: return le((uint8_t)rt.dbm_noise(), 1);
        case 7: return le(rt.signal_quality(), 2);
        case 8: return le(rt.antenna(), 1);
        case 9: return le(rt.db_signal(), 1);
        case 10: return le(rt.rx_flags(), 2);
        case 11: return le(rt.tx_flags(), 2);
        case 12: return le(rt.data_retries(), 1);
        case 13: {
            RadioTap::xchannel_type x = rt.xchannel();
            Bytes b = le(x.flags, 4), f = le(x.frequency, 2);
            b.insert(b.end(), f.begin(), f.end());
            b.push_back(x.channel);
            b.push_back(x.max_power);
            return b;
        }
        default: {
            RadioTap::mcs_type m = rt.mcs();
            Bytes b;
            b.push_back(m.known); b.push_back(m.flags); b.push_back(m.mcs);
            return b;
        }
    }
}

// calls the setter of `bit` with the value whose wire encoding is `v` (size = FIELDS[bit].size, except
// SIGNAL_QUALITY whose setter takes 8 bits: v[1] is 0 there)
static void call_setter(RadioTap& rt, unsigned bit, const Bytes& v) {
    switch (bit) {
        case 0: rt.tsft(unle(v, 0, 8)); break;
        case 1: rt.flags((RadioTap::FrameFlags)v[0]); break;
        case 2: rt.rate(v[0]); break;
        case 3: rt.channel((uint16_t)unle(v, 0, 2), (uint16_t)unle(v, 2, 2)); break;
        case 5: rt.dbm_signal((int8_t)v[0]); break;
        case 6: rt.dbm_noise((int8_t)v[0]); break;
        case 7: rt.signal_quality(v[0]); break;
        case 11: rt.antenna(v[0]); break;
        case 12: rt.db_signal(v[0]); break;
        case 14: rt.rx_flags((uint16_t)unle(v, 0, 2)); break;
        case 15: rt.tx_flags((uint16_t)unle(v, 0, 2)); break;
        case 17: rt.data_retries(v[0]); break;
        case 18: {
            RadioTap::xchannel_type x;
            x.flags = (uint32_t)unle(v, 0, 4);
            x.frequency = (uint16_t)unle(v, 4, 2);
            x.channel = v[6];
            x.max_power = v[7];
            rt.xchannel(x);
            break;
        }
        case 19: {
            RadioTap::mcs_type m;
            m.known = v[0]; m.flags = v[1]; m.mcs = v[2];
            rt.mcs(m);
            break;
        }
        default: break;
    }
}

struct Op { unsigned bit; Bytes val; };

// where in the history a check is made (rendered only when a check fails)
struct Where {
    const std::vector<Op>* ops;
    size_t i;
    bool newly;
    const char* fixed;
};
static std::ostream& operator<<(std::ostream& os, const Where& w) {
    if (w.fixed) return os << w.fixed;
    const Op& op = (*w.ops)[w.i];
    return os << "after call " << w.i + 1 << "/" << w.ops->size() << " (" << FIELDS[op.bit].name << " <- " << hex(op.val) << (w.newly ? ", new field" : ", overwrite") << ")";
}

static std::string describe(const Model& m) {
    std::ostringstream os;
    os << "{";
    bool first = true;
    for (unsigned b = 0; b < NFIELDS; ++b) {
        if (!m.has(b)) continue;
        os << (first ? "" : " ") << FIELDS[b].name << "=" << hex(m.val[b]);
        first = false;
    }
    os << "}";
    if (m.unknown_bits || !m.tail.empty()) os << "+unknown(bits 0x" << std::hex << m.unknown_bits << std::dec << ", " << hex(m.tail) << ")";
    for (const ExtWord& w : m.ext) {
        os << "+{";
        first = true;
        for (unsigned b = 0; b < NFIELDS; ++b) {
            if (!w.has(b)) continue;
            os << (first ? "" : " ") << FIELDS[b].name << "=" << hex(w.val[b]);
            first = false;
        }
        os << "}";
    }
    return os.str();
}

// getters = model, present() = model bits, options_payload() = canonical layout
// `unset_too` = also call the getters of fields that are not in the model and expect field_not_present. This is done
// for the start object, the final object and the re-parsed object; between two setter calls only the getters of
// present fields, present() and the layout are checked (a C++ throw costs more than the rest of the step, and every
// prefix of a history is itself a generated history whose final state gets the full check).
static void check_state(Ctx& ctx, const std::string& pfx, const RadioTap& rt, const Model& m, const Where& where, bool unset_too) {
    for (unsigned g = 0; g < 15; ++g) {
        const GetterDef& gd = GETTERS[g];
        const Bytes* mv = m.first(gd.bit);
        if (!unset_too && !mv) continue;
        std::string sig = pfx + "getter:" + gd.name;
        bool threw_np = false;
        Bytes got;
        try {
            got = call_getter(rt, g);
        } catch (const field_not_present&) {
            threw_np = true;
        } catch (const std::exception& e) {
            VFAIL(ctx, sig + ":threw", where << ": getter " << gd.name << "() threw '" << e.what() << "'; model " << describe(m)
                                              << " payload " << hex(rt.options_payload()));
        }
        if (mv) {
            VCHECK(ctx, !threw_np, sig + ":set-field-not-present", where << ": " << gd.name << "() reports field_not_present; model " << describe(m)
                                                                          << " payload " << hex(rt.options_payload()));
            if (threw_np) continue;
            Bytes want(mv->begin() + gd.off, mv->begin() + gd.off + gd.len);
            VCHECK(ctx, got == want, sig + ":value", where << ": " << gd.name << "() = " << hex(got) << " (LE) expected " << hex(want) << "; model "
                                                           << describe(m) << " payload " << hex(rt.options_payload()));
        } else {
            VCHECK(ctx, threw_np, sig + ":unset-field-readable", where << ": " << gd.name << "() returned " << hex(got)
                                                                       << " although the field was never set; model " << describe(m));
        }
    }
    uint32_t pres = (uint32_t)rt.present();
    if (m.ext.empty()) {
        VCHECK(ctx, pres == (m.present | m.unknown_bits), pfx + "present", where << ": present() = 0x" << std::hex << pres << " expected 0x" << (m.present | m.unknown_bits) << std::dec << "; model "
                                                              << describe(m));
    } else {
        // several present words: present() is documented as "the bit mask of the present fields"; the field bits must be
        // the union of the words (what bits 29..31 read as is not specified)
        VCHECK(ctx, (pres & 0x1fffffffu) == m.all_fields(), pfx + "present", where << ": present() = 0x" << std::hex << pres << " expected field bits 0x" << m.all_fields()
                                                                                   << std::dec << "; model " << describe(m));
    }
    Layout l = ref_layout(m);
    const RadioTap::options_payload_type& pl = rt.options_payload();
    Bytes want(l.header.begin() + 4, l.header.end());
    VCHECK(ctx, pl.size() == want.size(), pfx + "layout:length", where << ": options_payload has " << pl.size() << " bytes, canonical layout has " << want.size()
                                                                        << "; got " << hex(pl) << " expected " << hex(want) << " model " << describe(m));
    if (pl.size() != want.size()) return;
    const size_t nwords = 4 * (1 + m.ext.size());
    VCHECK(ctx, std::equal(pl.begin(), pl.begin() + nwords, want.begin()), pfx + "layout:present-word", where << ": present word(s) " << hex(pl.data(), nwords) << " expected "
                                                                                                              << hex(want.data(), nwords));
    for (unsigned b = 0; b < NFIELDS; ++b) {
        if (!m.has(b)) continue;
        size_t o = (size_t)l.off[b] - 4;
        bool same = std::equal(m.val[b].begin(), m.val[b].end(), pl.begin() + o);
        VCHECK(ctx, same, pfx + "layout:field-bytes", where << ": field " << FIELDS[b].name << " expected at header offset " << l.off[b] << " with bytes "
                                                            << hex(m.val[b]) << "; options_payload " << hex(pl) << " canonical " << hex(want));
    }
    if (!m.tail.empty()) {
        bool same = std::equal(m.tail.begin(), m.tail.end(), pl.end() - m.tail.size());
        VCHECK(ctx, same, pfx + "layout:unknown-trailing-octets", where << ": the " << m.tail.size() << " octets behind the known fields (" << hex(m.tail)
                                                                        << ") are not at the end of options_payload " << hex(pl) << " canonical " << hex(want));
    }
    for (size_t k = 0; k < m.ext.size(); ++k) {
        for (unsigned b = 0; b < NFIELDS; ++b) {
            if (!m.ext[k].has(b)) continue;
            size_t o = (size_t)l.ext_off[k][b] - 4;
            bool same = std::equal(m.ext[k].val[b].begin(), m.ext[k].val[b].end(), pl.begin() + o);
            VCHECK(ctx, same, pfx + "layout:ext-field-bytes", where << ": field " << FIELDS[b].name << " of present word " << k + 1 << " expected at header offset "
                                                                    << l.ext_off[k][b] << " with bytes " << hex(m.ext[k].val[b]) << "; options_payload " << hex(pl)
                                                                    << " canonical " << hex(want));
        }
    }
    // (the content of alignment padding is not specified by the property and is not compared)
}

// ---------------------------------------------------------------- inner 802.11 frames
struct Inner {
    std::unique_ptr<PDU> pdu;
    std::string kind;
    Bytes bytes;
    bool standalone_ok = false;  // Dot11::from_bytes(bytes) gives the same type and the same bytes (not this property's business)
};

static Dot11::address_type gen_mac(Src& s) {
    Bytes b = s.bytes(6);
    return Dot11::address_type(b.data());
}

static Inner gen_inner(Src& s, bool force) {
    Inner in;
    unsigned k = s.u8() % 8;
    if (k == 0 && force) k = 1;
    switch (k) {
        case 0: in.kind = "none"; return in;
        case 1: in.kind = "Ack"; in.pdu.reset(new Dot11Ack(gen_mac(s))); break;
        case 2: in.kind = "Data-empty"; in.pdu.reset(new Dot11Data(gen_mac(s), gen_mac(s))); break;
        case 3: {
            in.kind = "Data-protected";
            Dot11Data* d = new Dot11Data(gen_mac(s), gen_mac(s));
            in.pdu.reset(d);
            d->wep(1);
            d->addr3(gen_mac(s));
            Bytes p = s.bytes(1 + s.u8() % 40);
            d->inner_pdu(new RawPDU(p.data(), (uint32_t)p.size()));
            break;
        }
        case 4: {
            in.kind = "Beacon";
            Dot11Beacon* b = new Dot11Beacon(gen_mac(s), gen_mac(s));
            in.pdu.reset(b);
            b->interval(s.u16());
            std::string ssid;
            unsigned n = s.u8() % 12;
            for (unsigned i = 0; i < n; ++i) ssid += (char)('a' + s.u8() % 26);
            b->ssid(ssid);
            break;
        }
        case 5: {
            in.kind = "QoSData-protected";
            Dot11QoSData* d = new Dot11QoSData(gen_mac(s), gen_mac(s));
            in.pdu.reset(d);
            d->wep(1);
            d->qos_control(s.u16());
            Bytes p = s.bytes(1 + s.u8() % 40);
            d->inner_pdu(new RawPDU(p.data(), (uint32_t)p.size()));
            break;
        }
        case 6: in.kind = "RTS"; in.pdu.reset(new Dot11RTS(gen_mac(s), gen_mac(s))); break;
        default: {
            in.kind = "ProbeRequest";
            Dot11ProbeRequest* p = new Dot11ProbeRequest(gen_mac(s), gen_mac(s));
            in.pdu.reset(p);
            p->ssid("net");
            break;
        }
    }
    in.bytes = in.pdu->serialize();
    try {
        std::unique_ptr<Dot11> back(Dot11::from_bytes(in.bytes.data(), (uint32_t)in.bytes.size()));
        in.standalone_ok = back && back->pdu_type() == in.pdu->pdu_type() && back->serialize() == in.bytes;
    } catch (const std::exception&) {
        in.standalone_ok = false;
    }
    return in;
}

// ---------------------------------------------------------------- the case
// length-prefixed sub stream with a bounded length (prefix byte mod `mod`): with uniformly random bytes an
// unbounded Src::sub() would swallow most of the input in the first element
struct SubSrc {
    Bytes buf;
    Src s;
    static Bytes take(Src& p, unsigned mod) {
        size_t len = p.u8() % mod;
        if (len > p.remaining()) len = p.remaining();
        return p.bytes(len);
    }
    SubSrc(Src& p, unsigned mod) : buf(take(p, mod)), s(buf.data(), buf.size()) {}
};

struct Case {
    bool parsed_start = false;
    Model start;
    Inner inner;
    bool attach_first = false;  // default start: attach the inner frame before (true) or after the setters
    bool detach = false;        // parsed start: drop the parsed inner frame before the setters
    std::vector<Op> ops;
};

static Bytes field_value(Src& s, unsigned bit) {
    unsigned n = FIELDS[bit].size;
    Bytes v;
    switch (s.weighted({6, 1, 1})) {
        case 0: v = s.bytes(n); break;
        case 1: v.assign(n, 0xff); break;
        default: v.assign(n, 0); v[0] = s.u8(); break;
    }
    if (bit == BIT_LOCKQ) v[1] = 0;  // the setter accepts 0..255 (only used for setter values)
    return v;
}

static Model default_model() {
    // documented in radiotap.h: FCS flag on, channel 1 (2412 MHz, flags 0xa0 as in the constructor), TSFT 0,
    // dbm_signal -50, rx_flags 0, antenna 0
    Model m;
    m.set(0, le(0, 8));
    m.set(1, le(FLAG_FCS, 1));
    m.set(3, Bytes{0x6c, 0x09, 0xa0, 0x00});
    m.set(5, le((uint8_t)-50, 1));
    m.set(11, le(0, 1));
    m.set(14, le(0, 2));
    return m;
}

static void gen_start(Src& s, Ctx& ctx, Case& c) {
    // random subset of bits 0..21 (20/21 = A-MPDU status / VHT less often)
    uint32_t mask;
    switch (s.weighted({3, 2, 2, 1})) {
        case 0: mask = s.u32(); break;
        case 1: mask = s.u32() & s.u32(); break;       // sparse
        case 2: mask = s.u32() | s.u32(); break;       // dense
        default: mask = 0; break;                       // no field at all
    }
    mask &= 0x3fffff;
    if (!s.chance(30)) mask &= 0x0fffff;
    for (unsigned b = 0; b < NFIELDS; ++b) {
        if (!((mask >> b) & 1)) continue;
        Bytes v = s.bytes(FIELDS[b].size);
        c.start.set(b, v);
    }
    // further present words (drawn last so that the decoding of the first word is what it was): 1..3 words, each with a
    // sparse set of fields - per-chain signal/antenna most of the time, any field except FLAGS otherwise
    if (s.chance(35)) {
        unsigned nw = 1 + (unsigned)s.range(0, 2);
        for (unsigned k = 0; k < nw; ++k) {
            ExtWord w;
            uint32_t wm = s.chance(60) ? ((1u << 5) | (1u << 11)) : (s.u32() & s.u32() & 0x0ffffd);
            if (s.chance(15)) wm = 0;  // a word without fields
            for (unsigned b = 0; b < NFIELDS; ++b) {
                if (!((wm >> b) & 1)) continue;
                w.present |= 1u << b;
                w.val[b] = s.bytes(FIELDS[b].size);
            }
            c.start.ext.push_back(w);
        }
    }
    // octets behind the last known field (drawn last): unknown fields / slack, only with a single present word
    if (c.start.ext.empty() && s.chance(25)) {
        static const uint8_t N[6] = {1, 2, 4, 8, 12, 20};
        c.start.tail = s.bytes(N[s.pick(6)]);
        if (s.chance(70)) c.start.unknown_bits = 1u << (22 + (unsigned)s.range(0, 6));   // e.g. bit 22 = TIMESTAMP
        if (c.start.tail.empty()) c.start.tail.push_back(0x5a);
    }
    if (c.start.has(BIT_FLAGS) && (c.start.val[BIT_FLAGS][0] & FLAG_FCS) && (c.start.val[BIT_FLAGS][0] & FLAG_FAILED_FCS)) {
        // RadioTap(buffer) rejects frames flagged "FCS present + FCS check failed" (malformed_packet, by design)
        c.start.val[BIT_FLAGS][0] &= (uint8_t)~FLAG_FAILED_FCS;
        ctx.excluded("parsed start with FLAGS = FCS|FAILED_FCS (constructor rejects such frames by design)");
    }
}

static void decode_random(Src& s, Ctx& ctx, Case& c, unsigned sel) {
    c.parsed_start = (sel % 5) >= 3;
    if (c.parsed_start) {
        SubSrc st(s, 112);
        gen_start(st.s, ctx, c);
    } else {
        c.start = default_model();
    }
    {
        SubSrc is(s, 72);
        c.inner = gen_inner(is.s, c.parsed_start);
    }
    unsigned fl = s.u8();
    c.attach_first = fl & 1;
    c.detach = c.parsed_start && (fl & 6) == 6;
    unsigned n = (unsigned)s.range(0, 20);
    for (unsigned i = 0; i < n && s.remaining() > 0; ++i) {
        SubSrc os(s, 12);
        Op op;
        op.bit = SETTABLE[os.s.u8() % 14];
        op.val = field_value(os.s, op.bit);
        c.ops.push_back(op);
    }
}

// enumerated block: [250.., startkind, n, f1..fn]; values are fixed, non-zero and distinct per position
static void decode_enum(Src& s, Ctx&, Case& c) {
    unsigned sk = s.u8() % 3;
    unsigned n = s.u8();
    if (n > 8) n = 8;
    c.parsed_start = sk != 0;
    if (sk == 0) c.start = default_model();
    if (sk == 2) {
        // every field libtins knows but offers no setter for 
        unsigned k = 0;
        for (unsigned b = 0; b < NFIELDS; ++b) {
            if (FIELDS[b].settable) continue;
            Bytes v(FIELDS[b].size);
            for (size_t j = 0; j < v.size(); ++j) v[j] = (uint8_t)(0xc1 + 0x0b * k + 3 * j);
            c.start.set(b, v);
            ++k;
        }
    }
    uint8_t mac[6] = {0x02, 0x11, 0x22, 0x33, 0x44, 0x55};
    // protected data frame + raw payload: a re-parse that hands the wrong byte range to the 802.11 layer shows up
    static const uint8_t body[9] = {0xde, 0xad, 0xbe, 0xef, 0x01, 0x02, 0x03, 0x04, 0x05};
    c.inner.kind = "Data-protected";
    Dot11Data* d = new Dot11Data(Dot11::address_type(mac), Dot11::address_type(mac));
    c.inner.pdu.reset(d);
    d->wep(1);
    d->inner_pdu(new RawPDU(body, sizeof body));
    c.inner.bytes = c.inner.pdu->serialize();
    c.inner.standalone_ok = true;
    c.attach_first = true;
    for (unsigned i = 0; i < n; ++i) {
        Op op;
        op.bit = SETTABLE[s.u8() % 14];
        op.val.resize(FIELDS[op.bit].size);
        for (size_t j = 0; j < op.val.size(); ++j) op.val[j] = (uint8_t)(0x21 + 0x1d * i + 7 * j);
        if (op.bit == BIT_LOCKQ) op.val[1] = 0;
        if (op.bit == BIT_FLAGS && (op.val[0] & FLAG_FCS)) op.val[0] &= (uint8_t)~FLAG_FAILED_FCS;
        c.ops.push_back(op);
    }
}

static std::string render(const Case& c) {
    std::ostringstream os;
    os << "start=" << (c.parsed_start ? "parsed" : "default");
    if (c.parsed_start) os << describe(c.start);
    os << " inner=" << c.inner.kind;
    if (c.detach) os << "(detached)";
    os << " ops=[";
    for (size_t i = 0; i < c.ops.size(); ++i) os << (i ? " " : "") << FIELDS[c.ops[i].bit].name << "=" << hex(c.ops[i].val);
    os << "]";
    return os.str();
}

void prop(Src& s, Ctx& ctx) {
    Case c;
    unsigned sel = s.u8();
    bool enumerated = sel >= 250;
    if (enumerated) {
        decode_enum(s, ctx, c);
        ctx.label("enumerated-order-block");
    } else {
        decode_random(s, ctx, c, sel);
    }

    // ---- decoded case: hash, labels, log
    ctx.hash(c.parsed_start ? 1 : 0);
    ctx.hash(c.start.present);
    for (unsigned b = 0; b < NFIELDS; ++b) if (c.start.has(b)) ctx.hash(hash_bytes(c.start.val[b].data(), c.start.val[b].size()));
    for (const ExtWord& w : c.start.ext) {
        ctx.hash(0xe0000000u | w.present);
        for (unsigned b = 0; b < NFIELDS; ++b) if (w.has(b)) ctx.hash(hash_bytes(w.val[b].data(), w.val[b].size()));
    }
    if (!c.start.ext.empty()) ctx.label("start-present-words=" + std::to_string(1 + c.start.ext.size()));
    if (!c.start.tail.empty()) { ctx.label("start-unknown-trailing-octets"); ctx.hash(0xd0000000u | c.start.unknown_bits); ctx.hash(hash_bytes(c.start.tail.data(), c.start.tail.size())); }
    ctx.hash(c.inner.kind);
    ctx.hash(hash_bytes(c.inner.bytes.data(), c.inner.bytes.size()));
    ctx.hash((c.attach_first ? 1 : 0) | (c.detach ? 2 : 0));
    for (const Op& op : c.ops) { ctx.hash(op.bit); ctx.hash(hash_bytes(op.val.data(), op.val.size())); }
    ctx.label(c.parsed_start ? "start-parsed" : "start-default");
    ctx.label("inner-" + c.inner.kind);
    ctx.label(c.ops.empty() ? "ops-0" : (c.ops.size() <= 3 ? "ops-1..3" : (c.ops.size() <= 8 ? "ops-4..8" : "ops-9..20")));
    if (ctx.logging()) ctx.log("case: " + render(c));
    ctx.sample(render(c));

    // ---- start object
    Model m = c.start;
    std::unique_ptr<RadioTap> rtp;
    bool has_inner = false;
    if (c.parsed_start) {
        Layout l = ref_layout(m);
        Bytes buf = l.header;
        buf.insert(buf.end(), c.inner.bytes.begin(), c.inner.bytes.end());
        if (m.has(BIT_FLAGS) && (m.val[BIT_FLAGS][0] & FLAG_FCS)) {
            Bytes f = le(ref_crc32(c.inner.bytes), 4);
            buf.insert(buf.end(), f.begin(), f.end());
        }
        if (ctx.logging()) ctx.log("start buffer: " + hex(buf, 512));
        try {
            rtp.reset(new RadioTap(buf.data(), (uint32_t)buf.size()));
        } catch (const std::exception& e) {
            VFAIL(ctx, "C11:parse-start:threw", "RadioTap(buffer) threw '" << e.what() << "' on canonical header " << hex(l.header) << " + " << c.inner.kind << " frame; model "
                                                                          << describe(m));
        }
        VCHECK(ctx, rtp->inner_pdu() != nullptr, "C11:parse-start:inner-missing", "parsed start has no inner frame; buffer " << hex(buf, 512));
        has_inner = rtp->inner_pdu() != nullptr;
        if (c.detach) { rtp->inner_pdu(nullptr); has_inner = false; }
    } else {
        rtp.reset(new RadioTap());
        if (c.attach_first && c.inner.pdu) { rtp->inner_pdu(c.inner.pdu->clone()); has_inner = true; }
    }
    RadioTap& rt = *rtp;
    check_state(ctx, "C11:", rt, m, Where{&c.ops, 0, false, "start object"}, true);

    // ---- the setter sequence (every prefix of a history is a history: the state is checked after each call)
    bool moved[NFIELDS] = {false};      // a lower-numbered field was newly added since this field was last set
    std::vector<unsigned> first_set;    // distinct fields in order of their first setter call
    bool nt_reset = false;
    unsigned max_repad = 0;
    for (size_t i = 0; i < c.ops.size(); ++i) {
        const Op& op = c.ops[i];
        const unsigned bit = op.bit;
        bool newly = !m.has(bit);
        Layout before = ref_layout(m);
        m.set(bit, op.val);
        Layout after = ref_layout(m);
        if (newly) {
            unsigned repad = 0;
            bool higher = false, grow = false, shrink = false;
            for (unsigned g = bit + 1; g < NFIELDS; ++g) {
                if (!m.has(g)) continue;
                higher = true;
                moved[g] = true;
                if (before.pad[g] != after.pad[g]) ++repad;
                if (before.pad[g] < after.pad[g]) grow = true;
                if (before.pad[g] > after.pad[g]) shrink = true;
            }
            if (higher) ctx.label("insert-before-existing");
            if (repad >= 1) ctx.label("repad>=1");
            if (repad >= 2) ctx.label("repad>=2");
            if (repad >= 3) ctx.label("repad>=3");
            if (grow) ctx.label("repad-grow");
            if (shrink) ctx.label("repad-shrink");
            if (repad > max_repad) max_repad = repad;
        } else {
            if (moved[bit]) { nt_reset = true; ctx.label("reset-after-lower-insert"); }
            else ctx.label("reset-in-place");
        }
        moved[bit] = false;
        if (std::find(first_set.begin(), first_set.end(), bit) == first_set.end()) first_set.push_back(bit);
        Where where = {&c.ops, i, newly, nullptr};
        try {
            call_setter(rt, bit, op.val);
        } catch (const std::exception& e) {
            VFAIL(ctx, std::string("C11:setter:") + FIELDS[bit].name + ":threw", where << ": setter threw '" << e.what() << "'; model " << describe(m));
        }
        if (ctx.logging()) {
            std::ostringstream os;
            os << where << ": payload " << hex(rt.options_payload()) << " canonical " << hex(Bytes(after.header.begin() + 4, after.header.end()));
            ctx.log(os.str());
        }
        check_state(ctx, "C11:", rt, m, where, i + 1 == c.ops.size());
    }
    bool non_bit_order = first_set.size() >= 3 && !std::is_sorted(first_set.begin(), first_set.end());
    if (non_bit_order) ctx.label("non-bit-order>=3");
    ctx.nontrivial(non_bit_order || nt_reset);

    if (!c.parsed_start && !c.attach_first && c.inner.pdu) { rt.inner_pdu(c.inner.pdu->clone()); has_inner = true; }
    if (has_inner) ctx.label("inner-attached");

    // ---- serialization: it_len, header bytes, inner frame, FCS trailer
    Layout l = ref_layout(m);
    bool fcs = m.has(BIT_FLAGS) && (m.val[BIT_FLAGS][0] & FLAG_FCS);
    ctx.label(fcs ? "fcs-on" : "fcs-off");
    Bytes ser;
    try {
        ser = rt.serialize();
    } catch (const std::exception& e) {
        VFAIL(ctx, "C11:serialize:threw", "serialize() threw '" << e.what() << "'; model " << describe(m));
    }
    if (ctx.logging()) ctx.log("serialized: " + hex(ser, 512));
    const size_t hl = l.header.size();
    VCHECK(ctx, ser.size() >= 4 && (size_t)(ser[2] | (ser[3] << 8)) == hl, "C11:serialize:it_len",
           "it_len = " << (ser.size() >= 4 ? (ser[2] | (ser[3] << 8)) : -1) << " but the canonical header has " << hl << " bytes; serialized " << hex(ser, 512));
    VCHECK(ctx, rt.length() == hl, "C11:serialize:it_len", "length() = " << rt.length() << " after serialize(), canonical header has " << hl << " bytes");
    size_t inner_len = has_inner ? c.inner.bytes.size() : 0;
    VCHECK(ctx, ser.size() == hl + inner_len + (fcs ? 4 : 0), "C11:serialize:size",
           "serialized size " << ser.size() << " expected header " << hl << " + frame " << inner_len << " + fcs " << (fcs ? 4 : 0) << "; serialized " << hex(ser, 512));
    if (ser.size() == hl + inner_len + (fcs ? 4 : 0)) {
        // header: version/pad/it_len/present word exactly, then every field at its canonical offset
        const size_t fixed = 8 + 4 * m.ext.size();
        VCHECK(ctx, std::equal(ser.begin(), ser.begin() + fixed, l.header.begin()), "C11:serialize:header-bytes",
               "first " << fixed << " bytes " << hex(ser.data(), fixed) << " expected " << hex(l.header.data(), fixed));
        for (size_t k = 0; k < m.ext.size(); ++k)
            for (unsigned b = 0; b < NFIELDS; ++b) {
                if (!m.ext[k].has(b)) continue;
                VCHECK(ctx, std::equal(m.ext[k].val[b].begin(), m.ext[k].val[b].end(), ser.begin() + l.ext_off[k][b]), "C11:serialize:header-bytes",
                       "field " << FIELDS[b].name << " of present word " << k + 1 << " not at offset " << l.ext_off[k][b] << "; serialized " << hex(ser, 512)
                                << " canonical header " << hex(l.header));
            }
        for (unsigned b = 0; b < NFIELDS; ++b) {
            if (!m.has(b)) continue;
            VCHECK(ctx, std::equal(m.val[b].begin(), m.val[b].end(), ser.begin() + l.off[b]), "C11:serialize:header-bytes",
                   "field " << FIELDS[b].name << " not at offset " << l.off[b] << "; serialized " << hex(ser, 512) << " canonical header " << hex(l.header));
        }
        if (has_inner) {
            VCHECK(ctx, std::equal(c.inner.bytes.begin(), c.inner.bytes.end(), ser.begin() + hl), "C11:serialize:inner-bytes",
                   "802.11 frame after the header is " << hex(ser.data() + hl, inner_len) << " expected " << hex(c.inner.bytes));
            if (fcs) {
                Bytes want = le(ref_crc32(c.inner.bytes), 4);
                VCHECK(ctx, std::equal(want.begin(), want.end(), ser.end() - 4), "C11:serialize:fcs",
                       "FCS trailer " << hex(ser.data() + ser.size() - 4, 4) << " expected CRC-32 " << hex(want) << " of frame " << hex(c.inner.bytes));
            }
        }
    }

    // ---- parse back (only with an inner 802.11 frame, see props/c11.json)
    if (has_inner) {
        bool failed_fcs = fcs && (m.val[BIT_FLAGS][0] & FLAG_FAILED_FCS);
        if (failed_fcs) {
            ctx.excluded("parse-back of FLAGS = FCS|FAILED_FCS (constructor rejects such frames by design)");
        } else if (!c.inner.standalone_ok) {
            ctx.excluded("parse-back where the inner Dot11 frame does not round-trip on its own");
        } else {
            ctx.label("parse-back");
            std::unique_ptr<RadioTap> back;
            try {
                back.reset(new RadioTap(ser.data(), (uint32_t)ser.size()));
            } catch (const std::exception& e) {
                VFAIL(ctx, "C11:parse:threw", "RadioTap(serialized) threw '" << e.what() << "'; serialized " << hex(ser, 512) << " model " << describe(m));
            }
            check_state(ctx, "C11:parse:", *back, m, Where{&c.ops, 0, false, "re-parsed object"}, true);
            const PDU* bi = back->inner_pdu();
            VCHECK(ctx, bi != nullptr, "C11:parse:inner-missing", "re-parsed object has no inner frame; serialized " << hex(ser, 512));
            if (bi) {
                VCHECK(ctx, bi->pdu_type() == c.inner.pdu->pdu_type(), "C11:parse:inner-type",
                       "inner frame type " << (int)bi->pdu_type() << " expected " << (int)c.inner.pdu->pdu_type() << " (" << c.inner.kind << ")");
                Bytes ib = back->inner_pdu()->serialize();
                VCHECK(ctx, ib == c.inner.bytes, "C11:parse:inner-bytes", "inner frame after re-parse " << hex(ib) << " expected " << hex(c.inner.bytes));
            }
        }
    }
}

// ---------------------------------------------------------------- exhaustive block: all orders of <= K distinct setters x 3 start objects
static int g_tier = 0;
void prop_setup(Ctx& ctx) {
    g_tier = ctx.tier;
    // self-test of the references
    const char* t = "123456789";
    Bytes b(t, t + 9);
    if (ref_crc32(b) != 0xCBF43926u) { fprintf(stderr, "C11: reference CRC-32 self-test failed\n"); abort(); }
    Model m = default_model();
    Layout l = ref_layout(m);
    // TSFT@8 FLAGS@16 pad CHANNEL@18 DBM_SIGNAL@22 ANTENNA@23 RX_FLAGS@24 -> 26 bytes
    if (l.header.size() != 26 || l.off[0] != 8 || l.off[1] != 16 || l.off[3] != 18 || l.off[5] != 22 || l.off[11] != 23 || l.off[14] != 24) {
        fprintf(stderr, "C11: reference layout self-test failed\n"); abort();
    }
}

bool prop_enum(uint64_t idx, std::vector<uint8_t>& out) {
    const unsigned K = g_tier ? 5 : 3;
    // idx -> (start kind, length n, n-permutation of 14 in lexicographic rank)
    uint64_t i = idx;
    for (unsigned n = 0; n <= K; ++n) {
        uint64_t perms = 1;
        for (unsigned k = 0; k < n; ++k) perms *= 14 - k;
        uint64_t block = perms * 3;
        if (i >= block) { i -= block; continue; }
        unsigned sk = (unsigned)(i % 3);
        uint64_t r = i / 3;
        out.clear();
        out.push_back(250); out.push_back((uint8_t)sk); out.push_back((uint8_t)n);
        std::vector<unsigned> avail;
        for (unsigned f = 0; f < 14; ++f) avail.push_back(f);
        uint64_t div = perms;
        for (unsigned k = 0; k < n; ++k) {
            div /= 14 - k;
            unsigned pos = (unsigned)(r / div);
            r %= div;
            out.push_back((uint8_t)avail[pos]);
            avail.erase(avail.begin() + pos);
        }
        return true;
    }
    return false;
}
