// C09 — WEP and WPA2 (CCMP/TKIP) decryption recovers exactly the plaintext, safely.
// Oracle: independent reference encryptors / decapsulators in ref/wifi_crypto.h (validated in prop_setup against
// published vectors and the captured frames of libtins' own tests), a 4-way-handshake protocol simulator and a
// ground-truth model of what a passive observer must have learned.
#include "../engine/src.h"
#include "../ref/wifi_crypto.h"
#include "../ref/wifi_captures.h"
#include <tins/crypto.h>
#include <tins/dot11/dot11_base.h>
#include <tins/dot11/dot11_data.h>
#include <tins/dot11/dot11_beacon.h>
#include <tins/radiotap.h>
#include <tins/snap.h>
#include <tins/rawpdu.h>
#include <tins/eapol.h>
#include <tins/handshake_capturer.h>
#include <tins/exceptions.h>
#include <memory>
#include <functional>
#include <cstdio>

using namespace verif;
using wref::Bytes;
using wref::MacHdr;

const char* const PROP_ID = "C09";
const size_t PROP_MAXLEN_QUICK = 640;
const size_t PROP_MAXLEN_THOROUGH = 2560;

typedef Tins::HWAddress<6> HW;

// ---------------------------------------------------------------------------------------------- small helpers
static uint64_t splitmix(uint64_t& x) {
    uint64_t z = (x += 0x9e3779b97f4a7c15ULL);
    z = (z ^ (z >> 30)) * 0xbf58476d1ce4e5b9ULL;
    z = (z ^ (z >> 27)) * 0x94d049bb133111ebULL;
    return z ^ (z >> 31);
}
// deterministic expansion of a small seed into n bytes (so that key material / payloads cost few choice bytes)
static Bytes expand(uint64_t seed, size_t n) {
    Bytes b(n);
    uint64_t x = seed * 0x2545F4914F6CDD1DULL + 0x1234567;
    for (size_t i = 0; i < n; i += 8) {
        uint64_t v = splitmix(x);
        for (size_t k = 0; k < 8 && i + k < n; ++k) b[i + k] = (uint8_t)(v >> (8 * k));
    }
    return b;
}
static std::string hx(const uint8_t* p, size_t n, size_t max = 48) { return hex(p, n, max); }
static std::string hx(const Bytes& b, size_t max = 48) { return hex(b.data(), b.size(), max); }
static std::string mac_str(const uint8_t* m) {
    char t[24];
    snprintf(t, sizeof t, "%02x:%02x:%02x:%02x:%02x:%02x", m[0], m[1], m[2], m[3], m[4], m[5]);
    return t;
}
static HW hw(const uint8_t* m) { return HW(m); }

enum Cipher { WEP40 = 0, WEP104 = 1, TKIP = 2, CCMP = 3 };
static const char* cipher_name(int c) {
    static const char* const N[] = {"WEP40", "WEP104", "TKIP", "CCMP"};
    return N[c & 3];
}
static const char* cipher_tag(int c) { return c <= WEP104 ? "WEP" : (c == TKIP ? "TKIP" : "CCMP"); }

// fixed addresses; ordering matters (PTK derivation and libtins' key map sort the pair)
static const uint8_t MACS[6][6] = {
    {0x00, 0x0c, 0x41, 0x82, 0xb2, 0x55},   // 0: access point A
    {0x00, 0x0d, 0x93, 0x82, 0x36, 0x3a},   // 1: station (> A)
    {0x00, 0x01, 0x02, 0x03, 0x04, 0x05},   // 2: station (< A)
    {0x94, 0x0c, 0x6d, 0x8f, 0x93, 0x88},   // 3: station
    {0x00, 0x1b, 0x11, 0xd2, 0x1b, 0xeb},   // 4: access point B
    {0xfe, 0xff, 0xff, 0xff, 0xff, 0xfe},   // 5: high, locally administered
};
static void gen_mac(Src& s, uint8_t out[6]) {
    switch (s.weighted({6, 2, 1})) {
        default:
        case 0: memcpy(out, MACS[s.pick(6)], 6); break;
        case 1: { Bytes b = s.bytes(6); memcpy(out, b.data(), 6); break; }
        case 2: memset(out, 0xff, 6); break;
    }
}
static Bytes gen_key(Src& s, size_t n) {
    switch (s.weighted({5, 3, 1, 1})) {
        default:
        case 0: return expand(s.u16() + 1, n);
        case 1: return s.bytes(n);
        case 2: return Bytes(n, 0x00);
        case 3: return Bytes(n, 0xff);
    }
}

// ---------------------------------------------------------------------------------------------- key material
struct KeySet {
    Bytes wep;   // 5 or 13 bytes
    Bytes ptk;   // 80 bytes as libtins stores it: KCK | KEK | TK | MIC key (AP tx) | MIC key (STA tx) | 16 unused
};
static const uint8_t* tkip_mic_key(const KeySet& k, const MacHdr& h) {
    // 11.4.2.3: Authenticator-to-Supplicant frames use TK bits 128-191, the other direction bits 192-255
    return (h.to_ds() && !h.from_ds()) ? k.ptk.data() + 56 : k.ptk.data() + 48;
}
static Bytes encap(int cipher, const KeySet& k, const MacHdr& h, uint64_t pn, unsigned keyid, const Bytes& plain,
                   bool bad_michael = false) {
    if (cipher <= WEP104) {
        uint8_t iv[3] = {(uint8_t)pn, (uint8_t)(pn >> 8), (uint8_t)(pn >> 16)};
        return wref::wep_encap(k.wep, iv, keyid, plain);
    }
    if (cipher == TKIP) {
        uint8_t mk[8];
        memcpy(mk, tkip_mic_key(k, h), 8);
        if (bad_michael) mk[0] ^= 0x01;
        return wref::tkip_encap(k.ptk.data() + 32, mk, h, pn & 0xffffffffffffULL, keyid, plain);
    }
    return wref::ccmp_encap(k.ptk.data() + 32, h, pn & 0xffffffffffffULL, keyid, plain);
}
// verdict of the reference receiver on an arbitrary body
struct Verdict {
    bool authentic;   // integrity check (ICV for WEP/TKIP, MIC for CCMP) verifies under the key
    bool asserted;    // libtins' result is asserted (false for: Michael-only failure, non-canonical cipher header)
    Bytes plain;
    Verdict() : authentic(false), asserted(true) {}
};
static Verdict ref_decap(int cipher, const KeySet& k, const MacHdr& h, const Bytes& body) {
    Verdict v;
    if (cipher <= WEP104) {
        v.authentic = wref::wep_decap(k.wep, body, v.plain);
        if (v.authentic && (body[3] & 0x3f)) v.asserted = false;
    } else if (cipher == TKIP) {
        wref::TkipResult r = wref::tkip_decap(k.ptk.data() + 32, tkip_mic_key(k, h), h, body);
        v.authentic = r.icv_ok;
        if (r.icv_ok) { v.plain = r.plain; v.asserted = r.mic_ok && r.canonical; }
    } else {
        wref::CcmpResult r = wref::ccmp_decap(k.ptk.data() + 32, h, body);
        v.authentic = r.mic_ok;
        if (r.mic_ok) { v.plain = r.plain; v.asserted = r.canonical; }
    }
    return v;
}

// ---------------------------------------------------------------------------------------------- header generator
// Data-frame header: to/from-DS in {00,01,10,11}, QoS (subtype 8) or not (subtypes 0-3), random masked fields.
// role addresses are supplied by the caller (bssid / station / third / fourth).
static MacHdr make_hdr(Src& s, Ctx& ctx, unsigned ds, bool qos, const uint8_t* a1, const uint8_t* a2,
                       const uint8_t* a3, const uint8_t* a4) {
    MacHdr h;
    unsigned subtype = qos ? 8 : (s.chance(15) ? (unsigned)s.range(1, 3) : 0);
    h.fc0 = (uint8_t)(0x08 | (subtype << 4));
    uint8_t f = s.u8();
    h.fc1 = (uint8_t)(0x40 | (ds & 3) | (f & 0xbc));   // protected; more-frag, retry, pwr, more-data, order from f
    if (qos && (h.fc1 & 0x80)) {
        // +HTC frames carry a 4-byte HT Control field libtins does not model: excluded by construction
        h.fc1 &= 0x7f;
        ctx.excluded("qos-data-with-order-bit(+HTC)");
    }
    if (!(s.u8() & 0x03)) h.fc1 &= 0x43;               // 1 in 4: all optional flag bits clear
    Bytes d = s.bytes(4);
    h.dur[0] = d[0]; h.dur[1] = d[1]; h.sc[0] = d[2]; h.sc[1] = d[3];
    memcpy(h.a1, a1, 6); memcpy(h.a2, a2, 6); memcpy(h.a3, a3, 6); memcpy(h.a4, a4, 6);
    if (qos) { h.qc[0] = s.u8(); h.qc[1] = s.u8(); }
    return h;
}
static std::string hdr_str(const MacHdr& h) {
    std::ostringstream o;
    o << "fc=" << hx(&h.fc0, 1) << hx(&h.fc1, 1) << " ds=" << (h.to_ds() ? 1 : 0) << (h.from_ds() ? 1 : 0)
      << " a1=" << mac_str(h.a1) << " a2=" << mac_str(h.a2) << " a3=" << mac_str(h.a3);
    if (h.has_a4()) o << " a4=" << mac_str(h.a4);
    o << " sc=" << hx(h.sc, 2);
    if (h.has_qos()) o << " qc=" << hx(h.qc, 2);
    return o.str();
}

// ---------------------------------------------------------------------------------------------- plaintext generator
static bool known_ethertype(uint16_t t) {
    switch (t) {
        case 0x0800: case 0x86dd: case 0x0806: case 0x8863: case 0x8864: case 0x888e: case 0x8100: case 0x88a8:
        case 0x9100: case 0x8847: return true;
        default: return false;
    }
}
struct Plain {
    Bytes bytes;
    int kind;   // 0 = SNAP + unrecognised ethertype + opaque data; 1 = recognised ethertype, well-formed inner packet;
                // 2 = EAPOL ethertype + arbitrary bytes
};
static size_t gen_len(Src& s, size_t maxdata) {
    size_t n;
    switch (s.weighted({4, 3, 3, 2, 1})) {
        default:
        case 0: n = (size_t)s.range(0, 40); break;
        case 1: {   // total plaintext length (8 + n) a multiple of 16, +-1
            size_t total = 16 * (size_t)s.range(1, (maxdata + 8) / 16) + (size_t)s.range(0, 2);
            n = total > 9 ? total - 9 : 0;
            break;
        }
        case 2: n = (size_t)s.range(0, 300); break;
        case 3: n = (size_t)s.range(0, maxdata); break;
        case 4: n = maxdata - (size_t)s.range(0, 2); break;
    }
    return n > maxdata ? maxdata : n;
}
static Plain gen_plain(Src& s, size_t maxdata) {
    Plain p;
    p.kind = (int)s.weighted({10, 2, 1});
    Bytes& b = p.bytes;
    b.push_back(0xaa); b.push_back(0xaa); b.push_back(0x03);
    if (s.chance(20)) { Bytes oui = s.bytes(3); b.insert(b.end(), oui.begin(), oui.end()); }
    else { b.push_back(0); b.push_back(0); b.push_back(0); }
    if (p.kind == 0) {
        uint16_t et = s.u16();
        if (known_ethertype(et)) et = 0x88b5;   // IEEE local experimental ethertype
        b.push_back((uint8_t)(et >> 8)); b.push_back((uint8_t)et);
        size_t n = gen_len(s, maxdata);
        Bytes head = s.bytes(std::min<size_t>(n, 6));
        Bytes tail = expand(hash_bytes(head.data(), head.size()) ^ n, n - head.size());
        b.insert(b.end(), head.begin(), head.end());
        b.insert(b.end(), tail.begin(), tail.end());
    } else if (p.kind == 1) {
        if (s.boolean()) {   // ARP request
            static const uint8_t arp[] = {0x08, 0x06, 0x00, 0x01, 0x08, 0x00, 0x06, 0x04, 0x00, 0x01, 0x00, 0x0e, 0xa6, 0x6b, 0xfb, 0x69,
                                          0xac, 0x10, 0x00, 0x01, 0x00, 0x00, 0x00, 0x00, 0x00, 0x00, 0xac, 0x10, 0x00, 0xf0};
            b.insert(b.end(), arp, arp + sizeof(arp));
            b[b.size() - 1] = s.u8();
        } else {             // IPv4 / UDP with a small payload
            size_t n = (size_t)s.range(0, 64);
            size_t tot = 20 + 8 + n;
            uint8_t ip[] = {0x08, 0x00, 0x45, 0x00, (uint8_t)(tot >> 8), (uint8_t)tot, 0x12, 0x34, 0x40, 0x00, 0x40, 0x11, 0x00, 0x00,
                            10, 0, 0, 1, 10, 0, 0, 2, 0x00, 0x44, 0x00, 0x43, (uint8_t)((8 + n) >> 8), (uint8_t)(8 + n), 0x00, 0x00};
            b.insert(b.end(), ip, ip + sizeof(ip));
            Bytes pl = expand(n + 7, n);
            b.insert(b.end(), pl.begin(), pl.end());
        }
    } else {
        b.push_back(0x88); b.push_back(0x8e);
        Bytes r = s.bytes((size_t)s.range(0, 130));
        b.insert(b.end(), r.begin(), r.end());
    }
    return p;
}

// ---------------------------------------------------------------------------------------------- libtins side
// container: 0 = Dot11::from_bytes, 1 = RadioTap (no FCS), 2 = RadioTap announcing an FCS + 4 trailing bytes
static std::unique_ptr<Tins::PDU> parse_frame(unsigned container, const Bytes& frame) {
    if (container == 0) return std::unique_ptr<Tins::PDU>(Tins::Dot11::from_bytes(frame.data(), (uint32_t)frame.size()));
    Bytes b;
    if (container == 1) {
        static const uint8_t rt[] = {0, 0, 8, 0, 0, 0, 0, 0};
        b.assign(rt, rt + sizeof(rt));
        b.insert(b.end(), frame.begin(), frame.end());
    } else {
        static const uint8_t rt[] = {0, 0, 9, 0, 2, 0, 0, 0, 0x10};
        b.assign(rt, rt + sizeof(rt));
        b.insert(b.end(), frame.begin(), frame.end());
        uint32_t fcs = wref::crc32(frame.data(), frame.size());
        for (int i = 0; i < 4; ++i) b.push_back((uint8_t)(fcs >> (8 * i)));
    }
    return std::unique_ptr<Tins::PDU>(new Tins::RadioTap(b.data(), (uint32_t)b.size()));
}
static Bytes join(const MacHdr& h, const Bytes& body) {
    Bytes f = h.bytes();
    f.insert(f.end(), body.begin(), body.end());
    return f;
}
// structure of a PDU chain below (and including) `p`: (type, header size) per layer + innermost raw payload
static std::string chain_sig(const Tins::PDU* p) {
    std::ostringstream o;
    for (; p; p = p->inner_pdu()) {
        o << (int)p->pdu_type() << ":" << p->header_size() << ":" << p->trailer_size() << ";";
        if (p->pdu_type() == Tins::PDU::RAW) {
            const Tins::RawPDU* r = static_cast<const Tins::RawPDU*>(p);
            o << hex(r->payload().data(), r->payload().size(), 4096);
        }
    }
    return o.str();
}
// can libtins' SNAP parser represent this plaintext at all? (shorter than 8 bytes, or a recognised ethertype in
// front of bytes its protocol parser rejects, cannot become a SNAP layer: decrypt() then reports failure or throws)
static bool snap_parseable(const Bytes& plain, std::string* sig = 0) {
    if (plain.size() < 8) return false;
    try {
        Tins::SNAP sn(plain.data(), (uint32_t)plain.size());
        if (sig) *sig = chain_sig(&sn);
        return true;
    } catch (const Tins::exception_base&) {
        return false;
    }
}
// does the decrypted layer equal the plaintext?
static bool snap_equals(const Tins::SNAP& sn, const Bytes& plain, std::string& why) {
    std::ostringstream o;
    uint32_t org = ((uint32_t)plain[3] << 16) | ((uint32_t)plain[4] << 8) | plain[5];
    uint16_t et = (uint16_t)((plain[6] << 8) | plain[7]);
    if (sn.dsap() != plain[0] || sn.ssap() != plain[1] || sn.control() != plain[2] || sn.org_code() != org || sn.eth_type() != et) {
        o << "SNAP header fields dsap=" << (int)sn.dsap() << " ssap=" << (int)sn.ssap() << " control=" << (int)sn.control()
          << " org=" << (unsigned)sn.org_code() << " eth_type=" << sn.eth_type() << " differ from plaintext header " << hx(plain.data(), 8);
        why = o.str();
        return false;
    }
    const Tins::PDU* in = sn.inner_pdu();
    if (plain.size() == 8) {
        if (in) { why = "inner layer present although the plaintext ends after the SNAP header"; return false; }
        return true;
    }
    if (!known_ethertype(et)) {
        if (!in || in->pdu_type() != Tins::PDU::RAW || in->inner_pdu()) { why = "payload of an unrecognised ethertype is not a single RawPDU"; return false; }
        const Tins::RawPDU::payload_type& pl = static_cast<const Tins::RawPDU*>(in)->payload();
        if (pl.size() != plain.size() - 8 || memcmp(pl.data(), plain.data() + 8, pl.size()) != 0) {
            size_t i = 0;
            while (i < pl.size() && i + 8 < plain.size() && pl[i] == plain[8 + i]) ++i;
            o << "payload differs: got " << pl.size() << " bytes, expected " << plain.size() - 8 << ", first difference at offset " << i;
            why = o.str();
            return false;
        }
        return true;
    }
    std::string want;
    if (!snap_parseable(plain, &want)) { why = "reference parse failed"; return false; }
    if (chain_sig(&sn) != want) { why = "layer chain differs from the parse of the plaintext: " + chain_sig(&sn) + " vs " + want; return false; }
    return true;
}

struct RunResult {
    bool threw;
    std::string what;
    bool ret;
    RunResult() : threw(false), ret(false) {}
};
template <class D>
static RunResult run_decrypt(D& dec, Tins::PDU& pdu) {
    RunResult r;
    try {
        r.ret = dec.decrypt(pdu);
    } catch (const Tins::exception_base& e) {   // anything else escapes and is reported by the driver
        r.threw = true;
        r.what = e.what();
    }
    return r;
}

// The oracle shared by all classes. `expect`: +1 must decrypt to `plain`, -1 must not be reported as decrypted,
// 0 unasserted (only: if it claims success the plaintext must be `plain` when authentic)
static void check_outcome(Ctx& ctx, const std::string& tag, Tins::PDU& top, const RunResult& r, int expect, const Bytes& plain,
                          bool was_protected, const std::string& desc) {
    Tins::Dot11Data* data = top.find_pdu<Tins::Dot11Data>();
    if (expect > 0) {
        VCHECK(ctx, !r.threw, tag + ":positive:exception", desc << ": decrypt threw " << r.what);
        if (r.threw) return;
        VCHECK(ctx, r.ret, tag + ":positive:not-decrypted", desc << ": decrypt returned false for an authentic frame with the matching key installed");
        if (!r.ret) return;
        VCHECK(ctx, data != 0, tag + ":positive:no-data-layer", desc << ": Dot11Data layer disappeared");
        if (!data) return;
        VCHECK(ctx, !data->wep(), tag + ":positive:protected-flag-not-cleared", desc << ": protected flag still set after successful decryption");
        const Tins::PDU* in = data->inner_pdu();
        VCHECK(ctx, in && in->pdu_type() == Tins::PDU::SNAP, tag + ":positive:no-snap-layer", desc << ": inner layer after decryption is not SNAP");
        if (!in || in->pdu_type() != Tins::PDU::SNAP) return;
        std::string why;
        bool eq = snap_equals(*static_cast<const Tins::SNAP*>(in), plain, why);
        VCHECK(ctx, eq, tag + ":positive:plaintext-mismatch", desc << ": " << why);
    } else if (expect < 0) {
        VCHECK(ctx, !r.ret, tag + ":negative:reported-decrypted", desc << ": decrypt returned true although the frame must not decrypt");
        if (data) {
            VCHECK(ctx, top.find_pdu<Tins::SNAP>() == 0 || !was_protected, tag + ":negative:decrypted-layer-present",
                   desc << ": a SNAP layer is present after a failed decryption");
            if (was_protected)
                VCHECK(ctx, data->wep(), tag + ":negative:protected-flag-cleared", desc << ": protected flag cleared although decryption failed");
        }
    } else {
        if (r.ret && !r.threw && data && !plain.empty() && plain.size() >= 8) {
            const Tins::PDU* in = data->inner_pdu();
            if (in && in->pdu_type() == Tins::PDU::SNAP) {
                std::string why;
                bool eq = snap_equals(*static_cast<const Tins::SNAP*>(in), plain, why);
                VCHECK(ctx, eq, tag + ":unasserted:plaintext-mismatch", desc << ": " << why);
            }
        }
    }
}

// ---------------------------------------------------------------------------------------------- setup
static std::string g_setup_error;
struct PoolEntry { const char* pass; const char* ssid; int sibling; Bytes pmk; };
static PoolEntry g_pool[8] = {
    {"Induction", "Coherer", 3, Bytes()},
    {"password1", "Testing", -1, Bytes()},
    {"libtinstest", "NODO", 4, Bytes()},
    {"wrongpass1", "Coherer", 0, Bytes()},
    {"password1", "NODO", 2, Bytes()},
    {"12345678", "a", -1, Bytes()},
    {"correct horse battery staple correct horse battery staple 63ch.", "0123456789abcdef0123456789abcdef", -1, Bytes()},
    {"verif passphrase", "verif net 7", -1, Bytes()},
};

static std::string validate_capture(const wcap::Frame* fr, size_t n, int pool, bool ccmp) {
    using namespace wref;
    const Bytes& pmk = g_pool[pool].pmk;
    uint8_t anonce[32], snonce[32], aa[6], spa[6];
    Bytes eap[5];
    for (int i = 1; i <= 4; ++i) {
        MacHdr h;
        size_t hl = MacHdr::parse(fr[i].data, fr[i].size, h);
        if (!hl) return "header";
        const uint8_t* b = fr[i].data + hl;
        size_t bl = fr[i].size - hl;
        static const uint8_t snap[8] = {0xaa, 0xaa, 3, 0, 0, 0, 0x88, 0x8e};
        if (bl < 8 + 99 || memcmp(b, snap, 8)) return "eapol";
        size_t el = 4 + (size_t)((b[10] << 8) | b[11]);
        eap[i].assign(b + 8, b + 8 + std::min(el, bl - 8));
        if (i == 1) { memcpy(anonce, b + 8 + 17, 32); memcpy(aa, h.a2, 6); memcpy(spa, h.a1, 6); }
        if (i == 2) memcpy(snonce, b + 8 + 17, 32);
    }
    Bytes ptk = ptk_derive(pmk, aa, spa, anonce, snonce, 64);
    for (int i = 2; i <= 4; ++i) if (!eapol_verify(eap[i], ptk.data())) return "eapol-mic";
    for (size_t i = 5; i < n; ++i) {
        MacHdr h;
        size_t hl = MacHdr::parse(fr[i].data, fr[i].size, h);
        if (!hl) return "data-header";
        Bytes body(fr[i].data + hl, fr[i].data + fr[i].size);
        if (body.size() < 8) return "data-body";
        uint64_t hi = ((uint64_t)body[4] << 16) | ((uint64_t)body[5] << 24) | ((uint64_t)body[6] << 32) | ((uint64_t)body[7] << 40);
        if (ccmp) {
            CcmpResult r = ccmp_decap(ptk.data() + 32, h, body);
            if (!r.mic_ok) return "ccmp-mic";
            if (ccmp_encap(ptk.data() + 32, h, hi | body[0] | ((uint64_t)body[1] << 8), body[3] >> 6, r.plain) != body) return "ccmp-reencrypt";
        } else {
            const uint8_t* mk = (h.to_ds() && !h.from_ds()) ? ptk.data() + 56 : ptk.data() + 48;
            TkipResult r = tkip_decap(ptk.data() + 32, mk, h, body);
            if (!r.icv_ok) return "tkip-icv";
            if (!r.mic_ok) return "tkip-michael";
            if (tkip_encap(ptk.data() + 32, mk, h, hi | body[2] | ((uint64_t)body[0] << 8), body[3] >> 6, r.plain) != body) return "tkip-reencrypt";
        }
    }
    return "";
}

void prop_setup(Ctx&) {
    std::string e = wref::self_test();
    if (!e.empty()) { g_setup_error = "reference self-test failed: " + e; return; }
    for (int i = 0; i < 8; ++i) g_pool[i].pmk = wref::pmk_from_passphrase(g_pool[i].pass, g_pool[i].ssid);
    e = validate_capture(wcap::CCMP, wcap::CCMP_COUNT, 0, true);
    if (!e.empty()) { g_setup_error = "CCMP capture (Coherer): " + e; return; }
    e = validate_capture(wcap::CCMP_QOS, wcap::CCMP_QOS_COUNT, 1, true);
    if (!e.empty()) { g_setup_error = "CCMP QoS capture (Testing): " + e; return; }
    e = validate_capture(wcap::TKIP, wcap::TKIP_COUNT, 2, false);
    if (!e.empty()) { g_setup_error = "TKIP capture (NODO): " + e; return; }
    {
        MacHdr h;
        size_t hl = MacHdr::parse(wcap::WEP[0].data, wcap::WEP[0].size, h);
        Bytes body(wcap::WEP[0].data + hl, wcap::WEP[0].data + wcap::WEP[0].size), plain, key(5, 0x1f);
        if (!hl || !wref::wep_decap(key, body, plain) || wref::wep_encap(key, body.data(), body[3] >> 6, plain) != body) {
            g_setup_error = "WEP capture: reference does not reproduce it";
            return;
        }
    }
}
static void ensure_setup(Ctx& ctx) {
    if (g_pool[0].pmk.empty() && g_setup_error.empty()) prop_setup(ctx);
    if (!g_setup_error.empty()) VFAIL(ctx, "C09:setup:reference-validation", g_setup_error);
}

// ---------------------------------------------------------------------------------------------- class A: key supplied directly
static uint64_t gen_pn(Src& s, int cipher) {
    if (cipher <= WEP104) return s.edgy(24);
    switch (s.weighted({4, 2, 2, 1})) {
        default:
        case 0: return s.edgy(48);
        case 1: return ((uint64_t)s.u32() << 16) | 0xffff;          // TSC phase-1 boundary (IV16 about to wrap)
        case 2: return ((uint64_t)s.u32() << 16) | s.range(0, 1);   // just after the wrap
        case 3: return (uint64_t)s.u16();                           // upper 32 bits zero
    }
}
struct Roles { uint8_t bssid[6], sta[6], third[6], fourth[6]; };
static void gen_roles(Src& s, Roles& r) {
    memcpy(r.bssid, MACS[s.chance(30) ? 4 : 0], 6);
    if (s.chance(15)) gen_mac(s, r.bssid);
    memcpy(r.sta, MACS[1 + s.pick(3)], 6);
    if (s.chance(15)) gen_mac(s, r.sta);
    if (memcmp(r.sta, r.bssid, 6) == 0) r.sta[5] ^= 1;
    switch (s.weighted({2, 5, 1, 1})) {
        default:
        case 0: memcpy(r.third, r.bssid, 6); break;
        case 1: memcpy(r.third, MACS[1 + s.pick(3)], 6); break;
        case 2: { Bytes b = s.bytes(6); memcpy(r.third, b.data(), 6); break; }
        case 3: memset(r.third, 0xff, 6); break;
    }
    memcpy(r.fourth, MACS[5], 6);
}
static MacHdr hdr_for(Src& s, Ctx& ctx, unsigned ds, bool qos, const Roles& r) {
    switch (ds & 3) {
        default:
        case 0: return make_hdr(s, ctx, 0, qos, r.third, r.sta, r.bssid, r.fourth);   // DA, SA, BSSID
        case 1: return make_hdr(s, ctx, 1, qos, r.bssid, r.sta, r.third, r.fourth);   // to DS: BSSID, SA, DA
        case 2: return make_hdr(s, ctx, 2, qos, r.sta, r.bssid, r.third, r.fourth);   // from DS: DA, BSSID, SA
        case 3: return make_hdr(s, ctx, 3, qos, r.bssid, r.sta, r.third, r.fourth);   // WDS: RA, TA, DA, SA
    }
}
typedef Tins::Crypto::WPA2Decrypter::addr_pair AddrPair;
static AddrPair mkpair(Src& s, const uint8_t* a, const uint8_t* b) {
    return s.boolean() ? AddrPair(hw(a), hw(b)) : AddrPair(hw(b), hw(a));
}
// the (station, access point) pairs a frame belongs to. Infrastructure frames: exactly (BSSID, station). For
// IBSS (00) and WDS (11) frames the documentation does not say which addresses identify the association: the key is
// then installed under every pairing of the first three addresses (no claim about the lookup, only about the cipher)
static std::vector<std::pair<const uint8_t*, const uint8_t*> > pairs_of(const MacHdr& h) {
    std::vector<std::pair<const uint8_t*, const uint8_t*> > v;
    if (h.to_ds() != h.from_ds()) v.push_back(std::make_pair(h.a1, h.a2));
    else {
        v.push_back(std::make_pair(h.a1, h.a2));
        v.push_back(std::make_pair(h.a2, h.a3));
        v.push_back(std::make_pair(h.a1, h.a3));
    }
    return v;
}

static const char* const MODE_NAME[] = {"positive", "flip-data", "flip-mic-icv", "flip-pn-iv", "flip-covered-header", "wrong-key",
                                        "no-key", "other-station-key", "truncate-extend", "michael-only-bad", "cipher-mismatch"};

static void case_direct(Src& s, Ctx& ctx) {
    // the structural choices come first so that even short choice sequences vary them
    int cipher = (int)s.weighted({2, 2, 4, 5});
    unsigned b0 = s.u8();
    unsigned ds = b0 & 3;
    bool qos = (b0 & 4) != 0;
    unsigned keyid = (b0 >> 3) & 3;
    bool distractor = (b0 & 0x60) != 0x60 ? (b0 & 0x80) != 0 : true;   // ~ 5 in 8
    unsigned mode = (unsigned)s.weighted({6, 2, 2, 2, 4, 2, 1, 2, 3, 1, 1});
    if (mode == 9 && cipher != TKIP) mode = 0;
    if (mode == 10 && cipher <= WEP104) mode = 5;
    if (mode == 4 && cipher <= WEP104) mode = 1;   // WEP protects no header field
    // MSDU-sized plaintexts, and in one case in 32 (taken from the configuration byte) up to the largest A-MSDU (7935 octets):
    // CCMP then needs more than 255 counter blocks
    const bool amsdu = (b0 & 0xf8) == 0xf8;
    Plain plain = gen_plain(s, amsdu ? 7927 : 2292);
    if (amsdu) ctx.label("a-msdu-sized-plaintext");
    uint64_t pn = gen_pn(s, cipher);
    KeySet k;
    k.ptk.assign(80, 0);
    if (cipher <= WEP104) k.wep = gen_key(s, cipher == WEP40 ? 5 : 13);
    else {
        Bytes tk = gen_key(s, 16);
        std::copy(tk.begin(), tk.end(), k.ptk.begin() + 32);
        if (cipher == TKIP) { Bytes mk = gen_key(s, 16); std::copy(mk.begin(), mk.end(), k.ptk.begin() + 48); }
    }
    Roles roles;
    gen_roles(s, roles);
    MacHdr h = hdr_for(s, ctx, ds, qos, roles);
    unsigned container = (unsigned)s.weighted({7, 2, 1});

    Bytes body = encap(cipher, k, h, pn, keyid, plain.bytes, mode == 9);
    MacHdr hf = h;
    std::ostringstream mdesc;
    // ---- frame-side mutations
    if (mode == 1) {
        size_t hdrlen = cipher <= WEP104 ? 4 : 8, tail = cipher <= WEP104 ? 4 : (cipher == TKIP ? 12 : 8);
        size_t n = body.size() - hdrlen - tail;
        if (n == 0) mode = 2;
        else { size_t i = hdrlen + (size_t)s.range(0, n - 1); unsigned b = (unsigned)s.pick(8); body[i] ^= (uint8_t)(1u << b); mdesc << "body[" << i << "]^=" << (1u << b); }
    }
    if (mode == 2) {
        size_t tail = cipher <= WEP104 ? 4 : (cipher == TKIP ? 12 : 8);
        size_t i = body.size() - tail + (size_t)s.range(0, tail - 1);
        unsigned b = (unsigned)s.pick(8);
        body[i] ^= (uint8_t)(1u << b);
        mdesc << "trailer body[" << i << "]^=" << (1u << b);
    } else if (mode == 3) {
        static const size_t W[] = {0, 1, 2}, T[] = {0, 2, 4, 5, 6, 7}, C[] = {0, 1, 4, 5, 6, 7};
        size_t i = cipher <= WEP104 ? W[s.pick(3)] : (cipher == TKIP ? T[s.pick(6)] : C[s.pick(6)]);
        unsigned b = (unsigned)s.pick(8);
        body[i] ^= (uint8_t)(1u << b);
        mdesc << "pn/iv body[" << i << "]^=" << (1u << b);
    } else if (mode == 4) {
        if (cipher == TKIP) { unsigned i = (unsigned)s.pick(6), b = (unsigned)s.pick(8); hf.a2[i] ^= (uint8_t)(1u << b); mdesc << "TA[" << i << "]^=" << (1u << b); }
        else {
            switch (s.pick(hf.has_qos() ? 8 : 7)) {
                default:
                case 0: { unsigned i = (unsigned)s.pick(6), b = (unsigned)s.pick(8); hf.a1[i] ^= (uint8_t)(1u << b); mdesc << "A1[" << i << "]^=" << (1u << b); break; }
                case 1: { unsigned i = (unsigned)s.pick(6), b = (unsigned)s.pick(8); hf.a2[i] ^= (uint8_t)(1u << b); mdesc << "A2[" << i << "]^=" << (1u << b); break; }
                case 2: { unsigned i = (unsigned)s.pick(6), b = (unsigned)s.pick(8); hf.a3[i] ^= (uint8_t)(1u << b); mdesc << "A3[" << i << "]^=" << (1u << b); break; }
                case 3: { unsigned b = (unsigned)s.pick(4); hf.sc[0] ^= (uint8_t)(1u << b); mdesc << "fragment number bit " << b; break; }
                case 4: hf.fc1 ^= 0x04; mdesc << "more-fragments bit"; break;
                case 5: { unsigned b = (unsigned)s.pick(2); hf.fc0 ^= (uint8_t)(1u << b); mdesc << "protocol version bit " << b; break; }
                case 6:
                    if (hf.has_a4()) { unsigned i = (unsigned)s.pick(6), b = (unsigned)s.pick(8); hf.a4[i] ^= (uint8_t)(1u << b); mdesc << "A4[" << i << "]^=" << (1u << b); }
                    else if (!hf.has_qos()) { hf.fc1 ^= 0x80; mdesc << "order bit (non-QoS)"; }
                    else { hf.fc1 ^= 0x04; mdesc << "more-fragments bit"; }
                    break;
                case 7: { unsigned b = (unsigned)s.pick(4); hf.qc[0] ^= (uint8_t)(1u << b); mdesc << "TID bit " << b; break; }
            }
        }
    } else if (mode == 8) {
        if (s.chance(75) && !body.empty()) {
            size_t cut;
            switch (s.weighted({3, 3, 2})) {
                default:
                case 0: cut = (size_t)s.range(0, std::min<size_t>(body.size() - 1, 24)); break;           // shorter than header+MIC
                case 1: cut = body.size() - 1 - (size_t)s.range(0, std::min<size_t>(body.size() - 1, 20)); break;
                case 2: cut = (size_t)s.range(0, body.size() - 1); break;
            }
            body.resize(cut);
            mdesc << "truncated to " << cut;
        } else {
            Bytes extra = s.bytes(1 + (size_t)s.range(0, 19));
            body.insert(body.end(), extra.begin(), extra.end());
            mdesc << "extended by " << extra.size();
        }
    }
    Bytes frame = join(hf, body);

    // ---- decoded case, statistics
    ctx.hash(std::string("direct")); ctx.hash(cipher); ctx.hash(mode); ctx.hash(hash_bytes(frame.data(), frame.size()));
    ctx.hash(hash_bytes(k.wep.data(), k.wep.size())); ctx.hash(hash_bytes(k.ptk.data(), k.ptk.size())); ctx.hash(distractor); ctx.hash(container);
    ctx.label("class-direct");
    ctx.label(cipher_name(cipher));
    ctx.label(std::string("mode-") + MODE_NAME[mode]);
    ctx.label(std::string("ds-") + (h.to_ds() ? "1" : "0") + (h.from_ds() ? "1" : "0"));
    ctx.label(h.has_qos() ? "qos" : "non-qos");
    ctx.label(container == 0 ? "container-dot11" : "container-radiotap");
    if (plain.kind) ctx.label(plain.kind == 1 ? "plain-recognised-ethertype" : "plain-eapol-arbitrary");
    if (plain.bytes.size() % 16 == 0) ctx.label("plaintext-multiple-of-16");
    if (plain.bytes.size() == 8) ctx.label("plaintext-snap-header-only");
    if (plain.bytes.size() >= 2000) ctx.label("plaintext>=2000");
    if (cipher == TKIP && (uint8_t)(pn >> 16) != (uint8_t)(pn >> 24)) ctx.label("tkip-tsc2!=tsc3");
    if (cipher >= TKIP && (pn & 0xffff) >= 0xfffe) ctx.label("pn-iv16-boundary");
    if ((h.fc0 >> 4) >= 1 && (h.fc0 >> 4) <= 3) ctx.label("subtype-cf-variant");
    ctx.nontrivial(plain.bytes.size() - 8 >= 17);
    std::ostringstream d;
    d << cipher_name(cipher) << " " << MODE_NAME[mode] << " " << hdr_str(hf) << " pn=" << pn << " keyid=" << keyid << " plain(" << plain.bytes.size()
      << ")=" << hx(plain.bytes, 24) << " key=" << (cipher <= WEP104 ? hx(k.wep) : hx(k.ptk.data() + 32, 32, 32));
    if (!mdesc.str().empty()) d << " mutation: " << mdesc.str();
    if (distractor) d << " +distractor";
    std::string desc = d.str();
    ctx.sample(desc.substr(0, 300));
    if (ctx.logging()) ctx.log("case: " + desc + "\nframe(" + std::to_string(frame.size()) + ")=" + hex(frame.data(), frame.size(), 4096));

    // ---- expectation from the reference receiver (always with the key the frame was produced with)
    MacHdr hp;
    bool is_data = MacHdr::parse(frame.data(), frame.size(), hp) != 0;
    Verdict v;
    if (is_data) v = ref_decap(cipher, k, hp, body);
    if (mode == 0) {
        if (!v.authentic || v.plain != plain.bytes || !v.asserted)
            VFAIL(ctx, "C09:ref:self-inconsistent", desc << ": reference decapsulation does not invert reference encapsulation");
    }
    int expect;
    bool key_side = mode == 5 || mode == 6 || mode == 7 || mode == 10;
    if (key_side) expect = -1;
    else if (!is_data || !v.authentic) expect = -1;
    else if (!v.asserted) expect = 0;
    else expect = snap_parseable(v.plain) ? +1 : -1;
    if (expect < 0 && v.authentic && !key_side) ctx.label("authentic-but-not-a-snap-payload");
    if (mode >= 1 && mode <= 4 && v.authentic) ctx.label("mutation-collision");
    if (mode == 9) ctx.label("unasserted-michael");

    // ---- install keys and run libtins
    std::string tag = std::string("C09:") + cipher_tag(cipher) + ":direct";
    if (distractor && expect > 0) tag += "+other-keys";
    std::unique_ptr<Tins::PDU> top;
    try {
        top = parse_frame(container, frame);
    } catch (const Tins::malformed_packet&) {
        VFAIL(ctx, "C09:parse:well-formed-frame-rejected", desc << ": libtins could not parse the frame");
    }
    RunResult r;
    if (cipher <= WEP104) {
        Tins::Crypto::WEPDecrypter dec;
        KeySet wrong = k;
        if (mode == 5) {
            if (s.boolean()) wrong.wep[s.pick(wrong.wep.size())] ^= (uint8_t)(1u << s.pick(8));
            else wrong.wep = expand(s.u16() + 77, k.wep.size() == 5 ? 13 : 5);
            Bytes dummy;
            if (wref::wep_decap(wrong.wep, body, dummy)) expect = 0;   // 2^-32 collision
        }
        const Bytes& use = mode == 5 ? wrong.wep : k.wep;
        std::string pw(use.begin(), use.end());
        std::vector<const uint8_t*> where;
        if (!h.to_ds() && !h.from_ds()) where.push_back(h.a3);
        else if (h.to_ds() && !h.from_ds()) where.push_back(h.a1);
        else if (!h.to_ds() && h.from_ds()) where.push_back(h.a2);
        else { where.push_back(h.a1); where.push_back(h.a2); where.push_back(h.a3); }   // WDS: unspecified, install everywhere
        if (mode == 7) {
            uint8_t other[6];
            memcpy(other, where[0], 6);
            other[s.pick(6)] ^= (uint8_t)(1u << s.pick(8));
            dec.add_password(hw(other), pw);
        } else if (mode != 6) {
            for (size_t i = 0; i < where.size(); ++i) dec.add_password(hw(where[i]), pw);
        }
        if (distractor) {
            std::string other_pw((const char*)expand(991, 13).data(), 13);
            uint8_t o[6];
            memcpy(o, MACS[5], 6);
            bool clash = false;
            for (size_t i = 0; i < where.size(); ++i) if (memcmp(where[i], o, 6) == 0) clash = true;
            if (!clash) dec.add_password(hw(o), other_pw);
            // add and remove a password for an unrelated address (remove_password must not disturb the others)
            uint8_t o2[6] = {2, 0, 0, 0, 0, 9};
            clash = false;
            for (size_t i = 0; i < where.size(); ++i) if (memcmp(where[i], o2, 6) == 0) clash = true;
            if (!clash) { dec.add_password(hw(o2), std::string(40, 'x')); dec.remove_password(hw(o2)); }
        }
        r = run_decrypt(dec, *top);
    } else {
        Tins::Crypto::WPA2Decrypter dec;
        KeySet wrong = k;
        if (mode == 5) {
            wrong.ptk[32 + s.pick(16)] ^= (uint8_t)(1u << s.pick(8));
            if (is_data && ref_decap(cipher, wrong, hp, body).authentic) expect = 0;
        }
        bool is_ccmp = (cipher == CCMP) != (mode == 10);
        Tins::Crypto::WPA2::SessionKeys sk(mode == 5 ? wrong.ptk : k.ptk, is_ccmp);
        std::vector<std::pair<const uint8_t*, const uint8_t*> > prs = pairs_of(h);
        if (mode == 7) {
            uint8_t other[6];
            memcpy(other, roles.sta, 6);
            other[s.pick(6)] ^= (uint8_t)(1u << s.pick(8));
            if (memcmp(other, roles.bssid, 6) == 0 || memcmp(other, roles.third, 6) == 0) other[0] ^= 0x40;
            dec.add_decryption_keys(mkpair(s, roles.bssid, other), sk);
        } else if (mode != 6) {
            for (size_t i = 0; i < prs.size(); ++i) dec.add_decryption_keys(mkpair(s, prs[i].first, prs[i].second), sk);
        }
        if (distractor && h.to_ds() != h.from_ds()) {
            // another association on the same BSS whose station address shows up as the frame's third address (intra-BSS
            // traffic relayed by the AP), plus an unrelated pair
            KeySet o = k;
            for (size_t i = 32; i < 64; ++i) o.ptk[i] ^= 0x5a;
            Tins::Crypto::WPA2::SessionKeys osk(o.ptk, cipher == CCMP);
            if (memcmp(roles.third, roles.sta, 6) != 0 && memcmp(roles.third, roles.bssid, 6) != 0) {
                dec.add_decryption_keys(mkpair(s, roles.bssid, roles.third), osk);
                ctx.label("third-address-has-own-keys");
            }
            uint8_t u1[6] = {2, 0, 0, 0, 0, 1}, u2[6] = {2, 0, 0, 0, 0, 2};
            dec.add_decryption_keys(AddrPair(hw(u1), hw(u2)), osk);
        }
        r = run_decrypt(dec, *top);
    }
    if (ctx.logging()) {
        std::ostringstream o;
        o << "expect=" << expect << " libtins: ret=" << r.ret << " threw=" << r.threw << " " << r.what;
        ctx.log(o.str());
    }
    if (r.threw) ctx.label("libtins-exception");
    ctx.label(expect > 0 ? "expect-decrypted" : (expect < 0 ? "expect-not-decrypted" : "expect-unasserted"));
    check_outcome(ctx, tag, *top, r, expect, v.authentic ? v.plain : Bytes(), hp.is_protected() && is_data, desc);
    if (expect > 0 && r.ret) {
        Tins::Dot11Data* dd = top->find_pdu<Tins::Dot11Data>();
        if (dd) {
            bool same = dd->addr1() == hw(hf.a1) && dd->addr2() == hw(hf.a2) && dd->addr3() == hw(hf.a3) && dd->to_ds() == hf.to_ds() &&
                        dd->from_ds() == hf.from_ds() && dd->subtype() == (hf.fc0 >> 4);
            VCHECK(ctx, same, tag + ":positive:header-changed", desc << ": MAC header fields changed by decrypt()");
        }
    }
}

// ---------------------------------------------------------------------------------------------- class C: hostile bodies
// Fixed keys (so that saved inputs / corpus entries stay meaningful), installed for every address role.
static const KeySet& hostile_keys(int cipher) {
    // initialised once, thread-safely (this TU is also a workload of the multi-threaded C18 check)
    struct Keys {
        KeySet k40, k104, kp;
        Keys() {
            kp.ptk = expand(4242, 80);
            k40.ptk = kp.ptk; k104.ptk = kp.ptk;
            k40.wep = expand(40, 5); k104.wep = expand(104, 13);
        }
    };
    static const Keys K;
    return cipher == WEP40 ? K.k40 : (cipher == WEP104 ? K.k104 : K.kp);
}
static void case_hostile(Src& s, Ctx& ctx) {
    int cipher = (int)s.weighted({1, 2, 4, 5});
    unsigned ds = (unsigned)s.pick(4);
    bool qos = s.boolean();
    Roles roles;
    memcpy(roles.bssid, MACS[0], 6); memcpy(roles.sta, MACS[1 + s.pick(3)], 6);
    memcpy(roles.third, MACS[s.pick(6)], 6); memcpy(roles.fourth, MACS[5], 6);
    MacHdr h = hdr_for(s, ctx, ds, qos, roles);
    bool odd_variant = s.chance(12);
    if (odd_variant) {   // header variants outside the positive claim (other data subtypes, +HTC): memory safety only
        unsigned st = (unsigned)s.pick(16);
        h.fc0 = (uint8_t)(0x08 | (st << 4));
        if (s.boolean()) h.fc1 |= 0x80;
        if (s.chance(20)) h.fc1 &= (uint8_t)~0x40;   // protected bit clear
    }
    const KeySet& k = hostile_keys(cipher);
    unsigned sub = s.u8();
    bool raw = (sub & 1) != 0;
    Bytes body;
    std::string how;
    if (raw) {
        body = s.rest();
        if (body.size() > 2400) body.resize(2400);
        how = "raw";
    } else if (((sub >> 1) & 3) == 3) {
        // arbitrary bytes around the minimum lengths (cipher header + MIC/ICV)
        body = s.bytes((size_t)s.range(0, 24));
        how = "short";
    } else {
        Bytes plain;
        if (s.chance(30)) plain = s.bytes((size_t)s.range(0, 7));   // authentic frames whose plaintext is no SNAP header
        else plain = gen_plain(s, 200).bytes;
        body = encap(cipher, k, h, gen_pn(s, cipher), (unsigned)s.pick(4), plain);
        unsigned nedit = (unsigned)s.range(0, 3);
        std::ostringstream o;
        o << "valid(" << plain.size() << ")";
        for (unsigned e = 0; e < nedit; ++e) {
            switch (s.pick(5)) {
                default:
                case 0: if (!body.empty()) { size_t i = (size_t)s.range(0, body.size() - 1); body[i] = s.u8(); o << " set@" << i; } break;
                case 1: if (!body.empty()) { size_t i = (size_t)s.range(0, body.size() - 1); body[i] ^= (uint8_t)(1u << s.pick(8)); o << " flip@" << i; } break;
                case 2: { size_t n = (size_t)s.range(0, std::min<size_t>(body.size(), 40)); body.resize(n); o << " trunc=" << n; break; }
                case 3: { Bytes x = s.bytes(1 + (size_t)s.range(0, 15)); body.insert(body.end(), x.begin(), x.end()); o << " append" << x.size(); break; }
                case 4: if (!body.empty()) { size_t i = (size_t)s.range(0, body.size() - 1); size_t n = std::min<size_t>(body.size() - i, 1 + (size_t)s.range(0, 15));
                                             body.erase(body.begin() + i, body.begin() + i + n); o << " del@" << i << "+" << n; } break;
            }
        }
        how = o.str();
    }
    Bytes frame = join(h, body);
    unsigned container = (unsigned)s.weighted({8, 1, 1});
    if (raw) container = 0;   // (the choice stream is exhausted: keep the zero default explicit)

    bool supported = !odd_variant;
    Verdict v;
    MacHdr hp;
    bool is_data = MacHdr::parse(frame.data(), frame.size(), hp) != 0;
    if (is_data && supported) v = ref_decap(cipher, k, hp, body);
    int expect;
    if (!supported) expect = 0;
    else if (!v.authentic) expect = -1;
    else if (!v.asserted) expect = 0;
    else expect = snap_parseable(v.plain) ? +1 : -1;

    size_t minlen = cipher <= WEP104 ? 8 : (cipher == TKIP ? 20 : 16);
    ctx.hash(std::string("hostile")); ctx.hash(cipher); ctx.hash(hash_bytes(frame.data(), frame.size())); ctx.hash(container);
    ctx.label("class-hostile");
    ctx.label(std::string("hostile-") + cipher_tag(cipher));
    ctx.label(raw ? "hostile-raw" : (how == "short" ? "hostile-short" : "hostile-edited-valid"));
    if (body.size() < minlen) ctx.label("hostile-shorter-than-header+mic");
    if (body.empty()) ctx.label("hostile-empty-body");
    if (odd_variant) ctx.label("hostile-odd-header-variant");
    if (v.authentic) ctx.label(expect > 0 ? "hostile-authentic" : "hostile-authentic-not-snap");
    ctx.nontrivial(body.size() < minlen);
    std::ostringstream d;
    d << "hostile " << cipher_name(cipher) << " " << hdr_str(h) << " body(" << body.size() << ")=" << hx(body, 32) << " [" << how << "]";
    std::string desc = d.str();
    ctx.sample(desc.substr(0, 300));
    if (ctx.logging()) ctx.log("case: " + desc + "\nframe(" + std::to_string(frame.size()) + ")=" + hex(frame.data(), frame.size(), 6000));

    std::unique_ptr<Tins::PDU> top;
    try {
        top = parse_frame(container, frame);
    } catch (const Tins::malformed_packet&) {
        // only possible for unprotected odd variants whose body libtins parses as LLC/SNAP
        if (hp.is_protected() && supported) VFAIL(ctx, "C09:parse:protected-frame-rejected", desc << ": libtins could not parse the frame");
        ctx.label("hostile-unparseable");
        return;
    }
    std::string tag = std::string("C09:") + cipher_tag(cipher) + ":hostile";
    RunResult r;
    if (cipher <= WEP104) {
        Tins::Crypto::WEPDecrypter dec;
        std::string pw((const char*)k.wep.data(), k.wep.size());
        dec.add_password(hw(h.a1), pw); dec.add_password(hw(h.a2), pw); dec.add_password(hw(h.a3), pw);
        r = run_decrypt(dec, *top);
    } else {
        Tins::Crypto::WPA2Decrypter dec;
        Tins::Crypto::WPA2::SessionKeys sk(k.ptk, cipher == CCMP);
        dec.add_decryption_keys(AddrPair(hw(h.a1), hw(h.a2)), sk);
        dec.add_decryption_keys(AddrPair(hw(h.a2), hw(h.a3)), sk);
        dec.add_decryption_keys(AddrPair(hw(h.a1), hw(h.a3)), sk);
        r = run_decrypt(dec, *top);
    }
    if (r.threw) ctx.label("libtins-exception");
    if (ctx.logging()) {
        std::ostringstream o;
        o << "expect=" << expect << " libtins: ret=" << r.ret << " threw=" << r.threw << " " << r.what;
        ctx.log(o.str());
    }
    check_outcome(ctx, tag, *top, r, expect, v.authentic ? v.plain : Bytes(), hp.is_protected() && is_data, desc);
}

// ---------------------------------------------------------------------------------------------- class B: handshake histories
// Protocol simulator: one access point (authenticator), 1-3 stations (supplicants), a lossy channel between them and a
// passive observer (libtins) that sees every transmitted frame (or, in "lossy observer" histories, misses some).
// Assumptions of the domain (see c09.json): the supplicant keeps one SNonce per handshake attempt (as wpa_supplicant
// does), link-layer retransmissions (Retry bit) directly follow the original frame, and a new attempt (re-association)
// flushes the frames still queued for the old one.
struct Pend { int kind; uint64_t rc; };
struct Sta {
    uint8_t mac[6];
    int attempt;
    uint8_t anonce[32], snonce[32];
    Bytes ptk;                       // PTK of the current attempt (80 bytes of PRF output)
    int ap_phase;                    // 0 idle, 1 waiting for M2, 2 waiting for M4, 3 done
    uint64_t rc;                     // authenticator's replay counter
    std::vector<uint64_t> m1_rcs, m3_rcs;
    bool m4_tx;                      // the supplicant has transmitted message 4 of this attempt (keys installed)
    std::vector<Pend> pend;
    Bytes prev_ptk;                  // PTK of the previous completed attempt
    std::vector<Bytes> all_ptks;
    // ground truth about the observer
    bool learned; Bytes learned_ptk;
    unsigned expected_cb, m4_seen_frames;
    uint16_t seq;
    Sta() : attempt(0), ap_phase(0), rc(0), m4_tx(false), learned(false), expected_cb(0), m4_seen_frames(0), seq(0) {
        memset(mac, 0, 6); memset(anonce, 0, 32); memset(snonce, 0, 32);
    }
};
struct CbRec { std::string ssid; HW bssid, client; };

struct Hist {
    Src& s; Ctx& ctx;
    uint8_t bssid[6];
    int pool; unsigned ver; bool qos_eapol; unsigned container; bool lossy;
    unsigned cfg; bool pass_ok, never_known, ap_known;
    std::string dec_ssid;
    Tins::Crypto::WPA2Decrypter dec;
    Tins::RSNHandshakeCapturer cap;
    std::vector<Sta> st;
    std::vector<CbRec> hs_cbs;
    std::vector<std::pair<std::string, HW> > ap_cbs;
    unsigned retrans, late_msgs, completions, data_pos, data_neg;
    uint64_t hsh;
    std::ostringstream trace;
    uint16_t ap_seq;

    Hist(Src& s_, Ctx& c_) : s(s_), ctx(c_), pool(0), ver(2), qos_eapol(false), container(0), lossy(false), cfg(0), pass_ok(true),
                             never_known(false), ap_known(false), retrans(0), late_msgs(0), completions(0), data_pos(0), data_neg(0),
                             hsh(0), ap_seq(0) {}

    std::string tagc() const { return std::string("C09:") + (ver == 2 ? "CCMP" : "TKIP") + ":history"; }
    std::string ctxt() { std::string t = trace.str(); return t.size() > 1500 ? "..." + t.substr(t.size() - 1500) : t; }

    // ---- frame builders
    MacHdr eapol_hdr(bool from_ap, Sta& x, bool retry) {
        MacHdr h;
        h.fc0 = qos_eapol ? 0x88 : 0x08;
        h.fc1 = (uint8_t)((from_ap ? 0x02 : 0x01) | (retry ? 0x08 : 0));
        if (from_ap) { memcpy(h.a1, x.mac, 6); memcpy(h.a2, bssid, 6); }
        else { memcpy(h.a1, bssid, 6); memcpy(h.a2, x.mac, 6); }
        memcpy(h.a3, bssid, 6);
        uint16_t& sq = from_ap ? ap_seq : x.seq;
        if (!retry) ++sq;
        h.sc[0] = (uint8_t)((sq << 4) & 0xf0); h.sc[1] = (uint8_t)(sq >> 4);
        h.dur[0] = 0x3a; h.dur[1] = 0x01;
        if (qos_eapol) { h.qc[0] = 0x06; h.qc[1] = 0; }
        return h;
    }
    Bytes wrap_eapol(const MacHdr& h, const wref::EapolKey& k) {
        static const uint8_t snap[8] = {0xaa, 0xaa, 0x03, 0, 0, 0, 0x88, 0x8e};
        Bytes body(snap, snap + 8), e = k.bytes();
        body.insert(body.end(), e.begin(), e.end());
        return join(h, body);
    }
    wref::EapolKey msg(Sta& x, int kind, uint64_t rc) {
        using wref::EapolKey;
        EapolKey k;
        k.proto_version = ver == 2 ? 2 : 1;
        k.desc_type = 2;
        k.replay = rc;
        k.key_length = ver == 2 ? 16 : 32;
        switch (kind) {
            case 1:
                k.key_info = (uint16_t)(ver | EapolKey::KI_PAIRWISE | EapolKey::KI_ACK);
                memcpy(k.nonce, x.anonce, 32);
                if (x.attempt & 1) { static const uint8_t kde[6] = {0xdd, 0x14, 0x00, 0x0f, 0xac, 0x04}; k.key_data.assign(kde, kde + 6); Bytes id = expand(x.attempt, 16); k.key_data.insert(k.key_data.end(), id.begin(), id.end()); }
                break;
            case 2: {
                k.key_info = (uint16_t)(ver | EapolKey::KI_PAIRWISE | EapolKey::KI_MIC);
                memcpy(k.nonce, x.snonce, 32);
                static const uint8_t rsn[22] = {0x30, 0x14, 0x01, 0x00, 0x00, 0x0f, 0xac, 0x04, 0x01, 0x00, 0x00, 0x0f, 0xac, 0x04, 0x01, 0x00, 0x00, 0x0f, 0xac, 0x02, 0x00, 0x00};
                k.key_data.assign(rsn, rsn + 22);
                if (ver == 1) { k.key_data[7] = 0x02; k.key_data[13] = 0x02; }
                break;
            }
            case 3:
                k.key_info = (uint16_t)(ver | EapolKey::KI_PAIRWISE | EapolKey::KI_INSTALL | EapolKey::KI_ACK | EapolKey::KI_MIC | EapolKey::KI_SECURE | EapolKey::KI_ENCRYPTED);
                memcpy(k.nonce, x.anonce, 32);
                k.key_data = expand(rc + 99, 56);   // wrapped RSN element + GTK KDE: opaque to a passive observer without the KEK
                k.rsc[0] = (uint8_t)rc;
                break;
            default:
                k.key_info = (uint16_t)(ver | EapolKey::KI_PAIRWISE | EapolKey::KI_MIC | EapolKey::KI_SECURE);
                k.key_length = (x.attempt & 2) ? 0 : k.key_length;
                break;
        }
        if (kind != 1) wref::eapol_sign(k, x.ptk.data());
        return k;
    }
    Bytes beacon(const uint8_t* b, int ssid_mode, const std::string& ssid) {
        Bytes f;
        f.push_back(0x80); f.push_back(0); f.push_back(0); f.push_back(0);
        for (int i = 0; i < 6; ++i) f.push_back(0xff);
        f.insert(f.end(), b, b + 6); f.insert(f.end(), b, b + 6);
        ++ap_seq;
        f.push_back((uint8_t)((ap_seq << 4) & 0xf0)); f.push_back((uint8_t)(ap_seq >> 4));
        Bytes ts = expand(ap_seq, 8);
        f.insert(f.end(), ts.begin(), ts.end());
        f.push_back(0x64); f.push_back(0x00); f.push_back(0x11); f.push_back(0x04);
        if (ssid_mode == 0) { f.push_back(0); f.push_back((uint8_t)ssid.size()); f.insert(f.end(), ssid.begin(), ssid.end()); }
        else if (ssid_mode == 1) { f.push_back(0); f.push_back(0); }
        static const uint8_t rest[] = {0x01, 0x08, 0x82, 0x84, 0x8b, 0x96, 0x24, 0x30, 0x48, 0x6c, 0x03, 0x01, 0x06,
                                       0x30, 0x14, 0x01, 0x00, 0x00, 0x0f, 0xac, 0x04, 0x01, 0x00, 0x00, 0x0f, 0xac, 0x04, 0x01, 0x00, 0x00, 0x0f, 0xac, 0x02, 0x00, 0x00};
        f.insert(f.end(), rest, rest + sizeof(rest));
        return f;
    }

    // ---- the observer
    struct Obs { bool seen; RunResult r; bool cap; std::unique_ptr<Tins::PDU> top; Obs() : seen(false), cap(false) {} };
    Obs observe(const Bytes& frame, const char* what, bool may_miss, bool is_protected_data) {
        Obs o;
        hsh = hash_mix(hsh, hash_bytes(frame.data(), frame.size()));
        if (may_miss && lossy && s.chance(15)) { trace << " [" << what << " missed]"; hsh = hash_mix(hsh, 0x6d697373); return o; }
        o.seen = true;
        trace << " " << what;
        if (ctx.logging()) ctx.log(std::string("observe ") + what + " frame=" + hex(frame.data(), frame.size(), 400));
        std::unique_ptr<Tins::PDU> forcap;
        try {
            o.top = parse_frame(container, frame);
            forcap = parse_frame(container, frame);
        } catch (const Tins::malformed_packet&) {
            VFAIL(ctx, "C09:parse:well-formed-frame-rejected", what << ": libtins could not parse the frame; history:" << ctxt());
        }
        o.r = run_decrypt(dec, *o.top);
        if (!is_protected_data) {
            VCHECK(ctx, !o.r.threw, "C09:history:exception-on-unprotected-frame", what << ": decrypt threw " << o.r.what << "; history:" << ctxt());
            VCHECK(ctx, !o.r.ret, "C09:history:true-for-unprotected-frame", what << ": decrypt returned true for a frame that is not protected; history:" << ctxt());
        }
        o.cap = cap.process_packet(*forcap);
        if (o.cap) check_captured();
        return o;
    }
    // a completed handshake must consist of messages 1, 2, 3, 4 in that order ("the 4-way handshake is captured")
    void check_captured() {
        const Tins::RSNHandshakeCapturer::handshakes_type& hs = cap.handshakes();
        VCHECK(ctx, !hs.empty(), "C09:capturer:true-without-handshake", "process_packet returned true but handshakes() is empty; history:" << ctxt());
        if (hs.empty()) return;
        const Tins::RSNHandshake& h = hs.back();
        const Tins::RSNHandshake::container_type& m = h.handshake();
        VCHECK(ctx, m.size() == 4, "C09:capturer:handshake-not-4-messages", "completed handshake holds " << m.size() << " messages; history:" << ctxt());
        if (m.size() == 4) {
            bool ok = m[0].key_t() && m[0].key_ack() && !m[0].key_mic() && !m[0].install() &&
                      m[1].key_t() && !m[1].key_ack() && m[1].key_mic() && !m[1].install() && !m[1].secure() &&
                      m[2].key_t() && m[2].key_ack() && m[2].key_mic() && m[2].install() &&
                      m[3].key_t() && !m[3].key_ack() && m[3].key_mic() && !m[3].install() && m[3].secure();
            VCHECK(ctx, ok, "C09:capturer:completed-handshake-not-messages-1-2-3-4", "the stored messages are not M1,M2,M3,M4 (key-info patterns); history:" << ctxt());
            if (ok) {
                // and they must be the ones of a station of this BSS: M2 carries its SNonce, M3 the ANonce
                bool found = false;
                for (size_t i = 0; i < st.size(); ++i) {
                    bool pairok = (h.client_address() == hw(bssid) && h.supplicant_address() == hw(st[i].mac)) ||
                                  (h.supplicant_address() == hw(bssid) && h.client_address() == hw(st[i].mac));
                    if (pairok) found = true;
                    if (pairok && !lossy) {
                        VCHECK(ctx, memcmp(m[1].nonce(), st[i].snonce, 32) == 0 && memcmp(m[2].nonce(), st[i].anonce, 32) == 0,
                               "C09:capturer:wrong-messages-stored", "nonces of the stored M2/M3 are not those of the current attempt; history:" << ctxt());
                    }
                }
                VCHECK(ctx, found, "C09:capturer:wrong-address-pair", "completed handshake for " << h.client_address() << "/" << h.supplicant_address() << "; history:" << ctxt());
            }
        }
        cap.clear_handshakes();
    }
    const Tins::Crypto::WPA2::SessionKeys* find_keys(const Sta& x) {
        const Tins::Crypto::WPA2Decrypter::keys_map& km = dec.get_keys();
        HW a = hw(bssid), b = hw(x.mac);
        Tins::Crypto::WPA2Decrypter::keys_map::const_iterator it = km.find(a < b ? AddrPair(a, b) : AddrPair(b, a));
        return it == km.end() ? 0 : &it->second;
    }
    void check_learned(Sta& x, const char* when) {
        const Tins::Crypto::WPA2::SessionKeys* sk = find_keys(x);
        if (!lossy) {
            if (x.learned) {
                VCHECK(ctx, sk != 0, tagc() + ":keys-not-learned", when << ": all four handshake messages of station " << mac_str(x.mac)
                       << " were observed but get_keys() has no entry; history:" << ctxt());
                if (sk) {
                    VCHECK(ctx, sk->get_ptk().size() >= 64 && memcmp(sk->get_ptk().data(), x.learned_ptk.data(), 64) == 0, tagc() + ":wrong-ptk",
                           when << ": PTK " << hx(sk->get_ptk(), 64) << " expected " << hx(x.learned_ptk, 64) << "; history:" << ctxt());
                    VCHECK(ctx, sk->uses_ccmp() == (ver == 2), tagc() + ":wrong-cipher-flag", when << ": uses_ccmp()=" << sk->uses_ccmp() << " for key descriptor version " << ver);
                }
            } else {
                VCHECK(ctx, sk == 0, tagc() + ":keys-without-handshake", when << ": get_keys() has an entry for " << mac_str(x.mac)
                       << " although no complete handshake with a known PSK/BSSID was observed; history:" << ctxt());
            }
        } else if (sk) {
            bool any = false;
            for (size_t i = 0; i < x.all_ptks.size(); ++i)
                if (sk->get_ptk().size() >= 64 && memcmp(sk->get_ptk().data(), x.all_ptks[i].data(), 64) == 0) any = true;
            VCHECK(ctx, any && pass_ok, tagc() + ":lossy:wrong-ptk", when << ": learned PTK " << hx(sk->get_ptk(), 64) << " is not the PTK of any attempt; history:" << ctxt());
        }
    }

    // ---- handshake message transmission
    void tx(Sta& x, int kind, uint64_t rc, bool force) {
        bool from_ap = kind == 1 || kind == 3;
        wref::EapolKey k = msg(x, kind, rc);
        MacHdr h = eapol_hdr(from_ap, x, false);
        Bytes frame = wrap_eapol(h, k);
        char nm[32];
        snprintf(nm, sizeof nm, "S%d:M%d(rc%llu)", (int)(&x - &st[0]), kind, (unsigned long long)rc);
        unsigned copies = 1 + ((!force && s.chance(12)) ? 1 : 0);
        for (unsigned c = 0; c < copies; ++c) {
            if (c == 1) { frame[1] |= 0x08; ++retrans; strcat(nm, "r"); ctx.label("hs-mac-retry"); }
            bool first_m4 = kind == 4 && !x.m4_tx;
            Obs o = observe(frame, nm, true, false);
            if (kind == 4) {
                if (o.seen) ++x.m4_seen_frames;
                if (!x.m4_tx) {
                    x.m4_tx = true;
                    ++completions;
                    if (!lossy && ap_known && pass_ok) { x.learned = true; x.learned_ptk = x.ptk; ++x.expected_cb; }
                }
            }
            if (!lossy) {
                if (first_m4) VCHECK(ctx, o.cap, "C09:capturer:complete-handshake-not-reported", nm << ": messages 1-4 of the attempt have all been observed in order but the capturer did not report a handshake; history:" << ctxt());
                else VCHECK(ctx, !o.cap, "C09:capturer:spurious-completion", nm << ": capturer reported a completed handshake; history:" << ctxt());
                if (kind == 4) check_learned(x, nm);
            }
        }
        bool delivered = force || !s.chance(25);
        if (!delivered) { trace << "(lost)"; hsh = hash_mix(hsh, 0x6c6f7374); return; }
        switch (kind) {
            case 1: x.pend.push_back(Pend{2, rc}); break;
            case 2:
                if (x.ap_phase == 1 && std::find(x.m1_rcs.begin(), x.m1_rcs.end(), rc) != x.m1_rcs.end()) {
                    x.ap_phase = 2; ++x.rc; x.m3_rcs.push_back(x.rc); x.pend.push_back(Pend{3, x.rc});
                }
                break;
            case 3: x.pend.push_back(Pend{4, rc}); break;
            default:
                if (x.ap_phase == 2 && std::find(x.m3_rcs.begin(), x.m3_rcs.end(), rc) != x.m3_rcs.end()) x.ap_phase = 3;
                break;
        }
    }
    void gen_nonce(uint8_t* n, int style, const uint8_t* other) {
        Bytes b = expand(s.u16() + 3, 32);
        memcpy(n, b.data(), 32);
        if (style == 1 && other) { memcpy(n, other, 32); n[31] ^= (uint8_t)(1 + s.pick(255)); }   // equal up to the last byte
        else if (style == 2) { memset(n, 0, 31); n[31] = s.u8(); }
        else if (style == 3) memset(n, 0xff, 32);
    }
    void start(Sta& x, bool force) {
        if (x.m4_tx) x.prev_ptk = x.ptk;
        ++x.attempt;
        gen_nonce(x.anonce, (int)s.weighted({6, 0, 1, 1}), 0);
        gen_nonce(x.snonce, (int)s.weighted({6, 2, 1, 1}), x.anonce);
        x.ptk = wref::ptk_derive(g_pool[pool].pmk, bssid, x.mac, x.anonce, x.snonce, 80);
        x.all_ptks.push_back(x.ptk);
        x.pend.clear();
        x.m1_rcs.clear(); x.m3_rcs.clear();
        ++x.rc;
        x.m1_rcs.push_back(x.rc);
        x.ap_phase = 1;
        x.m4_tx = false;
        trace << " |";
        tx(x, 1, x.rc, force);
    }
    bool timeout(Sta& x) {
        if (x.ap_phase == 1) { ++x.rc; x.m1_rcs.push_back(x.rc); ++retrans; ctx.label("hs-m1-retransmitted"); tx(x, 1, x.rc, false); return true; }
        if (x.ap_phase == 2) { ++x.rc; x.m3_rcs.push_back(x.rc); ++retrans; ctx.label("hs-m3-retransmitted"); tx(x, 3, x.rc, false); return true; }
        return false;
    }
    bool send_pending(Sta& x, bool force) {
        if (x.pend.empty()) return false;
        size_t i = force ? 0 : (size_t)s.pick(x.pend.size());
        Pend p = x.pend[i];
        x.pend.erase(x.pend.begin() + i);
        if (p.kind == 2 && x.ap_phase >= 2) { ++late_msgs; ++retrans; ctx.label(x.ap_phase == 2 ? "hs-m2-repeated-after-m3" : "hs-m2-repeated-after-m4"); }
        if (p.kind == 4 && x.m4_tx) { ++retrans; ctx.label("hs-m4-repeated"); }
        if (p.kind == 2 && x.m1_rcs.size() > 1) ctx.label("hs-m2-after-retransmitted-m1");
        tx(x, p.kind, p.rc, force);
        return true;
    }
    // message 1 retransmitted, both answered; the answer to the retransmission is on the air only after message 3
    void race(Sta& x) {
        if (x.attempt == 0 || x.ap_phase != 1 || !x.pend.empty()) start(x, true);
        if (x.ap_phase != 1) return;
        ++x.rc; x.m1_rcs.push_back(x.rc); ++retrans; ctx.label("hs-m1-retransmitted");
        tx(x, 1, x.rc, true);                 // pending: M2(rc), M2(rc')
        if (x.pend.size() < 2) return;
        send_pending(x, true);                // M2(rc)  -> pending: M2(rc'), M3
        if (x.pend.size() < 2) return;
        std::swap(x.pend[0], x.pend[1]);
        send_pending(x, true);                // M3      -> pending: M2(rc'), M4
        for (int guard = 0; guard < 6 && !x.pend.empty(); ++guard) send_pending(x, true);
    }
    void fast_forward(Sta& x) {
        if (x.attempt == 0 || x.ap_phase == 3 || x.ap_phase == 0) start(x, true);
        for (int guard = 0; guard < 12 && !x.pend.empty(); ++guard) send_pending(x, true);
    }

    // ---- data frames
    void data(Sta& x, bool probe, int dir) {
        // the choices that matter come first: a step only owns a short slice of the choice sequence
        unsigned b0 = s.u8();
        bool to_ap = dir >= 0 ? dir != 0 : (b0 & 1) != 0;
        bool qos = (b0 & 2) != 0;
        static const unsigned THIRD[4] = {0, 1, 1, 2}, SEL[8] = {0, 0, 0, 0, 1, 2, 2, 3};
        unsigned tsel = probe ? 0 : THIRD[(b0 >> 2) & 3], sel = probe ? 0 : SEL[(b0 >> 4) & 7];
        uint8_t third[6];
        size_t oi = st.size() > 1 ? (size_t)((&x - &st[0]) + 1 + s.pick(st.size() - 1)) % st.size() : 0;
        switch (tsel) {
            default:
            case 0: memcpy(third, bssid, 6); break;
            case 1: memcpy(third, st.size() > 1 ? st[oi].mac : MACS[5], 6); break;
            case 2: memcpy(third, MACS[5], 6); break;
        }
        uint8_t fourth[6] = {0};
        KeySet ks;
        const char* which = "current";
        if (sel == 0 && x.m4_tx) ks.ptk = x.ptk;
        else if (sel == 1 && !x.prev_ptk.empty()) { ks.ptk = x.prev_ptk; which = "previous-attempt"; }
        else if (sel == 2 && st.size() > 1 && st[oi].attempt > 0) { ks.ptk = st[oi].ptk; which = "other-station"; }
        else { ks.ptk = expand(s.u16() + 5, 80); which = "unrelated"; }
        int cipher = ver == 2 ? CCMP : TKIP;
        Plain plain = gen_plain(s, 120);
        uint64_t pn = gen_pn(s, cipher);
        unsigned keyid = (unsigned)s.pick(4);
        MacHdr h = to_ap ? make_hdr(s, ctx, 1, qos, bssid, x.mac, third, fourth) : make_hdr(s, ctx, 2, qos, x.mac, bssid, third, fourth);
        Bytes body = encap(cipher, ks, h, pn, keyid, plain.bytes);
        Bytes frame = join(h, body);
        char nm[64];
        snprintf(nm, sizeof nm, "S%d:data(%s,%s,%s)", (int)(&x - &st[0]), to_ap ? "toAP" : "fromAP", which,
                 memcmp(third, bssid, 6) == 0 ? "a3=bssid" : "a3=other");
        int expect;
        Bytes want;
        if (lossy) { expect = 0; want = plain.bytes; }
        else {
            expect = -1;
            if (x.learned) {
                KeySet lk; lk.ptk = x.learned_ptk;
                Verdict v = ref_decap(cipher, lk, h, body);
                if (v.authentic && !v.asserted) expect = 0;
                else if (v.authentic) { expect = snap_parseable(v.plain) ? +1 : -1; want = v.plain; }
            }
            if (expect < 0) {
                // libtins falls back to the association of the frame's third address: a frame that verifies under THAT
                // station's key (never produced by a real access point) is not claimed either way
                for (size_t i = 0; i < st.size(); ++i) {
                    if (&st[i] == &x || !st[i].learned || memcmp(st[i].mac, third, 6) != 0) continue;
                    KeySet ok; ok.ptk = st[i].learned_ptk;
                    Verdict v = ref_decap(cipher, ok, h, body);
                    if (v.authentic) { expect = 0; want = v.plain; ctx.label("history-data-authentic-under-third-address-key"); }
                }
            }
        }
        Obs o = observe(frame, nm, false, true);
        if (o.r.threw) ctx.label("libtins-exception");
        if (expect > 0) { ++data_pos; ctx.label("history-data-decrypted"); }
        else if (expect < 0) { ++data_neg; ctx.label(std::string("history-data-negative-") + which); }
        if (expect > 0 && st.size() > 1 && memcmp(third, bssid, 6) != 0 && memcmp(third, MACS[5], 6) != 0 && st[oi].learned) ctx.label("history-data-third-address-has-own-keys");
        std::string tag = tagc();
        if (expect > 0 && memcmp(third, bssid, 6) != 0) tag += "+third-address-not-bssid";
        check_outcome(ctx, tag, *o.top, o.r, expect, want, true, std::string(nm) + " " + hdr_str(h) + "; history:" + ctxt());
    }

    // ---- noise
    void noise(Sta& x) {
        using wref::EapolKey;
        unsigned kind = (unsigned)s.pick(5);
        if (kind == 3 && !(x.ap_phase == 3 && x.pend.empty())) kind = 2;
        if (kind <= 1 && x.attempt == 0) kind = 2;
        Bytes frame;
        const char* nm = "";
        if (kind == 0 || kind == 1 || kind == 3) {
            EapolKey k;
            k.proto_version = ver == 2 ? 2 : 1;
            k.replay = ++x.rc;
            if (kind == 0) { k.key_info = (uint16_t)(ver | EapolKey::KI_ACK | EapolKey::KI_MIC | EapolKey::KI_SECURE | EapolKey::KI_ENCRYPTED | 0x10); k.key_data = expand(x.rc, 40); k.key_length = 16; nm = "group-msg-1"; }
            else if (kind == 1) { k.key_info = (uint16_t)(ver | EapolKey::KI_MIC | EapolKey::KI_SECURE | 0x10); nm = "group-msg-2"; }
            else { k.key_info = (uint16_t)(ver | EapolKey::KI_PAIRWISE | EapolKey::KI_MIC | EapolKey::KI_SECURE | EapolKey::KI_ERROR | EapolKey::KI_REQUEST); nm = "mic-failure-report"; }
            wref::eapol_sign(k, x.ptk.data());
            frame = wrap_eapol(eapol_hdr(kind == 0, x, false), k);
        } else if (kind == 2) {
            MacHdr h = eapol_hdr(s.boolean(), x, false);
            Bytes body = gen_plain(s, 40).bytes;
            body[6] = 0x88; body[7] = 0xb5;
            frame = join(h, body);
            nm = "unprotected-data";
        } else {
            // EAPOL-Key with the RC4 descriptor (dynamic WEP): not part of a 4-way handshake
            Bytes e;
            static const uint8_t hd[] = {0x01, 0x03, 0x00, 0x2c, 0x01, 0x00, 0x0d};
            e.assign(hd, hd + sizeof(hd));
            Bytes r = expand(x.rc + 1, 41);
            e.insert(e.end(), r.begin(), r.end());
            static const uint8_t snap[8] = {0xaa, 0xaa, 0x03, 0, 0, 0, 0x88, 0x8e};
            Bytes body(snap, snap + 8);
            body.insert(body.end(), e.begin(), e.end());
            frame = join(eapol_hdr(true, x, false), body);
            nm = "rc4-eapol-key";
        }
        ctx.label(std::string("noise-") + nm);
        Obs o = observe(frame, nm, false, false);
        if (!lossy) VCHECK(ctx, !o.cap, "C09:capturer:spurious-completion", nm << ": capturer reported a completed handshake; history:" << ctxt());
    }
    void do_beacon() {
        unsigned kind = (unsigned)s.weighted({4, 2, 1, 2, 1});
        Bytes f;
        const char* nm;
        switch (kind) {
            default:
            case 0:
                if (never_known) { f = beacon(bssid, 1, ""); nm = "beacon(hidden)"; }
                else { f = beacon(bssid, 0, g_pool[pool].ssid); nm = "beacon(ssid)"; if (cfg == 1) ap_known = true; }
                break;
            case 1: f = beacon(bssid, 1, ""); nm = "beacon(hidden)"; break;
            case 2: f = beacon(bssid, 2, ""); nm = "beacon(no-ssid-element)"; break;
            case 3: f = beacon(MACS[4], 0, g_pool[(pool + 1 + s.pick(7)) % 8].ssid); nm = "beacon(other-bss)"; if (memcmp(MACS[4], bssid, 6) == 0) { f = beacon(MACS[5], 1, ""); } break;
            case 4: { uint8_t o[6] = {0x02, 0x11, 0x22, 0x33, 0x44, 0x55}; f = beacon(o, 0, g_pool[pool].ssid); nm = "beacon(same-ssid-other-bssid)"; break; }
        }
        ctx.label(std::string("hs-") + nm);
        Obs o = observe(f, nm, false, false);
        if (!lossy) VCHECK(ctx, !o.cap, "C09:capturer:spurious-completion", nm << ": capturer reported a completed handshake");
    }
};

static void case_history(Src& s0, Ctx& ctx) {
    Bytes chunk = s0.bytes(12);
    Src cur(chunk.data(), chunk.size());
    Hist H(cur, ctx);
    Src& s = cur;
    H.pool = (int)s.pick(8);
    H.ver = s.boolean() ? 1 : 2;
    H.qos_eapol = s.boolean();
    H.container = (unsigned)s.weighted({7, 2, 1});
    H.lossy = s.chance(25);
    memcpy(H.bssid, MACS[s.boolean() ? 4 : 0], 6);
    unsigned nsta = 1 + (unsigned)s.weighted({3, 5, 1});
    unsigned rot = (unsigned)s.pick(3);
    H.st.resize(nsta);
    for (unsigned i = 0; i < nsta; ++i) memcpy(H.st[i].mac, MACS[1 + (rot + i) % 3], 6);
    H.cfg = s.boolean() ? 1 : 0;
    H.pass_ok = !(g_pool[H.pool].sibling >= 0 && s.chance(12));
    H.never_known = H.cfg == 1 && s.chance(10);
    bool extra = s.chance(25);
    const PoolEntry& net = g_pool[H.pool];
    const PoolEntry& cred = H.pass_ok ? net : g_pool[net.sibling];
    H.dec.handshake_captured_callback([&H](const std::string& ssid, const HW& b, const HW& c) { CbRec r; r.ssid = ssid; r.bssid = b; r.client = c; H.hs_cbs.push_back(r); });
    H.dec.ap_found_callback([&H](const std::string& ssid, const HW& b) { H.ap_cbs.push_back(std::make_pair(ssid, b)); });
    if (extra) {
        const PoolEntry& o = g_pool[(H.pool + 1) % 8];
        if (std::string(o.ssid) != net.ssid) H.dec.add_ap_data(o.pass, o.ssid);
    }
    if (H.cfg == 0) { H.dec.add_ap_data(cred.pass, net.ssid, hw(H.bssid)); H.ap_known = true; }
    else H.dec.add_ap_data(cred.pass, net.ssid);
    H.trace << "net ssid=" << net.ssid << " ver=" << H.ver << " bssid=" << mac_str(H.bssid) << " cfg=" << H.cfg << (H.pass_ok ? "" : " wrong-passphrase")
            << (H.never_known ? " never-known" : "") << (H.lossy ? " lossy-observer" : "") << " stations=" << nsta << ":";
    ctx.label("class-history");
    ctx.label(H.ver == 2 ? "history-ccmp(v2)" : "history-tkip(v1)");
    ctx.label(H.lossy ? "history-lossy-observer" : "history-complete-observer");
    ctx.label(H.cfg ? "history-ap-from-beacon" : "history-ap-given");
    if (!H.pass_ok) ctx.label("history-wrong-passphrase");
    if (H.never_known) ctx.label("history-ap-never-known");
    if (nsta > 1) ctx.label("history-multi-station");

    if (H.cfg == 1 && !H.never_known) {
        unsigned pre = (unsigned)s.range(0, 2);
        for (unsigned i = 0; i < pre && !H.ap_known; ++i) {
            if (s.boolean()) H.do_beacon();
            else { H.data(H.st[0], false, -1); ctx.label("history-data-before-ap-known"); }
        }
        if (!H.ap_known) {
            Bytes f = H.beacon(H.bssid, 0, net.ssid);
            H.observe(f, "beacon(ssid)", false, false);
            H.ap_known = true;
        }
    }

    unsigned maxsteps = ctx.tier ? 48 : 20;
    unsigned nsteps = 0;
    Bytes ck;
    while (nsteps < maxsteps && s0.remaining() > 0) {
        ++nsteps;
        unsigned act = s0.u8() % 22;
        size_t need = (act >= 14 && act <= 17) ? 24 : ((act >= 7 && act <= 9) || act >= 20 ? 12 : 6);
        ck = s0.bytes(need);
        cur = Src(ck.data(), ck.size());
        Sta& x = H.st[s.pick(H.st.size())];
        if (act <= 6) {
            if (!H.send_pending(x, false)) {
                if (x.attempt == 0 || x.ap_phase == 0 || x.ap_phase == 3) H.start(x, false);
                else H.timeout(x);
            }
        } else if (act <= 9) H.start(x, false);
        else if (act <= 13) { if (!H.timeout(x)) H.fast_forward(x); }
        else if (act <= 17) H.data(x, false, -1);
        else if (act == 18) H.do_beacon();
        else if (act == 19) H.noise(x);
        else if (act == 20) H.fast_forward(x);
        else H.race(x);
    }
    // final probes: one frame per direction under each station's installed key
    for (size_t i = 0; i < H.st.size(); ++i) {
        if (!H.st[i].m4_tx) continue;
        for (int dir = 0; dir < 2; ++dir) {
            ck = s0.bytes(24);
            cur = Src(ck.data(), ck.size());
            H.data(H.st[i], true, dir);
        }
    }
    // ---- end-of-history oracle
    for (size_t i = 0; i < H.st.size(); ++i) H.check_learned(H.st[i], "end of history");
    const Tins::Crypto::WPA2Decrypter::keys_map& km = H.dec.get_keys();
    for (Tins::Crypto::WPA2Decrypter::keys_map::const_iterator it = km.begin(); it != km.end(); ++it) {
        bool mine = false;
        for (size_t i = 0; i < H.st.size(); ++i) {
            HW a = hw(H.bssid), b = hw(H.st[i].mac);
            if (it->first == (a < b ? AddrPair(a, b) : AddrPair(b, a))) mine = true;
        }
        VCHECK(ctx, mine, H.tagc() + ":keys-for-unknown-pair", "get_keys() holds " << it->first.first << "/" << it->first.second << "; history:" << H.ctxt());
    }
    for (size_t i = 0; i < H.st.size(); ++i) {
        unsigned n = 0;
        for (size_t c = 0; c < H.hs_cbs.size(); ++c) {
            if (H.hs_cbs[c].client != hw(H.st[i].mac)) continue;
            ++n;
            VCHECK(ctx, H.hs_cbs[c].ssid == net.ssid && H.hs_cbs[c].bssid == hw(H.bssid), H.tagc() + ":callback-arguments",
                   "handshake callback (" << H.hs_cbs[c].ssid << ", " << H.hs_cbs[c].bssid << ", " << H.hs_cbs[c].client << "); history:" << H.ctxt());
        }
        if (!H.lossy) VCHECK(ctx, n == H.st[i].expected_cb, H.tagc() + ":callback-count", "station " << i << ": handshake callback fired " << n << " times for "
                             << H.st[i].expected_cb << " completed handshakes; history:" << H.ctxt());
        else VCHECK(ctx, n == 0 || (H.pass_ok && H.ap_known), H.tagc() + ":lossy:callback-without-valid-psk", "station " << i << ": " << n << " handshake callbacks although the decrypter has no valid PSK / BSSID for the network");
    }
    VCHECK(ctx, H.hs_cbs.size() <= 200, H.tagc() + ":callback-count", "too many callbacks");
    for (size_t c = 0; c < H.hs_cbs.size(); ++c) {
        bool mine = false;
        for (size_t i = 0; i < H.st.size(); ++i) if (H.hs_cbs[c].client == hw(H.st[i].mac)) mine = true;
        VCHECK(ctx, mine, H.tagc() + ":callback-arguments", "handshake callback for unknown client " << H.hs_cbs[c].client << "; history:" << H.ctxt());
    }
    {
        unsigned n = 0;
        for (size_t c = 0; c < H.ap_cbs.size(); ++c) if (H.ap_cbs[c].second == hw(H.bssid)) { ++n; VCHECK(ctx, H.ap_cbs[c].first == net.ssid, "C09:history:ap-callback-ssid", "ap-found callback with ssid " << H.ap_cbs[c].first); }
        VCHECK(ctx, n == (H.ap_known ? 1u : 0u), "C09:history:ap-callback-count", "ap-found callback fired " << n << " times for the BSSID (known=" << H.ap_known << "); history:" << H.ctxt());
    }
    if (H.completions) ctx.label("history-handshake-completed");
    if (H.completions > 1) ctx.label("history-multiple-completions");
    if (H.retrans) ctx.label("history-with-retransmission");
    ctx.hash(std::string("history")); ctx.hash(H.hsh); ctx.hash(H.pool); ctx.hash(H.cfg * 8 + H.pass_ok * 4 + H.never_known * 2 + H.lossy); ctx.hash(H.container);
    ctx.nontrivial(H.retrans >= 1);
    std::string t = H.trace.str();
    ctx.sample(t.substr(0, 400));
    if (ctx.logging()) ctx.log("history: " + t);
}

// ---------------------------------------------------------------------------------------------- class D: the captured traffic
// The captures of libtins' own tests (which validated the reference in prop_setup) run through libtins itself: beacon,
// four handshake messages, data frames. Expected plaintext = what the reference receiver recovers.
static void case_capture(Src& s, Ctx& ctx) {
    unsigned which = (unsigned)s.pick(4);
    unsigned container = (unsigned)s.weighted({7, 2, 1});
    bool with_beacon = s.boolean();
    ctx.label("class-capture");
    ctx.hash(std::string("capture")); ctx.hash(which); ctx.hash(container); ctx.hash(with_beacon);
    if (which == 3) {
        const wcap::Frame& f = wcap::WEP[0];
        Bytes frame(f.data, f.data + f.size);
        MacHdr h;
        size_t hl = MacHdr::parse(frame.data(), frame.size(), h);
        Bytes body(frame.begin() + hl, frame.end()), plain, key(5, 0x1f);
        wref::wep_decap(key, body, plain);
        Tins::Crypto::WEPDecrypter dec;
        dec.add_password(hw(h.a2), std::string(5, '\x1f'));
        std::unique_ptr<Tins::PDU> top = parse_frame(container, frame);
        RunResult r = run_decrypt(dec, *top);
        check_outcome(ctx, "C09:WEP:capture", *top, r, +1, plain, true, "captured WEP frame of wep_decrypt_test.cpp");
        ctx.sample("capture WEP");
        return;
    }
    static const struct { const wcap::Frame* fr; size_t n; int pool; bool ccmp; const char* name; } CAPS[3] = {
        {wcap::CCMP, wcap::CCMP_COUNT, 0, true, "CCMP"}, {wcap::CCMP_QOS, wcap::CCMP_QOS_COUNT, 1, true, "CCMP-QoS"}, {wcap::TKIP, wcap::TKIP_COUNT, 2, false, "TKIP"}};
    const PoolEntry& pe = g_pool[CAPS[which].pool];
    Tins::Crypto::WPA2Decrypter dec;
    MacHdr h1;
    MacHdr::parse(CAPS[which].fr[1].data, CAPS[which].fr[1].size, h1);
    if (with_beacon) dec.add_ap_data(pe.pass, pe.ssid);
    else dec.add_ap_data(pe.pass, pe.ssid, hw(h1.a2));
    // reference keys
    uint8_t anonce[32], snonce[32];
    {
        MacHdr h;
        size_t hl = MacHdr::parse(CAPS[which].fr[1].data, CAPS[which].fr[1].size, h);
        memcpy(anonce, CAPS[which].fr[1].data + hl + 8 + 17, 32);
        hl = MacHdr::parse(CAPS[which].fr[2].data, CAPS[which].fr[2].size, h);
        memcpy(snonce, CAPS[which].fr[2].data + hl + 8 + 17, 32);
    }
    KeySet k;
    k.ptk = wref::ptk_derive(pe.pmk, h1.a2, h1.a1, anonce, snonce, 80);
    std::string tag = std::string("C09:") + (CAPS[which].ccmp ? "CCMP" : "TKIP") + ":capture";
    for (size_t i = with_beacon ? 0 : 1; i < CAPS[which].n; ++i) {
        Bytes frame(CAPS[which].fr[i].data, CAPS[which].fr[i].data + CAPS[which].fr[i].size);
        std::unique_ptr<Tins::PDU> top = parse_frame(container, frame);
        RunResult r = run_decrypt(dec, *top);
        std::ostringstream d;
        d << "capture " << CAPS[which].name << " frame " << i;
        if (i < 5) {
            VCHECK(ctx, !r.threw && !r.ret, tag + ":handshake-frame", d.str() << ": decrypt returned " << r.ret << " / threw " << r.threw);
        } else {
            MacHdr h;
            size_t hl = MacHdr::parse(frame.data(), frame.size(), h);
            Bytes body(frame.begin() + hl, frame.end());
            Verdict v = ref_decap(CAPS[which].ccmp ? CCMP : TKIP, k, h, body);
            check_outcome(ctx, tag, *top, r, +1, v.plain, true, d.str());
        }
    }
    const Tins::Crypto::WPA2Decrypter::keys_map& km = dec.get_keys();
    VCHECK(ctx, km.size() == 1 && memcmp(km.begin()->second.get_ptk().data(), k.ptk.data(), 64) == 0 && km.begin()->second.uses_ccmp() == CAPS[which].ccmp,
           tag + ":keys", "keys learned from the captured handshake differ from the reference PTK");
    ctx.sample(std::string("capture ") + CAPS[which].name);
}

void prop(Src& s, Ctx& ctx) {
    ensure_setup(ctx);
    unsigned sel = s.u8();
    if (sel >= 253) { case_capture(s, ctx); return; }   // ~1 %: the captured traffic of libtins' own tests
    sel %= 23;
    if (sel < 10) case_direct(s, ctx);
    else if (sel < 16) case_hostile(s, ctx);
    else case_history(s, ctx);
}
