// C17 — capture files round-trip and the capture loop survives any frame.
// (a) PacketWriter -> file -> own pcap reader + FileSniffer: same order, identical bytes and (sec,usec).
// (b) own pcap writer -> FileSniffer through next_packet(), sniff_loop and range iteration: output = [f | parses(f)]
//     in order with timestamps, clean end at EOF, no exception of any type escapes.
// (c) BPF filter on the sniffer and OfflinePacketFilter: selected = frames libpcap (pcap_compile +
//     pcap_offline_filter, called directly) says match.
// Files live in memory (memfd / fmemopen): nothing touches the file system.
#include "../engine/src.h"
#include "../genlib/parsed.h"
#include "../genlib/builder.h"
#include "../ref/pcapfile.h"
#include <tins/sniffer.h>
#include <tins/packet_writer.h>
#include <tins/offline_packet_filter.h>
#include <tins/data_link_type.h>
#include <sys/mman.h>
#include <unistd.h>
#include <pcap.h>

using namespace verif;
using namespace Tins;

const char* const PROP_ID = "C17";
const size_t PROP_MAXLEN_QUICK = 2048;
const size_t PROP_MAXLEN_THOROUGH = 60000;

namespace {

struct Link { const char* name; int dlt; uint32_t linktype; const char* entry; bool writable; };
const Link LINKS[] = {
    {"EN10MB", DLT_EN10MB, 1, "dlt:EN10MB", true},
    {"IEEE802_11", DLT_IEEE802_11, 105, "dlt:IEEE802_11", true},
    {"IEEE802_11_RADIO", DLT_IEEE802_11_RADIO, 127, "dlt:IEEE802_11_RADIO", true},
    {"NULL", DLT_NULL, 0, "dlt:NULL", true},
    {"LINUX_SLL", DLT_LINUX_SLL, 113, "dlt:LINUX_SLL", true},
    {"RAW", DLT_RAW, 101, "dlt:RAW", true},
    {"PPI", DLT_PPI, 192, "dlt:PPI", false},
    {"PKTAP", DLT_PKTAP, 258, "dlt:PKTAP", false},  // read-only as well; not in the statement's list but handled by the sniffer
};
const size_t NLINKS = sizeof LINKS / sizeof *LINKS;

const Entry& entry_named(const char* n) {
    for (const Entry& e : entries()) if (std::string(e.name) == n) return e;
    return entries()[0];
}

struct Frame {
    std::vector<uint8_t> bytes;
    uint32_t sec = 0, usec = 0;
    bool parses = false;
    std::string chain;
};

// a well-formed packet whose outermost layer fits the link type
std::unique_ptr<PDU> gen_packet_for(const Link& l, Src& s) {
    std::unique_ptr<PDU> top;
    switch (l.dlt) {
        case DLT_EN10MB: top.reset(new EthernetII(genv(s, Tag<HWAddress<6> >()), genv(s, Tag<HWAddress<6> >()))); if (s.chance(25)) { Dot1Q q((small_uint<12>)(uint16_t)s.range(0, 4095)); *top /= q; } break;
        case DLT_IEEE802_11: top.reset(new Dot11Data()); { SNAP sn; *top /= sn; } break;
        case DLT_IEEE802_11_RADIO: top.reset(new RadioTap()); { Dot11Data d; SNAP sn; *top /= d; *top /= sn; } break;
        case DLT_NULL: top.reset(new Loopback()); break;
        case DLT_LINUX_SLL: top.reset(new SLL()); break;
        default: break;  // RAW: starts at the network layer
    }
    bool v6 = s.chance(35);
    static const char* A4[] = {"10.0.0.1", "10.0.0.2", "192.168.1.77", "8.8.8.8"};
    static const char* A6[] = {"fe80::1", "2001:db8::2", "::1", "ff02::fb"};
    std::unique_ptr<PDU> net;
    if (v6) net.reset(new IPv6(A6[s.pick(4)], A6[s.pick(4)]));
    else net.reset(new IP(A4[s.pick(4)], A4[s.pick(4)]));
    static const uint16_t PORTS[] = {53, 80, 443, 1024, 65535, 0};
    switch (s.range(0, 3)) {
        case 0: { TCP t(PORTS[s.pick(6)], PORTS[s.pick(6)]); *net /= t; break; }
        case 1: { UDP u(PORTS[s.pick(6)], PORTS[s.pick(6)]); *net /= u; break; }
        case 2: if (v6) { ICMPv6 i; *net /= i; } else { ICMP i; *net /= i; } break;
        default:
            // no transport layer: a well-formed IPv6 packet must not announce an extension header (default next header 0)
            if (v6) static_cast<IPv6*>(net.get())->next_header(253);
            else static_cast<IP*>(net.get())->protocol(253);
            break;
    }
    std::unique_ptr<RawPDU> r(gen_raw(s, 64));
    *net /= *r;
    if (top) *top /= *net; else top = std::move(net);
    return top;
}

std::vector<uint8_t> gen_frame_bytes(const Link& l, Src& s, Ctx& ctx) {
    switch (s.weighted({5, 3, 2, 1})) {
        case 0: {
            std::unique_ptr<PDU> p = gen_packet_for(l, s);
            try { return p->serialize(); } catch (const std::exception&) { return std::vector<uint8_t>(); }
        }
        case 1: {  // mutated well-formed frame
            std::unique_ptr<PDU> p = gen_packet_for(l, s);
            std::vector<uint8_t> b;
            try { b = p->serialize(); } catch (const std::exception&) {}
            unsigned m = 1 + (unsigned)s.range(0, 3);
            for (unsigned i = 0; i < m && !b.empty(); ++i) {
                switch (s.range(0, 2)) {
                    case 0: b[s.pick(b.size())] = s.u8(); break;
                    case 1: b.resize(s.pick(b.size())); break;
                    default: b[s.pick(b.size())] ^= (uint8_t)(1u << s.pick(8)); break;
                }
            }
            ctx.label("mutated-frame");
            return b;
        }
        case 2: ctx.label("arbitrary-frame"); return s.bytes(s.range(0, 96));
        default: ctx.label("zero-length-frame"); return std::vector<uint8_t>();
    }
}

std::string gen_filter(Src& s) {
    auto atom = [&]() -> std::string {
        static const char* PORTS[] = {"53", "80", "443", "1024", "65535", "0"};
        static const char* HOSTS[] = {"10.0.0.1", "10.0.0.2", "192.168.1.77", "8.8.8.8"};
        switch (s.range(0, 9)) {
            case 0: return "ip";
            case 1: return "ip6";
            case 2: return std::string(s.boolean() ? "tcp" : "udp") + (s.boolean() ? " src" : (s.boolean() ? " dst" : "")) + " port " + PORTS[s.pick(6)];
            case 3: return std::string("host ") + HOSTS[s.pick(4)];
            case 4: return "ether src 00:11:22:33:44:55";
            case 5: return s.boolean() ? "vlan" : "vlan " + std::to_string(s.range(0, 4095));
            case 6: return std::string("len ") + (s.boolean() ? "<= " : ">= ") + std::to_string(s.range(0, 128));
            case 7: return "tcp";
            case 8: return "icmp or icmp6";
            default: return "udp";
        }
    };
    std::string f = atom();
    switch (s.range(0, 4)) {
        case 0: return f;
        case 1: return "not (" + f + ")";
        case 2: return "(" + f + ") and (" + atom() + ")";
        case 3: return "(" + f + ") or (" + atom() + ")";
        default: return f;
    }
}

// independent evaluation with libpcap: compile once for (linktype, expr); returns -1 if the expression does not compile
struct Bpf {
    bool ok = false;
    bpf_program prog;
    pcap_t* dead = nullptr;
    // libpcap generates different code for some link types depending on whether the handle is a savefile (e.g. the
    // address-family values accepted for IPv6 on DLT_NULL), and its optimizer rejects always-false expressions: the
    // reference is therefore compiled in the same context as the code path it judges.
    Bpf(int dlt, const std::string& expr) {  // "dead" context, optimizer on: what OfflinePacketFilter is documented to do
        dead = pcap_open_dead(dlt, 65535);
        ok = dead && pcap_compile(dead, &prog, expr.c_str(), 1, PCAP_NETMASK_UNKNOWN) == 0;
    }
    Bpf(const std::vector<uint8_t>& image, std::vector<uint8_t>& keep, const std::string& expr) {  // savefile context, optimizer off
        keep = image;
        char err[PCAP_ERRBUF_SIZE];
        FILE* fp = fmemopen(keep.data(), keep.size(), "rb");
        dead = fp ? pcap_fopen_offline(fp, err) : nullptr;
        ok = dead && pcap_compile(dead, &prog, expr.c_str(), 0, PCAP_NETMASK_UNKNOWN) == 0;
    }
    ~Bpf() { if (ok) pcap_freecode(&prog); if (dead) pcap_close(dead); }
    bool match(const std::vector<uint8_t>& b) const {
        pcap_pkthdr h;
        memset(&h, 0, sizeof h);
        h.caplen = h.len = (bpf_u_int32)b.size();
        static const uint8_t dummy = 0;
        return pcap_offline_filter(&prog, &h, b.empty() ? &dummy : b.data()) != 0;
    }
};

struct Seen { uint32_t sec, usec; std::string chain; };

std::string render(const std::vector<Seen>& v) {
    std::ostringstream os;
    for (const Seen& x : v) os << "[" << x.sec << "." << x.usec << " " << x.chain << "] ";
    return os.str();
}

// heap-allocated on purpose: ASan fills fresh heap memory with a pattern, so a member the constructor forgets to
// initialise holds garbage deterministically (on the stack it is usually zero by luck)
OfflinePacketFilter* make_offline_filter(const Link& l, const std::string& f) {
    switch (l.dlt) {
        case DLT_EN10MB: return new OfflinePacketFilter(f, DataLinkType<EthernetII>());
        case DLT_IEEE802_11: return new OfflinePacketFilter(f, DataLinkType<Dot11>());
        case DLT_IEEE802_11_RADIO: return new OfflinePacketFilter(f, DataLinkType<RadioTap>());
        case DLT_NULL: return new OfflinePacketFilter(f, DataLinkType<Loopback>());
        case DLT_LINUX_SLL: return new OfflinePacketFilter(f, DataLinkType<SLL>());
        case DLT_PPI: return new OfflinePacketFilter(f, DataLinkType<PPI>());
        default: return new OfflinePacketFilter(f, DataLinkType<IP>());
    }
}

FILE* mem_file(const std::vector<uint8_t>& image, std::vector<uint8_t>& keep) {
    keep = image;
    if (keep.empty()) keep.push_back(0);
    return fmemopen(keep.data(), image.size(), "rb");
}

}  // namespace

void prop(Src& s, Ctx& ctx) {
    unsigned mode = s.u8() % 3;  // 0: writer round trip, 1: reader over arbitrary frames, 2: filters
    const Link& link = LINKS[s.u8() % NLINKS];
    unsigned nframes = (unsigned)s.weighted({1, 3, 4, 3, 2});
    static const unsigned NF[] = {0, 2, 5, 12, 30};
    nframes = NF[nframes] + (unsigned)s.range(0, 3);
    if (ctx.tier && s.chance(3)) nframes = 300 + (unsigned)s.range(0, 700);
    std::string tag = std::string("C17:") + link.name;
    ctx.hash(mode); ctx.hash(link.name);

    if (mode == 0) {
        // ---------------- (a) writer -> own reader + FileSniffer
        if (!link.writable) { ctx.excluded("ppi-not-writable"); return; }
        int fd = memfd_create("c17", 0);
        if (fd < 0) { ctx.excluded("memfd-unavailable"); return; }
        std::string path = "/proc/self/fd/" + std::to_string(fd);
        struct Written { std::vector<uint8_t> bytes; uint32_t sec, usec; };
        std::vector<Written> written;
        unsigned ctor = (unsigned)s.range(0, 1);
        unsigned wstyle = (unsigned)s.range(0, 7);   // bits 0-1: which write() overload; bit 2: the writer is moved before use
        bool ts_known = (wstyle & 3) == 0;
        try {
            std::unique_ptr<PacketWriter> w;
            switch (link.dlt) {
                case DLT_EN10MB: w.reset(ctor ? new PacketWriter(path, PacketWriter::ETH2) : new PacketWriter(path, DataLinkType<EthernetII>())); break;
                case DLT_IEEE802_11: w.reset(ctor ? new PacketWriter(path, PacketWriter::DOT11) : new PacketWriter(path, DataLinkType<Dot11>())); break;
                case DLT_IEEE802_11_RADIO: w.reset(ctor ? new PacketWriter(path, PacketWriter::RADIOTAP) : new PacketWriter(path, DataLinkType<RadioTap>())); break;
                case DLT_NULL: w.reset(new PacketWriter(path, DataLinkType<Loopback>())); break;
                case DLT_LINUX_SLL: w.reset(ctor ? new PacketWriter(path, PacketWriter::SLL) : new PacketWriter(path, DataLinkType<SLL>())); break;
                default: w.reset(new PacketWriter(path, DataLinkType<IP>())); break;
            }
            if (wstyle & 4) {  // move construction, then move assignment back
                PacketWriter tmp(std::move(*w));
                *w = std::move(tmp);
            }
            std::vector<std::unique_ptr<PDU> > batch_owner;
            std::vector<PDU*> batch;
            for (unsigned i = 0; i < nframes; ++i) {
                std::unique_ptr<PDU> p = gen_packet_for(link, s);
                std::unique_ptr<PDU> c(p->clone());
                Written wr;
                wr.bytes = c->serialize();
                wr.sec = (uint32_t)s.edgy(31);
                wr.usec = (uint32_t)s.range(0, 999999);
                Packet pk(*p, Timestamp(std::chrono::microseconds((uint64_t)wr.sec * 1000000ull + wr.usec)));
                switch (wstyle & 3) {
                    case 0: w->write(pk); break;                          // Packet: its timestamp is written
                    case 1: w->write(*p); break;                          // PDU&: stamped with the current time
                    case 2: { PDU* raw = p.get(); if (i & 1) w->write(raw); else w->write(p); break; }   // raw / smart pointer
                    default: batch_owner.push_back(std::unique_ptr<PDU>(p->clone())); batch.push_back(batch_owner.back().get()); break;   // iterator range, written after the loop
                }
                written.push_back(wr);
                if (ctx.logging()) ctx.log("  wrote " + layer_chain(*p) + " " + hex(wr.bytes, 200));
            }
            if ((wstyle & 3) == 3) w->write(batch.begin(), batch.end());
        } catch (const std::exception& e) {
            close(fd);
            VFAIL(ctx, tag + ":writer-throws:" + demangled(typeid(e)), "PacketWriter for " << link.name << " threw " << e.what());
        }
        // read the file image back
        std::vector<uint8_t> image;
        {
            off_t sz = lseek(fd, 0, SEEK_END);
            image.resize((size_t)sz);
            if (sz > 0 && pread(fd, image.data(), (size_t)sz, 0) != sz) image.clear();
            close(fd);
        }
        PcapFile pf;
        VCHECK(ctx, pcap_decode(image, pf), tag + ":written-file-malformed", "the file written by PacketWriter is not a well-formed pcap file (" << image.size() << " bytes)");
        VCHECK(ctx, pf.records.size() == written.size(), tag + ":written-record-count", pf.records.size() << " records in the file, " << written.size() << " packets written");
        for (size_t i = 0; i < written.size() && i < pf.records.size(); ++i) {
            const PcapRecord& r = pf.records[i];
            VCHECK(ctx, r.bytes == written[i].bytes, tag + ":written-bytes-differ", "record " << i << ": file has " << hex(r.bytes) << " serialize() gave " << hex(written[i].bytes));
            VCHECK(ctx, !ts_known || (r.sec == written[i].sec && r.usec == written[i].usec), tag + ":written-timestamp-differs",
                   "record " << i << ": file has " << r.sec << "." << r.usec << " packet had " << written[i].sec << "." << written[i].usec);
        }
        // and through the sniffer: raw mode gives the bytes, normal mode the parsed packets
        for (int raw = 1; raw >= 0; --raw) {
            std::vector<uint8_t> keep;
            FILE* fp = mem_file(image, keep);
            std::vector<Seen> got;
            std::vector<std::vector<uint8_t> > got_bytes;
            try {
                FileSniffer first(fp);
                first.set_extract_raw_pdus(raw != 0);
                FileSniffer second(std::move(first));   // a moved sniffer keeps its configuration
                FileSniffer& sn = second;
                for (unsigned guard = 0; guard < nframes + 5; ++guard) {
                    Packet pk(sn.next_packet());
                    if (!pk) break;
                    got.push_back({(uint32_t)pk.timestamp().seconds(), (uint32_t)pk.timestamp().microseconds(), layer_chain(*pk.pdu())});
                    if (raw) got_bytes.push_back(pk.pdu()->serialize());
                }
            } catch (const std::exception& e) {
                VFAIL(ctx, tag + ":sniffer-throws-on-written-file:" + demangled(typeid(e)), "FileSniffer on a file written by PacketWriter(" << link.name << ") threw " << e.what());
            }
            if (raw) {
                VCHECK(ctx, got.size() == written.size(), tag + ":readback-count", got.size() << " frames read back, " << written.size() << " written");
                for (size_t i = 0; i < got.size() && i < written.size(); ++i) {
                    VCHECK(ctx, got_bytes[i] == written[i].bytes, tag + ":readback-bytes-differ", "frame " << i << " read back as " << hex(got_bytes[i]) << " written " << hex(written[i].bytes));
                    VCHECK(ctx, !ts_known || (got[i].sec == written[i].sec && got[i].usec == written[i].usec), tag + ":readback-timestamp-differs",
                           "frame " << i << ": " << got[i].sec << "." << got[i].usec << " vs " << written[i].sec << "." << written[i].usec);
                }
            } else {
                // every written packet is well formed, so every frame must come back parsed
                VCHECK(ctx, got.size() == written.size(), tag + ":readback-parsed-count", got.size() << " packets parsed back, " << written.size() << " written: " << render(got));
            }
        }
        ctx.label("writer-roundtrip");
        ctx.hash(nframes); ctx.hash(ctor); ctx.hash(wstyle);
        static const char* WS[] = {"write(Packet)", "write(PDU&)", "write(pointer)", "write(range)"};
        ctx.label(WS[wstyle & 3]);
        if (wstyle & 4) ctx.label("writer-moved");
        for (const Written& w : written) ctx.hash(hash_bytes(w.bytes.data(), w.bytes.size()));
        ctx.nontrivial(nframes >= 3);
        ctx.sample(std::string("writer round trip ") + link.name + " frames=" + std::to_string(nframes));
        return;
    }

    // ---------------- (b)/(c): own pcap file with arbitrary frames
    const Entry& e = entry_named(link.entry);
    std::vector<Frame> frames(nframes);
    PcapFile pf;
    pf.linktype = link.linktype;
    uint32_t clock = (uint32_t)s.edgy(30);
    for (Frame& f : frames) {
        f.bytes = gen_frame_bytes(link, s, ctx);
        clock += (uint32_t)s.range(0, 3);
        f.sec = s.chance(10) ? (uint32_t)s.edgy(31) : clock;
        f.usec = (uint32_t)s.range(0, 999999);
        try {
            std::unique_ptr<PDU> p = parse_entry(e, f.bytes.data(), f.bytes.size(), 0);
            f.parses = p != nullptr;
            if (p) f.chain = layer_chain(*p);
        } catch (const std::exception&) {
            return;  // a foreign exception from a constructor is C01's finding; the capture-loop clause needs a defined reference
        }
        PcapRecord r;
        r.sec = f.sec; r.usec = f.usec; r.bytes = f.bytes;
        pf.records.push_back(r);
    }
    std::vector<uint8_t> image = pcap_encode(pf);
    std::string filter = mode == 2 ? gen_filter(s) : std::string();
    std::unique_ptr<Bpf> bpf, bpf_dead;
    std::vector<uint8_t> keep_ref;
    if (mode == 2) {
        bpf.reset(new Bpf(image, keep_ref, filter));
        bpf_dead.reset(new Bpf(link.dlt, filter));
        ctx.label(bpf->ok ? "filter-compiles" : "filter-does-not-compile");
    }
    std::vector<Seen> expect;
    size_t nmal = 0, nsel = 0;
    for (const Frame& f : frames) {
        bool sel = mode != 2 || (bpf->ok && bpf->match(f.bytes));
        if (sel) ++nsel;
        if (!f.parses) { ++nmal; continue; }
        if (sel) expect.push_back({f.sec, f.usec, f.chain});
    }
    std::string desc = std::string(link.name) + " frames=" + std::to_string(nframes) + " malformed=" + std::to_string(nmal) + (mode == 2 ? " filter='" + filter + "'" : "");
    if (ctx.logging()) { ctx.log(desc); for (const Frame& f : frames) ctx.log("  frame " + hex(f.bytes, 80) + (f.parses ? " -> " + f.chain : " (does not parse)")); }

    unsigned k1 = 1 + (unsigned)s.range(0, 3), k2 = 1 + (unsigned)s.range(0, 2);
    for (unsigned style = 0; style < 7; ++style) {
        std::vector<uint8_t> keep;
        FILE* fp = nullptr;
        int pfd = -1;
        std::string ppath;
        if (style == 5) {  // the constructors that take a file name
            pfd = memfd_create("c17r", 0);
            if (pfd < 0) continue;
            if (!image.empty() && write(pfd, image.data(), image.size()) != (ssize_t)image.size()) { close(pfd); continue; }
            ppath = "/proc/self/fd/" + std::to_string(pfd);
        } else {
            fp = mem_file(image, keep);
        }
        struct FdCloser { int fd; ~FdCloser() { if (fd >= 0) close(fd); } } fd_closer{pfd};
        std::vector<Seen> got;
        static const char* STYLE[] = {"next_packet", "sniff_loop", "range-iteration", "bounded-sniff_loops-then-iteration", "moved-sniffer-postincrement-iteration",
                                      "file-name-constructor", "sniff_loop-pdu-callback"};
        bool ctor_failed = false;
        bool no_timestamps = false;
        try {
            std::unique_ptr<FileSniffer> sn;
            try {
                if (style == 5) sn.reset(mode == 2 ? new FileSniffer(ppath, filter) : new FileSniffer(ppath));
                else sn.reset(mode == 2 ? new FileSniffer(fp, filter) : new FileSniffer(fp));
            } catch (const invalid_pcap_filter&) {
                ctor_failed = true;
            } catch (const pcap_error&) {
                ctor_failed = true;
            }
            if (ctor_failed) {
                VCHECK(ctx, mode == 2 && !bpf->ok, tag + ":sniffer-rejects-valid-input", "FileSniffer construction failed: " << desc);
                break;
            }
            VCHECK(ctx, mode != 2 || bpf->ok, tag + ":sniffer-accepts-invalid-filter", "filter does not compile with libpcap but FileSniffer accepted it: " << desc);
            size_t guard = 0;
            if (style == 0) {
                for (;;) {
                    Packet pk(sn->next_packet());
                    if (!pk) break;
                    got.push_back({(uint32_t)pk.timestamp().seconds(), (uint32_t)pk.timestamp().microseconds(), layer_chain(*pk.pdu())});
                    if (++guard > nframes + 5) break;
                }
            } else if (style == 1) {
                sn->sniff_loop([&](Packet& pk) -> bool {
                    got.push_back({(uint32_t)pk.timestamp().seconds(), (uint32_t)pk.timestamp().microseconds(), layer_chain(*pk.pdu())});
                    return ++guard <= nframes + 5;
                });
            } else if (style == 2) {
                for (Packet& pk : *sn) {
                    got.push_back({(uint32_t)pk.timestamp().seconds(), (uint32_t)pk.timestamp().microseconds(), layer_chain(*pk.pdu())});
                    if (++guard > nframes + 5) break;
                }
            } else if (style == 4) {
                // the sniffer is moved first; iteration with the post-increment and arrow operators
                FileSniffer moved(std::move(*sn));
                for (SnifferIterator it = moved.begin(); it != moved.end(); it++) {
                    got.push_back({(uint32_t)it->timestamp().seconds(), (uint32_t)it->timestamp().microseconds(), layer_chain(*it->pdu())});
                    if (++guard > nframes + 5) break;
                }
            } else if (style == 5) {
                // move assignment over a sniffer that has already been used on a capture of ANOTHER link type (one frame read):
                // nothing of the old capture may survive in the target
                PcapFile other_file;
                other_file.linktype = link.dlt == DLT_RAW ? 1u : 101u;   // Ethernet, or raw IP
                {
                    PcapRecord r;
                    r.sec = 1; r.usec = 2;
                    static const uint8_t IPV4[] = {0x45, 0, 0, 20, 0, 1, 0, 0, 64, 253, 0, 0, 10, 0, 0, 1, 10, 0, 0, 2};
                    if (other_file.linktype == 1u) { r.bytes.assign(12, 0x02); r.bytes.push_back(0x08); r.bytes.push_back(0x00); }
                    r.bytes.insert(r.bytes.end(), IPV4, IPV4 + sizeof IPV4);
                    other_file.records.push_back(r);
                    other_file.records.push_back(r);
                }
                std::vector<uint8_t> other_image = pcap_encode(other_file), other_keep;
                FILE* ofp = mem_file(other_image, other_keep);
                FileSniffer assigned(ofp);
                { Packet first(assigned.next_packet()); (void)first; }
                assigned = std::move(*sn);   // (read from the assigned-to object itself: a further move would hide stale state)
                for (;;) {
                    Packet pk(assigned.next_packet());
                    if (!pk) break;
                    got.push_back({(uint32_t)pk.timestamp().seconds(), (uint32_t)pk.timestamp().microseconds(), layer_chain(*pk.pdu())});
                    if (++guard > nframes + 5) break;
                }
            } else if (style == 6) {
                no_timestamps = true;   // a callback that takes the PDU does not see the timestamp
                sn->sniff_loop([&](PDU& pdu) -> bool {
                    got.push_back({0, 0, layer_chain(pdu)});
                    return ++guard <= nframes + 5;
                });
            } else {
                // two bounded loops (max_packets), then the rest through iteration: no frame may be lost in between
                auto cb = [&](Packet& pk) -> bool {
                    got.push_back({(uint32_t)pk.timestamp().seconds(), (uint32_t)pk.timestamp().microseconds(), layer_chain(*pk.pdu())});
                    return true;
                };
                sn->sniff_loop(cb, k1);
                if (got.size() == k1) sn->sniff_loop(cb, k2);
                if (got.size() == k1 + k2) {
                    for (Packet& pk : *sn) {
                        got.push_back({(uint32_t)pk.timestamp().seconds(), (uint32_t)pk.timestamp().microseconds(), layer_chain(*pk.pdu())});
                        if (++guard > nframes + 5) break;
                    }
                }
                ctx.label("bounded-sniff-loop");
            }
        } catch (const PropFail&) {
            throw;
        } catch (const std::exception& ex) {
            VFAIL(ctx, tag + ":exception-escapes-" + STYLE[style] + ":" + demangled(typeid(ex)), STYLE[style] << " let " << demangled(typeid(ex)) << " (" << ex.what() << ") escape: " << desc);
        }
        if (ctor_failed) break;
        bool same = got.size() == expect.size();
        for (size_t i = 0; same && i < got.size(); ++i) same = (no_timestamps || (got[i].sec == expect[i].sec && got[i].usec == expect[i].usec)) && got[i].chain == expect[i].chain;
        VCHECK(ctx, same, tag + ":" + STYLE[style] + (mode == 2 ? ":filtered-output-differs" : ":output-differs"),
               desc << "\n expected " << render(expect) << "\n got      " << render(got));
    }
    // OfflinePacketFilter on parsed packets: must agree with libpcap on the packet's own serialisation
    if (mode == 2 && link.dlt != DLT_PKTAP) {  // (there is no DataLinkType<PKTAP>, and PKTAP packets cannot be serialised)
        try {
            std::unique_ptr<OfflinePacketFilter> opf_holder(make_offline_filter(link, filter));
            OfflinePacketFilter& opf0 = *opf_holder;
            VCHECK(ctx, bpf_dead->ok, tag + ":offline-filter-accepts-invalid-filter", desc);
            // copies of a filter are as good as the filter (copy construction, copy assignment over another filter)
            std::unique_ptr<OfflinePacketFilter> opf_copy(new OfflinePacketFilter(opf0));
            std::unique_ptr<OfflinePacketFilter> opf_assigned(new OfflinePacketFilter("len > 0", DataLinkType<EthernetII>()));
            *opf_assigned = opf0;
            *opf_assigned = *opf_assigned;
            size_t fi = 0;
            for (const Frame& f : frames) {
                OfflinePacketFilter& opf = fi % 3 == 0 ? opf0 : (fi % 3 == 1 ? *opf_copy : *opf_assigned);
                ++fi;
                if (!f.parses) continue;
                std::unique_ptr<PDU> p = parse_entry(e, f.bytes.data(), f.bytes.size(), 0);
                if (!p || has_unserializable_layer(*p)) continue;
                if (IP* root = dynamic_cast<IP*>(p.get())) if (root->src_addr() == IPv4Address((uint32_t)0)) continue;
                std::vector<uint8_t> ser;
                try { std::unique_ptr<PDU> c(p->clone()); ser = c->serialize(); } catch (const std::exception&) { continue; }
                bool want = bpf_dead->match(ser);
                bool got = opf.matches_filter(*p);
                VCHECK(ctx, want == got, tag + ":offline-filter-differs", "filter '" << filter << "' on " << hex(ser, 120) << ": libpcap says " << want << ", OfflinePacketFilter(PDU) says " << got);
                bool got2 = opf.matches_filter(ser.empty() ? (const uint8_t*)"" : ser.data(), (uint32_t)ser.size());
                VCHECK(ctx, want == got2, tag + ":offline-filter-differs", "filter '" << filter << "' on bytes " << hex(ser, 120) << ": libpcap says " << want << ", OfflinePacketFilter(bytes) says " << got2);
            }
        } catch (const invalid_pcap_filter&) {
            VCHECK(ctx, !bpf_dead->ok, tag + ":offline-filter-rejects-valid-filter", desc);
        }
    }
    ctx.label(mode == 2 ? "filtered-read" : "plain-read");
    bool between = false;  // a malformed/zero-length frame between two valid ones
    for (size_t i = 1; i + 1 < frames.size(); ++i) if (!frames[i].parses && frames[i - 1].parses && frames[i + 1].parses) between = true;
    if (between) ctx.label("malformed-between-valid");
    bool strict_subset = mode == 2 && !expect.empty() && expect.size() < frames.size() - nmal;
    if (strict_subset) ctx.label("filter-strict-subset");
    ctx.hash(nframes); ctx.hash(filter);
    for (const Frame& f : frames) ctx.hash(hash_bytes(f.bytes.data(), f.bytes.size()));
    ctx.nontrivial((nframes >= 3 && between) || strict_subset);
    ctx.sample(desc + " -> " + std::to_string(expect.size()) + " packets expected");
}
