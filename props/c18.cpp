// C18 — independent objects can be used from different threads without data races.
// A case = k in {2,4,8,16} threads, each with a private workload of cases of the OTHER properties' generators
// (parse / build / serialize / copy / reassemble / DNS / addresses...) on thread-private objects.
// Oracles: (1) ThreadSanitizer (this TU and libtins are built with -fsanitize=thread; a report aborts the process
// and run.py derives the signature from the report), (2) differential: every sub-case's result fingerprint when
// run concurrently equals the fingerprint of the same sub-case run alone beforehand.
//
// The other properties' translation units are compiled into this one, each inside its own namespace.
#include "../engine/src.h"
#include "../genlib/view.h"
#include "../genlib/entries.h"
#include "../genlib/parsed.h"
#include "../genlib/builder.h"
#include "../genlib/parse_input.h"
#include "../genlib/setters.h"
#include "../genlib/render.h"
#include "../genlib/optconv.h"
#include "../ref/pcapfile.h"
#include "../ref/dissect.h"
#include "../ref/wire_positions.h"
#include <tins/offline_packet_filter.h>
#include <tins/data_link_type.h>
#include <pcap.h>
#include <tins/sniffer.h>
#include <tins/packet_writer.h>
#include <sys/mman.h>
#include <tins/tins.h>
#include <tins/pdu_cacher.h>
#include <tins/tcp_ip/flow.h>
#include <tins/tcp_ip/data_tracker.h>
#include <tins/tcp_ip/ack_tracker.h>
#include <tins/tcp_ip/stream_follower.h>
#include <tins/tcp_ip/stream.h>
#include <tins/tcp_stream.h>
#include <tins/ip_reassembler.h>
#include <tins/utils/radiotap_parser.h>
#include <tins/pdu_iterator.h>
#include <tins/packet.h>
#include <tins/address_range.h>
#include <algorithm>
#include <atomic>
#include <bitset>
#include <chrono>
#include <cstdio>
#include <cstdlib>
#include <functional>
#include <iterator>
#include <map>
#include <memory>
#include <set>
#include <thread>
#include <sched.h>
#include <dirent.h>
#include <unistd.h>
#include <sys/wait.h>
#include <sys/select.h>
#include <tins/handshake_capturer.h>
#include <tins/crypto.h>
#include <tins/eapol.h>
#include <array>
#include <cstring>
#include <string>
#include <vector>
#include <utility>
#include <sstream>
#include <openssl/evp.h>
#include <openssl/hmac.h>
#include <openssl/aes.h>
#include <openssl/sha.h>
#include <openssl/md5.h>
#include <openssl/rc4.h>

#define PROP_ID PROP_ID_SUB
#define PROP_MAXLEN_QUICK PROP_MAXLEN_QUICK_SUB
#define PROP_MAXLEN_THOROUGH PROP_MAXLEN_THOROUGH_SUB
namespace w01 {
#include "c01.cpp"
}
namespace w02 {
#include "c02.cpp"
}
namespace w03 {
#include "c03.cpp"
}
namespace w06 {
#include "c06.cpp"
}
namespace w10 {
#include "c10.cpp"
}
namespace w12 {
#include "c12.cpp"
}
namespace w16 {
#include "c16.cpp"
}
namespace w08 {
#include "c08.cpp"
}
#define gen_len gen_len_c09
namespace w09 {
#include "c09.cpp"
}
#undef gen_len
namespace w19 {
#include "c19.cpp"
}
namespace w07 {
#include "c07.cpp"
}
namespace w14 {
#include "c14.cpp"
}
namespace w04 {
#include "c04.cpp"
}
namespace w05 {
#include "c05.cpp"
}
namespace w11 {
#include "c11.cpp"
}
namespace w15 {
#include "c15.cpp"
}
namespace w17 {
#include "c17.cpp"
}
#undef PROP_ID
#undef PROP_MAXLEN_QUICK
#undef PROP_MAXLEN_THOROUGH

using namespace verif;

// ---- tight-loop workload: one small library call repeated a few hundred times on thread-private objects, so that threads
// spend their time INSIDE the same few functions at the same moment (the mixed workloads above spread over the whole
// library and leave short windows almost untouched). Every iteration's result goes into the sub-case fingerprint.
namespace micro {
using namespace Tins;
typedef std::vector<uint8_t> Bytes;
namespace wcap = w09::wcap;   // (the capture tables were first included inside the C09 workload's namespace)

static std::unique_ptr<PDU> frame_pdu(const wcap::Frame& f) { return std::unique_ptr<PDU>(Dot11::from_bytes(f.data, (uint32_t)f.size)); }

// the four-way handshake of one of libtins' own captured sessions (frames 1..4 of the capture)
static bool captured_handshake(const wcap::Frame* fr, RSNHandshake& out) {
    RSNHandshakeCapturer cap;
    for (size_t i = 1; i <= 4; ++i) { std::unique_ptr<PDU> p = frame_pdu(fr[i]); if (p) cap.process_packet(*p); }
    if (cap.handshakes().empty()) return false;
    out = cap.handshakes().front();
    return true;
}

void prop(Src& s, Ctx& ctx) {
    unsigned op = s.u8() % 7;
    unsigned n = 40 + (unsigned)s.u8();         // 40 .. 295 iterations
    unsigned v = s.u8();
    uint64_t acc = op * 1000003ULL + n;
    switch (op) {
        case 0: case 1: {   // WPA2 session keys from a captured handshake (PRF + MIC check), CCMP or TKIP capture
            const bool ccmp = op == 0;
            RSNHandshake hs;
            if (!captured_handshake(ccmp ? wcap::CCMP : wcap::TKIP, hs)) { ctx.result((uint64_t)0xdead); break; }
            const Bytes& pmk = w09::g_pool[ccmp ? 0 : 2].pmk;
            for (unsigned i = 0; i < n; ++i) {
                try {
                    Crypto::WPA2::SessionKeys k(hs, pmk);
                    acc = hash_mix(acc, hash_bytes(k.get_ptk().data(), k.get_ptk().size()) + k.uses_ccmp());
                } catch (const exception_base&) { acc = hash_mix(acc, 0xbad0 + i); }
            }
            break;
        }
        case 2: {   // decryption of the captured data frames with keys learned from the handshake (whole WPA2Decrypter path)
            Crypto::WPA2Decrypter dec;
            dec.add_ap_data(w09::g_pool[0].pass, w09::g_pool[0].ssid);
            for (size_t i = 0; i < wcap::CCMP_COUNT; ++i) { std::unique_ptr<PDU> p = frame_pdu(wcap::CCMP[i]); if (p) dec.decrypt(*p); }
            Crypto::WPA2Decrypter::keys_map keys = dec.get_keys();
            for (unsigned i = 0; i < n / 4; ++i) {
                Crypto::WPA2Decrypter d2;
                for (Crypto::WPA2Decrypter::keys_map::const_iterator it = keys.begin(); it != keys.end(); ++it) d2.add_decryption_keys(it->first, it->second);
                for (size_t f = 5; f < wcap::CCMP_COUNT; ++f) {
                    std::unique_ptr<PDU> p = frame_pdu(wcap::CCMP[f]);
                    bool ok = p && d2.decrypt(*p);
                    acc = hash_mix(acc, ok);
                    if (ok) { Bytes y = p->serialize(); acc = hash_mix(acc, hash_bytes(y.data(), y.size())); }
                }
            }
            break;
        }
        case 3: {   // WEP
            for (unsigned i = 0; i < n; ++i) {
                std::unique_ptr<PDU> p = frame_pdu(wcap::WEP[0]);
                Crypto::WEPDecrypter dec;
                const Dot11Data* d = p ? p->find_pdu<Dot11Data>() : nullptr;
                if (d) { dec.add_password(d->addr2(), std::string(5, '\x1f')); dec.add_password(d->addr1(), std::string(5, '\x1f')); dec.add_password(d->addr3(), std::string(5, '\x1f')); }
                bool ok = p && dec.decrypt(*p);
                acc = hash_mix(acc, ok);
                if (ok) { Bytes y = p->serialize(); acc = hash_mix(acc, hash_bytes(y.data(), y.size())); }
            }
            break;
        }
        case 4: {   // text forms of addresses
            for (unsigned i = 0; i < n; ++i) {
                IPv4Address a4((uint32_t)(i * 2654435761u + v));
                uint8_t b[16]; for (unsigned k = 0; k < 16; ++k) b[k] = (uint8_t)((i + v) * (k + 3) >> (k & 3));
                IPv6Address a6(b);
                HWAddress<6> hw(b);
                std::string t = a4.to_string() + "|" + a6.to_string() + "|" + hw.to_string();
                acc = hash_mix(acc, hash_str(t));
                acc = hash_mix(acc, (uint32_t)IPv4Address(a4.to_string()) + IPv6Address(a6.to_string()).is_multicast());
            }
            break;
        }
        case 5: {   // checksums: serialisation of a small TCP/IPv4 and ICMPv6/IPv6 packet
            for (unsigned i = 0; i < n; ++i) {
                IP ip = IP("10.0.0.1", "10.0.0.2") / TCP(80, (uint16_t)(1024 + i)) / RawPDU(std::string(1 + (i + v) % 37, (char)('a' + i % 23)));
                Bytes y = ip.serialize();
                IPv6 i6 = IPv6("fe80::1", "fe80::2") / ICMPv6(ICMPv6::ECHO_REQUEST) / RawPDU(std::string(1 + (i + v) % 29, 'x'));
                Bytes z = i6.serialize();
                acc = hash_mix(acc, hash_bytes(y.data(), y.size()) ^ hash_bytes(z.data(), z.size()));
            }
            break;
        }
        default: {   // DNS names
            for (unsigned i = 0; i < n; ++i) {
                DNS d;
                std::string name = "h" + std::to_string(i + v) + ".example.org";
                d.add_query(DNS::query(name, DNS::A, DNS::IN));
                d.add_answer(DNS::resource(name, "1.2.3.4", DNS::A, DNS::IN, 60));
                Bytes y = d.serialize();
                DNS back(y.data(), (uint32_t)y.size());
                acc = hash_mix(acc, hash_bytes(y.data(), y.size()) + back.answers().size() + hash_str(back.queries().at(0).dname()));
                acc = hash_mix(acc, hash_str(DNS::encode_domain_name(name)));
            }
            break;
        }
    }
    ctx.result(acc);
    ctx.hash(op);
    ctx.label("micro-op-" + std::to_string(op));
    ctx.nontrivial(true);
}
}  // namespace micro

const char* const PROP_ID = "C18";
const size_t PROP_MAXLEN_QUICK = 96;
const size_t PROP_MAXLEN_THOROUGH = 128;

namespace {

struct Sub {
    const char* id;
    void (*fn)(Src&, Ctx&);
    void (*setup)(Ctx&);
    size_t maxlen;
    const char* corpus;  // committed seed directory or null
    std::vector<std::vector<uint8_t> > seeds;
};

void no_setup(Ctx&) {}
void w14_setup(Ctx& c) { w14::prop_setup(c); }

std::vector<Sub>& subs() {
    static std::vector<Sub> S = {
        {"C01", w01::prop, no_setup, 512, "corpus/C01", {}},
        {"C02", w02::prop, no_setup, 512, "corpus/C02", {}},
        {"C03", w03::prop, no_setup, 512, "corpus/C03", {}},
        {"C06", w06::prop, w06::prop_setup, 256, nullptr, {}},
        {"C10", w10::prop, no_setup, 400, "corpus/C10", {}},
        {"C12", w12::prop, no_setup, 300, nullptr, {}},
        {"C16", w16::prop, no_setup, 96, nullptr, {}},
        {"C08", w08::prop, no_setup, 400, nullptr, {}},
        {"C09", w09::prop, w09::prop_setup, 300, nullptr, {}},
        {"C19", w19::prop, w19::prop_setup, 200, nullptr, {}},
        {"C07", w07::prop, w07::prop_setup, 400, nullptr, {}},
        {"C14", w14::prop, w14_setup, 300, "corpus/C14", {}},
        {"C04", w04::prop, no_setup, 400, nullptr, {}},
        {"C05", w05::prop, w05::prop_setup, 400, nullptr, {}},
        {"C11", w11::prop, w11::prop_setup, 300, "corpus/C11", {}},
        {"C15", w15::prop, w15::prop_setup, 200, nullptr, {}},
        {"C17", w17::prop, no_setup, 600, nullptr, {}},
        {"MICRO", micro::prop, no_setup, 3, nullptr, {}},
    };
    return S;
}

struct Rng {
    uint64_t s;
    explicit Rng(uint64_t seed) : s(seed * 0x9e3779b97f4a7c15ULL + 0x1234567) {}
    uint64_t next() { s ^= s << 13; s ^= s >> 7; s ^= s << 17; return s * 0x2545F4914F6CDD1DULL; }
    uint64_t below(uint64_t n) { return n ? next() % n : 0; }
};

// the bytes of one sub-case: a pure function of (seed, index)
std::vector<uint8_t> sub_case_bytes(const Sub& sub, Rng& r) {
    std::vector<uint8_t> b;
    if (!sub.seeds.empty() && r.below(100) < 60) {
        b = sub.seeds[r.below(sub.seeds.size())];
        unsigned m = (unsigned)r.below(4);
        for (unsigned i = 0; i < m && !b.empty(); ++i) b[r.below(b.size())] = (uint8_t)r.next();
        if (b.size() > sub.maxlen) b.resize(sub.maxlen);
        return b;
    }
    size_t n = r.below(r.below(3) ? 64 : sub.maxlen + 1);
    b.resize(n);
    for (size_t i = 0; i < n; ++i) b[i] = (uint8_t)(r.below(10) < 3 ? r.below(4) : r.next());
    return b;
}

struct Work {
    std::vector<unsigned> which;                      // sub-property per case
    std::vector<std::vector<uint8_t> > bytes;
    std::vector<uint64_t> solo, conc;                 // fingerprints
};

uint64_t run_sub(const Sub& sub, const std::vector<uint8_t>& b, Ctx& c) {
    Src s(b.data(), b.size());
    c.begin_case();
    uint64_t d;
    try {
        sub.fn(s, c);
        d = c.case_digest();
    } catch (const PropFail& f) {
        d = hash_mix(hash_str(f.sig), 0xfa11);   // an oracle failure of the sub-property is part of the result, not C18's verdict
    } catch (const std::exception& e) {
        d = hash_mix(hash_str(typeid(e).name()), 0xe5c);
    }
    c.abandon_case();
    return d;
}

}  // namespace

void prop_setup(Ctx& ctx) {
    for (Sub& sub : subs()) {
        sub.setup(ctx);
        if (!sub.corpus) continue;
        std::string dir = std::string("/verif/") + sub.corpus;
        std::vector<std::string> names;
        if (DIR* d = opendir(dir.c_str())) {
            while (dirent* de = readdir(d)) if (de->d_name[0] != '.') names.push_back(de->d_name);
            closedir(d);
        }
        std::sort(names.begin(), names.end());
        for (const std::string& n : names) {
            FILE* f = fopen((dir + "/" + n).c_str(), "rb");
            if (!f) continue;
            std::vector<uint8_t> b(4096);
            size_t got = fread(b.data(), 1, b.size(), f);
            fclose(f);
            b.resize(got);
            if (got <= sub.maxlen) sub.seeds.push_back(b);
        }
    }
}

void prop(Src& s, Ctx& ctx) {
    static const unsigned K[] = {2, 4, 8, 16};
    unsigned k = K[s.u8() % 4];
    unsigned per_thread = 100 + (unsigned)s.range(0, ctx.tier ? 400 : 100);
    uint64_t seed = s.u64();
    unsigned yield_mask = s.u8();
    std::vector<Sub>& S = subs();
    // every thread gets a mix dominated by one property, so that different properties overlap in time
    std::vector<Work> work(k);
    std::string desc = "threads=" + std::to_string(k) + " cases/thread=" + std::to_string(per_thread) + " seed=" + std::to_string(seed) + " main:";
    for (unsigned t = 0; t < k; ++t) {
        Rng r(seed + t * 7919);
        unsigned main_sub = (unsigned)((s.u8() + t) % S.size());
        desc += std::string(" ") + S[main_sub].id;
        for (unsigned i = 0; i < per_thread; ++i) {
            unsigned w = r.below(100) < 70 ? main_sub : (unsigned)r.below(S.size());
            work[t].which.push_back(w);
            work[t].bytes.push_back(sub_case_bytes(S[w], r));
        }
    }
    if (ctx.logging()) ctx.log(desc);
    // Every configuration runs in a freshly forked child so that libtins' lazily initialised state (if any) is COLD
    // when the threads start: the concurrent pass comes first, the single-threaded reference pass second.
    int out_pipe[2], err_pipe[2];
    if (pipe(out_pipe) != 0 || pipe(err_pipe) != 0) { ctx.excluded("pipe-failed"); return; }
    fflush(nullptr);
    pid_t child = fork();
    if (child == 0) {
        close(out_pipe[0]); close(err_pipe[0]);
        dup2(err_pipe[1], 2);
        std::string verdict;
        {
            std::atomic<unsigned> ready(0);
            std::atomic<bool> go(false);
            std::vector<std::thread> threads;
            for (unsigned t = 0; t < k; ++t) {
                threads.emplace_back([&, t]() {
                    Ctx local;
                    local.tier = ctx.tier;
                    Work& w = work[t];
                    w.conc.reserve(w.which.size());
                    ready.fetch_add(1);
                    while (!go.load()) sched_yield();
                    for (size_t i = 0; i < w.which.size(); ++i) {
                        w.conc.push_back(run_sub(S[w.which[i]], w.bytes[i], local));
                        if (((i * 2654435761u + t) & 0xff) < yield_mask) sched_yield();
                    }
                });
            }
            while (ready.load() < k) sched_yield();
            go.store(true);
            for (std::thread& th : threads) th.join();
        }
        {
            Ctx local;
            local.tier = ctx.tier;
            for (Work& w : work)
                for (size_t i = 0; i < w.which.size(); ++i) w.solo.push_back(run_sub(S[w.which[i]], w.bytes[i], local));
        }
        for (unsigned t = 0; t < k && verdict.empty(); ++t) {
            Work& w = work[t];
            for (size_t i = 0; i < w.which.size(); ++i) {
                if (w.solo[i] != w.conc[i]) {
                    std::ostringstream os;
                    os << S[w.which[i]].id << "\nthread " << t << " case " << i << " (" << S[w.which[i]].id << ", input " << hex(w.bytes[i], 200) << "): fingerprint "
                       << w.conc[i] << " when run with " << (k - 1) << " other threads, " << w.solo[i] << " when run alone";
                    verdict = os.str();
                    break;
                }
            }
        }
        if (!verdict.empty()) { ssize_t wr = write(out_pipe[1], verdict.data(), verdict.size()); (void)wr; }
        _exit(0);
    }
    close(out_pipe[1]); close(err_pipe[1]);
    std::string verdict, err;
    {
        // drain both pipes (stderr can be large: read it while the child runs)
        char buf[4096];
        bool o_open = true, e_open = true;
        while (o_open || e_open) {
            fd_set rf;
            FD_ZERO(&rf);
            int mx = 0;
            if (o_open) { FD_SET(out_pipe[0], &rf); mx = std::max(mx, out_pipe[0]); }
            if (e_open) { FD_SET(err_pipe[0], &rf); mx = std::max(mx, err_pipe[0]); }
            if (select(mx + 1, &rf, nullptr, nullptr, nullptr) < 0) break;
            if (o_open && FD_ISSET(out_pipe[0], &rf)) { ssize_t n = read(out_pipe[0], buf, sizeof buf); if (n <= 0) o_open = false; else verdict.append(buf, (size_t)n); }
            if (e_open && FD_ISSET(err_pipe[0], &rf)) { ssize_t n = read(err_pipe[0], buf, sizeof buf); if (n <= 0) e_open = false; else if (err.size() < (1u << 20)) err.append(buf, (size_t)n); }
        }
        close(out_pipe[0]); close(err_pipe[0]);
    }
    int status = 0;
    waitpid(child, &status, 0);
    if (!err.empty()) fputs(err.c_str(), stderr);
    if (!WIFEXITED(status) || WEXITSTATUS(status) != 0 || err.find("ThreadSanitizer") != std::string::npos) {
        // name the first libtins function in the report
        std::string where = "?";
        size_t pos = err.find(" Tins::");  // TSan frames read "#N function file:line"
        if (pos != std::string::npos) { size_t e2 = err.find_first_of(" (", pos + 1); where = err.substr(pos + 1, e2 - pos - 1); }
        std::string kind = err.find("data race") != std::string::npos ? "data-race" : (err.find("ThreadSanitizer") != std::string::npos ? "report" : "child-died");
        VFAIL(ctx, "C18:tsan:" + kind + ":" + where, "the concurrent run " << (WIFEXITED(status) ? "exited with status " + std::to_string(WEXITSTATUS(status)) : std::string("was killed by a signal"))
                                                                       << "; first lines of its report: " << err.substr(0, 1500) << " | " << desc);
    }
    if (!verdict.empty()) {
        size_t nl = verdict.find('\n');
        VFAIL(ctx, "C18:result-differs-under-concurrency:" + verdict.substr(0, nl), verdict.substr(nl + 1) << " | " << desc);
    }
    std::set<unsigned> mains;
    for (Work& w : work) for (unsigned x : w.which) mains.insert(x);
    ctx.hash(k); ctx.hash(seed); ctx.hash(per_thread);
    ctx.label("threads=" + std::to_string(k));
    ctx.nontrivial(k >= 2 && per_thread >= 100 && mains.size() >= 2);
    ctx.sample(desc);
}
