// C06 — TCP stream reassembly delivers exactly the sent byte stream.
//
// One generated case = (stream s, ISN, arrival schedule of segments (off,len) over s).  The same schedule is fed to
//   1. Tins::TCPIP::DataTracker directly                       (tag C06:DataTracker)
//   2. Tins::TCPIP::Flow through process_packet with IP|IPv6/TCP/RawPDU packets, data + out-of-order callbacks (C06:Flow)
//   3. the legacy Tins::TCPStreamFollower / TCPStream           (C06:TCPStream, delivery clauses only)
// Oracle (after EVERY step): reference model = boolean arrival map over s, k = longest covered prefix:
//   delivered == s[0:k]  (nothing missing, nothing early, nothing twice, nothing misplaced)
//   sequence_number() == ISN+1+k  (mod 2^32)
//   every buffered chunk starts strictly after the delivery point (serial arithmetic), is a sub-slice of s at its key
//   total_buffered_bytes() == sum of the sizes of the buffered chunks
// The model shares no code with libtins: positions are plain 64-bit offsets into s, sequence numbers appear only
// when a segment is handed to the system under test.
#include "../engine/src.h"
#include <tins/tcp_ip/data_tracker.h>
#include <tins/tcp_ip/flow.h>
#include <tins/tcp_stream.h>
#include <tins/ip.h>
#include <tins/ipv6.h>
#include <tins/tcp.h>
#include <tins/rawpdu.h>
#include <tins/exceptions.h>
#include <algorithm>
#include <cstdio>
#include <memory>

using namespace verif;
using namespace Tins;

const char* const PROP_ID = "C06";
const size_t PROP_MAXLEN_QUICK = 512;
const size_t PROP_MAXLEN_THOROUGH = 4096;

typedef std::vector<uint8_t> Bytes;

// ---------------------------------------------------------------- the case
struct Seg {
    int64_t off;    // position of the first byte relative to the first stream byte (sequence number ISN+1); < 0: before the ISN
    uint32_t len;
    int edge;       // >= 0: off is fixed up when the segment arrives so that it starts exactly 2^31-1-edge behind the delivery point
    Seg(int64_t o = 0, uint32_t l = 0, int e = -1) : off(o), len(l), edge(e) {}
    int64_t end() const { return off + (int64_t)len; }
};

struct Case {
    uint32_t isn = 0, seq0 = 1;   // seq0 = ISN+1 = sequence number of s[0]
    uint32_t n = 0;               // |s|
    uint8_t salt = 0;
    bool consume = false;         // the application empties payload() inside the data callback
    bool trk_setter = false;      // DataTracker(): default construct + sequence_number(seq0) instead of DataTracker(seq0)
    bool flow_syn = false;        // Flow learns the sequence number from a SYN (seq = ISN) instead of its constructor
    bool flow_v6 = false;         // Flow over IPv6
    bool legacy_server = false;   // legacy follower: the stream is the server->client direction
    bool wire = false;            // packets are serialised and re-parsed before they are processed (Flow, legacy)
    const char* mode = "structured";
    const char* order = "listed";
    std::vector<Seg> segs;        // arrival order
    int dup_hs_at = -1;           // a retransmitted handshake packet (SYN / SYN+ACK, same ISN) arrives before this step (-1: never)
};

// position dependent content; defined for negative positions too (bytes "before the ISN")
static inline uint8_t content(int64_t pos, uint8_t salt) {
    uint64_t x = (uint64_t)(pos + 0x100000000LL) * 0x9E3779B97F4A7C15ULL;
    x ^= x >> 29;
    x *= 0xBF58476D1CE4E5B9ULL;
    return (uint8_t)((x >> 40) ^ salt);
}

static Bytes seg_bytes(const Case& c, const Seg& g) {
    Bytes b(g.len);
    for (uint32_t i = 0; i < g.len; ++i) b[i] = content(g.off + i, c.salt);
    return b;
}

static std::string describe(const Case& c, size_t upto = (size_t)-1) {
    std::ostringstream o;
    char buf[64];
    snprintf(buf, sizeof buf, "isn=0x%08x seq0=0x%08x", c.isn, c.seq0);
    o << buf << " n=" << c.n << " mode=" << c.mode << " order=" << c.order << (c.consume ? " consume" : "") << (c.trk_setter ? " trk-setter" : "")
      << (c.flow_syn ? " flow-syn" : "") << (c.flow_v6 ? " v6" : "") << (c.legacy_server ? " legacy-server-dir" : "") << (c.wire ? " wire" : "")
      << " segs(off,len)=[";
    size_t lim = std::min(c.segs.size(), upto == (size_t)-1 ? (size_t)48 : upto + 1);
    size_t from = lim > 48 ? lim - 48 : 0;
    if (from) o << "...";
    for (size_t i = from; i < lim; ++i) o << "(" << c.segs[i].off << "," << c.segs[i].len << ")";
    if (lim < c.segs.size()) o << "... " << c.segs.size() << " in total";
    o << "]";
    return o.str();
}

// ---------------------------------------------------------------- reference model
struct Model {
    Bytes s;
    std::vector<char> arrived;
    uint32_t k = 0;
    explicit Model(const Case& c) : s(c.n), arrived(c.n, 0) {
        for (uint32_t i = 0; i < c.n; ++i) s[i] = content(i, c.salt);
    }
    // returns true if some byte of the segment had arrived before
    bool arrive(const Seg& g) {
        bool overlap = false;
        int64_t a = std::max<int64_t>(g.off, 0), b = std::min<int64_t>(g.end(), (int64_t)s.size());
        for (int64_t p = a; p < b; ++p) {
            if (arrived[(size_t)p]) overlap = true;
            arrived[(size_t)p] = 1;
        }
        while (k < s.size() && arrived[k]) ++k;
        return overlap;
    }
};

struct Plan {
    std::vector<uint32_t> k_after;   // longest covered prefix after step i
    Bytes s;
};

// ---------------------------------------------------------------- generator helpers
static uint32_t gen_isn(Src& s, uint32_t n) {
    // value returned is seq0 = ISN+1 (the sequence number of the first stream byte)
    switch (s.weighted({6, 7, 3, 2, 2})) {
        default:
        case 0: return s.u32();
        case 1: return (uint32_t)(0u - (uint32_t)s.range(0, (uint64_t)n + 2));            // 2^32 falls inside (or right next to) the stream
        case 2: return (uint32_t)(0x100000000ULL - 70000 + s.range(0, 140000));            // within +-70000 of 2^32
        case 3: return (uint32_t)(0x80000000u - (uint32_t)s.range(0, (uint64_t)n + 2));    // sign boundary of the serial comparison
        case 4: {
            static const uint32_t E[] = {0, 1, 2, 0xffffffffu, 0xfffffffeu, 0x7fffffffu, 0x80000000u, 0x80000001u};
            return E[s.pick(8)];
        }
    }
}

static void decode_cfg(uint8_t cfg, Case& c) {
    c.consume = cfg & 1;
    c.trk_setter = cfg & 2;
    c.flow_syn = cfg & 4;
    c.flow_v6 = cfg & 8;
    c.legacy_server = cfg & 16;
    c.wire = (cfg & 0x60) == 0x60;
}

// literal mode: tiny stream, one byte per segment (start nibble, length nibble), arrival order = listed order
static void decode_literal(Src& s, Case& c) {
    c.mode = "literal";
    uint8_t cfg = s.u8();
    decode_cfg(cfg, c);
    c.salt = (uint8_t)(cfg * 29u);
    uint8_t v = s.u8();
    c.n = (uint32_t)s.range(0, 12);
    uint32_t P = (uint32_t)s.range(0, 3);   // bytes of "pre-history" before the ISN that segments may carry
    if (v < 0x60) c.seq0 = gen_isn(s, c.n);
    else c.seq0 = (uint32_t)(0u - (uint32_t)(v % 16));   // 2^32 at stream position 0..15
    c.isn = c.seq0 - 1;
    uint32_t E = c.n + P;
    unsigned cnt = (unsigned)s.range(0, 63);
    for (unsigned i = 0; i < cnt && !s.exhausted(); ++i) {
        uint8_t b = s.u8();
        uint32_t start = (b >> 4) % (E + 1), len = std::min<uint32_t>(b & 15, E - start);
        c.segs.push_back(Seg{(int64_t)start - (int64_t)P, len});
    }
}

static Seg clip(int64_t a, int64_t b, uint32_t n) {
    if (a > b) std::swap(a, b);
    a = std::max<int64_t>(0, std::min<int64_t>(a, n));
    b = std::max<int64_t>(0, std::min<int64_t>(b, n));
    return Seg{a, (uint32_t)(b - a)};
}

static void decode_structured(Src& s, Case& c, Ctx& ctx) {
    c.mode = "structured";
    decode_cfg(s.u8(), c);
    c.salt = s.u8();
    const uint32_t NMAX = ctx.tier ? 65536 : 4096;
    const size_t MAXSEG = ctx.tier ? 512 : 64;
    // all selectors first: short choice sequences still reach every order / segmentation class
    const unsigned n_sel = (unsigned)s.weighted({4, 3, 2, 1});
    const unsigned order_sel = (unsigned)s.weighted({2, 2, 2, 5, 2, 4, 2, 2, 2});
    const unsigned extra_sel = (unsigned)s.weighted({2, 3, 3, 2});
    const unsigned mss_sel = (unsigned)s.weighted({3, 3, 2, 1, 1});
    const bool variable = s.boolean();
    const bool lossy = s.chance(20);
    switch (n_sel) {
        default:
        case 0: c.n = (uint32_t)s.range(0, 40); break;
        case 1: c.n = (uint32_t)s.range(0, 600); break;
        case 2: c.n = (uint32_t)s.range(0, 4096); break;
        case 3: c.n = (uint32_t)s.range(0, NMAX); break;
    }
    const uint32_t n = c.n;
    c.seq0 = gen_isn(s, n);
    c.isn = c.seq0 - 1;

    // ---- base segmentation
    uint32_t mss;
    switch (mss_sel) {
        default:
        case 0: mss = 1 + (uint32_t)s.range(0, 7); break;
        case 1: mss = 1 + (uint32_t)s.range(0, 63); break;
        case 2: mss = 1 + (uint32_t)s.range(0, 1459); break;
        case 3: mss = std::max<uint32_t>(n, 1); break;
        case 4: mss = 5; break;   // the shape used by the unit tests
    }
    const size_t maxbase = MAXSEG / 2;
    {
        uint32_t need = (uint32_t)((n + maxbase / 2 - 1) / (maxbase / 2));
        if (mss < need) mss = need;
    }
    std::vector<Seg> base;
    for (uint32_t pos = 0; pos < n;) {
        uint32_t len = variable ? mss - (uint32_t)s.range(0, mss - 1) : mss;
        if (len > n - pos || base.size() + 1 >= maxbase) len = n - pos;
        base.push_back(Seg{(int64_t)pos, len});
        pos += len;
    }
    std::vector<Seg> list;   // generation order
    std::vector<char> is_base;
    for (const Seg& g : base) {
        if (lossy && s.chance(15)) continue;   // lost for good (unless a retransmission covers it)
        list.push_back(g);
        is_base.push_back(1);
    }
    if (lossy) ctx.label("gen:lossy");

    // ---- retransmissions, overlaps, supersets, ...
    size_t maxextra = MAXSEG / 2;
    size_t nex;
    switch (extra_sel) {
        default:
        case 0: nex = 0; break;
        case 1: nex = 1 + (size_t)s.range(0, 2); break;
        case 2: nex = 2 + (size_t)s.range(0, 8); break;
        case 3: nex = (size_t)s.range(0, maxextra); break;
    }
    const uint32_t w = std::max<uint32_t>(1, std::min<uint32_t>(mss, 32));
    for (size_t x = 0; x < nex; ++x) {
        Src e = s.sub();
        Seg g{0, 0};
        unsigned kind = (unsigned)e.weighted({3, 3, 3, 3, 2, 1, 2, 2, 2});
        switch (kind) {
            default:
            case 0: {  // retransmission with different boundaries
                uint32_t off = (uint32_t)e.range(0, n);
                uint32_t maxl = std::min<uint32_t>(n - off, 2 * mss + 2);
                g = Seg{(int64_t)off, (uint32_t)e.range(0, maxl)};
                break;
            }
            case 1: {  // overlap straddling a boundary of the base segmentation
                int64_t b = base.empty() ? 0 : base[e.pick(base.size())].off;
                if (b == 0 && !base.empty()) b = base[0].end();
                g = clip(b - 1 - (int64_t)e.range(0, w - 1), b + 1 + (int64_t)e.range(0, w - 1), n);
                break;
            }
            case 2: {  // superset covering several base segments
                if (base.empty()) break;
                size_t j = e.pick(base.size());
                size_t j2 = std::min(base.size() - 1, j + 1 + (size_t)e.range(0, 5));
                g = clip(base[j].off - (int64_t)e.range(0, 2), base[j2].end() + (int64_t)e.range(0, 2), n);
                break;
            }
            case 3: {  // same start as an existing segment, different length
                if (list.empty()) break;
                const Seg& o = list[e.pick(list.size())];
                if (o.off < 0) { g = o; break; }
                uint32_t room = n - (uint32_t)o.end();
                if (o.len > 0 && (room == 0 || e.boolean())) g = Seg{o.off, (uint32_t)e.range(0, o.len - 1)};                     // shorter
                else g = Seg{o.off, o.len + (room ? 1 + (uint32_t)e.range(0, std::min<uint32_t>(room - 1, 2 * mss)) : 0)};       // longer
                break;
            }
            case 4: {  // exact duplicate
                if (list.empty()) break;
                g = list[e.pick(list.size())];
                break;
            }
            case 5: {  // zero length
                if (!base.empty() && e.boolean()) g = Seg{base[e.pick(base.size())].off, 0};
                else g = Seg{(int64_t)e.range(0, n), 0};
                break;
            }
            case 6: {  // starts before the ISN: entirely before it, ending exactly at it, or reaching into the stream
                uint64_t d;
                // the start stays within half the sequence space (distance < 2^31) of every later delivery point
                const uint64_t far_max = 0x7fffffffULL - n;
                int edge = -1;
                switch (e.weighted({3, 2, 2, 1})) {
                    default:
                    case 0: d = 1 + e.range(0, 15); break;
                    case 1: d = 1 + e.range(0, 69999); break;
                    case 2: d = 1 + e.range(0, far_max - 1); break;
                    case 3: edge = (int)e.range(0, 3); d = far_max - (uint64_t)edge; break;   // at the edge of the half space, see fix_edges()
                }
                if (edge >= 0) { g = Seg{-(int64_t)d, (uint32_t)e.range(0, 64), edge}; break; }
                const uint64_t lmax = ctx.tier ? 65535 : 4096;
                switch (e.weighted({3, 2, 2})) {
                    default:
                    case 0: g = Seg{-(int64_t)d, (uint32_t)e.range(0, std::min<uint64_t>(d - 1, 64))}; break;          // ends before the ISN
                    case 1: g = Seg{-(int64_t)d, (uint32_t)std::min<uint64_t>(d, lmax)}; break;                        // ends exactly at seq0 (if short enough)
                    case 2: g = Seg{-(int64_t)d, (uint32_t)std::min<uint64_t>(d + e.range(0, std::min<uint32_t>(n, 2 * mss)), lmax)}; break;
                }
                break;
            }
            case 7: {  // strictly inside an existing segment
                if (list.empty()) break;
                const Seg& o = list[e.pick(list.size())];
                if (o.len == 0 || o.off < 0) { g = o; break; }
                uint32_t a = (uint32_t)e.range(0, o.len - 1);
                g = Seg{o.off + a, (uint32_t)e.range(0, o.len - a)};
                break;
            }
            case 8: {  // starts inside an existing segment and reaches beyond its end
                if (list.empty()) break;
                const Seg& o = list[e.pick(list.size())];
                if (o.off < 0) { g = o; break; }
                g = clip(o.off + (int64_t)e.range(0, o.len), o.end() + 1 + (int64_t)e.range(0, 2 * w), n);
                break;
            }
        }
        list.push_back(g);
        is_base.push_back(0);
    }

    // ---- arrival order
    const size_t m = list.size();
    std::vector<size_t> sorted(m);
    for (size_t i = 0; i < m; ++i) sorted[i] = i;
    std::stable_sort(sorted.begin(), sorted.end(), [&](size_t a, size_t b) { return list[a].off < list[b].off; });
    std::vector<size_t> ord;
    switch (order_sel) {
        default:
        case 0: c.order = "in-order"; ord = sorted; break;
        case 1: {
            c.order = "swap-k";
            ord = sorted;
            size_t k = 2 + (size_t)s.range(0, 3);
            for (size_t i = k - 1; i < m; i += k) std::swap(ord[i - 1], ord[i]);
            break;
        }
        case 2: c.order = "reverse"; ord.assign(sorted.rbegin(), sorted.rend()); break;
        case 3: {
            c.order = "shuffle";
            ord = sorted;
            for (size_t i = m; i > 1; --i) std::swap(ord[i - 1], ord[s.pick(i)]);
            break;
        }
        case 4: {
            c.order = "last-first";
            ord = sorted;
            if (m > 1) std::rotate(ord.begin(), ord.end() - 1, ord.end());
            break;
        }
        case 5: {
            // every segment covering one chosen stream byte (mostly byte 0) is held back: what lies behind it is buffered,
            // the extras arrive while the chunks they overlap are still buffered, then the held-back segments arrive
            // and one call drains the lot
            c.order = "hole-filled-last";
            int64_t hp = (base.empty() || s.chance(70)) ? 0 : base[s.pick(base.size())].off;
            std::vector<size_t> heldv;
            for (size_t i = 0; i < m; ++i) {
                if (list[i].off <= hp && list[i].end() > hp) heldv.push_back(i);
                else ord.push_back(i);     // generation order: base in order, then the extras
            }
            if (s.boolean()) std::reverse(heldv.begin(), heldv.end());
            ord.insert(ord.end(), heldv.begin(), heldv.end());
            break;
        }
        case 6: c.order = "generation"; for (size_t i = 0; i < m; ++i) ord.push_back(i); break;   // base in order, extras afterwards
        case 7: {
            c.order = "window-shuffle";
            ord = sorted;
            size_t wd = 2 + (size_t)s.range(0, 4);
            for (size_t i = 0; i + 1 < m; ++i) std::swap(ord[i], ord[std::min(m - 1, i + (size_t)s.range(0, wd))]);
            break;
        }
        case 8: {
            c.order = "rotate";
            ord = sorted;
            if (m > 1) std::rotate(ord.begin(), ord.begin() + (long)s.pick(m), ord.end());
            break;
        }
    }
    for (size_t i : ord) c.segs.push_back(list[i]);
}

// segments marked "edge" are placed relative to the delivery point at the moment they arrive: their first byte is exactly
// 2^31-1-edge behind it, the largest distances the half-space condition of the statement admits (they end far before the
// delivery point, so they are ignored on arrival and later delivery points do not matter)
static void fix_edges(Case& c) {
    bool any = false;
    for (const Seg& g : c.segs) if (g.edge >= 0) any = true;
    if (!any) return;
    Model m(c);
    for (Seg& g : c.segs) {
        if (g.edge >= 0) g.off = (int64_t)m.k - (0x7fffffffLL - g.edge);
        m.arrive(g);
    }
}

// ---------------------------------------------------------------- plan + classification of the case
static Plan make_plan(const Case& c, Ctx& ctx) {
    Plan p;
    Model m(c);
    p.s = m.s;
    const size_t steps = c.segs.size();
    p.k_after.resize(steps);
    unsigned ooo = 0, overlap_diff = 0;
    const uint64_t wrap_pos = (uint64_t)(0u - c.seq0);   // stream position whose sequence number is 0 (0 when seq0 == 0)
    if (wrap_pos > 0 && wrap_pos <= c.n) ctx.label("wrap");
    if (wrap_pos > 0 && wrap_pos < c.n) ctx.label("wrap-strictly-inside-stream");
    {
        uint64_t sign_pos = (uint64_t)(0x80000000u - c.seq0);
        if (sign_pos > 0 && sign_pos <= c.n) ctx.label("crosses-2^31");
    }
    for (size_t i = 0; i < steps; ++i) {
        const Seg& g = c.segs[i];
        const uint32_t kb = m.k;
        bool dup = false, eqstart = false;
        unsigned covered = 0, drained = 0;
        bool slice = false;
        for (size_t j = 0; j < i; ++j) {
            const Seg& o = c.segs[j];
            if (o.off == g.off && o.len == g.len) dup = true;
            if (o.len == 0) continue;
            if (o.off > (int64_t)kb) {   // o was buffered and (a version of it) still is
                if (o.off == g.off && o.len != g.len && g.len > 0) eqstart = true;
                if (g.off > (int64_t)kb && g.off <= o.off && o.end() <= g.end() && !(o.off == g.off && o.len == g.len)) covered++;
            }
        }
        bool overlap = m.arrive(g);
        const uint32_t ka = m.k;
        p.k_after[i] = ka;
        if (g.len == 0) {
            ctx.label("zero-length");
            if (g.off > (int64_t)kb) ctx.label("zero-length-buffered");
        } else if (g.off < 0) {
            ctx.label("pre-isn");
            if (g.end() < 0) ctx.label("pre-isn-ends-before-isn");
            else if (g.end() == 0) ctx.label("pre-isn-ends-at-isn");
            else ctx.label("pre-isn-reaches-into-stream");
            if (-g.off > 0x40000000LL) ctx.label("pre-isn-far");
            if (-g.off + (int64_t)kb >= 0x7fffffffLL - 3) ctx.label("pre-isn-at-edge-of-half-space");
        }
        if (g.len > 0) {
            if (g.off > (int64_t)kb) ooo++;
            if (g.end() <= (int64_t)kb && g.off >= 0) ctx.label("stale");
            if (g.end() == (int64_t)kb && kb > 0) ctx.label("stale-ends-at-delivery-point");
            if (g.off < (int64_t)kb && g.end() > (int64_t)kb) ctx.label("straddles-delivery-point");
            if (dup) ctx.label("duplicate");
            if (overlap && !dup) overlap_diff++;
            if (eqstart) ctx.label("equal-start");
            if (covered >= 2) ctx.label("superset-covers-many");
        }
        if (ka > kb) {
            // chunks that were waiting in the buffer and are consumed (or discarded) by this call
            const int64_t x = std::max<int64_t>(kb, g.off <= (int64_t)kb ? g.end() : kb);   // delivery point after the arriving segment alone
            for (size_t j = 0; j < i; ++j) {
                const Seg& o = c.segs[j];
                if (o.len == 0 || o.off <= (int64_t)kb) continue;
                if (o.off <= (int64_t)ka) drained++;
                if (o.off < x && o.end() > x) slice = true;
            }
            if (drained >= 1) ctx.label("drain");
            if (drained >= 3) ctx.label("drain-many");
            if (slice) ctx.label("drain-slice");
            if (wrap_pos > 0 && kb < wrap_pos && wrap_pos <= ka && drained >= 1) ctx.label("drain-across-wrap");
        }
    }
    if (ooo) ctx.label("out-of-order");
    if (overlap_diff) ctx.label("overlap-different-boundaries");
    if (m.k < c.n) ctx.label("holes-at-end");
    if (m.k == c.n && c.n > 0) ctx.label("complete");
    ctx.nontrivial(ooo >= 1 && overlap_diff >= 1);
    return p;
}

// ---------------------------------------------------------------- oracle pieces
static void check_delivered(Ctx& ctx, const std::string& tag, const uint8_t* d, size_t dn, const Plan& p, uint32_t k, const Case& c, size_t step) {
    size_t common = std::min<size_t>(dn, k);
    if (common && memcmp(d, p.s.data(), common) != 0) {
        size_t at = 0;
        while (at < common && d[at] == p.s[at]) ++at;
        VCHECK(ctx, false, tag + ":delivered-not-prefix", "step " << step << ": delivered byte " << at << " is 0x" << hex(d + at, 1) << ", the stream has 0x" << hex(&p.s[at], 1)
                                                                    << " (delivered " << dn << " bytes, covered prefix " << k << "); " << describe(c, step));
    }
    VCHECK(ctx, dn >= k, tag + ":delivered-missing", "step " << step << ": bytes [0," << k << ") have all arrived but only " << dn << " were handed to the application; " << describe(c, step));
    VCHECK(ctx, dn <= k, tag + ":delivered-more-than-arrived-prefix", "step " << step << ": " << dn << " bytes handed to the application but the contiguous arrived prefix is " << k
                                                                             << " (delivered early or twice); " << describe(c, step));
}

// buffer clauses; T = DataTracker or Flow. Returns true if the buffer holds chunks on both sides of 2^32.
template <class T>
static bool check_buffer(Ctx& ctx, const std::string& tag, const T& t, const Plan& p, uint32_t k, const Case& c, size_t step) {
    const uint32_t expect = c.seq0 + k;
    VCHECK(ctx, t.sequence_number() == expect, tag + ":sequence-number", "step " << step << ": sequence_number()=" << t.sequence_number() << " expected ISN+1+k=" << expect << " (k=" << k
                                                                                   << "); " << describe(c, step));
    uint64_t sum = 0;
    bool lo = false, hi = false;
    for (const auto& kv : t.buffered_payload()) {
        const uint32_t rel = kv.first - expect;   // distance ahead of the delivery point, mod 2^32
        const size_t sz = kv.second.size();
        sum += sz;
        if (kv.first < c.seq0) lo = true; else hi = true;
        if (rel == 0 || rel >= 0x80000000u) {
            VCHECK(ctx, false, tag + ":chunk-at-or-below-delivery-point", "step " << step << ": buffered chunk key=" << kv.first << " size=" << sz << " but the delivery point is " << expect
                                                                                   << "; " << describe(c, step));
            continue;
        }
        const uint64_t pos = (uint64_t)k + rel;
        if (pos + sz > c.n) {
            VCHECK(ctx, false, tag + ":chunk-not-slice-of-stream", "step " << step << ": buffered chunk at stream position " << pos << " size " << sz << " exceeds the stream (n=" << c.n
                                                                            << "); " << describe(c, step));
            continue;
        }
        if (sz && memcmp(kv.second.data(), p.s.data() + pos, sz) != 0) {
            VCHECK(ctx, false, tag + ":chunk-not-slice-of-stream", "step " << step << ": buffered chunk at stream position " << pos << " size " << sz << " differs from the stream content; "
                                                                            << describe(c, step));
        }
    }
    VCHECK(ctx, (uint64_t)t.total_buffered_bytes() == sum, tag + ":total-buffered-bytes", "step " << step << ": total_buffered_bytes()=" << t.total_buffered_bytes()
                                                                                           << " but the chunks hold " << sum << " bytes in " << t.buffered_payload().size()
                                                                                           << " chunks; " << describe(c, step));
    return lo && hi;
}

template <class T>
static std::string buffer_text(const T& t) {
    std::ostringstream o;
    o << "seq=" << t.sequence_number() << " total_buffered=" << t.total_buffered_bytes() << " chunks={";
    for (const auto& kv : t.buffered_payload()) o << kv.first << ":" << kv.second.size() << " ";
    o << "}";
    return o.str();
}

// ---------------------------------------------------------------- system 1: DataTracker
static void run_tracker(const Case& c, const Plan& p, Ctx& ctx) {
    const std::string tag = "C06:DataTracker";
    std::unique_ptr<TCPIP::DataTracker> tp(c.trk_setter ? new TCPIP::DataTracker() : new TCPIP::DataTracker(c.seq0));
    TCPIP::DataTracker& t = *tp;
    if (c.trk_setter) t.sequence_number(c.seq0);
    Bytes seen;           // consume mode: what the application collected
    size_t notified = 0;  // keep mode: payload size the application was told about
    const uint32_t wrap_pos = 0u - c.seq0;
    bool was_across = false;
    for (size_t i = 0; i < c.segs.size(); ++i) {
        const Seg& g = c.segs[i];
        const uint32_t k = p.k_after[i];
        bool r = t.process_payload(c.seq0 + (uint32_t)g.off, seg_bytes(c, g));
        if (r) {
            if (c.consume) {
                seen.insert(seen.end(), t.payload().begin(), t.payload().end());
                t.payload().clear();
            } else notified = t.payload().size();
            if (k == (i ? p.k_after[i - 1] : 0)) ctx.label("returned-true-without-new-data");
        }
        if (ctx.logging()) {
            std::ostringstream o;
            o << "[DataTracker] step " << i << " seg(off=" << g.off << ",len=" << g.len << ") seq=" << (uint32_t)(c.seq0 + (uint32_t)g.off) << " -> returned " << r << " model k=" << k << " | "
              << buffer_text(t) << " payload=" << t.payload().size();
            ctx.log(o.str());
        }
        if (c.consume) check_delivered(ctx, tag, seen.data(), seen.size(), p, k, c, i);
        else {
            check_delivered(ctx, tag, t.payload().data(), t.payload().size(), p, k, c, i);
            VCHECK(ctx, notified == t.payload().size(), tag + ":data-without-notification", "step " << i << ": payload() holds " << t.payload().size()
                                                                                              << " bytes but process_payload last returned true at " << notified << "; " << describe(c, i));
        }
        bool across = check_buffer(ctx, tag, t, p, k, c, i);
        if (across) ctx.label("buffered-across-wrap");
        if (was_across && wrap_pos && k >= wrap_pos && (i == 0 || p.k_after[i - 1] < wrap_pos)) ctx.label("drain-with-chunks-on-both-sides-of-wrap");
        was_across = across;
        if (!t.buffered_payload().empty() && t.buffered_payload().size() >= 8) ctx.label("buffered>=8-chunks");
    }
}

// ---------------------------------------------------------------- packets
static const uint16_t CPORT = 40123, SPORT = 80;

template <class IPT>
static std::unique_ptr<PDU> make_packet(const Case& c, const IPT& proto, uint16_t sport, uint16_t dport, uint32_t seq, uint32_t ack, unsigned flags, const Bytes* data, bool& wired) {
    std::unique_ptr<IPT> ip(new IPT(proto));
    TCP* tcp = new TCP(dport, sport);
    ip->inner_pdu(tcp);
    tcp->seq(seq);
    tcp->ack_seq(ack);
    tcp->flags((small_uint<12>)flags);
    wired = false;
    if (data && (!data->empty() || !c.wire)) tcp->inner_pdu(new RawPDU(data->data(), (uint32_t)data->size()));
    if (c.wire && (!data || data->size() <= 1400)) {
        // what a sniffer would hand over: serialise and parse again (an empty segment then has no RawPDU at all)
        Bytes buf = ip->serialize();
        wired = true;
        return std::unique_ptr<PDU>(new IPT(buf.data(), (uint32_t)buf.size()));
    }
    return std::unique_ptr<PDU>(ip.release());
}

// ---------------------------------------------------------------- system 2: Flow
template <class IPT>
static void run_flow_t(const Case& c, const Plan& p, Ctx& ctx, const IPT& proto, TCPIP::Flow& f) {
    const std::string tag = "C06:Flow";
    Bytes seen;
    size_t notified = 0;
    unsigned data_cb = 0, ooo_cb = 0;
    f.data_callback([&](TCPIP::Flow& fl) {
        ++data_cb;
        if (c.consume) {
            seen.insert(seen.end(), fl.payload().begin(), fl.payload().end());
            fl.payload().clear();
        } else notified = fl.payload().size();
    });
    f.out_of_order_callback([&](TCPIP::Flow&, uint32_t, const TCPIP::Flow::payload_type&) { ++ooo_cb; });
    bool wired;
    if (c.flow_syn) {
        std::unique_ptr<PDU> syn = make_packet(c, proto, CPORT, SPORT, c.isn, 0, TCP::SYN, nullptr, wired);
        f.process_packet(*syn);
        VCHECK(ctx, f.sequence_number() == c.seq0, tag + ":syn-sequence-number", "after a SYN with seq=" << c.isn << " sequence_number()=" << f.sequence_number());
    }
    for (size_t i = 0; i < c.segs.size(); ++i) {
        const Seg& g = c.segs[i];
        const uint32_t k = p.k_after[i];
        Bytes data = seg_bytes(c, g);
        if (c.flow_syn && c.dup_hs_at == (int)i) {
            std::unique_ptr<PDU> syn = make_packet(c, proto, CPORT, SPORT, c.isn, 0, TCP::SYN, nullptr, wired);
            f.process_packet(*syn);
            ctx.label("duplicate-syn-mid-stream");
        }
        std::unique_ptr<PDU> pkt = make_packet(c, proto, CPORT, SPORT, c.seq0 + (uint32_t)g.off, 1000, TCP::ACK | (g.len ? TCP::PSH : 0), &data, wired);
        if (wired) ctx.label("flow-wire-packet");
        f.process_packet(*pkt);
        if (ctx.logging()) {
            std::ostringstream o;
            o << "[Flow] step " << i << " seg(off=" << g.off << ",len=" << g.len << ") model k=" << k << " | " << buffer_text(f) << " payload=" << f.payload().size() << " data_cb=" << data_cb
              << " ooo_cb=" << ooo_cb;
            ctx.log(o.str());
        }
        if (c.consume) check_delivered(ctx, tag, seen.data(), seen.size(), p, k, c, i);
        else {
            check_delivered(ctx, tag, f.payload().data(), f.payload().size(), p, k, c, i);
            VCHECK(ctx, notified == f.payload().size(), tag + ":data-without-notification", "step " << i << ": payload() holds " << f.payload().size()
                                                                                              << " bytes but the data callback last saw " << notified << "; " << describe(c, i));
        }
        check_buffer(ctx, tag, f, p, k, c, i);
    }
    if (ooo_cb) ctx.label("flow-ooo-callback");
    if (data_cb) ctx.label("flow-data-callback");
}

static void run_flow(const Case& c, const Plan& p, Ctx& ctx) {
    const uint32_t ctor_seq = c.flow_syn ? (uint32_t)(c.seq0 ^ 0x5a5a1234u) : c.seq0;
    if (c.flow_v6) {
        IPv6 proto(IPv6Address("2001:db8::2"), IPv6Address("2001:db8::1"));
        TCPIP::Flow f(IPv6Address("2001:db8::2"), SPORT, ctor_seq);
        run_flow_t(c, p, ctx, proto, f);
    } else {
        IP proto(IPv4Address("10.0.0.2"), IPv4Address("10.0.0.1"));
        TCPIP::Flow f(IPv4Address("10.0.0.2"), SPORT, ctor_seq);
        run_flow_t(c, p, ctx, proto, f);
    }
}

// ---------------------------------------------------------------- system 3: legacy TCPStreamFollower
static void run_legacy(const Case& c, const Plan& p, Ctx& ctx) {
    const std::string tag = "C06:TCPStream";
    TCPStreamFollower follower;
    Bytes seen;
    size_t notified = 0;
    const TCPStream::payload_type* view = nullptr;   // payload of the followed direction (keep mode)
    const bool srv = c.legacy_server;
    auto on_data = [&](TCPStream& st) {
        TCPStream::payload_type& pl = srv ? st.server_payload() : st.client_payload();
        TCPStream::payload_type& other = srv ? st.client_payload() : st.server_payload();
        VCHECK(ctx, other.empty(), tag + ":data-in-wrong-direction", other.size() << " bytes appeared in the payload of the silent direction");
        {   // the read-only view of the same stream: const accessors and the connection's identity
            const TCPStream& cst = st;
            const TCPStream::payload_type& cpl = srv ? cst.server_payload() : cst.client_payload();
            VCHECK(ctx, &cpl == &pl, tag + ":const-payload-accessor-differs", "the const payload accessor designates another buffer");
            const TCPStream::StreamInfo& info = cst.stream_info();
            VCHECK(ctx, info.client_addr == IPv4Address("10.0.0.1") && info.server_addr == IPv4Address("10.0.0.2") && info.client_port == CPORT && info.server_port == SPORT,
                   tag + ":stream-info", "stream_info() = " << info.client_addr << ":" << info.client_port << " > " << info.server_addr << ":" << info.server_port);
            (void)cst.id();
        }
        if (c.consume) {
            seen.insert(seen.end(), pl.begin(), pl.end());
            pl.clear();
        } else {
            notified = pl.size();
            view = &pl;
        }
    };
    IP c2s(IPv4Address("10.0.0.2"), IPv4Address("10.0.0.1")), s2c(IPv4Address("10.0.0.1"), IPv4Address("10.0.0.2"));
    const uint32_t other_isn = c.isn * 2654435761u + 12345u;
    const uint32_t cisn = srv ? other_isn : c.isn, sisn = srv ? c.isn : other_isn;
    bool wired;
    auto feed = [&](PDU& pdu) {
        PDU* one = &pdu;
        follower.follow_streams(&one, &one + 1, on_data);
    };
    {
        std::unique_ptr<PDU> syn = make_packet(c, c2s, CPORT, SPORT, cisn, 0, TCP::SYN, nullptr, wired);
        feed(*syn);
        std::unique_ptr<PDU> synack = make_packet(c, s2c, SPORT, CPORT, sisn, cisn + 1, TCP::SYN | TCP::ACK, nullptr, wired);
        feed(*synack);
    }
    for (size_t i = 0; i < c.segs.size(); ++i) {
        const Seg& g = c.segs[i];
        const uint32_t k = p.k_after[i];
        Bytes data = seg_bytes(c, g);
        if (c.dup_hs_at == (int)i) {
            // both handshake packets again, exactly as they were sent
            std::unique_ptr<PDU> syn = make_packet(c, c2s, CPORT, SPORT, cisn, 0, TCP::SYN, nullptr, wired);
            feed(*syn);
            std::unique_ptr<PDU> synack = make_packet(c, s2c, SPORT, CPORT, sisn, cisn + 1, TCP::SYN | TCP::ACK, nullptr, wired);
            feed(*synack);
            ctx.label("duplicate-handshake-mid-stream");
        }
        std::unique_ptr<PDU> pkt = srv ? make_packet(c, s2c, SPORT, CPORT, c.seq0 + (uint32_t)g.off, cisn + 1, TCP::ACK, &data, wired)
                                       : make_packet(c, c2s, CPORT, SPORT, c.seq0 + (uint32_t)g.off, sisn + 1, TCP::ACK, &data, wired);
        feed(*pkt);
        if (ctx.logging()) {
            std::ostringstream o;
            o << "[TCPStream] step " << i << " seg(off=" << g.off << ",len=" << g.len << ") model k=" << k << " delivered=" << (c.consume ? seen.size() : (view ? view->size() : 0));
            ctx.log(o.str());
        }
        if (c.consume) check_delivered(ctx, tag, seen.data(), seen.size(), p, k, c, i);
        else {
            static const TCPStream::payload_type none;
            const TCPStream::payload_type& pl = view ? *view : none;
            check_delivered(ctx, tag, pl.data(), pl.size(), p, k, c, i);
            VCHECK(ctx, notified == pl.size(), tag + ":data-without-notification", "step " << i << ": payload holds " << pl.size() << " bytes but the data callback last saw " << notified
                                                                                     << "; " << describe(c, i));
        }
    }
}

// ---------------------------------------------------------------- the property
static int g_tier = 0;

static void run_case(const Case& c, Ctx& ctx) {
    ctx.hash(c.seq0);
    ctx.hash(c.n);
    ctx.hash((uint64_t)c.consume | (c.trk_setter << 1) | (c.flow_syn << 2) | (c.flow_v6 << 3) | (c.legacy_server << 4) | (c.wire << 5));
    for (const Seg& g : c.segs) ctx.hash((uint64_t)g.off * 0x10001ULL + g.len);
    ctx.hash((uint64_t)(c.dup_hs_at + 1));
    ctx.label(std::string("mode:") + c.mode);
    ctx.label(std::string("order:") + c.order);
    if (c.consume) ctx.label("app-consumes-in-callback"); else ctx.label("app-keeps-payload");
    if (c.flow_syn) ctx.label("flow-syn");
    if (c.flow_v6) ctx.label("flow-v6");
    if (c.legacy_server) ctx.label("legacy-server-direction");
    if (c.wire) ctx.label("wire");
    if (c.n > 4096) ctx.label("stream>4KiB");
    if (c.segs.size() > 64) ctx.label("segments>64");
    if (ctx.logging()) {
        ctx.log("CASE " + describe(c, c.segs.size()));
        Model m(c);
        ctx.log("stream s = " + hex(m.s, 64));
    }
    Plan p = make_plan(c, ctx);
    {
        std::ostringstream o;
        o << describe(c) << " final-prefix=" << (c.segs.empty() ? 0 : p.k_after.back());
        std::string t = o.str();
        if (t.size() > 400) t = t.substr(0, 400) + "...";
        ctx.sample(t);
    }
    run_tracker(c, p, ctx);
    run_flow(c, p, ctx);
    run_legacy(c, p, ctx);
}

void prop(Src& s, Ctx& ctx) {
    Case c;
    uint8_t sel = s.u8();
    if (sel >= 192) decode_literal(s, c);
    else decode_structured(s, c, ctx);
    fix_edges(c);
    {   // drawn last: "any duplication" includes the handshake packets, which can be retransmitted at any time
        unsigned d = s.u8();
        if ((d & 3) == 3) c.dup_hs_at = (int)((d >> 2) % (c.segs.size() + 1));
    }
    run_case(c, ctx);
}

// ---------------------------------------------------------------- setup: self-test of the reference model
void prop_setup(Ctx& ctx) {
    g_tier = ctx.tier;
    Case c;
    c.n = 10;
    c.segs = {Seg{3, 3}, Seg{-2, 2}, Seg{0, 2}, Seg{1, 3}, Seg{8, 2}, Seg{6, 0}, Seg{5, 4}};
    Model m(c);
    static const uint32_t want[] = {0, 0, 2, 6, 6, 6, 10};
    for (size_t i = 0; i < c.segs.size(); ++i) {
        m.arrive(c.segs[i]);
        if (m.k != want[i]) { fprintf(stderr, "C06: reference model self-test failed at step %zu (k=%u)\n", i, m.k); abort(); }
    }
    // content is position dependent: no two of the first 4096 windows of 4 bytes are equal for a shift below 64
    for (int64_t d = 1; d < 64; ++d) {
        unsigned same = 0;
        for (int64_t i = 0; i < 4096; ++i)
            if (content(i, 0) == content(i + d, 0) && content(i + 1, 0) == content(i + 1 + d, 0) && content(i + 2, 0) == content(i + 2 + d, 0)) same++;
        if (same > 2) { fprintf(stderr, "C06: stream content is not position dependent enough (shift %lld: %u)\n", (long long)d, same); abort(); }
    }
}

// ---------------------------------------------------------------- exhaustive block
// every ordered sequence (with repetition, so every order and every duplication) of up to L segments drawn from a
// catalogue over a 12-byte stream, at four placements of 2^32 relative to the stream
struct Cat { std::vector<uint8_t> segs; };   // literal-mode bytes, P = 3, n = 12

static Cat make_cat(unsigned cell, bool zero_len) {
    Cat c;
    const unsigned P = 3;
    for (unsigned a = 0; a <= 12; a += cell) {
        if (zero_len) c.segs.push_back((uint8_t)(((a + P) << 4) | 0));
        for (unsigned b = a + cell; b <= 12; b += cell) c.segs.push_back((uint8_t)(((a + P) << 4) | (b - a)));
    }
    c.segs.push_back((uint8_t)((0 << 4) | 3));   // [-3,0): ends exactly at the ISN
    c.segs.push_back((uint8_t)((0 << 4) | 6));   // [-3,3): reaches into the stream
    c.segs.push_back((uint8_t)((1 << 4) | 1));   // [-2,-1): entirely before
    return c;
}

bool prop_enum(uint64_t idx, std::vector<uint8_t>& out) {
    static const Cat A = make_cat(3, true), B = make_cat(2, false);
    static const uint32_t SEQ0[4] = {0xfffffffbu, 0xfffffffau, 0x00001000u, 0x00000000u};   // 2^32 at position 5 (mid-cell), 6 (cell boundary), none, at the ISN
    struct Block { const Cat* cat; unsigned len; };
    static const Block quick[] = {{&A, 1}, {&A, 2}, {&A, 3}, {&A, 4}};
    static const Block thorough[] = {{&A, 1}, {&A, 2}, {&A, 3}, {&A, 4}, {&B, 4}, {&A, 5}};
    const Block* blocks = g_tier ? thorough : quick;
    const size_t nblocks = g_tier ? sizeof thorough / sizeof *thorough : sizeof quick / sizeof *quick;
    uint64_t i = idx;
    for (size_t b = 0; b < nblocks; ++b) {
        const uint64_t base = blocks[b].cat->segs.size();
        uint64_t count = 4;
        for (unsigned l = 0; l < blocks[b].len; ++l) count *= base;
        if (i >= count) { i -= count; continue; }
        const unsigned v = (unsigned)(i % 4);
        uint64_t d = i / 4;
        out.clear();
        out.push_back(255);                               // literal mode
        out.push_back((uint8_t)((idx * 7) & 0x1f));       // cfg: all combinations of the five mode bits, never "wire"
        out.push_back(0);                                 // ISN: through gen_isn ...
        out.push_back(12);                                // n
        out.push_back(3);                                 // P
        out.push_back(0);                                 // ... case 0 = literal u32
        out.push_back((uint8_t)(SEQ0[v] >> 24)); out.push_back((uint8_t)(SEQ0[v] >> 16)); out.push_back((uint8_t)(SEQ0[v] >> 8)); out.push_back((uint8_t)SEQ0[v]);
        out.push_back((uint8_t)blocks[b].len);            // count
        for (unsigned l = 0; l < blocks[b].len; ++l) { out.push_back(blocks[b].cat->segs[d % base]); d /= base; }
        return true;
    }
    return false;
}
