// C02 — serialization is total, size-exact, and layers never overwrite each other.
// Domain: (a) every packet accepted by a parse entry point, (b) packets built by API programs (builder.h) with
// post-construction edit histories. Oracles: no exception, |serialize()| == size() == sum(header+trailer),
// serialize monitor hook (no layer changes its inner region, no layer gets a too short buffer),
// second serialization byte-identical, ASan for writes outside the output.
#include "../engine/src.h"
#include "../genlib/parsed.h"
#include "../genlib/builder.h"
#include <tins/pdu_cacher.h>

using namespace verif;
using namespace Tins;

const char* const PROP_ID = "C02";
const size_t PROP_MAXLEN_QUICK = 1536;
const size_t PROP_MAXLEN_THOROUGH = 65535 + 8;

static bool has_trailer_layer(const PDU& top) {
    for (const PDU* p = &top; p; p = p->inner_pdu()) if (p->trailer_size() > 0) return true;
    return false;
}

static unsigned count_options(const PacketView& pv) {
    unsigned n = 0;
    for (const LayerView& l : pv)
        for (const FieldView& f : l.fields)
            if (f.kind == 'O' && f.value != "[]" && f.value.find("<Tins::") != 0) ++n;
    return n;
}

// the serialisation clauses on one packet; `origin` is part of the message only
static void check_serialize(PDU& pdu, Ctx& ctx, const std::string& origin) {
    std::string chain = layer_chain(pdu);
    std::string root = short_cls(demangled(typeid(pdu)));
    uint32_t sum = 0;
    std::string first_cls;
    for (const PDU* p = &pdu; p; p = p->inner_pdu()) sum += p->header_size() + p->trailer_size();
    uint32_t sz = pdu.size();
    VCHECK(ctx, sz == sum, "C02:size-not-sum-of-layers:" + root, chain << ": size()=" << sz << " sum(header+trailer)=" << sum << " | " << origin);
    PDU::serialization_type out1;
    {
        Monitor mon;
        try {
            out1 = pdu.serialize();
        } catch (const std::exception& e) {
            std::string ex = demangled(typeid(e));
            // blame the innermost layer whose own sub-chain already fails to serialise
            std::vector<const PDU*> layers;
            for (const PDU* p = &pdu; p; p = p->inner_pdu()) layers.push_back(p);
            std::string culprit = root;
            for (size_t i = layers.size(); i-- > 0;) {
                std::unique_ptr<PDU> sub(layers[i]->clone());
                bool bad = false;
                try { Tins::Verif::serialize_monitor() = nullptr; sub->serialize(); } catch (const std::exception&) { bad = true; }
                if (bad) { culprit = short_cls(demangled(typeid(*sub))); break; }
            }
            VFAIL(ctx, "C02:serialize-throws:" + ex + ":" + culprit, chain << ": serialize() threw " << ex << ": " << e.what() << " | " << origin);
        }
        VCHECK(ctx, !mon.fired, "C02:" + mon.what + ":" + short_cls(mon.layer), chain << ": " << mon.detail << " | " << origin);
    }
    ctx.result(hash_bytes(out1.data(), out1.size()));  // the bytes written must not depend on uninitialised memory
    VCHECK(ctx, out1.size() == sz, "C02:serialized-size-differs:" + root, chain << ": |serialize()|=" << out1.size() << " size()=" << sz << " | " << origin);
    // state written back by write_serialization must not drift
    uint32_t sz2 = pdu.size();
    VCHECK(ctx, sz2 == sz, "C02:size-changes-after-serialize:" + root, chain << ": size() " << sz << " -> " << sz2 << " after serialize() | " << origin);
    PDU::serialization_type out2;
    try {
        out2 = pdu.serialize();
    } catch (const std::exception& e) {
        VFAIL(ctx, "C02:second-serialize-throws:" + demangled(typeid(e)) + ":" + root, chain << ": second serialize() threw " << e.what() << " | " << origin);
    }
    if (out1 != out2) {
        size_t i = 0;
        while (i < out1.size() && i < out2.size() && out1[i] == out2[i]) ++i;
        VCHECK(ctx, false, "C02:second-serialization-differs:" + root, chain << ": serialisations differ at offset " << i << " (" << out1.size() << " vs " << out2.size()
                                                                             << " bytes) | " << origin);
    }
}

static void check_cacher(PDU& pdu, Ctx& ctx, unsigned how, const std::string& origin) {
    std::unique_ptr<PDU> c(make_cacher_of(pdu));
    if (!c) return;
    ctx.label("pdu-cacher");
    std::string root = short_cls(demangled(typeid(pdu)));
    PDU::serialization_type want;
    try { std::unique_ptr<PDU> cp(pdu.clone()); want = cp->serialize(); } catch (const std::exception&) { return; }
    PDU* top = c.get();
    std::unique_ptr<PDU> holder;
    size_t skip = 0;
    std::vector<uint8_t> tail;
    if (how == 1) {          // a payload attached below the wrapper itself
        static const uint8_t T[5] = {0xde, 0xad, 0xbe, 0xef, 0x99};
        tail.assign(T, T + 5);
        c->inner_pdu(new RawPDU(tail.begin(), tail.end()));
    } else if (how == 2 && pdu.pdu_type() == PDU::PPPOE) {
        // known consequence of the open finding C13:pducacher-masquerade: the wrapper reports PDU::PPPOE, so link layers
        // downcast it to PPPoE to pick the session/discovery ether type (EthernetII always did; SNAP/Dot1Q/SLL since 522d42b)
        ctx.excluded("pdu-cacher<PPPoE>-below-a-link-layer (C13 open finding: flag-based downcast of the wrapper)");
    } else if (how == 2) {   // the wrapper below a parent
        holder.reset(new SNAP());
        skip = holder->header_size();
        holder->inner_pdu(c.release());
        top = holder.get();
    }
    check_serialize(*top, ctx, "PDUCacher<" + root + "> of " + origin);
    PDU::serialization_type got = top->serialize();
    bool same = got.size() == skip + want.size() + tail.size() && std::equal(want.begin(), want.end(), got.begin() + skip) &&
                std::equal(tail.begin(), tail.end(), got.begin() + skip + want.size());
    VCHECK(ctx, same, "C02:pdu-cacher-bytes-differ:" + root, "PDUCacher<" << root << "> serialises to " << hex(got, 256) << " wrapped packet to " << hex(want, 256) << " | " << origin);
    // a clone of the wrapper is as good as the wrapper
    std::unique_ptr<PDU> cl(top->clone());
    PDU::serialization_type got2 = cl->serialize();
    VCHECK(ctx, got2 == got, "C02:pdu-cacher-clone-differs:" + root, "clone of PDUCacher<" << root << "> serialises differently | " << origin);
}

void prop(Src& s, Ctx& ctx) {
    unsigned domain = s.u8();
    if (domain & 1) {
        // ---- (b) API-built packet with an edit history
        ctx.label("built");
        BuildOpts o;
        o.max_payload = ctx.tier ? 1500 : 300;
        o.spoofed_option_lengths = true;
        Built b = build_packet(s, ctx, o);
        std::string origin = "program: " + b.text();
        if (ctx.logging()) ctx.log(origin);
        PDU& pdu = *b.pdu;
        if (has_unserializable_layer(pdu)) { ctx.excluded("ppi-pktap-not-serializable"); return; }
        check_serialize(pdu, ctx, origin);
        // post-serialisation edits: more setters / options / re-stacking, then serialise again
        unsigned edits = (unsigned)s.range(0, 3);
        for (unsigned i = 0; i < edits; ++i) {
            unsigned depth = 0;
            for (PDU* p = &pdu; p; p = p->inner_pdu()) ++depth;
            unsigned pick = (unsigned)s.pick(depth);
            PDU* target = &pdu;
            for (unsigned k = 0; k < pick; ++k) target = target->inner_pdu();
            switch (s.range(0, 3)) {
                case 0: apply_setters(*target, s, o, b.program); enforce_capacity(*target, ctx, b.program); break;
                case 1: option_program(*target, s, b.program, true); enforce_capacity(*target, ctx, b.program); break;
                case 2: {  // replace what is below the target
                    std::string nm;
                    PDU* np = make_layer((unsigned)s.pick(n_layer_classes()), s, o.max_payload, &nm);
                    target->inner_pdu(np);
                    b.program.push_back("inner_pdu(" + nm + ") below layer " + std::to_string(pick));
                    break;
                }
                default: {  // operator/= appends at the bottom
                    std::unique_ptr<RawPDU> r(gen_raw(s, o.max_payload));
                    pdu /= *r;
                    b.program.push_back("/= RawPDU");
                    break;
                }
            }
            ctx.label("edited-after-serialize");
        }
        if (IP* root = dynamic_cast<IP*>(&pdu)) if (root->src_addr() == IPv4Address((uint32_t)0)) { ctx.excluded("outermost-ip-src-0.0.0.0"); return; }
        if (edits) { origin = "program: " + b.text(); if (ctx.logging()) ctx.log("after edits: " + origin); check_serialize(pdu, ctx, origin); }
        if ((domain & 0xf8) == 0xf8) {
            // a payload that takes the packet to and beyond what 16-bit length fields can express: serialisation must still
            // be total and size-exact (what the length fields then say is not this property's business). Drawn last.
            static const uint32_t BIG[] = {65535, 65536, 65507, 65515, 65527, 65495, 65475, 70000, 131075};
            uint32_t n = BIG[s.pick(sizeof BIG / sizeof *BIG)];
            if (s.boolean()) n -= (uint32_t)s.range(0, 64);
            std::vector<uint8_t> big(n);
            for (uint32_t i = 0; i < n; ++i) big[i] = (uint8_t)(i * 31 + n);
            RawPDU r(big.begin(), big.end());
            pdu /= r;
            b.program.push_back("/= RawPDU(" + std::to_string(n) + " bytes)");
            ctx.label("payload>=64KiB-region");
            origin = "program: " + b.text();
            check_serialize(pdu, ctx, origin);
        }
        if ((domain & 0x0e) == 0x0e) check_cacher(pdu, ctx, (domain >> 4) % 3, origin);
        PacketView pv = view_packet(pdu);
        unsigned nopt = count_options(pv);
        ctx.hash("built"); ctx.hash(layer_chain(pdu)); ctx.hash(hash_str(b.text()));
        ctx.nontrivial(pv.size() >= 2 && (nopt >= 1 || has_trailer_layer(pdu)));
        if (nopt) ctx.label("has-options");
        if (has_trailer_layer(pdu)) ctx.label("has-trailer");
        ctx.sample(b.text().substr(0, 300));
        return;
    }
    // ---- (a) packet accepted by a parse entry point
    ctx.label("parsed");
    const std::vector<Entry>& E = entries();
    const Entry& e = E[s.u8() % E.size()];
    unsigned placement = s.u8() & 7;
    std::vector<uint8_t> data = s.rest();
    if (data.size() > 65535) data.resize(65535);
    std::unique_ptr<PDU> pdu;
    try {
        pdu = parse_entry(e, data.data(), data.size(), placement);
    } catch (const std::exception&) {
        return;  // C01's business
    }
    if (!pdu) { ctx.label("rejected"); return; }
    if (has_unserializable_layer(*pdu)) {
        // documented: PPI and PKTAP cannot be serialised; their inner packets can
        PDU* inner = pdu->inner_pdu();
        while (inner && (inner->pdu_type() == PDU::PPI || inner->pdu_type() == PDU::PKTAP)) inner = inner->inner_pdu();
        if (!inner) { ctx.excluded("ppi-pktap-not-serializable"); return; }
        std::unique_ptr<PDU> c(inner->clone());
        pdu = std::move(c);
        ctx.label("inner-of-ppi-pktap");
    }
    if (IP* root = dynamic_cast<IP*>(pdu.get())) if (root->src_addr() == IPv4Address((uint32_t)0)) { ctx.excluded("outermost-ip-src-0.0.0.0"); return; }
    std::string origin = std::string("entry=") + e.name + " input=" + hex(data, 2048);
    if (ctx.logging()) ctx.log(origin + " -> " + layer_chain(*pdu));
    check_serialize(*pdu, ctx, origin);
    PacketView pv = view_packet(*pdu);
    unsigned nopt = count_options(pv);
    ctx.hash(e.name); ctx.hash(layer_chain(*pdu)); ctx.hash(nopt);
    for (const LayerView& l : pv) for (const FieldView& f : l.fields) if (f.kind == 'O') ctx.hash(hash_str(f.value) & 0xfff);
    ctx.nontrivial(pv.size() >= 2 && (nopt >= 1 || has_trailer_layer(*pdu)));
    if (nopt) ctx.label("has-options");
    if (has_trailer_layer(*pdu)) ctx.label("has-trailer");
    ctx.sample(std::string(e.name) + " " + hex(data, 48) + " -> " + layer_chain(*pdu));
}
