// C13 — layer look-up and casts never hand back an object of the wrong type.
// Finite domain: K x T (every concrete class incl. caching wrappers and run-time variants x every class with a type
// flag) enumerated exhaustively (prop_enum), plus K placed at random depths of random chains (random driver).
// Oracle: C++ RTTI (dynamic_cast) decides whether an object really is a T.
#include "../engine/src.h"
#include "../genlib/view.h"
#include "../genlib/parsed.h"
#include "../genlib/setters.h"
#include <functional>

using namespace verif;
using namespace Tins;

const char* const PROP_ID = "C13";
const size_t PROP_MAXLEN_QUICK = 128;
const size_t PROP_MAXLEN_THOROUGH = 128;

namespace {

struct KMaker { std::string name; std::function<PDU*()> make; std::function<PDU*()> plain; };  // plain: the object a caching wrapper wraps (top layer)
struct TCheck { std::string name; std::function<void(PDU& top, PDU* k, const PDU* kplain, const std::string& kname, Ctx& ctx)> run; };

static const uint8_t PPI_BYTES[] = {0x00, 0x00, 0x08, 0x00, 0x69, 0x00, 0x00, 0x00,  // PPI header, dlt 105 (802.11)
                                    0xd4, 0x00, 0x00, 0x00, 0x00, 0x1c, 0xbf, 0x00, 0x01, 0x02};

template <class T> PDU* mk_default() { return new T(); }
template <class T> PDU* mk_cacher() { return new PDUCacher<T>(T()); }

std::vector<KMaker>& kmakers() {
    static std::vector<KMaker> K = [] {
        std::vector<KMaker> k;
#define X(C) k.push_back({#C, [] { return mk_default<C>(); }});
        X(EthernetII) X(Dot3) X(RadioTap) X(SLL) X(Loopback) X(LLC) X(SNAP) X(Dot1Q) X(MPLS) X(PPPoE) X(IP) X(IPv6) X(IPSecAH) X(IPSecESP)
        X(ARP) X(TCP) X(UDP) X(ICMP) X(ICMPv6) X(BootP) X(DHCP) X(DHCPv6) X(DNS) X(RC4EAPOL) X(RSNEAPOL) X(STP) X(VXLAN) X(RTP)
        X(Dot11) X(Dot11Data) X(Dot11QoSData) X(Dot11Beacon) X(Dot11ProbeRequest) X(Dot11ProbeResponse) X(Dot11AssocRequest)
        X(Dot11AssocResponse) X(Dot11ReAssocRequest) X(Dot11ReAssocResponse) X(Dot11Disassoc) X(Dot11Authentication)
        X(Dot11Deauthentication) X(Dot11Control) X(Dot11RTS) X(Dot11PSPoll) X(Dot11CFEnd) X(Dot11EndCFAck) X(Dot11Ack)
        X(Dot11BlockAckRequest) X(Dot11BlockAck) X(PKTAP)
#undef X
        k.push_back({"RawPDU", [] { return (PDU*)new RawPDU("payload"); }});
        k.push_back({"PPI", [] { return (PDU*)new PPI(PPI_BYTES, sizeof PPI_BYTES); }});
        // the caching wrapper around a representative of every family
#define X(C) k.push_back({"PDUCacher<" #C ">", [] { return mk_cacher<C>(); }, [] { return mk_default<C>(); }});
        X(IP) X(TCP) X(UDP) X(EthernetII) X(IPv6) X(ICMP) X(DNS) X(DHCP) X(Dot11Beacon) X(Dot11Data) X(RSNEAPOL) X(RadioTap) X(ARP)
#undef X
        // caching wrappers around multi-layer packets
        k.push_back({"PDUCacher<IP>(IP/TCP/RawPDU)", [] { return (PDU*)new PDUCacher<IP>(IP("1.2.3.4", "4.3.2.1") / TCP(1, 2) / RawPDU("x")); }, [] { return (PDU*)new IP(); }});
        k.push_back({"PDUCacher<EthernetII>(Eth/IP/UDP/RawPDU)", [] { return (PDU*)new PDUCacher<EthernetII>(EthernetII() / IP("1.2.3.4", "4.3.2.1") / UDP(1, 2) / RawPDU("x")); }, [] { return (PDU*)new EthernetII(); }});
        k.push_back({"PDUCacher<IPv6>(IPv6/ICMPv6)", [] { return (PDU*)new PDUCacher<IPv6>(IPv6("::1", "::2") / ICMPv6()); }, [] { return (PDU*)new IPv6(); }});
        // run-time variants: the class is decided from bytes
        for (unsigned type = 0; type < 4; ++type)
            for (unsigned sub = 0; sub < 16; ++sub) {
                std::string nm = "Dot11::from_bytes(type=" + std::to_string(type) + ",subtype=" + std::to_string(sub) + ")";
                k.push_back({nm, [type, sub]() -> PDU* {
                    std::vector<uint8_t> b(64, 0);
                    b[0] = (uint8_t)((sub << 4) | (type << 2));
                    try { return Dot11::from_bytes(b.data(), (uint32_t)b.size()); } catch (const malformed_packet&) { return nullptr; }
                }});
            }
        for (unsigned t : {0u, 1u, 2u, 3u, 254u}) {
            k.push_back({"EAPOL::from_bytes(type=" + std::to_string(t) + ")", [t]() -> PDU* {
                std::vector<uint8_t> b(120, 0);
                b[0] = 1; b[1] = 3; b[4] = (uint8_t)t;
                try { return EAPOL::from_bytes(b.data(), (uint32_t)b.size()); } catch (const malformed_packet&) { return nullptr; }
            }});
        }
        return k;
    }();
    return K;
}

std::string short_name(PDU* p) { return short_cls(demangled(typeid(*p))); }

// does the helper hand back `k` (or anything) typed as T while k is not a T?
// U is T itself, or for T = PDUCacher<Y> the wrapped class Y.
template <class T, class U>
void check_pair(PDU& top, PDU* k, const PDU* kplain, const std::string& kname, const std::string& tname, Ctx& ctx) {
    const bool really = dynamic_cast<T*>(k) != nullptr;
    // what the helpers decide on, evaluated without performing the cast (a wrong static_cast is UB)
    const bool find_would_match = k->matches_flag(T::pdu_flag);
    const bool cast_would_match = T::pdu_flag == k->pdu_type();
    // The open finding "the caching wrapper masquerades as the class it wraps" covers exactly: a PDUCacher<X> answering like
    // the X it wraps would (kplain), and a real Y being mistaken for PDUCacher<Y>. Anything else involving a wrapper is a
    // different violation and keeps the ordinary signature.
    const bool t_is_wrapper = !std::is_same<T, U>::value;
    auto family = [&](bool matched_by_find) -> std::string {
        bool masq = false;
        if (kplain) masq = matched_by_find ? kplain->matches_flag(T::pdu_flag) : (kplain->pdu_type() == T::pdu_flag);
        if (!masq && t_is_wrapper) masq = dynamic_cast<U*>(k) != nullptr || (kplain && dynamic_cast<const U*>(kplain) != nullptr);
        return masq ? "C13:pducacher-masquerade:" : "C13:";
    };
    // a search by the object's own exact class always finds it
    if (typeid(*k) == typeid(T))
        VCHECK(ctx, find_would_match, "C13:own-class-not-found:K=" + kname, "find_pdu<" << tname << ">() does not find an object whose exact class is " << tname << " (" << kname << ")");
    VCHECK(ctx, !find_would_match || really, family(true) + "find_pdu-wrong-type:K=" + kname + ":T=" + tname,
           "find_pdu<" << tname << ">() matches an object of class " << kname << " (" << demangled(typeid(*k)) << "), which is not a " << tname);
    VCHECK(ctx, !cast_would_match || really, family(false) + "tins_cast-wrong-type:K=" + kname + ":T=" + tname,
           "tins_cast<" << tname << "*>() accepts an object of class " << kname << " (" << demangled(typeid(*k)) << "), which is not a " << tname);
    if ((find_would_match || cast_would_match) && !really) return;  // known finding: do not execute the bad cast
    T* c = tins_cast<T*>(k);
    VCHECK(ctx, (c != nullptr) == cast_would_match && (!c || static_cast<PDU*>(c) == k), "C13:tins_cast-inconsistent:K=" + kname + ":T=" + tname, "tins_cast result");
    // searches from k downwards and from the top of the chain: the first layer the search stops at must really be a T;
    // only then is the real helper executed (a wrong static_cast is undefined behaviour) and its result compared
    PDU* starts[2] = {k, &top};
    for (PDU* start : starts) {
        PDU* first = nullptr;
        for (PDU* p = start; p; p = p->inner_pdu()) if (p->matches_flag(T::pdu_flag)) { first = p; break; }
        if (first && !dynamic_cast<T*>(first)) {
            const std::string fn = short_name(first);
            // in a chain the stopping layer may be another object than k: a wrapper there is judged by the same rule when it is k
            bool w2 = first == k ? family(true) != "C13:" : ((fn.find("PDUCacher<") != std::string::npos && fn.find("(") == std::string::npos) || (t_is_wrapper && dynamic_cast<U*>(first) != nullptr));
            VCHECK(ctx, false, std::string(w2 ? "C13:pducacher-masquerade:" : "C13:") + "find_pdu-wrong-type:K=" + fn + ":T=" + tname,
                   "chain search for " << tname << " stops at a " << demangled(typeid(*first)));
            continue;
        }
        T* g = start->find_pdu<T>();
        VCHECK(ctx, static_cast<PDU*>(g) == first, "C13:find_pdu-chain-result:T=" + tname, "search returned a different layer than the first matching one");
        if (start == k && find_would_match) VCHECK(ctx, static_cast<PDU*>(g) == k, "C13:find_pdu-not-self:K=" + kname + ":T=" + tname, "find_pdu on the object itself returned another layer");
        bool threw = false;
        try { T& r = start->rfind_pdu<T>(); (void)r; } catch (const pdu_not_found&) { threw = true; }
        VCHECK(ctx, threw == (g == nullptr), "C13:rfind_pdu-throw-mismatch:T=" + tname, "rfind_pdu threw=" << threw << " while find_pdu " << (g ? "found" : "did not find") << " a layer");
        const PDU& cstart = *start;
        VCHECK(ctx, cstart.find_pdu<T>() == g, "C13:const-find_pdu-differs:T=" + tname, "const and non-const find_pdu disagree");
    }
}

std::vector<TCheck>& tchecks() {
    static std::vector<TCheck> T = [] {
        std::vector<TCheck> t;
#define X(C) t.push_back({#C, [](PDU& top, PDU* k, const PDU* kp, const std::string& kn, Ctx& ctx) { check_pair<C, C>(top, k, kp, kn, #C, ctx); }});
        VERIF_VIEW_CLASSES(X)
#undef X
#define X(C) t.push_back({"PDUCacher<" #C ">", [](PDU& top, PDU* k, const PDU* kp, const std::string& kn, Ctx& ctx) { check_pair<PDUCacher<C>, C>(top, k, kp, kn, "PDUCacher<" #C ">", ctx); }});
        X(IP) X(TCP) X(EthernetII) X(Dot11Beacon) X(DNS)
#undef X
        return t;
    }();
    return T;
}

}  // namespace

void prop(Src& s, Ctx& ctx) {
    std::vector<KMaker>& K = kmakers();
    std::vector<TCheck>& T = tchecks();
    size_t ki = s.u16() % K.size();
    size_t ti = s.u16() % T.size();
    unsigned depth = s.u8() % 5;
    std::unique_ptr<PDU> k(K[ki].make());
    if (!k) { ctx.label("variant-rejected"); return; }
    // the object's STATE may influence what type it reports (e.g. a subtype field): random public setters, or an
    // object of the same class constructed from generated bytes
    unsigned state_mode = s.u8() % 4;
    if (state_mode == 1 || state_mode == 2) {
        unsigned n = n_setters(*k);
        unsigned cnt = 1 + (unsigned)s.range(0, 3);
        for (unsigned i = 0; n && i < cnt; ++i) { SetterCtx sc(s, "SDT"); apply_setter(*k, (unsigned)s.pick(n), sc); }
        ctx.label("k-with-random-state");
    } else if (state_mode == 3) {
        for (const Entry& e : entries()) {
            if (K[ki].name != e.name) continue;
            std::vector<uint8_t> b = s.bytes(s.range(0, 64));
            try { std::unique_ptr<PDU> parsed(parse_entry(e, b.data(), b.size(), 0)); if (parsed) { parsed->inner_pdu((PDU*)nullptr); k = std::move(parsed); ctx.label("k-from-bytes"); } } catch (const std::exception&) {}
            break;
        }
    }
    if (state_mode != 0 && s.chance(60)) {
        // state-dependent type reporting shows up against the object's own class and its relatives: prefer those T
        std::vector<size_t> fam;
        std::string kn = short_cls(demangled(typeid(*k)));
        for (size_t t = 0; t < T.size(); ++t) {
            const std::string& tn = T[t].name;
            bool rel = tn == kn || (kn.compare(0, 5, "Dot11") == 0 && tn.compare(0, 5, "Dot11") == 0) || (kn.find("EAPOL") != std::string::npos && tn.find("EAPOL") != std::string::npos) ||
                       ((kn == "DHCP" || kn == "BootP") && (tn == "DHCP" || tn == "BootP"));
            if (rel) fam.push_back(t);
        }
        if (!fam.empty()) ti = fam[s.pick(fam.size())];
    }
    PDU* kraw = k.get();
    // own exact class always finds the object: checked through the T entry with the same name when there is one
    std::unique_ptr<PDU> top;
    std::string chain_desc;
    if (depth == 0) {
        top = std::move(k);
    } else {
        // place k below `depth` other layers and optionally something below it
        for (unsigned i = 0; i < depth; ++i) {
            std::unique_ptr<PDU> l(K[s.u16() % K.size()].make());
            if (!l) continue;
            if (!top) top = std::move(l);
            else { PDU* last = top.get(); while (last->inner_pdu()) last = last->inner_pdu(); last->inner_pdu(l.release()); }
        }
        if (!top) top = std::move(k);
        else { PDU* last = top.get(); while (last->inner_pdu()) last = last->inner_pdu(); last->inner_pdu(k.release()); }
        if (s.boolean()) { std::unique_ptr<PDU> below(K[s.u16() % K.size()].make()); if (below) kraw->inner_pdu(below.release()); }
        ctx.label("in-chain");
    }
    std::string desc = "K=" + K[ki].name + " (dynamic type " + demangled(typeid(*kraw)) + ") T=" + T[ti].name + " chain=" + layer_chain(*top);
    if (ctx.logging()) ctx.log(desc);
    ctx.hash(ki); ctx.hash(ti); ctx.hash(layer_chain(*top));
    std::unique_ptr<PDU> kplain(K[ki].plain ? K[ki].plain() : nullptr);
    T[ti].run(*top, kraw, kplain.get(), K[ki].name, ctx);
    // non-trivial: the answer is not obvious from the names (T is a base of K, same family, or a wrapper is involved)
    bool family = (K[ki].name.compare(0, 5, "Dot11") == 0 && T[ti].name.compare(0, 5, "Dot11") == 0) || K[ki].name.find("EAPOL") != std::string::npos ||
                  K[ki].name.find("PDUCacher") != std::string::npos || T[ti].name.find("PDUCacher") != std::string::npos ||
                  (K[ki].name == "DHCP" && T[ti].name == "BootP") || depth > 0;
    ctx.nontrivial(family && K[ki].name != T[ti].name);
    ctx.sample(desc);
}

bool prop_enum(uint64_t idx, std::vector<uint8_t>& out) {
    size_t nk = kmakers().size(), nt = tchecks().size();
    if (idx >= (uint64_t)nk * nt) return false;
    size_t ki = idx / nt, ti = idx % nt;
    out = {(uint8_t)(ki >> 8), (uint8_t)ki, (uint8_t)(ti >> 8), (uint8_t)ti, 0};
    return true;
}
