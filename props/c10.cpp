// C10 — DNS messages stay coherent under parsing, editing and name compression.
//
// Oracle: an explicit model (four ordered lists of fully expanded records + header) that is maintained next to the
// Tins::DNS object. Initial messages come from an own RFC 1035 encoder (no compression / suffix compression /
// pointer-to-pointer chains); serialized output is decoded by an own RFC 1035 decoder. Neither shares code with
// libtins. Hostile messages (targeted corruptions of reference messages, raw bytes) may only produce libtins
// exceptions or a successful decode.
#include "../engine/src.h"
#include <tins/dns.h>
#include <tins/exceptions.h>
#include <algorithm>
#include <memory>
#include <cstdio>

using namespace verif;
using Tins::DNS;

const char* const PROP_ID = "C10";
const size_t PROP_MAXLEN_QUICK = 512;
const size_t PROP_MAXLEN_THOROUGH = 1024;

// work bound (instrumented comparisons) for a choice sequence of n bytes: a decompression pointer loop that is not
// detected would otherwise hang the worker, which the drivers only report as inconclusive
uint64_t prop_step_budget(size_t n) { return 200000000ULL + 2000000ULL * n; }

typedef std::vector<uint8_t> Bytes;
typedef std::vector<std::string> Labels;  // a domain name as its list of labels; the root name is the empty list

// ---------------------------------------------------------------- names
static std::string dotted(const Labels& n) {
    std::string o;
    for (size_t i = 0; i < n.size(); ++i) {
        if (i) o.push_back('.');
        o += n[i];
    }
    return o;
}
static size_t wire_len(const Labels& n) {  // octets of the uncompressed wire form
    size_t t = 1;
    for (const std::string& l : n) t += 1 + l.size();
    return t;
}
static Bytes plain_encoding(const Labels& n) {
    Bytes o;
    for (const std::string& l : n) {
        o.push_back((uint8_t)l.size());
        o.insert(o.end(), l.begin(), l.end());
    }
    o.push_back(0);
    return o;
}
static std::string esc(const std::string& s, size_t max = 120) {
    std::string o;
    char buf[8];
    for (size_t i = 0; i < s.size(); ++i) {
        if (o.size() > max) { o += "...(" + std::to_string(s.size()) + " bytes)"; break; }
        unsigned char c = (unsigned char)s[i];
        if (c >= 0x21 && c < 0x7f && c != '\\') o.push_back((char)c);
        else { snprintf(buf, sizeof buf, "\\x%02x", c); o += buf; }
    }
    return o;
}
static std::string show(const Labels& n) {
    if (n.empty()) return "<root>";
    return esc(dotted(n)) + "[" + std::to_string(n.size()) + "L/" + std::to_string(wire_len(n)) + "o]";
}

// ---------------------------------------------------------------- model
enum Kind { K_A, K_AAAA, K_NAME, K_MX, K_SOA, K_RAW };
enum { T_A = 1, T_NS = 2, T_CNAME = 5, T_SOA = 6, T_PTR = 12, T_MX = 15, T_TXT = 16, T_AAAA = 28, T_DNAME = 39 };

struct Rec {
    Labels name;
    uint16_t type = T_A, cls = 1;
    uint32_t ttl = 0;
    Kind kind = K_A;
    uint8_t addr[16] = {0};
    Labels target;  // NS/CNAME/PTR/MX target, SOA mname
    Labels rname;   // SOA
    uint16_t pref = 0;
    uint32_t soa[5] = {0, 0, 0, 0, 0};
    Bytes raw;
};
struct Qry {
    Labels name;
    uint16_t type = 1, cls = 1;
};
struct Hdr {
    uint16_t id = 0;
    uint8_t qr = 0, opcode = 0, aa = 0, tc = 0, rd = 0, ra = 0, z = 0, ad = 0, cd = 0, rcode = 0;
};
struct Model {
    Hdr h;
    std::vector<Qry> q;
    std::vector<Rec> sec[3];
};
static const char* const SECNAME[4] = {"queries", "answers", "authority", "additional"};

static Kind kind_of_type(uint16_t t) {
    switch (t) {
        case T_A: return K_A;
        case T_AAAA: return K_AAAA;
        case T_NS: case T_CNAME: case T_PTR: return K_NAME;
        case T_MX: return K_MX;
        case T_SOA: return K_SOA;
        default: return K_RAW;
    }
}
static size_t rdata_plain_size(const Rec& r) {
    switch (r.kind) {
        case K_A: return 4;
        case K_AAAA: return 16;
        case K_NAME: return wire_len(r.target);
        case K_MX: return 2 + wire_len(r.target);
        case K_SOA: return wire_len(r.target) + wire_len(r.rname) + 20;
        default: return r.raw.size();
    }
}
static size_t rec_plain_size(const Rec& r) { return wire_len(r.name) + 10 + rdata_plain_size(r); }

static std::string v4_text(const uint8_t* b) {
    char buf[32];
    snprintf(buf, sizeof buf, "%u.%u.%u.%u", b[0], b[1], b[2], b[3]);
    return buf;
}
static std::string v6_full_text(const uint8_t* b, bool upper) {
    std::string o;
    char buf[8];
    for (int i = 0; i < 8; ++i) {
        snprintf(buf, sizeof buf, upper ? "%X" : "%x", (b[2 * i] << 8) | b[2 * i + 1]);
        if (i) o.push_back(':');
        o += buf;
    }
    return o;
}
// RFC 4291 section 2.2 text form with the longest (first) zero run of >= 2 groups written as "::"
static std::string v6_short_text(const uint8_t* b) {
    int best = -1, bestl = 0;
    for (int i = 0; i < 8;) {
        if (b[2 * i] == 0 && b[2 * i + 1] == 0) {
            int j = i;
            while (j < 8 && b[2 * j] == 0 && b[2 * j + 1] == 0) ++j;
            if (j - i > bestl) { best = i; bestl = j - i; }
            i = j;
        } else ++i;
    }
    if (bestl < 2) return v6_full_text(b, false);
    std::string o;
    char buf[8];
    for (int i = 0; i < 8;) {
        if (i == best) { o += "::"; i += bestl; continue; }
        if (!o.empty() && o.back() != ':') o.push_back(':');
        snprintf(buf, sizeof buf, "%x", (b[2 * i] << 8) | b[2 * i + 1]);
        o += buf;
        ++i;
    }
    return o;
}
static int hexval(char c) {
    if (c >= '0' && c <= '9') return c - '0';
    if (c >= 'a' && c <= 'f') return c - 'a' + 10;
    if (c >= 'A' && c <= 'F') return c - 'A' + 10;
    return -1;
}
// own RFC 4291 text parser (forms 1-3: full, "::" once, trailing dotted quad); false when the text is not an address
static bool parse_v6(const std::string& s, uint8_t out[16]) {
    std::vector<unsigned> left, right;
    std::vector<unsigned>* cur = &left;
    bool dc = false;
    size_t i = 0, n = s.size();
    if (n >= 2 && s[0] == ':' && s[1] == ':') { dc = true; cur = &right; i = 2; }
    else if (n == 0 || s[0] == ':') return false;
    bool tail4 = false;
    uint8_t q[4] = {0, 0, 0, 0};
    while (i < n) {
        size_t st = i;
        unsigned v = 0;
        while (i < n && hexval(s[i]) >= 0 && i - st < 5) { v = (v << 4) | (unsigned)hexval(s[i]); ++i; }
        if (i < n && s[i] == '.') {  // dotted quad tail starting at st
            unsigned parts[4];
            size_t k = st;
            for (int g = 0; g < 4; ++g) {
                size_t b = k;
                unsigned d = 0;
                while (k < n && s[k] >= '0' && s[k] <= '9' && k - b < 4) { d = d * 10 + (unsigned)(s[k] - '0'); ++k; }
                if (k == b || k - b > 3 || d > 255) return false;
                parts[g] = d;
                if (g < 3) { if (k >= n || s[k] != '.') return false; ++k; }
            }
            if (k != n) return false;
            for (int g = 0; g < 4; ++g) q[g] = (uint8_t)parts[g];
            tail4 = true;
            i = n;
            break;
        }
        if (i == st || i - st > 4) return false;
        cur->push_back(v);
        if (i == n) break;
        if (s[i] != ':') return false;
        ++i;
        if (i < n && s[i] == ':') {
            if (dc) return false;
            dc = true;
            cur = &right;
            ++i;
            continue;
        }
        if (i == n) return false;  // single trailing ':'
    }
    size_t groups = left.size() + right.size() + (tail4 ? 2 : 0);
    if (dc ? groups > 7 : groups != 8) return false;
    memset(out, 0, 16);
    size_t k = 0;
    for (unsigned g : left) { out[k++] = (uint8_t)(g >> 8); out[k++] = (uint8_t)g; }
    if (dc) k = 16 - 2 * right.size() - (tail4 ? 4 : 0);
    for (unsigned g : right) { out[k++] = (uint8_t)(g >> 8); out[k++] = (uint8_t)g; }
    if (tail4) memcpy(out + 12, q, 4);
    return true;
}

static std::string show(const Rec& r) {
    std::ostringstream o;
    o << show(r.name) << " type=" << r.type << " class=" << r.cls << " ttl=" << r.ttl << " ";
    switch (r.kind) {
        case K_A: o << "A " << v4_text(r.addr); break;
        case K_AAAA: o << "AAAA " << v6_full_text(r.addr, false); break;
        case K_NAME: o << "-> " << show(r.target); break;
        case K_MX: o << "MX " << r.pref << " " << show(r.target); break;
        case K_SOA: o << "SOA " << show(r.target) << " " << show(r.rname) << " " << r.soa[0] << "," << r.soa[1] << "," << r.soa[2] << "," << r.soa[3] << "," << r.soa[4]; break;
        default: o << "raw[" << r.raw.size() << "] " << hex(r.raw, 48); break;
    }
    return o.str();
}
static std::string show(const Qry& q) {
    return show(q.name) + " qtype=" + std::to_string(q.type) + " qclass=" + std::to_string(q.cls);
}
static std::string show(const Model& m) {
    std::ostringstream o;
    o << "id=" << m.h.id << " qr=" << (int)m.h.qr << " opcode=" << (int)m.h.opcode << " rcode=" << (int)m.h.rcode << "\n";
    for (const Qry& q : m.q) o << "  Q  " << show(q) << "\n";
    for (int k = 0; k < 3; ++k)
        for (const Rec& r : m.sec[k]) o << "  " << (k == 0 ? "AN " : k == 1 ? "NS " : "AR ") << show(r) << "\n";
    return o.str();
}

// ---------------------------------------------------------------- length-prefixed sub stream with short lengths
// (Src::sub() draws the length from a whole byte, so with the random driver the first element would usually swallow
// the rest of a short input; here an element takes 0..30 bytes, or 31 + one more byte)
struct Sub {
    Bytes b;
    Src s;
    static Bytes take(Src& p) {
        size_t n = p.u8() & 31;
        if (n == 31) n = 31 + p.u8();
        size_t avail = p.remaining();
        return p.bytes(n < avail ? n : avail);
    }
    explicit Sub(Src& p) : b(take(p)), s(b.data(), b.size()) {}
};

// ---------------------------------------------------------------- generators
static const char LDH[] = "abcdefghijklmnopqrstuvwxyz0123456789-_";  // 38

static std::string gen_label(Src& s) {
    unsigned b = s.u8();
    unsigned cls = b & 7, seed = b >> 3;
    static const unsigned LEN[7] = {1, 2, 3, 4, 6, 10, 63};
    unsigned len = cls < 7 ? LEN[cls] : 1 + s.u8() % 63;
    std::string l(len, 'a');
    for (unsigned i = 0; i < len; ++i) {
        unsigned c;
        if (seed < 20) c = (unsigned char)LDH[(seed * 5 + i * 7) % 38];
        else if (seed < 26) c = 0x21 + (seed * 37 + i * 101) % 223;         // any legal byte
        else if (seed < 28) c = 0x80 + (seed * 29 + i * 53) % 128;          // high half
        else if (seed == 28) c = 0xc0;                                      // looks like a pointer
        else if (seed == 29) c = 0xff;
        else if (seed == 30) c = 'A' + (i * 3) % 26;
        else c = '0' + (i * 7 + 1) % 10;
        if (c == '.') c = '/';
        l[i] = (char)c;
    }
    return l;
}

struct NamePool {
    std::vector<Labels> names;
    void add(const Labels& n) { if (!n.empty() && names.size() < 64) names.push_back(n); }
};

static void trim_to_limit(Labels& n) {  // drop leading labels until the name fits 255 octets / 127 labels
    while (wire_len(n) > 255 || n.size() > 127) n.erase(n.begin());
}

static Labels gen_name(Src& s, NamePool& pool, bool force_short) {
    Labels n;
    if (force_short) { n.push_back(gen_label(s).substr(0, 3)); return n; }
    unsigned b = s.u8();
    unsigned shape = b & 7;
    if (shape >= 2 && shape <= 4 && pool.names.empty()) shape = 0;
    switch (shape) {
        case 0: case 1: {  // short fresh name
            unsigned k = 1 + ((b >> 3) & 3);
            for (unsigned i = 0; i < k; ++i) n.push_back(gen_label(s));
            break;
        }
        case 2: case 3: case 4: {  // new labels in front of a suffix of an earlier name (this is what makes compression meaningful)
            const Labels& base = pool.names[(b >> 3) % pool.names.size()];
            unsigned pre = shape == 2 ? 0 : shape == 3 ? 1 : 1 + ((b >> 7) & 1);
            size_t start = (b & 0x40) ? s.pick(base.size() + 1) : 0;
            for (unsigned i = 0; i < pre; ++i) n.push_back(gen_label(s));
            n.insert(n.end(), base.begin() + start, base.end());
            if (n.empty()) n.push_back(gen_label(s));
            break;
        }
        case 5: {  // many short labels (ip6.arpa names have 34), 24..127
            unsigned c = s.u8();
            unsigned cnt = (b & 8) ? 28 + (c & 7) : 24 + c % 104;  // half of them around the 31/32 boundary
            unsigned seed = c * 37 + (b >> 4);
            for (unsigned i = 0; i < cnt; ++i) {
                std::string l(1, LDH[(seed + i * (1 + (seed >> 5) % 7)) % 36]);
                if ((seed & 0x10) && i % 16 == 5 && cnt < 60) l += LDH[(seed + i) % 38];  // a few two-byte labels
                n.push_back(l);
            }
            break;
        }
        case 6: {  // as long as a name can be: 255 octets on the wire (or just below)
            size_t total = 255 - ((b >> 3) & 3);
            unsigned style = (b >> 5) & 3;
            size_t used = 1;
            unsigned i = 0;
            while (used < total) {
                size_t room = total - used - 1;  // bytes available for this label's content
                if (room == 0) {                 // cannot place a zero-length label: grow the previous one
                    if (!n.empty() && n.back().size() < 63) n.back().push_back('z');
                    break;
                }
                size_t want = style == 0 ? 63 : style == 1 ? 1 + (i * 7 + b) % 63 : style == 2 ? 31 : 5;
                size_t len = std::min<size_t>(want, room);
                if (room - len == 1 && len > 1) --len;  // do not leave exactly one octet (a label needs two)
                std::string l(len, 'a');
                for (size_t k = 0; k < len; ++k) l[k] = LDH[(b + i * 3 + k) % 36];
                n.push_back(l);
                used += 1 + len;
                ++i;
            }
            break;
        }
        default:  // the root name, or a single label
            if (!(b & 8)) n.push_back(gen_label(s));
            break;
    }
    trim_to_limit(n);
    return n;
}

struct GenState {
    NamePool pool;
    size_t budget = 11000;  // octets; keeps every message far below the 16383 a compression pointer can address
    bool clamped = false;
    Labels name(Src& s) {
        bool force = budget < 1200;
        if (force) clamped = true;
        Labels n = gen_name(s, pool, force);
        pool.add(n);
        size_t c = wire_len(n);
        budget -= std::min(budget, c);
        return n;
    }
};

static const uint16_t OPAQUE_TYPES[] = {16, 16, 13, 33, 99, 41, 0, 65535, 256, 3, 7, 14, 17, 29, 35, 43, 46, 48, 257, 27};

static void gen_addr(Src& s, uint8_t* out, unsigned n) {
    unsigned b = s.u8();
    memset(out, 0, n);
    switch (b & 3) {
        case 0: out[n - 1] = (uint8_t)(b >> 2); break;                       // mostly zeros
        case 1: { Bytes r = s.bytes(n); memcpy(out, r.data(), n); break; }
        case 2: memset(out, 0xff, n); out[0] = (uint8_t)(b >> 2); break;
        default:                                                               // zero runs between non-zero groups
            for (unsigned i = 0; i < n; i += 2) if ((b >> (2 + (i / 2) % 6)) & 1) { out[i] = (uint8_t)(i * 17 + b); out[i + 1] = (uint8_t)(b ^ i); }
    }
}

static Rec gen_rec(Src& s, GenState& g) {
    Rec r;
    size_t t = s.weighted({3, 2, 3, 2, 2, 3, 3, 2, 2});
    static const uint16_t TYPES[9] = {T_A, T_AAAA, T_NS, T_CNAME, T_PTR, T_MX, T_SOA, T_TXT, 0};
    r.type = TYPES[t];
    r.name = g.name(s);
    unsigned f = s.u8();
    switch (f & 3) {
        case 0: case 1: r.cls = 1; break;
        case 2: { static const uint16_t C[4] = {3, 4, 255, 254}; r.cls = C[(f >> 6) & 3]; break; }
        default: r.cls = s.u16();
    }
    switch ((f >> 2) & 3) {
        case 0: r.ttl = 3600; break;
        case 1: r.ttl = 0; break;
        case 2: { static const uint32_t T[4] = {0xffffffffu, 0x7fffffffu, 0x80000000u, 1}; r.ttl = T[(f >> 4) & 3]; break; }
        default: r.ttl = s.u32();
    }
    if (t == 8) r.type = OPAQUE_TYPES[s.u8() % (sizeof OPAQUE_TYPES / sizeof OPAQUE_TYPES[0])];
    r.kind = kind_of_type(r.type);
    switch (r.kind) {
        case K_A: gen_addr(s, r.addr, 4); break;
        case K_AAAA: gen_addr(s, r.addr, 16); break;
        case K_NAME: r.target = g.name(s); break;
        case K_MX: r.pref = (uint16_t)s.edgy(16); r.target = g.name(s); break;
        case K_SOA:
            r.target = g.name(s);
            r.rname = g.name(s);
            for (int i = 0; i < 5; ++i) r.soa[i] = (uint32_t)s.edgy(32);
            break;
        default: {
            unsigned b = s.u8();
            if (r.type == T_TXT && (b & 1)) {  // well-formed character-strings
                unsigned k = 1 + ((b >> 1) & 3);
                for (unsigned i = 0; i < k; ++i) {
                    std::string l = gen_label(s);
                    r.raw.push_back((uint8_t)l.size());
                    r.raw.insert(r.raw.end(), l.begin(), l.end());
                }
            } else {  // arbitrary octets, including NUL and bytes that look like compression pointers
                size_t len = (b >> 1) % 40;
                r.raw = s.bytes(len);
                if ((b & 0x80) && len >= 2) { r.raw[len - 2] = 0xc0; r.raw[len - 1] = 0x0c; }
            }
            g.budget -= std::min(g.budget, r.raw.size());
        }
    }
    g.budget -= std::min<size_t>(g.budget, 32);
    return r;
}

static Qry gen_qry(Src& s, GenState& g, bool from_wire) {
    Qry q;
    q.name = g.name(s);
    unsigned b = s.u8();
    // add_query() takes DNS::QueryType / DNS::QueryClass, so edits use enumerators only; a question that arrives on the
    // wire may carry any 16-bit value (ANY = 255, HTTPS = 65, CAA = 257, the mDNS "QU" class 0x8001)
    static const uint16_t QT[8] = {1, 28, 12, 15, 2, 6, 16, 5};
    q.type = (b & 8) ? (uint16_t)(1 + (b >> 4) * 3 + (b & 3)) : QT[b & 7];  // 1..49
    static const uint16_t QC[4] = {1, 1, 3, 255};
    q.cls = (b & 0x80) ? 4 : QC[(b >> 4) & 3];
    if (from_wire && (b & 0x4f) == 0x47) {
        static const uint16_t WT[4] = {255, 65, 257, 65535};
        q.type = WT[(b >> 4) & 3];
        if (b & 0x80) q.cls = 0x8001;
    }
    return q;
}

// ---------------------------------------------------------------- reference encoder (RFC 1035 section 4.1)
struct PtrInfo {
    size_t pos;
    size_t target;
};

struct Encoder {
    Bytes out;
    int mode;  // 0 no compression, 1 suffix compression to the first literal occurrence, 2 prefers pointers to pointers
    Src* s;
    struct Ent {
        uint64_t h;
        size_t name_idx, start;
        uint16_t off;
        bool is_ptr;
        unsigned hops;  // pointer hops needed to expand the name from this offset
    };
    std::vector<Labels> names;
    std::vector<Ent> table;
    std::vector<size_t> name_starts, len_pos, rdlen_pos;
    std::vector<PtrInfo> ptrs;
    unsigned max_hops = 0, max_iter = 0;
    bool ptr_to_ptr = false;
    size_t sec_end[4] = {12, 12, 12, 12};

    void u16(uint16_t v) { out.push_back((uint8_t)(v >> 8)); out.push_back((uint8_t)v); }
    void u32(uint32_t v) { u16((uint16_t)(v >> 16)); u16((uint16_t)v); }

    bool suffix_equal(const Ent& e, const Labels& n, size_t i) const {
        const Labels& o = names[e.name_idx];
        if (o.size() - e.start != n.size() - i) return false;
        for (size_t k = 0; i + k < n.size(); ++k) if (o[e.start + k] != n[i + k]) return false;
        return true;
    }

    void put_name(const Labels& n, bool compressible) {
        name_starts.push_back(out.size());
        size_t cnt = n.size();
        std::vector<uint64_t> hs(cnt + 1, 0x12345);
        for (size_t i = cnt; i-- > 0;) hs[i] = hash_mix(hs[i + 1], hash_str(n[i]));
        size_t cut = cnt;  // labels [0,cut) literal, then a pointer (cut < cnt) or the terminating zero
        const Ent* tgt = nullptr;
        Ent chosen = Ent();
        if (mode != 0 && compressible && cnt > 0) {
            unsigned c = s->u8();
            bool leave = (c & 7) == 7, later = (c & 7) == 6;
            if (!leave) {
                for (size_t i = 0; i < cnt && !tgt; ++i) {
                    std::vector<const Ent*> cand;
                    for (const Ent& e : table) if (e.h == hs[i] && suffix_equal(e, n, i)) cand.push_back(&e);
                    if (cand.empty()) continue;
                    if (later && i + 1 < cnt) { later = false; continue; }  // use a shorter suffix than the longest known one
                    if (mode == 1) tgt = cand.front();
                    else {
                        unsigned pickv = c >> 3;
                        if (pickv < 20) tgt = cand.back();  // most recent occurrence: usually itself a pointer
                        else tgt = cand[pickv % cand.size()];
                    }
                    cut = i;
                }
            }
        }
        if (tgt) chosen = *tgt;  // the table grows below: keep a copy
        const bool have = tgt != nullptr;
        tgt = nullptr;
        size_t idx = names.size();
        names.push_back(n);
        unsigned tail_hops = have ? 1 + chosen.hops : 0;
        for (size_t i = 0; i < cut; ++i) {
            if (out.size() < 0x4000) table.push_back(Ent{hs[i], idx, i, (uint16_t)out.size(), false, tail_hops});
            len_pos.push_back(out.size());
            out.push_back((uint8_t)n[i].size());
            out.insert(out.end(), n[i].begin(), n[i].end());
        }
        if (have) {
            uint16_t off = chosen.off;
            bool tp = chosen.is_ptr;
            if (out.size() < 0x4000) table.push_back(Ent{hs[cut], idx, cut, (uint16_t)out.size(), true, tail_hops});
            ptrs.push_back(PtrInfo{out.size(), off});
            u16((uint16_t)(0xc000 | off));
            if (tp) ptr_to_ptr = true;
        } else {
            out.push_back(0);
        }
        max_hops = std::max(max_hops, tail_hops);
        max_iter = std::max<unsigned>(max_iter, (unsigned)cnt + tail_hops);
    }

    void put_rec(const Rec& r) {
        put_name(r.name, true);
        u16(r.type); u16(r.cls); u32(r.ttl);
        rdlen_pos.push_back(out.size());
        size_t lp = out.size();
        u16(0);
        switch (r.kind) {
            case K_A: out.insert(out.end(), r.addr, r.addr + 4); break;
            case K_AAAA: out.insert(out.end(), r.addr, r.addr + 16); break;
            case K_NAME: put_name(r.target, true); break;
            case K_MX: u16(r.pref); put_name(r.target, true); break;
            case K_SOA:
                put_name(r.target, true);
                put_name(r.rname, true);
                for (int i = 0; i < 5; ++i) u32(r.soa[i]);
                break;
            default: out.insert(out.end(), r.raw.begin(), r.raw.end()); break;
        }
        size_t len = out.size() - lp - 2;
        out[lp] = (uint8_t)(len >> 8);
        out[lp + 1] = (uint8_t)len;
    }

    static void put_header(Bytes& o, const Hdr& h, size_t q, size_t an, size_t ns, size_t ar) {
        o.resize(12);
        o[0] = (uint8_t)(h.id >> 8); o[1] = (uint8_t)h.id;
        o[2] = (uint8_t)((h.qr << 7) | (h.opcode << 3) | (h.aa << 2) | (h.tc << 1) | h.rd);
        o[3] = (uint8_t)((h.ra << 7) | (h.z << 6) | (h.ad << 5) | (h.cd << 4) | h.rcode);
        size_t c[4] = {q, an, ns, ar};
        for (int i = 0; i < 4; ++i) { o[4 + 2 * i] = (uint8_t)(c[i] >> 8); o[5 + 2 * i] = (uint8_t)c[i]; }
    }

    void encode(const Model& m) {
        put_header(out, m.h, m.q.size(), m.sec[0].size(), m.sec[1].size(), m.sec[2].size());
        for (const Qry& q : m.q) { put_name(q.name, true); u16(q.type); u16(q.cls); }
        sec_end[0] = out.size();
        for (int k = 0; k < 3; ++k) {
            for (const Rec& r : m.sec[k]) put_rec(r);
            sec_end[k + 1] = out.size();
        }
    }
};

// ---------------------------------------------------------------- reference decoder
struct Decoder {
    const Bytes& w;
    size_t pos = 12;
    std::string err;
    explicit Decoder(const Bytes& b) : w(b) {}

    bool fail(const std::string& e) { if (err.empty()) err = e + " at offset " + std::to_string(pos); return false; }
    bool need(size_t n) { return pos + n <= w.size() ? true : fail("truncated"); }
    bool get16(uint16_t& v) { if (!need(2)) return false; v = (uint16_t)((w[pos] << 8) | w[pos + 1]); pos += 2; return true; }
    bool get32(uint32_t& v) { uint16_t a, b; if (!get16(a) || !get16(b)) return false; v = ((uint32_t)a << 16) | b; return true; }

    // expands the name at pos (following pointers), leaves pos behind its in-place encoding
    bool name(Labels& out) {
        out.clear();
        size_t p = pos, after = 0, jumps = 0, total = 1;
        bool jumped = false;
        for (;;) {
            if (p >= w.size()) return fail("name runs past the end");
            uint8_t c = w[p];
            if (c == 0) { if (!jumped) after = p + 1; break; }
            if ((c & 0xc0) == 0xc0) {
                if (p + 1 >= w.size()) return fail("pointer truncated");
                size_t t = ((c & 0x3f) << 8) | w[p + 1];
                if (!jumped) { after = p + 2; jumped = true; }
                if (t < 12 || t >= w.size()) return fail("pointer target " + std::to_string(t) + " outside the message body");
                if (++jumps > w.size()) return fail("pointer loop");
                p = t;
                continue;
            }
            if (c & 0xc0) return fail("label type 0x40/0x80");
            if (p + 1 + c > w.size()) return fail("label runs past the end");
            total += 1 + c;
            if (total > 255) return fail("name longer than 255 octets");
            out.push_back(std::string((const char*)&w[p + 1], c));
            p += 1 + c;
        }
        pos = after;
        return true;
    }

    bool rec(Rec& r) {
        uint16_t rdlen;
        if (!name(r.name) || !get16(r.type) || !get16(r.cls) || !get32(r.ttl) || !get16(rdlen) || !need(rdlen)) return false;
        size_t end = pos + rdlen;
        r.kind = kind_of_type(r.type);
        switch (r.kind) {
            case K_A: if (rdlen != 4) return fail("A rdlength"); memcpy(r.addr, &w[pos], 4); pos += 4; break;
            case K_AAAA: if (rdlen != 16) return fail("AAAA rdlength"); memcpy(r.addr, &w[pos], 16); pos += 16; break;
            case K_NAME: if (!name(r.target)) return false; break;
            case K_MX: if (!get16(r.pref) || !name(r.target)) return false; break;
            case K_SOA:
                if (!name(r.target) || !name(r.rname)) return false;
                for (int i = 0; i < 5; ++i) if (!get32(r.soa[i])) return false;
                break;
            default: r.raw.assign(w.begin() + pos, w.begin() + end); pos = end; break;
        }
        if (pos != end) return fail("rdata does not fill rdlength (" + std::to_string(rdlen) + ")");
        return true;
    }

    bool decode(Model& m) {
        if (w.size() < 12) { pos = 0; return fail("shorter than a header"); }
        m.h.id = (uint16_t)((w[0] << 8) | w[1]);
        m.h.qr = w[2] >> 7; m.h.opcode = (w[2] >> 3) & 15; m.h.aa = (w[2] >> 2) & 1; m.h.tc = (w[2] >> 1) & 1; m.h.rd = w[2] & 1;
        m.h.ra = w[3] >> 7; m.h.z = (w[3] >> 6) & 1; m.h.ad = (w[3] >> 5) & 1; m.h.cd = (w[3] >> 4) & 1; m.h.rcode = w[3] & 15;
        size_t c[4];
        for (int i = 0; i < 4; ++i) c[i] = (size_t)((w[4 + 2 * i] << 8) | w[5 + 2 * i]);
        for (size_t i = 0; i < c[0]; ++i) {
            Qry q;
            if (!name(q.name) || !get16(q.type) || !get16(q.cls)) return false;
            m.q.push_back(q);
        }
        for (int k = 0; k < 3; ++k)
            for (size_t i = 0; i < c[k + 1]; ++i) {
                Rec r;
                if (!rec(r)) return false;
                m.sec[k].push_back(r);
            }
        if (pos != w.size()) return fail("bytes after the last record");
        return true;
    }
};

// first difference between two models ("" when equal); what = short field tag for the signature
static std::string diff_rec(const Rec& a, const Rec& b, std::string& what) {
    if (a.name != b.name) { what = "name-mismatch"; return "name " + show(a.name) + " vs " + show(b.name); }
    if (a.type != b.type) { what = "type-mismatch"; return "type"; }
    if (a.cls != b.cls) { what = "class-mismatch"; return "class"; }
    if (a.ttl != b.ttl) { what = "ttl-mismatch"; return "ttl"; }
    bool same = true;
    switch (a.kind) {
        case K_A: same = memcmp(a.addr, b.addr, 4) == 0; break;
        case K_AAAA: same = memcmp(a.addr, b.addr, 16) == 0; break;
        case K_NAME: same = a.target == b.target; break;
        case K_MX: same = a.target == b.target && a.pref == b.pref; break;
        case K_SOA: same = a.target == b.target && a.rname == b.rname && memcmp(a.soa, b.soa, sizeof a.soa) == 0; break;
        default: same = a.raw == b.raw; break;
    }
    if (!same) { what = "data-mismatch"; return "data: " + show(a) + " vs " + show(b); }
    return "";
}
static std::string diff_model(const Model& a, const Model& b, std::string& what) {
    const Hdr &x = a.h, &y = b.h;
    if (x.id != y.id || x.qr != y.qr || x.opcode != y.opcode || x.aa != y.aa || x.tc != y.tc || x.rd != y.rd || x.ra != y.ra || x.z != y.z ||
        x.ad != y.ad || x.cd != y.cd || x.rcode != y.rcode) { what = "header"; return "header fields differ"; }
    if (a.q.size() != b.q.size()) { what = "queries:size-mismatch"; return "question count " + std::to_string(a.q.size()) + " vs " + std::to_string(b.q.size()); }
    for (size_t i = 0; i < a.q.size(); ++i) {
        if (a.q[i].name != b.q[i].name) { what = "queries:name-mismatch"; return "question " + std::to_string(i) + ": " + show(a.q[i]) + " vs " + show(b.q[i]); }
        if (a.q[i].type != b.q[i].type || a.q[i].cls != b.q[i].cls) { what = "queries:type-mismatch"; return "question " + std::to_string(i) + ": " + show(a.q[i]) + " vs " + show(b.q[i]); }
    }
    for (int k = 0; k < 3; ++k) {
        if (a.sec[k].size() != b.sec[k].size()) { what = std::string(SECNAME[k + 1]) + ":size-mismatch"; return std::string(SECNAME[k + 1]) + " count " + std::to_string(a.sec[k].size()) + " vs " + std::to_string(b.sec[k].size()); }
        for (size_t i = 0; i < a.sec[k].size(); ++i) {
            std::string w, d = diff_rec(a.sec[k][i], b.sec[k][i], w);
            if (!d.empty()) { what = std::string(SECNAME[k + 1]) + ":" + w; return std::string(SECNAME[k + 1]) + "[" + std::to_string(i) + "] " + d; }
        }
    }
    return "";
}

// ---------------------------------------------------------------- libtins side
static const char* exc_tag(const Tins::exception_base& e) {
    if (dynamic_cast<const Tins::dns_decompression_pointer_loops*>(&e)) return "dns_decompression_pointer_loops";
    if (dynamic_cast<const Tins::dns_decompression_pointer_out_of_bounds*>(&e)) return "dns_decompression_pointer_out_of_bounds";
    if (dynamic_cast<const Tins::malformed_packet*>(&e)) return "malformed_packet";
    if (dynamic_cast<const Tins::invalid_domain_name*>(&e)) return "invalid_domain_name";
    if (dynamic_cast<const Tins::invalid_address*>(&e)) return "invalid_address";
    if (dynamic_cast<const Tins::serialization_error*>(&e)) return "serialization_error";
    return "exception_base";
}

static DNS::soa_record make_soa(const Rec& r, bool via_setters) {
    if (!via_setters) return DNS::soa_record(dotted(r.target), dotted(r.rname), r.soa[0], r.soa[1], r.soa[2], r.soa[3], r.soa[4]);
    DNS::soa_record soa;   // default constructed, then every setter
    soa.minimum_ttl(r.soa[4]);
    soa.expire(r.soa[3]);
    soa.retry(r.soa[2]);
    soa.refresh(r.soa[1]);
    soa.serial(r.soa[0]);
    soa.rname(dotted(r.rname));
    soa.mname(dotted(r.target));
    return soa;
}

static DNS::resource to_resource(const Rec& r, unsigned style) {
    std::string nm = dotted(r.name);
    const bool via_setters = (style & 8) != 0;   // the value types can also be filled in field by field
    std::string data;
    switch (r.kind) {
        case K_A: data = v4_text(r.addr); break;
        case K_AAAA: data = style % 3 == 0 ? v6_full_text(r.addr, false) : style % 3 == 1 ? v6_short_text(r.addr) : v6_full_text(r.addr, true); break;
        case K_NAME: case K_MX: data = dotted(r.target); break;
        case K_SOA: break;
        default: data = std::string(r.raw.begin(), r.raw.end()); break;
    }
    if (via_setters) {
        DNS::resource res;
        res.ttl(r.ttl);
        res.query_class(r.cls);
        res.query_type(r.type);
        if (r.kind == K_MX) res.preference(r.pref);
        if (r.kind == K_SOA) res.data(make_soa(r, (style & 16) != 0)); else res.data(data);
        res.dname(nm);
        return res;
    }
    if (r.kind == K_MX) return DNS::resource(nm, data, r.type, r.cls, r.ttl, r.pref);
    DNS::resource res(nm, data, r.type, r.cls, r.ttl);
    if (r.kind == K_SOA) res.data(make_soa(r, (style & 16) != 0));
    return res;
}

// compares what the getters of d return with the model; stage = "parse" | "edit" | "reparse"
static void check_resource(Ctx& ctx, const std::string& pre, size_t i, const DNS::resource& g, const Rec& r) {
    std::string at = "[" + std::to_string(i) + "] expected " + show(r) + "; got ";
    VCHECK(ctx, g.dname() == dotted(r.name), pre + ":name-mismatch", at << "name '" << esc(g.dname()) << "'");
    VCHECK(ctx, g.query_type() == r.type, pre + ":type-mismatch", at << "type " << g.query_type());
    VCHECK(ctx, g.query_class() == r.cls, pre + ":class-mismatch", at << "class " << g.query_class());
    VCHECK(ctx, g.ttl() == r.ttl, pre + ":ttl-mismatch", at << "ttl " << g.ttl());
    switch (r.kind) {
        case K_A:
            VCHECK(ctx, g.data() == v4_text(r.addr), pre + ":data-mismatch:A", at << "data '" << esc(g.data()) << "'");
            break;
        case K_AAAA: {
            uint8_t b[16];
            bool ok = parse_v6(g.data(), b);
            VCHECK(ctx, ok && memcmp(b, r.addr, 16) == 0, pre + ":data-mismatch:AAAA", at << "data '" << esc(g.data()) << "'" << (ok ? "" : " (not an IPv6 text form)"));
            break;
        }
        case K_NAME:
            VCHECK(ctx, g.data() == dotted(r.target), pre + ":data-mismatch:name", at << "data '" << esc(g.data()) << "'");
            break;
        case K_MX:
            VCHECK(ctx, g.data() == dotted(r.target), pre + ":data-mismatch:MX-name", at << "data '" << esc(g.data()) << "'");
            VCHECK(ctx, g.preference() == r.pref, pre + ":preference-mismatch", at << "preference " << g.preference());
            break;
        case K_SOA: {
            try {
                DNS::soa_record soa(g);
                bool same = soa.mname() == dotted(r.target) && soa.rname() == dotted(r.rname) && soa.serial() == r.soa[0] && soa.refresh() == r.soa[1] &&
                            soa.retry() == r.soa[2] && soa.expire() == r.soa[3] && soa.minimum_ttl() == r.soa[4];
                VCHECK(ctx, same, pre + ":data-mismatch:SOA", at << "SOA mname='" << esc(soa.mname()) << "' rname='" << esc(soa.rname()) << "' " << soa.serial() << "," << soa.refresh()
                                                                 << "," << soa.retry() << "," << soa.expire() << "," << soa.minimum_ttl());
            } catch (const Tins::exception_base& e) {
                ctx.report(pre + ":soa_record:exception:" + exc_tag(e), at + "soa_record(resource) threw " + e.what() + ", data " + hex((const uint8_t*)g.data().data(), g.data().size(), 64));
            }
            break;
        }
        default:
            VCHECK(ctx, g.data() == std::string(r.raw.begin(), r.raw.end()), pre + ":data-mismatch:raw", at << "data " << hex((const uint8_t*)g.data().data(), g.data().size(), 64));
            break;
    }
}

static void check_state(Ctx& ctx, const DNS& d, const Model& m, const std::string& stage) {
    std::string p = "C10:" + stage;
    VCHECK(ctx, d.questions_count() == m.q.size(), p + ":count:questions", "questions_count() = " << d.questions_count() << ", model has " << m.q.size());
    VCHECK(ctx, d.answers_count() == m.sec[0].size(), p + ":count:answers", "answers_count() = " << d.answers_count() << ", model has " << m.sec[0].size());
    VCHECK(ctx, d.authority_count() == m.sec[1].size(), p + ":count:authority", "authority_count() = " << d.authority_count() << ", model has " << m.sec[1].size());
    VCHECK(ctx, d.additional_count() == m.sec[2].size(), p + ":count:additional", "additional_count() = " << d.additional_count() << ", model has " << m.sec[2].size());
    const Hdr& h = m.h;
    bool hok = d.id() == h.id && d.type() == (DNS::QRType)h.qr && d.opcode() == h.opcode && d.authoritative_answer() == h.aa && d.truncated() == h.tc &&
               d.recursion_desired() == h.rd && d.recursion_available() == h.ra && d.z() == h.z && d.authenticated_data() == h.ad &&
               d.checking_disabled() == h.cd && d.rcode() == h.rcode;
    VCHECK(ctx, hok, p + ":header", "header getters differ from the model: id " << d.id() << "/" << h.id << " qr " << (int)d.type() << "/" << (int)h.qr << " opcode " << (int)d.opcode() << "/"
                                      << (int)h.opcode << " aa " << (int)d.authoritative_answer() << "/" << (int)h.aa << " tc " << (int)d.truncated() << "/" << (int)h.tc << " rd "
                                      << (int)d.recursion_desired() << "/" << (int)h.rd << " ra " << (int)d.recursion_available() << "/" << (int)h.ra << " z " << (int)d.z() << "/"
                                      << (int)h.z << " ad " << (int)d.authenticated_data() << "/" << (int)h.ad << " cd " << (int)d.checking_disabled() << "/" << (int)h.cd
                                      << " rcode " << (int)d.rcode() << "/" << (int)h.rcode);
    {
        std::string pre = p + ":queries";
        try {
            DNS::queries_type q = d.queries();
            VCHECK(ctx, q.size() == m.q.size(), pre + ":size-mismatch", "queries() returned " << q.size() << " entries, model has " << m.q.size());
            for (size_t i = 0; i < q.size() && i < m.q.size(); ++i) {
                VCHECK(ctx, q[i].dname() == dotted(m.q[i].name), pre + ":name-mismatch", "[" << i << "] expected " << show(m.q[i]) << "; got name '" << esc(q[i].dname()) << "'");
                VCHECK(ctx, (uint16_t)q[i].query_type() == m.q[i].type && (uint16_t)q[i].query_class() == m.q[i].cls, pre + ":type-mismatch",
                       "[" << i << "] expected " << show(m.q[i]) << "; got qtype " << (int)q[i].query_type() << " qclass " << (int)q[i].query_class());
            }
        } catch (const Tins::exception_base& e) {
            ctx.report(pre + ":exception:" + exc_tag(e), std::string("queries() threw ") + e.what() + " on a message that holds " + std::to_string(m.q.size()) + " legal questions, first: " +
                                                            (m.q.empty() ? std::string("-") : show(m.q[0])));
        }
    }
    for (int k = 0; k < 3; ++k) {
        std::string pre = p + ":" + SECNAME[k + 1];
        try {
            DNS::resources_type rs = k == 0 ? d.answers() : k == 1 ? d.authority() : d.additional();
            VCHECK(ctx, rs.size() == m.sec[k].size(), pre + ":size-mismatch", SECNAME[k + 1] << "() returned " << rs.size() << " records, model has " << m.sec[k].size());
            for (size_t i = 0; i < rs.size() && i < m.sec[k].size(); ++i) check_resource(ctx, pre, i, rs[i], m.sec[k][i]);
        } catch (const Tins::exception_base& e) {
            ctx.report(pre + ":exception:" + exc_tag(e), std::string(SECNAME[k + 1]) + "() threw " + e.what() + " on a message that holds " + std::to_string(m.sec[k].size()) +
                                                            " legal records, first: " + (m.sec[k].empty() ? std::string("-") : show(m.sec[k][0])));
        }
    }
}

// serialize, decode with the reference decoder, re-parse with libtins
static void check_roundtrip(Ctx& ctx, DNS& d, const Model& m) {
    Bytes w;
    try {
        w = d.serialize();
    } catch (const Tins::exception_base& e) {
        ctx.report(std::string("C10:serialize:exception:") + exc_tag(e), std::string("serialize() threw ") + e.what());
        return;
    }
    Model back;
    Decoder dec(w);
    if (!dec.decode(back)) {
        ctx.report("C10:serialized:undecodable", "reference decoder rejects serialize() output: " + dec.err + "; " + std::to_string(w.size()) + " bytes: " + hex(w, 400));
    } else {
        std::string what, dd = diff_model(m, back, what);
        VCHECK(ctx, dd.empty(), "C10:serialized:" + what, "serialize() output decodes (reference decoder) to something else than the model: " << dd << "; bytes " << hex(w, 400));
    }
    try {
        DNS again(w.data(), (uint32_t)w.size());
        check_state(ctx, again, m, "reparse");
    } catch (const Tins::exception_base& e) {
        ctx.report(std::string("C10:reparse:exception:") + exc_tag(e), std::string("DNS(serialize()) threw ") + e.what() + "; bytes " + hex(w, 400));
    }
}

// documented examples of the two static helpers generalised: encode = length-prefixed labels + terminating zero,
// no compression; decode is its inverse
static void check_codec(Ctx& ctx, const Labels& n) {
    if (n.empty()) return;  // the header documents non-empty dotted names only
    std::string text = dotted(n);
    Bytes ref = plain_encoding(n);
    std::string enc = DNS::encode_domain_name(text);
    VCHECK(ctx, Bytes(enc.begin(), enc.end()) == ref, "C10:encode_domain_name", "encode_domain_name('" << esc(text) << "') = " << hex((const uint8_t*)enc.data(), enc.size()) << ", expected " << hex(ref));
    try {
        std::string back = DNS::decode_domain_name(std::string(ref.begin(), ref.end()));
        VCHECK(ctx, back == text, "C10:decode_domain_name", "decode_domain_name(" << hex(ref) << ") = '" << esc(back) << "', expected '" << esc(text) << "'");
    } catch (const Tins::exception_base& e) {
        ctx.report(std::string("C10:decode_domain_name:exception:") + exc_tag(e), "decode_domain_name threw " + std::string(e.what()) + " for the legal name " + show(n));
    }
}

// ---------------------------------------------------------------- valid histories
static void note_names(Ctx& ctx, const Rec& r, bool& many) {
    const Labels* ns[3] = {&r.name, &r.target, &r.rname};
    for (const Labels* n : ns) {
        if (n->size() >= 31) many = true;
        if (n->size() >= 32) ctx.label("name>=32-labels");
        if (wire_len(*n) >= 253) ctx.label("name>=253-octets");
        if (n == &r.name && n->empty()) ctx.label("root-owner");
    }
}
static uint64_t hash_labels(const Labels& n) {
    uint64_t h = 77;
    for (const std::string& l : n) h = hash_mix(h, hash_str(l));
    return h;
}
static uint64_t hash_rec(const Rec& r) {
    uint64_t h = hash_labels(r.name);
    h = hash_mix(h, ((uint64_t)r.type << 48) | ((uint64_t)r.cls << 32) | r.ttl);
    h = hash_mix(h, hash_bytes(r.addr, 16));
    h = hash_mix(h, hash_labels(r.target));
    h = hash_mix(h, hash_labels(r.rname));
    h = hash_mix(h, r.pref);
    h = hash_mix(h, hash_bytes(r.soa, sizeof r.soa));
    h = hash_mix(h, hash_bytes(r.raw.data(), r.raw.size()));
    return h;
}

static void history(Src& s, Ctx& ctx, bool big = false) {
    Model m;
    GenState g;
    if (big) g.budget = 60000;  // DNS over TCP: messages up to 65535 octets, i.e. record data beyond the 14-bit pointer range
    bool beyond = false;         // some compression pointer's target has been shifted past offset 0x3fff
    std::unique_ptr<DNS> d;
    std::vector<PtrInfo> ptrs;
    size_t sec_end[4] = {12, 12, 12, 12};
    bool nontrivial = false, many = false;
    std::ostringstream sample;
    unsigned kb = s.u8();
    bool wire = !(kb == 0 || (kb & 3) == 1);
    unsigned nedits = (kb >> 2) % 13;  // 0..12, drawn before the records so that a short input still gets (default) edits
    if (kb >= 0xd0) nedits = (kb >> 2) & 3;
    if (big) { wire = true; nedits = 5 + (kb >> 2) % 8; }  // enough bulk insertions in front of compressed names
    if (wire) {
        Sub hs(s);
        Src& x = hs.s;
        unsigned cb = x.u8();
        int mode = (cb & 3) == 0 ? 1 : (cb & 3) == 1 ? 0 : (cb & 3) == 2 ? 2 : 1;
        // section sizes: 0..3 each, occasionally up to 6
        unsigned cnt[4];
        unsigned c2 = x.u8();
        for (int k = 0; k < 4; ++k) cnt[k] = (c2 >> (2 * k)) & 3;
        if ((cb & 0x0c) == 0x0c) cnt[(cb >> 4) & 3] += 3;
        if (c2 == 0) cnt[0] = 1;  // the smallest wire message still has a question
        m.h.id = x.u16();
        unsigned fl = x.u16();
        m.h.qr = fl & 1; m.h.opcode = (fl >> 1) & 15; m.h.aa = (fl >> 5) & 1; m.h.tc = (fl >> 6) & 1; m.h.rd = (fl >> 7) & 1;
        m.h.ra = (fl >> 8) & 1; m.h.z = (fl >> 9) & 1; m.h.ad = (fl >> 10) & 1; m.h.cd = (fl >> 11) & 1; m.h.rcode = (fl >> 12) & 15;
        for (unsigned i = 0; i < cnt[0]; ++i) { Sub e(s); m.q.push_back(gen_qry(e.s, g, true)); }
        for (int k = 0; k < 3; ++k)
            for (unsigned i = 0; i < cnt[k + 1]; ++i) { Sub e(s); m.sec[k].push_back(gen_rec(e.s, g)); }
        Sub cs(s);  // compression choices
        Encoder enc;
        enc.mode = mode;
        enc.s = &cs.s;
        enc.encode(m);
        ptrs = enc.ptrs;
        memcpy(sec_end, enc.sec_end, sizeof sec_end);
        ctx.label(mode == 0 ? "wire-uncompressed" : mode == 1 ? "wire-suffix-compression" : "wire-pointer-chains");
        if (!enc.ptrs.empty()) { ctx.label("compressed-name"); nontrivial = true; }
        if (enc.ptr_to_ptr) ctx.label("pointer-to-pointer");
        if (enc.max_hops >= 3) ctx.label("pointer-hops>=3");
        if (enc.max_hops >= 8) ctx.label("pointer-hops>=8");
        if (enc.max_iter >= 32) ctx.label("labels+hops>=32");
        for (const Qry& q : m.q) { check_codec(ctx, q.name); if (q.name.size() >= 31) many = true; if (q.name.size() >= 32) ctx.label("name>=32-labels"); }
        for (int k = 0; k < 3; ++k) for (const Rec& r : m.sec[k]) { note_names(ctx, r, many); check_codec(ctx, r.name); }
        ctx.hash(hash_bytes(enc.out.data(), enc.out.size()));
        sample << "wire(" << (mode == 0 ? "plain" : mode == 1 ? "suffix" : "chains") << " q=" << m.q.size() << " an=" << m.sec[0].size() << " ns=" << m.sec[1].size()
               << " ar=" << m.sec[2].size() << " " << enc.out.size() << "B ptrs=" << enc.ptrs.size() << " hops=" << enc.max_hops << ")";
        if (ctx.logging()) ctx.log("initial wire message (" + std::to_string(enc.out.size()) + " bytes, compression mode " + std::to_string(mode) + "):\n" + show(m) + "  bytes " + hex(enc.out, 2000));
        try {
            d.reset(new DNS(enc.out.data(), (uint32_t)enc.out.size()));
        } catch (const Tins::exception_base& e) {
            ctx.report(std::string("C10:parse:exception:") + exc_tag(e), std::string("DNS(buffer) threw ") + e.what() + " on a reference-encoded message: " + hex(enc.out, 400));
            return;
        }
        check_state(ctx, *d, m, "parse");
    } else {
        d.reset(new DNS());
        ctx.label("fresh");
        sample << "fresh";
        check_state(ctx, *d, m, "fresh");
    }
    check_roundtrip(ctx, *d, m);

    ctx.hash(nedits);
    for (unsigned e = 0; e < nedits; ++e) {
        Sub es(s);
        Src& x = es.s;
        size_t op = x.weighted({3, 4, 4, 3, 2});
        if (op == 4) {  // header setters: must not disturb anything else
            unsigned which = x.u8() % 11, v = x.u8();
            switch (which) {
                case 0: m.h.id = (uint16_t)((v << 8) | x.u8()); d->id(m.h.id); break;
                case 1: m.h.qr = v & 1; d->type(m.h.qr ? DNS::RESPONSE : DNS::QUERY); break;
                case 2: m.h.opcode = v & 15; d->opcode(m.h.opcode); break;
                case 3: m.h.aa = v & 1; d->authoritative_answer(m.h.aa); break;
                case 4: m.h.tc = v & 1; d->truncated(m.h.tc); break;
                case 5: m.h.rd = v & 1; d->recursion_desired(m.h.rd); break;
                case 6: m.h.ra = v & 1; d->recursion_available(m.h.ra); break;
                case 7: m.h.z = v & 1; d->z(m.h.z); break;
                case 8: m.h.ad = v & 1; d->authenticated_data(m.h.ad); break;
                case 9: m.h.cd = v & 1; d->checking_disabled(m.h.cd); break;
                default: m.h.rcode = v & 15; d->rcode(m.h.rcode); break;
            }
            ctx.label("edit-header");
            ctx.hash(1000 + which * 256 + v);
            sample << " hdr" << which;
            if (ctx.logging()) ctx.log("edit " + std::to_string(e) + ": header setter #" + std::to_string(which) + " value " + std::to_string(v));
        } else {
            size_t sz;
            std::string opname;
            try {
                if (op == 0) {
                    Qry q = gen_qry(x, g, false);
                    check_codec(ctx, q.name);
                    if (q.name.size() >= 31) many = true;
                    if (q.name.size() >= 32) ctx.label("name>=32-labels");
                    sz = wire_len(q.name) + 4;
                    opname = "add_query";
                    if (ctx.logging()) ctx.log("edit " + std::to_string(e) + ": add_query " + show(q));
                    ctx.hash(hash_mix(hash_labels(q.name), ((uint64_t)q.type << 16) | q.cls));
                    m.q.push_back(q);
                    if (q.name.size() & 1) {
                        DNS::query dq;   // default constructed, then the setters
                        dq.query_class((DNS::QueryClass)q.cls);
                        dq.query_type((DNS::QueryType)q.type);
                        dq.dname(dotted(q.name));
                        d->add_query(dq);
                    } else {
                        d->add_query(DNS::query(dotted(q.name), (DNS::QueryType)q.type, (DNS::QueryClass)q.cls));
                    }
                } else {
                    Rec r = gen_rec(x, g);
                    unsigned style = x.u8();
                    if (big && x.chance(55)) {  // bulk opaque data (type NULL): pushes what follows towards and past offset 0x3fff
                        r.type = 10;
                        r.kind = K_RAW;
                        r.target.clear();
                        r.rname.clear();
                        size_t want = x.chance(25) ? (size_t)x.range(0, 300) : (size_t)x.range(2000, 17000);
                        r.raw.resize(want);
                        for (size_t i = 0; i < want; ++i) r.raw[i] = (uint8_t)(i * 7 + want);
                        g.budget -= std::min(g.budget, want);
                        ctx.label("bulk-record");
                    }
                    check_codec(ctx, r.name);
                    note_names(ctx, r, many);
                    sz = rec_plain_size(r);
                    opname = op == 1 ? "add_answer" : op == 2 ? "add_authority" : "add_additional";
                    if (ctx.logging()) ctx.log("edit " + std::to_string(e) + ": " + opname + " " + show(r));
                    ctx.hash(hash_mix(op, hash_rec(r)));
                    m.sec[op - 1].push_back(r);
                    DNS::resource res = to_resource(r, style);
                    if (op == 1) d->add_answer(res);
                    else if (op == 2) d->add_authority(res);
                    else d->add_additional(res);
                }
            } catch (const Tins::exception_base& ex) {
                ctx.report("C10:edit:" + opname + ":exception:" + exc_tag(ex), opname + " threw " + ex.what() + " for a legal record");
                return;  // the object and the model have diverged
            }
            // bookkeeping for the labels: where did the record go, which pointers had to move
            size_t ins = sec_end[op];
            bool shifts = ins < sec_end[3];
            for (PtrInfo& p : ptrs) {
                if (p.pos < ins) continue;
                if (p.target >= ins) {
                    p.target += sz;
                    ctx.label("pointer-target-shifted");
                    if (p.target > 0x3fff && !beyond) { beyond = true; ctx.label("pointer-target-shifted-beyond-14-bits"); }
                }
                else {
                    ctx.label("pointer-target-kept");
                    if (p.target + 12 > ins) ctx.label("pointer-target-within-12-before-insertion");
                }
                p.pos += sz;
            }
            for (size_t k = op; k < 4; ++k) sec_end[k] += sz;
            if (shifts) { nontrivial = true; ctx.label("insert-before-nonempty-section"); ctx.label(opname + "-shifts"); }
            else ctx.label("insert-at-end");
            sample << " +" << opname.substr(4) << (shifts ? "^" : "");
        }
        if (!beyond) {
            check_state(ctx, *d, m, "edit");
            check_roundtrip(ctx, *d, m);
        } else {
            // The property still demands that the pointer designates the same name; a 14-bit pointer cannot say so, so the
            // library would have to expand the name. Whatever goes wrong from here on is attributed to that one cause.
            try {
                check_state(ctx, *d, m, "edit");
                check_roundtrip(ctx, *d, m);
            } catch (const PropFail& f) {
                ctx.report("C10:edit:pointer-target-shifted-beyond-14-bits", "after an insertion moved a compression pointer's target past offset 0x3fff: [" + f.sig + "] " + f.msg);
                ctx.label("valid-history");
                ctx.nontrivial(true);
                ctx.sample(sample.str() + " (pointer target beyond 0x3fff)");
                return;
            }
        }
    }
    if (many) { nontrivial = true; ctx.label("name>=31-labels"); }
    if (g.clamped) ctx.excluded("long names replaced by short ones once the message passed 10 kB (14-bit pointer range)");
    ctx.label("valid-history");
    if (nedits >= 4) ctx.label("edits>=4");
    ctx.nontrivial(nontrivial);
    ctx.sample(sample.str());
}

// ---------------------------------------------------------------- hostile messages
// every getter and serialize(); true when one of them failed with a libtins exception
static bool hostile_read_all(Ctx& ctx, DNS& d) {
    bool getter_threw = false;
    (void)d.questions_count(); (void)d.answers_count(); (void)d.authority_count(); (void)d.additional_count();
    try {
        DNS::queries_type q = d.queries();
        unsigned acc = 0;
        for (const DNS::query& e : q) acc += (unsigned)e.dname().size() + (unsigned)e.query_type() + (unsigned)e.query_class();
        if (acc == 0xffffffffu) ctx.label("never");
    } catch (const Tins::exception_base&) { getter_threw = true; }
    for (int k = 0; k < 3; ++k) {
        try {
            DNS::resources_type rs = k == 0 ? d.answers() : k == 1 ? d.authority() : d.additional();
            for (const DNS::resource& r : rs) {
                if (r.query_type() == T_SOA) {
                    try { DNS::soa_record soa(r); (void)soa.serial(); } catch (const Tins::exception_base&) { getter_threw = true; }
                }
            }
        } catch (const Tins::exception_base&) { getter_threw = true; }
    }
    try {
        Bytes out = d.serialize();
        (void)out;
    } catch (const Tins::exception_base&) { getter_threw = true; }
    return getter_threw;
}

static void hostile_check(Ctx& ctx, const Bytes& w) {
    bool rejected = false, getter_threw = false;
    try {
        DNS d(w.data(), (uint32_t)w.size());
        getter_threw = hostile_read_all(ctx, d);
        // A message the constructor accepted is then edited (what a proxy or a responder does with a received message):
        // nothing is known about its records, so the only demands are the last clause of the property - malformed names and
        // pointers are reported as libtins errors, memory outside the message is never touched - and that the object stays
        // usable afterwards. The edit programme is a function of the message bytes.
        unsigned e = w.empty() ? 0 : w[w.size() / 2] ^ (unsigned)w.size();
        unsigned edits_ok = 0, edits_threw = 0;
        for (unsigned i = 0; i < 3; ++i) {
            try {
                switch ((e + i) % 5) {
                    case 0: d.add_query(DNS::query("q.example", DNS::A, DNS::IN)); break;
                    case 1: d.add_answer(DNS::resource("a.example", "1.2.3.4", DNS::A, DNS::IN, 60)); break;
                    case 2: d.add_authority(DNS::resource("example", "ns.example", DNS::NS, DNS::IN, 60)); break;
                    case 3: d.add_additional(DNS::resource("ns.example", "::1", DNS::AAAA, DNS::IN, 60)); break;
                    default: d.add_answer(DNS::resource("m.example", "mail.example", DNS::MX, DNS::IN, 60, 10)); break;
                }
                ++edits_ok;
            } catch (const Tins::exception_base&) { ++edits_threw; }
            hostile_read_all(ctx, d);
        }
        if (edits_threw) ctx.label("hostile-edit-rejected");
        if (edits_ok) ctx.label("hostile-edit-accepted");
    } catch (const Tins::exception_base&) {
        rejected = true;
    }
    ctx.label(rejected ? "hostile-rejected-by-constructor" : getter_threw ? "hostile-rejected-by-getter" : "hostile-decoded");
}

static void hostile_structured(Src& s, Ctx& ctx) {
    Model m;
    GenState g;
    // the corruption programme comes first so that a short input still gets varied corruptions
    unsigned cb = s.u8(), c2 = s.u8();
    unsigned ncorr = 1 + (cb >> 6) % 3;
    struct Corr { unsigned kind, a, b, c; } corr[3];
    for (unsigned c = 0; c < ncorr; ++c) { corr[c].kind = s.u8(); corr[c].a = s.u8(); corr[c].b = s.u8(); corr[c].c = s.u8(); }
    int mode = cb % 3;
    unsigned cnt[4];
    for (int k = 0; k < 4; ++k) cnt[k] = (c2 >> (2 * k)) & 3;
    if (cnt[0] + cnt[1] + cnt[2] + cnt[3] < 2) cnt[0] = cnt[1] = 1;
    for (unsigned i = 0; i < cnt[0]; ++i) { Sub e(s); m.q.push_back(gen_qry(e.s, g, true)); }
    for (int k = 0; k < 3; ++k)
        for (unsigned i = 0; i < cnt[k + 1]; ++i) { Sub e(s); m.sec[k].push_back(gen_rec(e.s, g)); }
    Sub cs(s);
    Encoder enc;
    enc.mode = mode;
    enc.s = &cs.s;
    enc.encode(m);
    Bytes w = enc.out;
    std::ostringstream sample;
    sample << "hostile(" << w.size() << "B";
    auto put_ptr = [&](size_t at, size_t target) {
        if (at + 1 < w.size()) { w[at] = (uint8_t)(0xc0 | ((target >> 8) & 0x3f)); w[at + 1] = (uint8_t)target; }
    };
    auto some = [&](const std::vector<size_t>& v, unsigned sel, size_t dflt) { return v.empty() ? dflt : v[sel % v.size()]; };
    for (unsigned c = 0; c < ncorr; ++c) {
        const Corr& k = corr[c];
        unsigned kind = k.kind % 13;
        size_t at = some(enc.name_starts, k.a, 12);
        if (kind <= 5 && !enc.ptrs.empty() && (k.c & 1)) at = enc.ptrs[k.a % enc.ptrs.size()].pos;  // retarget a real pointer
        switch (kind) {
            case 0: put_ptr(at, at); ctx.label("hostile:pointer-to-self"); sample << " self@" << at; break;
            case 1: put_ptr(at, at + 1 + k.b % 41); ctx.label("hostile:pointer-forward"); sample << " fwd@" << at; break;
            case 2: { static const size_t OV[4] = {0, 1, 2, 100}; size_t t = (k.b & 4) ? 0x3fff : w.size() + OV[k.b & 3]; put_ptr(at, t); ctx.label("hostile:pointer-past-end"); sample << " end@" << at; break; }
            case 3: put_ptr(at, k.b % 12); ctx.label("hostile:pointer-into-header"); sample << " hdr@" << at; break;
            case 4: { size_t b = some(enc.name_starts, k.b, 12); put_ptr(at, b); if (b != at) put_ptr(b, at); ctx.label("hostile:pointer-loop"); sample << " loop@" << at << "<->" << b; break; }
            case 5: { size_t t = 12 + (size_t)((k.b << 8) | k.c) % (w.size() > 12 ? w.size() - 12 : 1); put_ptr(at, t); ctx.label("hostile:pointer-anywhere"); sample << " ptr@" << at << "->" << t; break; }
            case 6: { size_t lp = some(enc.len_pos, k.a, 12); if (lp < w.size()) w[lp] = (uint8_t)((k.b & 1) ? 63 : w[lp] + 1 + (k.b >> 1) % 31) & 63; ctx.label("hostile:label-length"); sample << " len@" << lp; break; }
            case 7: { size_t lp = some(enc.len_pos, k.a, 12); if (lp < w.size()) w[lp] = (uint8_t)(((k.b & 1) ? 0x40 : 0x80) | (w[lp] & 63)); ctx.label("hostile:label-type-40-80"); sample << " lt@" << lp; break; }
            case 8: {
                size_t f = 4 + 2 * (k.a & 3);
                if (f + 1 < w.size()) {
                    unsigned v = (k.b & 1) ? 0xffff : ((w[f] << 8) | w[f + 1]) + 1 + ((k.b >> 1) & 3);
                    w[f] = (uint8_t)(v >> 8);
                    w[f + 1] = (uint8_t)v;
                }
                ctx.label("hostile:count-too-large");
                sample << " cnt";
                break;
            }
            case 9: {
                size_t rp = some(enc.rdlen_pos, k.a, 12);
                static const unsigned RV[8] = {0, 1, 2, 3, 0xffff, 17, 4, 16};
                if (rp + 1 < w.size()) {
                    unsigned v = (k.b & 1) ? RV[(k.b >> 1) & 7] : ((w[rp] << 8) | w[rp + 1]) + ((k.b >> 1) % 5) - 2;
                    w[rp] = (uint8_t)(v >> 8);
                    w[rp + 1] = (uint8_t)v;
                }
                ctx.label("hostile:rdlength");
                sample << " rdlen@" << rp;
                break;
            }
            case 10: { size_t n = (size_t)((k.a << 8) | k.b) % (w.size() + 1); w.resize(n); ctx.label("hostile:truncated"); sample << " cut" << n; break; }
            case 11: {  // cut right behind a label or inside one: the name ends exactly at the end of the message
                size_t lp = some(enc.len_pos, k.a, 12);
                if (lp < w.size()) { size_t n = std::min(w.size(), lp + 1 + ((k.b & 1) ? (size_t)w[lp] : (size_t)(k.b >> 1) % (w[lp] + 1u))); w.resize(n); }
                ctx.label("hostile:cut-at-label");
                sample << " cutlabel";
                break;
            }
            default: { size_t p = (size_t)((k.a << 8) | k.b) % (w.size() + 1); if (p < w.size()) w[p] = (uint8_t)k.c; ctx.label("hostile:random-byte"); sample << " byte@" << p; break; }
        }
    }
    sample << ")";
    ctx.hash(hash_bytes(w.data(), w.size()));
    ctx.hash(2);
    if (ctx.logging()) ctx.log("hostile message derived from a reference message:\n" + show(m) + "  bytes " + hex(w, 2000));
    hostile_check(ctx, w);
    ctx.label("hostile-structured");
    ctx.nontrivial();
    ctx.sample(sample.str());
}

static void hostile_raw(Src& s, Ctx& ctx) {
    Bytes w = s.rest();
    ctx.hash(hash_bytes(w.data(), w.size()));
    ctx.hash(3);
    if (ctx.logging()) ctx.log("raw message: " + hex(w, 2000));
    hostile_check(ctx, w);
    ctx.label("hostile-raw");
    ctx.nontrivial(w.size() > 12);
    ctx.sample("raw(" + std::to_string(w.size()) + "B)");
}

void prop(Src& s, Ctx& ctx) {
    unsigned sel = s.u8();
    if (sel < 176) history(s, ctx);
    else if (sel < 184) history(s, ctx, true);  // large messages (up to ~60 kB)
    else if (sel < 246) hostile_structured(s, ctx);
    else hostile_raw(s, ctx);
}

// ---------------------------------------------------------------- self tests of the reference encoder/decoder
void prop_setup(Ctx& ctx) {
    (void)ctx;
    // "www.example.com" A query + compressed answer, written by hand from RFC 1035 section 4.1.4
    static const uint8_t MSG[] = {0x12, 0x34, 0x81, 0x80, 0, 1, 0, 1, 0, 0, 0, 0, 3, 'w', 'w', 'w', 7, 'e', 'x', 'a', 'm', 'p', 'l', 'e', 3, 'c', 'o', 'm', 0, 0, 1, 0, 1,
                                  0xc0, 0x0c, 0, 1, 0, 1, 0, 0, 0x0e, 0x10, 0, 4, 93, 184, 216, 34};
    Bytes w(MSG, MSG + sizeof MSG);
    Model m;
    Decoder dec(w);
    bool ok = dec.decode(m) && m.h.id == 0x1234 && m.h.qr == 1 && m.h.rd == 1 && m.h.ra == 1 && m.q.size() == 1 && dotted(m.q[0].name) == "www.example.com" &&
              m.sec[0].size() == 1 && m.sec[0][0].name == m.q[0].name && m.sec[0][0].ttl == 3600 && v4_text(m.sec[0][0].addr) == "93.184.216.34";
    // the encoder in suffix mode must reproduce exactly these bytes
    Bytes zero(64, 0);
    Src z(zero.data(), zero.size());
    Encoder e;
    e.mode = 1;
    e.s = &z;
    e.encode(m);
    ok = ok && e.out == w && e.ptrs.size() == 1 && e.ptrs[0].pos == 33 && e.ptrs[0].target == 12;
    uint8_t a6[16];
    ok = ok && parse_v6("2001:db8::ff00:42:8329", a6) && a6[0] == 0x20 && a6[1] == 0x01 && a6[3] == 0xb8 && a6[4] == 0 && a6[11] == 0 && a6[15] == 0x29 && parse_v6("::", a6) &&
         parse_v6("::ffff:1.2.3.4", a6) && a6[10] == 0xff && a6[15] == 4 && !parse_v6("1::2::3", a6) && !parse_v6("1:2:3:4:5:6:7", a6) && v6_short_text(a6) != "";
    if (!ok) {
        fprintf(stderr, "C10: reference encoder/decoder self test failed (%s)\n", dec.err.c_str());
        abort();
    }
}
