// C03 — re-serialising a parsed packet preserves it.
// p = E(b), y = serialize(p), q = E(y): q must exist, view(q) == view(p) modulo the fields the statement lets
// libtins derive (lengths, checksums, padding, next-protocol tags when a recognised payload follows; a tag need only
// survive when a payload follows it; an empty payload counts as no payload), and if the innermost payload is
// non-empty serialize(q) == y byte for byte.
#include "../engine/src.h"
#include "../genlib/parsed.h"
#include "../genlib/parse_input.h"

using namespace verif;
using namespace Tins;

const char* const PROP_ID = "C03";
const size_t PROP_MAXLEN_QUICK = 1536;
const size_t PROP_MAXLEN_THOROUGH = 65535 + 8;

namespace {

// drop a trailing empty RawPDU: "an empty payload counts as no payload"
void normalise(PacketView& pv) {
    while (!pv.empty() && pv.back().cls == "RawPDU") {
        const FieldView* f = pv.back().find("payload");
        if (f && f->value == "x''") pv.pop_back();
        else break;
    }
}

bool all_zero_payload(const std::string& v, size_t from) {  // v = x'hex...'
    return v.size() >= 3 && v.find_first_not_of("0", from) == v.size() - 1;
}

// Ethernet minimum-frame padding is alignment padding: Ethernet II has no length field, so when a frame was padded
// to exactly 60 bytes the zeros re-parse as (part of) an unrecognised payload. Fold that back.
bool absorb_ethernet_padding(const PacketView& vp, PacketView& vq) {
    bool eth60 = false;
    for (const LayerView& l : vq) {
        if (l.cls != "EthernetII" && l.cls != "Dot3") continue;
        const FieldView* sz = l.find("size");
        if (sz && sz->value == "60") eth60 = true;
    }
    if (!eth60 || vq.empty() || vq.back().cls != "RawPDU") return false;
    FieldView* qf = nullptr;
    for (FieldView& f : vq.back().fields) if (f.name == "payload") qf = &f;
    if (!qf) return false;
    if (vq.size() == vp.size() + 1) {
        if (all_zero_payload(qf->value, 2)) { vq.pop_back(); return true; }
        return false;
    }
    if (vq.size() == vp.size() && !vp.empty() && vp.back().cls == "RawPDU") {
        const FieldView* pf = vp.back().find("payload");
        if (pf && qf->value.size() > pf->value.size() && qf->value.compare(0, pf->value.size() - 1, pf->value, 0, pf->value.size() - 1) == 0 &&
            all_zero_payload(qf->value, pf->value.size() - 1)) {
            qf->value = pf->value;
            return true;
        }
    }
    return false;
}

// ICMP / ICMPv6 keep several messages' fields in one union: for the RFC 4884 message types the bytes of these getters
// are the derived length field (or unused), so they are aliases of a derived field, not independent fields
bool is_derived_alias(const LayerView& l, const std::string& name) {
    if (l.cls == "RSNEAPOL" && name == "key_length") {
        // a length field libtins derives itself for group-key messages carrying key data (install set, key type 0)
        const FieldView* kt = l.find("key_t");
        const FieldView* in = l.find("install");
        return kt && in && kt->value == "0" && in->value == "1";
    }
    const FieldView* t = l.find("type");
    if (!t) return false;
    if (l.cls == "ICMP" && (t->value == "3" || t->value == "11" || t->value == "12"))
        return name == "id" || name == "gateway";
    if (l.cls == "ICMPv6" && (t->value == "1" || t->value == "3"))
        return name == "identifier" || name == "hop_limit" || name == "maximum_response_code" || name == "override" || name == "solicited" ||
               name == "router" || name == "router_pref" || name == "home_agent" || name == "other" || name == "managed";
    return false;
}

bool innermost_payload_nonempty(const PDU& top) {
    const PDU* last = &top;
    while (last->inner_pdu()) last = last->inner_pdu();
    const RawPDU* r = dynamic_cast<const RawPDU*>(last);
    return r && !r->payload().empty();
}

}  // namespace

void prop(Src& s, Ctx& ctx) {
    const std::vector<Entry>& E = entries();
    unsigned placement = 0;
    std::vector<uint8_t> data;
    const Entry& e = E[gen_parse_input(s, ctx, 0, placement, data)];
    if (!e.serializable) { ctx.excluded("ppi-pktap-not-serializable"); return; }
    std::unique_ptr<PDU> p;
    try {
        p = parse_entry(e, data.data(), data.size(), placement);
    } catch (const std::exception&) {
        return;  // C01's contract
    }
    if (!p) { ctx.label("rejected"); return; }
    if (has_unserializable_layer(*p)) { ctx.excluded("ppi-pktap-not-serializable"); return; }
    if (IP* root = dynamic_cast<IP*>(p.get())) if (root->src_addr() == IPv4Address((uint32_t)0)) { ctx.excluded("outermost-ip-src-0.0.0.0"); return; }
    ctx.label("accepted");
    std::string chain = layer_chain(*p);
    std::string origin = std::string("entry=") + e.name + " input=" + hex(data, 2048);
    if (ctx.logging()) ctx.log(origin + " -> " + chain);

    PacketView vp = view_packet(*p);  // before serialising: serialisation writes derived fields back
    PDU::serialization_type y;
    try {
        y = p->serialize();
    } catch (const std::exception&) {
        return;  // C02's contract
    }
    // re-parse through the same entry point (flag-driven factories need their flag bytes back)
    size_t pre = entry_prefix_len(e);
    std::vector<uint8_t> y2(data.begin(), data.begin() + std::min(pre, data.size()));
    y2.insert(y2.end(), y.begin(), y.end());
    std::unique_ptr<PDU> q;
    // known root cause shared with C05's open finding: without an extension structure the RFC 4884 length attribute
    // counts padding that is not emitted, so a parser looks for extensions beyond the real end of the quoted datagram
    // (and rejects the packet, or falls back to "extensions start after 128 octets" and reads payload bytes as extensions)
    bool rfc4884 = false;
    for (const PDU* l = p.get(); l; l = l->inner_pdu()) {
        if (const ICMP* ic = dynamic_cast<const ICMP*>(l)) {
            if (!ic->has_extensions() && ic->length() != 0 && ic->inner_pdu() && (uint32_t)ic->length() * 4 > ic->inner_pdu()->size()) rfc4884 = true;
        } else if (const ICMPv6* i6 = dynamic_cast<const ICMPv6*>(l)) {
            if (!i6->has_extensions() && i6->length() != 0 && i6->inner_pdu() && (uint32_t)i6->length() * 8 > i6->inner_pdu()->size()) rfc4884 = true;
        }
    }
    bool rejected = false;
    // The EN10MB entry picks EthernetII or Dot3 from a heuristic on byte 12 (the tag / length field, which libtins may
    // legitimately rewrite): the re-parse uses the class that was chosen for b.
    const Entry* re = &e;
    if (std::string(e.name) == "dlt:EN10MB") {
        const char* want = vp[0].cls == "Dot3" ? "Dot3" : "EthernetII";
        for (const Entry& c : E) if (std::string(c.name) == want) re = &c;
    }
    try {
        q = parse_entry(*re, y2.data(), y2.size(), 0, &rejected);
    } catch (const std::exception& ex) {
        VFAIL(ctx, "C03:reparse-throws:" + demangled(typeid(ex)) + ":" + vp[0].cls, chain << ": parsing the serialisation threw " << ex.what() << " y=" << hex(y, 1024) << " | " << origin);
    }
    if (!q) {
        // blame the outermost layer class whose own serialisation no longer parses
        // does it parse without the Ethernet minimum-frame padding? then the padding is what gets mis-parsed
        uint32_t unpadded = 0;
        for (const PDU* l = p.get(); l; l = l->inner_pdu()) unpadded += l->header_size();
        bool only_padding = false;
        if (y.size() == 60 && unpadded < 60 && (vp[0].cls == "EthernetII" || vp[0].cls == "Dot3")) {
            bool rj = false;
            try {
                std::unique_ptr<PDU> q2 = parse_entry(*re, y2.data(), pre + unpadded, 0, &rj);
                only_padding = q2 != nullptr;
            } catch (const std::exception&) {}
        }
        if (rfc4884) {
            VCHECK(ctx, false, "C03:reparse-rejected:rfc4884-length-counts-padding-that-is-not-emitted", chain << ": libtins rejects its own serialisation y=" << hex(y, 1024) << " | " << origin);
            return;
        }
        // padding-induced rejections are named by the innermost layer (the one that mis-reads the padding), others by the chain
        std::string innermost = chain.substr(chain.rfind('/') == std::string::npos ? 0 : chain.rfind('/') + 1);
        VCHECK(ctx, false, only_padding ? "C03:reparse-rejected-only-with-ethernet-padding:" + innermost : "C03:reparse-rejected:" + chain,
               chain << ": libtins rejects its own serialisation y=" << hex(y, 1024) << " | " << origin);
        return;
    }
    PacketView vq = view_packet(*q);
    ctx.result(to_text(vp)); ctx.result(to_text(vq)); ctx.result(hash_bytes(y.data(), y.size()));
    normalise(vp);
    normalise(vq);
    if (absorb_ethernet_padding(vp, vq)) ctx.label("ethernet-padding-absorbed");
    if (rfc4884) {
        // same root cause, other symptom: the re-parse is accepted but finds "extensions" inside the quoted datagram
        std::string tp = to_text(vp), tq = to_text(vq);
        if (tp != tq) {
            VCHECK(ctx, false, "C03:reparse-differs:rfc4884-length-counts-padding-that-is-not-emitted",
                   chain << " re-parsed as " << layer_chain(*q) << " with different contents; y=" << hex(y, 1024) << " | " << origin);
            return;
        }
    }
    // same stack of layers
    size_t n = std::min(vp.size(), vq.size());
    for (size_t i = 0; i < n; ++i) {
        if (vp[i].cls != vq[i].cls) {
            VCHECK(ctx, false, "C03:layer-class-differs:" + vp[i].cls + "->" + vq[i].cls + ":under:" + (i ? vp[i - 1].cls : std::string("root")),
                   chain << " re-parsed as " << layer_chain(*q) << " y=" << hex(y, 1024) << " | " << origin);
            return;
        }
    }
    if (vp.size() != vq.size()) {
        const std::string& at = n ? vp[n - 1].cls : std::string("root");
        VCHECK(ctx, false, "C03:layer-count-differs:after:" + at, chain << " re-parsed as " << layer_chain(*q) << " y=" << hex(y, 1024) << " | " << origin);
        return;
    }
    // same field values, options and payload
    bool differs = false;
    for (size_t i = 0; i < vp.size(); ++i) {
        const LayerView& a = vp[i];
        const LayerView& b = vq[i];
        bool payload_follows = i + 1 < vp.size();
        bool unrecognised_follows = payload_follows && vp[i + 1].cls == "RawPDU";
        for (size_t k = 0; k < a.fields.size() && k < b.fields.size(); ++k) {
            const FieldView& fa = a.fields[k];
            const FieldView& fb = b.fields[k];
            if (fa.kind == 'D' || fa.kind == 'S' || fa.kind == 'X') continue;
            if (fa.kind == 'T' && !unrecognised_follows) continue;  // derived when recognised; need not survive without payload
            if (is_derived_alias(a, fa.name)) continue;
            if (fa.value != fb.value) {
                differs = true;
                VCHECK(ctx, false, "C03:field-differs:" + a.cls + "." + fa.name,
                       chain << ": " << a.cls << "::" << fa.name << " was " << fa.value << " now " << fb.value << " y=" << hex(y, 1024) << " | " << origin);
            }
        }
    }
    // byte identity of the second serialisation
    bool nonempty = innermost_payload_nonempty(*p);
    if (nonempty && !differs) {
        PDU::serialization_type z;
        try {
            z = q->serialize();
        } catch (const std::exception& ex) {
            VFAIL(ctx, "C03:second-serialize-throws:" + vp[0].cls, chain << ": " << ex.what() << " | " << origin);
        }
        if (z != y) {
            size_t i = 0;
            while (i < z.size() && i < y.size() && z[i] == y[i]) ++i;
            // name the layer that owns offset i
            std::string owner = "?";
            size_t off = 0;
            for (const PDU* l = q.get(); l; l = l->inner_pdu()) {
                if (i < off + l->header_size() || !l->inner_pdu()) { owner = short_cls(demangled(typeid(*l))); break; }
                off += l->header_size();
            }
            VCHECK(ctx, false, "C03:second-serialization-differs:" + owner, chain << ": serialize(q) differs from y at offset " << i << " (" << z.size() << " vs " << y.size()
                                                                                   << " bytes) y=" << hex(y, 1024) << " z=" << hex(z, 1024) << " | " << origin);
        }
    }
    unsigned nopt = 0;
    for (const LayerView& l : vp) for (const FieldView& f : l.fields) if (f.kind == 'O' && f.value != "[]" && f.value.compare(0, 7, "<Tins::") != 0) { ++nopt; ctx.hash(hash_str(f.value) & 0xfff); }
    bool changed = y.size() > data.size() - std::min(pre, data.size()) || !std::equal(y.begin(), y.end(), data.begin() + pre);
    ctx.hash(e.name); ctx.hash(chain); ctx.hash(nopt);
    ctx.nontrivial(vp.size() >= 2 && (changed || nopt));
    if (nopt) ctx.label("has-options");
    if (changed) ctx.label("serialization-differs-from-input");
    if (nonempty) ctx.label("payload-nonempty");
    ctx.sample(std::string(e.name) + " " + hex(data, 48) + " -> " + chain);
}
